#!/bin/bash
# Confirm a seeded change produced in scratch worktree /tmp/seed/<name>:
#  - with the change: library builds, test suite passes, demo FAILS
#  - without the change: demo PASSES
# then keep it as /verif/seeded/<name>/ (patch.diff, demo.*, meta.json + confirm.json)
# usage: confirm_seed.sh <name> [property-id]
set -u
N=$1; PROP=${2:-${N%%-*}}
WT=${SEEDROOT:-/tmp/seed}/$N; SO=$WT/seed_out; DEST=${DESTNAME:-$N}
[ -f $SO/patch.diff ] || { echo "no patch"; exit 2; }
cd $WT
git checkout -q -- . 2>/dev/null
git apply $SO/patch.diff || { echo "patch does not apply"; exit 2; }
[ -d _build ] || meson setup _build >/dev/null
meson compile -C _build >/dev/null 2>&1 || { echo "BUILD FAILED with change"; exit 1; }
TESTS="buffer cimba condition coroutine data event hashheap logger mempool objectqueue priorityqueue process resource resourcepool"
if grep -q "cmb_random\|codegen" $SO/patch.diff; then TESTS=""; fi
meson test -C _build --no-rebuild $TESTS > $SO/confirm_tests.log 2>&1; trc=$?
build_demo() {
  if [ -f $SO/demo.sh ]; then return 0; fi
  gcc -O2 -D_POSIX_C_SOURCE=200809L -I$WT/include -I$WT/src -I$WT/_build/codegen $SO/demo.c -o $SO/demo -L$WT/_build/src -lcimba -lm -lpthread 2> $SO/confirm_cc.log
}
run_demo() {
  if [ -f $SO/demo.sh ]; then (cd $SO && timeout 600 bash ./demo.sh) > $1 2>&1; else LD_LIBRARY_PATH=$WT/_build/src timeout 600 $SO/demo > $1 2>&1; fi
}
build_demo || { echo "demo does not compile"; exit 1; }
run_demo $SO/confirm_changed.log; drc_changed=$?
git apply -R $SO/patch.diff
meson compile -C _build >/dev/null 2>&1
build_demo
run_demo $SO/confirm_pristine.log; drc_pristine=$?
echo "tests_rc=$trc demo_changed_rc=$drc_changed demo_pristine_rc=$drc_pristine"
if [ $trc = 0 ] && [ $drc_changed != 0 ] && [ $drc_pristine = 0 ]; then
  D=/verif/seeded/$DEST; mkdir -p $D
  cp $SO/patch.diff $SO/meta.json $D/; cp $SO/demo.* $D/ 2>/dev/null; rm -f $D/demo
  python3 - <<PY
import json
m=json.load(open("$D/meta.json"))
m["property"]="$PROP"
m["confirmed"]={"by":"tools/confirm_seed.sh","tests_rc":$trc,"tests":"${TESTS:-full suite incl. random}","demo_rc_with_change":$drc_changed,"demo_rc_pristine":$drc_pristine,"base_commit":"$(git -C $WT rev-parse HEAD)"}
json.dump(m,open("$D/meta.json","w"),indent=1)
PY
  echo "CONFIRMED $N"
else
  echo "NOT CONFIRMED $N"; exit 1
fi
