#!/bin/bash
# long sweep of the kernel monitors over many seeds; relative paths (works in a vp run snapshot)
# usage: ksweep.sh <first seed> <last seed> <count per profile>
cd "$(dirname "$0")/.."
ROOT=$(pwd)
A=${1:-10}; B=${2:-40}; N=${3:-600}
python3 - <<PY
import sys; sys.path.insert(0,'tools')
import vlib
vlib.build_lib('SW','rel'); vlib.cc_harness('SW','rel','kernel_replay')
PY
mkdir -p out/sweep
for seed in $(seq $A $B); do
  for pf in ${KPROFILES:-wait res pool buf queue cond end rec mix contend order condmany condorder soup soupfix soupfix2}; do
   ( python3 tools/kgen.py $seed $N $pf > out/sweep/g_$pf.txt; ./build/SW/rel/kernel_replay run out/sweep/g_$pf.txt out/sweep/g_$pf.ndjson 2>out/sweep/g_$pf.err
     cd spec && TRACE=$ROOT/out/sweep/g_$pf.ndjson timeout 1800 java -Xmx4g -cp /opt/veriftools/tla/tla2tools.jar:/opt/veriftools/tla/CommunityModules-deps.jar tlc2.TLC -workers 1 -metadir /tmp/ksw_${seed}_$pf -config KMonTrace.cfg KMonTrace.tla > $ROOT/out/sweep/mon_$pf.txt 2>&1; rm -rf /tmp/ksw_${seed}_$pf ) &
  done; wait
  for pf in ${KPROFILES:-wait res pool buf queue cond end rec mix contend order condmany condorder soup soupfix soupfix2}; do
    r=$(grep -c REJECT out/sweep/mon_$pf.txt); c=$(grep -c Crash out/sweep/g_$pf.ndjson); k=$(grep -c CONSUMED out/sweep/mon_$pf.txt)
    if [ "$r" != 0 ] || [ "$c" != 0 ] || [ "$k" != 1 ]; then
      echo "seed=$seed profile=$pf rejects=$r crashes=$c consumed=$k"
      grep -o '"C[0-9]*:[a-z-]*",[ 0-9]*' out/sweep/mon_$pf.txt | sort | uniq -c | head -5
      grep -h Fatal out/sweep/g_$pf.err | sed 's/^[^a-z]*//; s/, seed.*//' | sort | uniq -c | head -3
      mkdir -p out/sweep/keep; cp out/sweep/g_$pf.txt out/sweep/keep/g_${seed}_$pf.txt
    fi
  done
  echo "seed $seed done"
done
