#!/usr/bin/env python3
"""benign_prompts.py <root> [ids...]: like seed_prompts.py, but asks for a change that PRESERVES the property while changing
what the property leaves open (tie-breaks, internal order, redundant work, numbering, growth policy, ...): the checks must
stay silent on it.  The prompt contains the property text and the worktree path only - nothing about /verif."""
import json, os, subprocess, sys
root = sys.argv[1]; ids = [a for a in sys.argv[2:] if not a.startswith("--style=")]
style = ([a[len("--style="):] for a in sys.argv[2:] if a.startswith("--style=")] or [""])[0]
props = {}
for l in open(os.path.join(os.path.dirname(__file__), "..", "properties.jsonl")):
    p = json.loads(l); props[p["id"]] = p
tmpl = '''You are helping to evaluate a verification framework for the C library "cimba" (a discrete-event simulation library: hashheap event queue, stackful coroutine processes, resources, RNG, statistics). A good framework must NOT raise an alarm on code for which a property still holds. Your job: craft ONE realistic source change to the library that PRESERVES the semantic property below (and every documented behaviour), but changes, as visibly as you can, things the property and the documentation leave OPEN. The change should be the kind a maintainer could legitimately make.

You have your own scratch git worktree of the library at {wt} (detached HEAD). Work ONLY inside {wt}. Never read, write or run anything under /repo or /verif (they are off-limits; your work must be independent of them).

PROPERTY {id}: {title}
Statement: {statement}
Quantified over: {qtext}
Code the property is anchored in: {files}

Ideas for what a property may leave open (pick what fits this property and this code; combine two or three if you can): the tie-break among entries that compare equal under the documented order; the order in which a batch of independent things is done internally (which waiter's predicate is evaluated first, which of several simultaneous wake-ups is scheduled first when their documented order keys are equal, in which order an ending process drops what it holds); numbering of internal handles; initial sizes and growth factors of internal containers; redundant but harmless work (an extra history sample that repeats the current value, an extra signal to a waiting list whose first waiter cannot be served, a re-check that is always true); an equivalent reformulation of arithmetic that gives bit-identical or mathematically equal results; caching that is invalidated correctly; different but documented-as-unspecified return values; memory layout; logging.

{style}

Requirements:
- It modifies library sources only (src/, include/, ...), not tests; 5-40 lines.
- The library must compile without new warnings and the existing test suite must pass.
- The property above must STILL HOLD for every valid program, and so must everything the headers document. Argue this carefully; if you are not sure, choose a more conservative change. Do not change documented behaviour, results that users can rely on, or the meaning of any public function.
- The change must alter internal behaviour in a way that a naive or over-specified checker could trip over (for instance one that compares internal orders, exact event handle numbers, exact sample sequences, or that assumes a particular tie-break).

Deliverables, all written into {wt}/seed_out/ :
1. patch.diff  - `git -C {wt} diff -- src include codegen > seed_out/patch.diff`.
2. demo.c - a small standalone C program using the library that checks the PROPERTY in a scenario touched by your change and exits 0 when it holds (it must exit 0 both on the pristine tree and with your change). Include at the top a comment with the exact compile/run command.
3. meta.json - {{"property":"{id}","summary":"<one sentence: what was changed>","why_preserved":"<why the property and the documented behaviour still hold>","what_differs":"<which observable-but-unspecified or internal behaviour now differs>","ran":["<commands you ran and their outcomes>"]}}

How to build and test (offline sandbox; gcc, meson, ninja, nasm are installed):
  cd {wt} && meson setup _build >/dev/null && meson compile -C _build && meson test -C _build
The suite has 15 tests; the test named `random` alone takes ~4 minutes, the other 14 together < 20 s. Run the full suite at least once on your final change unless your change cannot possibly affect cmb_random.c/codegen, in which case say so in meta.json and run the other 14.
To build the demo against the built library, for example:
  gcc -O2 -D_POSIX_C_SOURCE=200809L -I{wt}/include -I{wt}/src -I{wt}/_build/codegen demo.c -o demo -L{wt}/_build/src -lcimba -lm -lpthread && LD_LIBRARY_PATH={wt}/_build/src ./demo
(Look at {wt}/test/*.c and tutorial/ for usage examples; `cmb_logger_flags_off(CMB_LOGGER_INFO)` silences the info log. Note cimba.h does not include cmb_priorityqueue.h.)

Finally leave the worktree WITH your change applied. Be efficient (30-60 tool calls). In your final message, report in <= 10 lines: what you changed, why the property is preserved, what differs internally, and the verified outcomes.
'''
os.makedirs(os.path.join(root, "prompts"), exist_ok=True)
for id in ids:
    p = props[id]; wt = os.path.join(root, id)
    if not os.path.isdir(wt):
        subprocess.check_call(["git", "-C", "/repo", "worktree", "add", "-q", "--detach", wt, "HEAD"])
    s = tmpl.format(style=style, wt=wt, id=id, title=p["title"], statement=p["statement"], qtext=p["quantifier"]["text"], files=", ".join(p["anchors"]["files"]))
    open(os.path.join(root, "prompts", id + ".txt"), "w").write(s)
print("ok", ids)
