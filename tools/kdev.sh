#!/bin/bash
# dev loop: rebuild lib+harness, run all kernel profiles, fold monitors, summarize rules
# usage: kdev.sh [seed] [count]
SEED=${1:-1}; N=${2:-300}
cd /verif
python3 - <<PY
import sys; sys.path.insert(0,'tools')
import vlib
vlib.build_lib('K','rel'); vlib.cc_harness('K','rel','kernel_replay')
PY
for pf in wait res pool buf queue cond end rec mix contend order condmany condorder soup soupfix soupfix2; do
 ( python3 tools/kgen.py $SEED $N $pf > out/K/g_$pf.txt; ./build/K/rel/kernel_replay run out/K/g_$pf.txt out/K/g_$pf.ndjson 2>out/K/g_$pf.err
   cd spec && TRACE=/verif/out/K/g_$pf.ndjson timeout 1200 tlc -workers 1 -metadir /tmp/km_$pf -config KMonTrace.cfg KMonTrace.tla > /verif/out/K/mon_$pf.txt 2>&1; rm -rf /tmp/km_$pf ) &
done; wait
for pf in wait res pool buf queue cond end rec mix contend order condmany condorder soup soupfix soupfix2; do echo "== $pf: crashes=$(grep -c Crash out/K/g_$pf.ndjson) rejects=$(grep -c REJECT out/K/mon_$pf.txt) consumed=$(grep -c CONSUMED out/K/mon_$pf.txt) err=$(grep -c '^Error' out/K/mon_$pf.txt)"; done
cat out/K/mon_*.txt | grep -o '"C[0-9]*:[a-z-]*"' | sort | uniq -c | sort -rn
grep -h "Fatal" out/K/g_*.err | sed 's/^[^a-z]*//' | sed 's/, seed.*//' | cut -c1-160 | sort | uniq -c | sort -rn | head
