#!/usr/bin/env python3
"""kshow.py <trace.ndjson> <prog id> : print one program's trace without snapshots"""
import sys, json
tr, pid = sys.argv[1], int(sys.argv[2])
on = False
for line in open(tr):
    if line.startswith('{"e":"Prog"'):
        on = json.loads(line)["id"] == pid
        if on:
            h = json.loads(line)
            print("PROG", pid, "prio", h["prio"], "auto", h["auto"], "caps", h["nres"], h["poolcap"], h["bufcap"], h["oqcap"], h["pqcap"])
            for i, c in enumerate(h["code"]):
                print("  P%d:" % (i + 1), " ; ".join(" ".join(map(str, [x[0]] + [y for y in x[1:]])) for x in c))
            print("  uev:", h["uevs"])
        continue
    if on and (len(sys.argv) > 3 or '"e":"Snap"' not in line):
        print(line.rstrip()[:230])
