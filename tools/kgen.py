#!/usr/bin/env python3
"""Seeded generator of kernel programs (text format of harness/kernel_replay).
usage: kgen.py <seed> <count> <profile> > programs.txt
Profiles select the alphabet (which part of the kernel is stressed)."""
import random, sys

SIGS = [-5, 7]         # timer signals
ISIGS = [-2, 9]        # interrupt signals

PROFILES = {
 # name: (ops with weights, nproc range, extra)
 "wait":   dict(ops={"hold":5,"tadd":3,"taddo":1,"tcancel":1,"tclear":1,"wproc":3,"wevent":3,"evresched":1,"evcancel":1,"intr":3,"stop":1,"exit":1,"yield":1,"resume":1,"prio":1,"start":1,"acq":1,"rel":1}, np=(2,3), uev=1),
 "res":    dict(ops={"acq":6,"rel":5,"pre":2,"hold":5,"tadd":2,"intr":2,"stop":1,"exit":1,"prio":2,"wproc":1}, np=(2,4), uev=0),
 "pool":   dict(ops={"pacq":6,"prel":5,"ppre":3,"hold":5,"tadd":2,"intr":2,"stop":1,"prio":2,"exit":1}, np=(2,4), uev=0),
 "buf":    dict(ops={"bput":6,"bget":6,"hold":4,"tadd":2,"intr":2,"stop":1,"prio":1}, np=(2,4), uev=0),
 "queue":  dict(ops={"qput":5,"qget":5,"pqput":5,"pqget":5,"pqcancel":2,"pqreprio":2,"hold":4,"tadd":2,"intr":2,"stop":1,"prio":1}, np=(2,4), uev=0),
 "cond":   dict(ops={"cwait":6,"csig":4,"setflag":5,"hold":4,"tadd":2,"intr":1,"acq":2,"rel":2,"bput":1,"bget":1,"prio":1,"stop":1,"ccancel":1,"cremove":1,"csub":1,"cunsub":1}, np=(2,4), uev=1),
 "contend": dict(ops={}, np=(2,4), uev=0, contend=True),
 "end":    dict(ops={"hold":4,"acq":3,"pacq":3,"wproc":4,"stop":3,"exit":2,"start":2,"tadd":2,"intr":1,"rel":1,"bget":1,"qget":1}, np=(2,4), uev=1),
 "rec":    dict(ops={"acq":4,"rel":4,"pre":1,"pacq":3,"prel":3,"ppre":1,"bput":3,"bget":3,"qput":2,"qget":2,"pqput":2,"pqget":2,"pqcancel":1,"hold":5,"intr":1,"stop":1,"rec":0}, np=(2,3), uev=0, rec=True),
 "mix":    dict(ops={"hold":5,"tadd":2,"tcancel":1,"wproc":2,"wevent":1,"intr":2,"stop":1,"exit":1,"prio":2,"start":1,"acq":3,"rel":3,"pre":1,"pacq":3,"prel":3,"ppre":1,
                     "bput":2,"bget":2,"qput":2,"qget":2,"pqput":2,"pqget":2,"pqcancel":1,"cwait":1,"csig":1,"setflag":1}, np=(2,4), uev=1),
}

def gen_instr(rng, op, np, me, caps):
    q = rng.randint(1, np)
    d = rng.choice([0, 1, 1, 2, 3])
    if op == "hold": return "hold %d" % d
    if op == "tadd": return "tadd %d %d" % (rng.choice([0, 1, 2, 3]), rng.choice(SIGS))
    if op == "tcancel": return "tcancel %d" % rng.randint(1, 2)
    if op == "tclear": return "tclear"
    if op == "wproc": return "wproc %d" % q
    if op == "taddo": return "taddo %d %d %d" % (q, rng.choice([0, 1, 2, 3]), rng.choice(SIGS))
    if op == "wevent": return "wevent 1"
    if op == "evresched": return "evresched 1 %d" % rng.choice([0, 1, 2, 3])
    if op == "evcancel": return "evcancel 1"
    if op == "intr": return "intr %d %d %d" % (q, rng.choice(ISIGS), rng.choice([0, 0, 1, 5]))
    if op == "stop": return "stop %d %d" % (q, rng.randint(1, 9))
    if op == "exit": return "exit %d" % rng.randint(11, 19)
    if op == "yield": return "yield"
    if op == "resume": return "resume %d %d" % (q, rng.choice([3, 4]))
    if op == "prio": return "prio %d %d" % (q, rng.randint(0, 3))
    if op == "start": return "start %d" % q
    if op in ("acq", "rel", "pre"): return "%s %d" % (op, rng.randint(1, caps["res"]))
    if op in ("pacq", "ppre", "prel"): return "%s %d" % (op, rng.randint(1, caps["pool"]))
    if op == "bput": return "bput %d" % rng.randint(1, min(3, max(1, caps["buf"]) + 1))
    if op == "bget": return "bget %d" % rng.randint(0, min(3, max(1, caps["buf"]) + 1))
    if op == "qput": return "qput %d" % rng.randint(1, 9)
    if op == "qget": return "qget"
    if op == "pqput": return "pqput %d %d" % (rng.randint(1, 9), rng.randint(0, 2))
    if op == "pqget": return "pqget"
    if op == "pqcancel": return "pqcancel %d" % rng.randint(1, 3)
    if op == "pqreprio": return "pqreprio %d %d" % (rng.randint(1, 3), rng.randint(0, 2))
    if op == "cwait": return "cwait %d" % rng.randint(0, 3)
    if op == "csig": return "csig"
    if op == "setflag": return "setflag %d %d" % (rng.randint(0, 1), rng.randint(0, 1))
    if op in ("ccancel", "cremove"): return "%s %d" % (op, q)
    if op == "csub": return "csub %d" % rng.randint(0, 1)
    if op == "cunsub": return "cunsub %d" % rng.randint(0, 1)
    return "nop"

def contend_script(rng, np, me, caps, pkind):
    """acquire-like call (possibly with a timeout armed or an interrupt aimed at a neighbour), hold, release-like call, repeated"""
    kind = pkind if rng.random() < 0.85 else rng.choice(["res", "pool", "buf", "oq", "pq"])
    code = []
    for _ in range(rng.randint(1, 3)):
        if rng.random() < 0.35: code.append("tadd %d %d" % (rng.choice([0, 1, 2]), rng.choice(SIGS)))
        if rng.random() < 0.2: code.append("intr %d %d %d" % (rng.randint(1, np), rng.choice(ISIGS), rng.choice([0, 1, 5])))
        if rng.random() < 0.1: code.append("prio %d %d" % (rng.randint(1, np), rng.randint(0, 3)))
        if kind == "res":
            r = 1 if rng.random() < 0.8 else rng.randint(1, caps["res"])
            code += ["%s %d" % (rng.choice(["acq", "acq", "pre"]), r), "hold %d" % rng.choice([0, 1, 1, 2]), "rel %d" % r]
            if rng.random() < 0.4: code.append("acq %d" % r)          # re-acquire in the instant of the release
        elif kind == "pool":
            n = rng.randint(1, caps["pool"])
            code += ["%s %d" % (rng.choice(["pacq", "pacq", "ppre"]), n), "hold %d" % rng.choice([0, 1, 2]), "prel %d" % rng.randint(1, n)]
        elif kind == "buf":
            code += [rng.choice(["bput %d" % rng.randint(1, 3), "bget %d" % rng.randint(1, 3)]), "hold %d" % rng.choice([0, 1])]
        elif kind == "oq":
            code += [rng.choice(["qput %d" % rng.randint(1, 9), "qget"]), "hold %d" % rng.choice([0, 1])]
        else:
            code += [rng.choice(["pqput %d %d" % (rng.randint(1, 9), rng.randint(0, 2)), "pqget", "pqcancel %d" % rng.randint(1, 2)]), "hold %d" % rng.choice([0, 1])]
        if rng.random() < 0.1: code.append("stop %d %d" % (rng.randint(1, np), rng.randint(1, 9)))
    return code[:11]

def gen_program(rng, pid, profile):
    pr = PROFILES[profile]
    np = rng.randint(*pr["np"])
    caps = dict(res=rng.randint(1, 2), pool=rng.randint(1, 3), buf=rng.choice([1, 2, 3, -1]), oq=rng.choice([1, 2, -1]), pq=rng.choice([1, 2, -1]))
    ops = [o for o, w in pr["ops"].items() for _ in range(w)]
    pkind = rng.choice(["res", "res", "pool", "pool", "buf", "oq", "pq"])
    bufunit = 0
    if profile in ("buf", "contend", "mix") and rng.random() < 0.3:
        bufunit = 62                     # amounts in units of 2^62: level + amount reaches 2^64
        caps["buf"] = rng.choice([2, 3, 3])      # "unlimited" is 2^64-1: a few units of 2^62 would hit that real limit
    lines = ["prog %d" % pid, "cap res=%d pool=%d buf=%d oq=%d pq=%d bufunit=%d" % (caps["res"], caps["pool"], caps["buf"], caps["oq"], caps["pq"], bufunit)]
    for p in range(1, np + 1):
        n = rng.randint(2, 7)
        code = contend_script(rng, np, p, caps, pkind) if pr.get("contend") else [gen_instr(rng, rng.choice(ops), np, p, caps) for _ in range(n)]
        if pr.get("rec") and p == 1:
            objs = [1, 3, 4, 6, 8]
            o = rng.choice(objs)
            if rng.random() < 0.5:
                code = ["rec %d 1" % o] + code[:5] + ["hold %d" % rng.randint(1, 3), "rec %d 0" % o]
            else:
                # recording begins (and ends) somewhere in the middle: others may be blocked inside a call on the object
                k = rng.randint(0, min(3, len(code)))
                code = (["hold %d" % rng.choice([0, 1])] if rng.random() < 0.5 else []) + code[:k] + ["rec %d 1" % o] + code[k:k + 4] + ["hold %d" % rng.randint(1, 3), "rec %d 0" % o]
        auto = 1 if (p == 1 or rng.random() < 0.85) else 0
        lines.append("proc %d %d %d : %s" % (p, rng.choice([0, 0, 0, 1, 2]), auto, " ; ".join(code)))
    for e in range(1, pr.get("uev", 0) + 1):
        if rng.random() < 0.8:
            q = rng.randint(1, np)
            act = rng.choice(["nop", "intr %d -2 0" % q, "stop %d 5" % q, "csig", "setflag 0 1", "evcancel 1", "prio %d 3" % q])
            lines.append("uev %d %d %d : %s" % (e, rng.choice([0, 1, 2, 3]), rng.choice([0, 0, 1, 5]), act))
    lines.append("end")
    return "\n".join(lines)

def gen_order(rng, pid):
    """waiters arriving at staggered times on one object, priorities changed while they wait"""
    kind = rng.choice(["res", "res", "pool", "buf", "oq"])
    np_ = rng.randint(4, 6)
    lines = ["prog %d" % pid, "cap res=1 pool=1 buf=1 oq=1 pq=1 bufunit=0"]
    hold_long = rng.randint(4, 6)
    take, give = {"res": ("acq 1", "rel 1"), "pool": ("pacq 1", "prel 1"), "buf": ("bget 1", "nop"), "oq": ("qget", "nop")}[kind]
    if kind in ("res", "pool"):
        lines.append("proc 1 %d 1 : %s ; hold %d ; %s ; hold 1" % (rng.randint(0, 2), take, hold_long, give))
    elif kind == "buf":
        lines.append("proc 1 0 1 : hold %d ; bput 1 ; hold 1 ; bput 1 ; hold 1 ; bput 1 ; hold 1 ; bput 1 ; hold 1 ; bput 1" % hold_long)
    else:
        lines.append("proc 1 0 1 : hold %d ; qput 1 ; hold 1 ; qput 2 ; hold 1 ; qput 3 ; hold 1 ; qput 4 ; hold 1 ; qput 5" % hold_long)
    for p in range(2, np_):
        lines.append("proc %d %d 1 : hold %d ; %s ; hold 1 ; %s" % (p, rng.randint(0, 2), rng.randint(0, 3), take, give))
    ch = []
    for _ in range(rng.randint(1, 4)):
        ch += ["hold %d" % rng.randint(0, 2), "prio %d %d" % (rng.randint(2, np_ - 1), rng.randint(0, 3))]
    lines.append("proc %d 3 1 : %s" % (np_, " ; ".join(ch)))
    lines.append("end")
    return "\n".join(lines)

def gen_condmany(rng, pid):
    """many waiters with distinct priorities on one condition, in an arrival order unrelated to priority"""
    nw = rng.randint(5, 10)
    prios = list(range(nw)); rng.shuffle(prios)
    lines = ["prog %d" % pid, "cap res=1 pool=1 buf=2 oq=1 pq=1 bufunit=0"]
    for p in range(1, nw + 1):
        if rng.random() < 0.2:     # a contender for the observed resource itself
            lines.append("proc %d %d 1 : hold %d ; acq 1 ; hold 1 ; rel 1" % (p, prios[p - 1], rng.randint(0, 2)))
        else:
            lines.append("proc %d %d 1 : hold %d ; cwait %d ; hold 1" % (p, prios[p - 1], rng.randint(0, 2), rng.choice([0, 0, 1, 1, 2])))
    sig = ["hold 3"]
    if rng.random() < 0.4: sig = ["csub 0", "acq 1", "hold 3"]
    for _ in range(rng.randint(1, 3)):
        sig += [rng.choice(["setflag 0 1", "setflag 1 1", "setflag 0 0", "setflag 1 0"]), rng.choice(["csig", "csig", "hold 0"])]
    if sig[0] == "csub 0": sig += ["rel 1", "hold 1"]
    sig += ["setflag 0 1", "setflag 1 1", "csig"]
    lines.append("proc %d 0 1 : %s" % (nw + 1, " ; ".join(sig[:12])))
    lines.append("end")
    return "\n".join(lines)

def gen_condorder(rng, pid):
    """many waiters of FEW priorities on one condition, arriving at different times; before the signal some leave
    (interrupt, timeout, cancel, remove) and some change priority, so the waiting list is reshuffled internally"""
    nw = rng.randint(3, 9)
    pool = rng.choice([[0], [0, 0, 1], [0, 1], [0, 0, 0, 2, 5]])
    lines = ["prog %d" % pid, "cap res=1 pool=1 buf=2 oq=1 pq=1 bufunit=0"]
    arrive = list(range(nw)); rng.shuffle(arrive)
    if rng.random() < 0.3: arrive = [a // 2 for a in arrive]
    tmax = max(arrive) + 1
    pred = rng.choice([0, 0, 2])
    for p in range(1, nw + 1):
        code = []
        if rng.random() < 0.15: code.append("tadd %d -5" % (tmax + rng.randint(0, 1) - arrive[p - 1]))
        if arrive[p - 1] > 0: code.append("hold %d" % arrive[p - 1])
        code += ["cwait %d" % (pred if rng.random() < 0.85 else 1), "hold 1"]
        lines.append("proc %d %d 1 : %s" % (p, rng.choice(pool), " ; ".join(code)))
    sig = ["hold %d" % tmax]
    for _ in range(rng.randint(0, 4)):
        q = rng.randint(1, nw)
        sig.append(rng.choice(["intr %d 9 0" % q, "intr %d 9 3" % q, "prio %d %d" % (q, rng.choice([0, 1, 2, 5])), "prio %d %d" % (q, rng.choice([0, 1, 2, 5])),
                               "ccancel %d" % q, "cremove %d" % q, "stop %d 5" % q, "hold 0"]))
    if rng.random() < 0.3: sig.append("hold 1")
    sig += ["setflag 0 1", "setflag 1 %d" % rng.choice([0, 1]), "csig", "hold 1", "setflag 1 1", "csig"]
    lines.append("proc %d %d 1 : %s" % (nw + 1, rng.choice([0, 0, 7]), " ; ".join(sig[:12])))
    lines.append("end")
    return "\n".join(lines)

SHAPES = {
    True: dict(np=4, caps=dict(res=1, pool=2, buf=2, oq=1, pq=1), prio=[0, 0, 1, 2], uev=None),
    2:    dict(np=5, caps=dict(res=2, pool=3, buf=3, oq=2, pq=2), prio=[0, 1, 1, 0, 2], uev="uev 1 1 1 : csig"),
}

def gen_soupfix2(rng, pid):
    return gen_soup(rng, pid, fixed=2)

def gen_soupfix(rng, pid):
    """the soup with a FIXED shape (4 processes of priorities 0,0,1,2, all started, fixed capacities, no user events), so that
    the kernel MODEL can be run on the same programs with one set of constants (conformance of the model, KernelConf.tla)"""
    text = gen_soup(rng, pid, fixed=True)
    return text

def gen_soup(rng, pid, fixed=False):
    """everything at once: 3-6 processes, long scripts over the whole instruction set, recording switched on for
    some objects at the start, a condition observing a guard, user events that stop / interrupt / signal"""
    np_ = rng.randint(3, 6)
    caps = dict(res=rng.randint(1, 2), pool=rng.randint(1, 3), buf=rng.choice([1, 2, 3]), oq=rng.choice([1, 2, -1]), pq=rng.choice([1, 2, -1]))
    bufunit = 62 if rng.random() < 0.2 else 0
    if bufunit: caps["buf"] = rng.choice([2, 3])
    if fixed:
        np_, caps, bufunit = SHAPES[fixed]["np"], dict(SHAPES[fixed]["caps"]), 0
    lines = ["prog %d" % pid, "cap res=%d pool=%d buf=%d oq=%d pq=%d bufunit=%d" % (caps["res"], caps["pool"], caps["buf"], caps["oq"], caps["pq"], bufunit)]
    allops = ["hold"] * 6 + ["tadd"] * 3 + ["taddo", "tcancel", "tclear", "wproc", "wproc", "wevent", "intr", "intr", "stop", "exit", "yield", "resume", "prio", "prio", "start",
              "acq", "acq", "acq", "rel", "rel", "pre", "pacq", "pacq", "prel", "prel", "ppre", "bput", "bput", "bget", "bget", "qput", "qget", "pqput", "pqget",
              "pqcancel", "pqreprio", "cwait", "cwait", "csig", "setflag", "setflag", "ccancel", "cremove", "csub", "cunsub"]
    for p in range(1, np_ + 1):
        code = []
        if p == 1:
            for o in rng.sample([1, 3, 4, 6, 8], rng.randint(0, 2)): code.append("rec %d 1" % o)
            if rng.random() < 0.4: code.append("csub %d" % rng.randint(0, 1))
        while len(code) < rng.randint(5, 11):
            op = rng.choice(allops)
            ins = gen_instr(rng, op, np_, p, caps)
            code.append(ins)
            # pair an acquisition with a later release most of the time
            if op in ("acq", "pre") and rng.random() < 0.7: code += ["hold %d" % rng.choice([0, 1, 2]), "rel " + ins.split()[1]]
            if op in ("pacq", "ppre") and rng.random() < 0.7: code += ["hold %d" % rng.choice([0, 1]), "prel " + ins.split()[1]]
        pr_, au_ = rng.choice([0, 0, 1, 2, 3]), (1 if (p == 1 or rng.random() < 0.85) else 0)
        if fixed: pr_, au_ = SHAPES[fixed]["prio"][p - 1], 1
        lines.append("proc %d %d %d : %s" % (p, pr_, au_, " ; ".join(code[:12])))
    if fixed and SHAPES[fixed]["uev"]:
        lines.append(SHAPES[fixed]["uev"])
    if not fixed and rng.random() < 0.7:
        q = rng.randint(1, np_)
        act = rng.choice(["nop", "intr %d -2 0" % q, "intr %d 9 5" % q, "stop %d 5" % q, "csig", "setflag 0 1", "setflag 1 1", "prio %d 3" % q, "start %d" % q])
        lines.append("uev 1 %d %d : %s" % (rng.choice([0, 1, 2, 3]), rng.choice([0, 0, 1, 5]), act))
    lines.append("end")
    return "\n".join(lines)

def gen_longrec(rng, pid):
    """a recorded history long enough to make the sample arrays grow (1024, 2048 samples)"""
    o, body = rng.choice([(1, ["acq 1", "hold 1", "rel 1", "hold %d" % rng.randint(0, 2)]),
                          (3, ["pacq 1", "hold 1", "prel 1", "hold 1"]),
                          (4, ["bput 1", "hold 1", "bget 1", "hold %d" % rng.randint(0, 1)]),
                          (8, ["pqput 1 0", "hold 1", "pqget", "hold 1"])])
    n = rng.choice([515, 530, 1030])
    return "\n".join(["prog %d" % (900000 + pid), "cap res=1 pool=2 buf=2 oq=1 pq=2 bufunit=0",
                      "proc 1 0 1 : hold %d ; rec %d 1 ; rep %d 4 ; %s ; hold 1 ; rec %d 0" % (rng.randint(0, 2), o, n, " ; ".join(body), o),
                      "end"])

def main():
    seed, count, profile = int(sys.argv[1]), int(sys.argv[2]), sys.argv[3]
    if profile == "order":
        rng = random.Random(seed * 104729 + 5)
        for i in range(count):
            print(gen_order(rng, i + 1))
        return
    if profile == "condmany":
        rng = random.Random(seed * 15485863 + 11)
        for i in range(count):
            print(gen_condmany(rng, i + 1))
        return
    if profile == "condorder":
        rng = random.Random(seed * 15485863 + 11)
        for i in range(count):
            print(gen_condorder(rng, i + 1))
        return
    if profile == "soupfix2":
        rng = random.Random(seed * 67867967 + 7)
        for i in range(count):
            print(gen_soupfix2(rng, i + 1))
        return
    if profile == "soupfix":
        rng = random.Random(seed * 49979687 + 5)
        for i in range(count):
            print(gen_soupfix(rng, i + 1))
        return
    if profile == "soup":
        rng = random.Random(seed * 32452843 + 3)
        for i in range(count):
            print(gen_soup(rng, i + 1))
        return
    if profile == "longrec":
        rng = random.Random(seed * 7919 + 17)
        for i in range(count):
            print(gen_longrec(rng, i + 1))
        return
    rng = random.Random(seed * 1000003 + sum(map(ord, profile)))
    for i in range(count):
        print(gen_program(rng, i + 1, profile))

if __name__ == "__main__":
    main()
