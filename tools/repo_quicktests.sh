#!/bin/bash
# Build /repo with meson (guard off) and run the 14 fast tests (everything but `random`); "full" adds random.
cd /repo && (test -d _build || meson setup _build >/dev/null) && meson compile -C _build 2>&1 | grep -i "error" ; 
T="buffer cimba condition coroutine data event hashheap logger mempool objectqueue priorityqueue process resource resourcepool"
[ "${1:-}" = full ] && T=""
meson test -C _build --no-rebuild $T 2>&1 | grep -E "^(Ok|Fail|Timeout):|FAIL"
