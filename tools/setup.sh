#!/bin/bash
# Run once after a fresh restore: nothing to download; build the library once to
# fail early if the toolchain is incomplete, and check that TLC starts.
set -e
cd "$(dirname "$0")/.."
mkdir -p out evidence build
tools/build.sh rel >/dev/null
java -cp /opt/veriftools/tla/tla2tools.jar tlc2.TLC -h 2>&1 | grep -q "TLC" || { echo "TLC not runnable"; exit 1; }
echo "setup ok"
