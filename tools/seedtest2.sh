#!/bin/bash
# seedtest2.sh <seed-name> [check-id] [tier] : like seedtest.sh, but /repo itself is never touched: the change is applied to a
# scratch git worktree of /repo (under /tmp) and the check runs with VERIF_REPO pointing there.  Safe while other runs use /repo.
N=$1; P=${2:-$(python3 -c "import json;print(json.load(open('/verif/seeded/$N/meta.json'))['property'])")}; T=${3:-quick}
WT=/tmp/seedrepo_$$
git -C /repo worktree add -q --detach $WT HEAD || exit 2
PATCH=/verif/seeded/$N/patch.diff
[ -f /verif/seeded/$N/patch_rebased.diff ] && PATCH=/verif/seeded/$N/patch_rebased.diff
if ! git -C $WT apply $PATCH 2>/tmp/seedapply.err; then
  if ! (cd $WT && patch -p1 --no-backup-if-mismatch -F3 < $PATCH >/tmp/seedapply.err 2>&1); then
    echo "$N: PATCH DOES NOT APPLY"; git -C /repo worktree remove --force $WT; exit 3; fi
fi
cp /verif/evidence/$P.json /tmp/seedtest_evidence_$P.json 2>/dev/null
cd /verif && VERIF_REPO=$WT timeout 3000 tools/check $P --tier $T > /tmp/seedtest_$(echo $N | tr / _).log 2>&1; rc=$?
cp /tmp/seedtest_evidence_$P.json /verif/evidence/$P.json 2>/dev/null   # evidence must describe the unchanged tree
echo "$N -> $P ($T): rc=$rc $(grep -c '^VIOLATION' /tmp/seedtest_$(echo $N | tr / _).log) violations; $(grep -m1 '^VIOLATION\|^MACHINERY' /tmp/seedtest_$(echo $N | tr / _).log | cut -c1-220)"
git -C /repo worktree remove --force $WT; git -C /repo worktree prune
