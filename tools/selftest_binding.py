#!/usr/bin/env python3
"""Binding self-test (not part of any registered command): for each hand-written trace specification,
take a trace that is accepted, corrupt ONE recorded field (or drop one event) and show that the
specification rejects it.  Writes selftest_report.md.  Needs the traces of a previous quick run
(out/<id>/...)."""
import os, re, sys, json, shutil
sys.path.insert(0, os.path.dirname(os.path.abspath(__file__)))
import vlib

CASES = [
  # (pid, module, trace glob, description, function line-> corrupted line or None to drop, predicate selecting the line)
  ("C02", "KeyedPQTrace", "out/C02/trace_random_rel.ndjson", "a dequeue reports another key",
   lambda l: re.sub(r'"ret":(\d+)', lambda m: '"ret":%d' % (int(m.group(1)) + 1), l, 1), lambda l: l.startswith('{"op":"deq","ret":') and '"ret":0' not in l),
  ("C02", "KeyedPQTrace", "out/C02/trace_random_rel.ndjson", "count query off by one after an enqueue",
   lambda l: re.sub(r'"cnt":(\d+)', lambda m: '"cnt":%d' % (int(m.group(1)) + 1), l, 1), lambda l: l.startswith('{"op":"enq"')),
  ("C01", "EventQueueTrace", "out/C01/trace_random_rel.ndjson", "the clock reported inside an action differs",
   lambda l: re.sub(r'"now":(-?\d+)', lambda m: '"now":%d' % (int(m.group(1)) + 1), l, 1), lambda l: l.startswith('{"op":"enter"')),
  ("C01", "EventQueueTrace", "out/C01/trace_random_rel.ndjson", "a dispatch (hook Exec) is dropped from the trace",
   lambda l: None, lambda l: l.startswith('{"op":"exec"')),
  ("C20", "MempoolTrace", "out/C20/trace_rel.ndjson", "an allocation returns a slot that is still live",
   "dup-alloc", None),
  ("C05", "KMonTrace", "out/C05/trace_regression_scenarios_rel.ndjson", "an acquire returns success one time unit early (time field of a Ret)",
   lambda l: re.sub(r'"t":(\d+)\}', lambda m: '"t":%d}' % (int(m.group(1)) + 1), l, 1), lambda l: l.startswith('{"e":"Ret"') and '"op":"hold"' in l and '"sig":0' in l),
  ("C05", "KMonTrace", "out/C05/trace_regression_scenarios_rel.ndjson", "a GuardGrant hook event is dropped",
   lambda l: None, lambda l: l.startswith('{"e":"GuardGrant"')),
  ("C05", "KMonTrace", "out/C05/trace_regression_scenarios_rel.ndjson", "a snapshot reports a different holder",
   lambda l: l.replace('"holder":1}', '"holder":2}', 1), lambda l: l.startswith('{"e":"Snap"') and '"holder":1}' in l),
]


def main():
    os.chdir(vlib.ROOT)
    out = vlib.outdir("selftest")
    # fresh traces from the tree as it stands (the out/ directory may hold traces of a mutated tree)
    for pid in ("C01", "C02", "C05", "C20"):
        sv = os.path.join(vlib.ROOT, "evidence", pid + ".json")
        keep = open(sv).read() if os.path.exists(sv) else None
        rc, o = vlib.run([os.path.join(vlib.ROOT, "tools", "check"), pid, "--tier", "quick"], timeout=3000)
        if keep is not None:
            open(sv, "w").write(keep)
        if rc != 0:
            print("check %s does not pass on this tree (rc %d); self-test needs an accepted trace" % (pid, rc)); return 2
    rows = []
    for pid, mod, tr, desc, fn, pred in CASES:
        if not os.path.exists(tr):
            rows.append((mod, desc, "SKIPPED (no trace; run the quick check first)")); continue
        lines = open(tr).readlines()
        good = vlib.validate_trace("selftest", mod, os.path.abspath(tr), tag="good") if mod != "KMonTrace" else None
        bad = list(lines)
        if fn == "dup-alloc":
            idx = next(i for i, l in enumerate(lines) if l.startswith('{"op":"alloc"'))
            bad.insert(idx + 1, lines[idx])
        else:
            idx = next((i for i, l in enumerate(lines) if pred(l) and i > 5), None)
            if idx is None:
                rows.append((mod, desc, "SKIPPED (no such line)")); continue
            new = fn(lines[idx])
            if new is None:
                del bad[idx]
            else:
                bad[idx] = new
        bp = os.path.join(out, "corrupt_%s_%d.ndjson" % (mod, len(rows)))
        open(bp, "w").writelines(bad)
        if mod == "KMonTrace":
            r = vlib.tlc("selftest", "KMonTrace", "KMonTrace.cfg", workers=1, env={"TRACE": bp}, tag="bad")
            rej = re.findall(r'"REJECT",\s*(\d+),\s*"([^"]*)"', r.out)
            r0 = vlib.tlc("selftest", "KMonTrace", "KMonTrace.cfg", workers=1, env={"TRACE": os.path.abspath(tr)}, tag="good")
            rej0 = re.findall(r'"REJECT",\s*(\d+),\s*"([^"]*)"', r0.out)
            known = {x[1] for x in rej0}        # e.g. the open known finding exercised by a regression scenario
            newr = [x for x in rej if x[1] not in known]
            verdict = ("REJECTED: %s at line %s (the uncorrupted trace has none of this rule)" % (newr[0][1], newr[0][0])) if newr else "NOT DETECTED"
        else:
            v = vlib.validate_trace("selftest", mod, bp, tag="bad")
            verdict = ("accepted before (0 rejects), REJECTED after: %s at line %d" % (v.rejects[0]["rule"], v.rejects[0]["line"])
                       if v.rejects and not good.rejects else "NOT DETECTED (before %d rejects, after %d)" % (len(good.rejects), len(v.rejects)))
        rows.append((mod, desc, verdict))
    with open(os.path.join(vlib.ROOT, "selftest_report.md"), "w") as f:
        f.write("# Binding self-test: one corrupted field or dropped event per trace specification\n\n| trace spec | corruption | verdict |\n|---|---|---|\n")
        for r in rows:
            f.write("| %s | %s | %s |\n" % r)
    for r in rows:
        print(" | ".join(r))

if __name__ == "__main__":
    main()
