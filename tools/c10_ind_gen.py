#!/usr/bin/env python3
"""c10_ind_gen.py <out.tla>: derive, from spec/DataArrayOps.tla (the operators TLC model-checks and the trace specification
uses), a typed module for Apalache in which the capacity invariant of the data arrays is checked to be INDUCTIVE over
unbounded counts and the real initial capacity: Init => IndInv (length 0) and IndInit /\\ Next => IndInv' (length 1, the
pre-state generated symbolically).  The operators are copied textually so the proof is about the same definitions; the
recursive closed forms (GrowTo, AddN) and the undefined cmb_dataset_merge are left out (Apalache has no recursion)."""
import os, re, sys

ANN = {
 'Zeroed': '(Str) => $obj', 'Fresh': '(Str) => $obj', 'IsTs': '($obj) => Bool', 'Acc': '(Str, Int, Int) => Set(Str)', 'Ret': '($obj, Set(Str)) => $ret',
 'Arrays': '($obj) => Set(<<Str, Int>>)', 'SmallArrays': '($obj) => Set(Str)', 'MissingArrays': '($obj) => Set(Str)', 'CountOK': '($obj) => Bool', 'ObjOK': '($obj) => Bool',
 'Initialize': '($obj) => $ret', 'Terminate': '($obj) => $ret', 'Reset': '($obj) => $ret', 'DsExpand': '($obj) => $obj', 'TsExpand': '($obj) => $obj',
 'DsAdd': '($obj) => $ret', 'TsAdd': '($obj) => $ret', 'Add': '($obj) => $ret', 'DsCopy': '($obj, $obj) => $ret', 'TsCopy': '($obj, $obj) => $ret', 'Copy': '($obj, $obj) => $ret',
 'DsSort': '($obj) => $ret', 'TsSort': '($obj, Int) => $ret', 'TsSortX': '($obj) => $ret', 'TsSortT': '($obj) => $ret', 'DsQuantiles': '($obj) => $ret', 'TsQuantiles': '($obj) => $ret',
 'DsScan': '($obj) => $ret', 'TsScan': '($obj) => $ret', 'TsFinalize': '($obj) => $ret',
}
TAIL = r'''
Ids == 1..4
Kind(i) == IF i <= 2 THEN "ds" ELSE "ts"
Live == {i \in Ids : obj[i].live}
Init == obj = [i \in Ids |-> Fresh(Kind(i))] /\ oob = {}
\* @type: (Int, $ret) => Bool;
Upd(i, r) == obj' = [obj EXCEPT ![i] = r.o] /\ oob' = oob \cup r.bad
AddA(i)   == i \in Live /\ Upd(i, Add(obj[i]))
CopyA(i, j) == i \in Live /\ j \in Live /\ i # j /\ Kind(i) = Kind(j) /\ Upd(i, Copy(obj[i], obj[j]))
ResetA(i) == i \in Live /\ Upd(i, Reset(obj[i]))
TermA(i)  == i \in Live /\ Upd(i, Terminate(obj[i]))
InitA(i)  == i \in Ids \ Live /\ Upd(i, Initialize(obj[i]))
SortA(i)  == i \in Live /\ \/ Kind(i) = "ds" /\ Upd(i, DsSort(obj[i]))
                           \/ Kind(i) = "ts" /\ (Upd(i, TsSortX(obj[i])) \/ Upd(i, TsSortT(obj[i])))
QuantA(i) == i \in Live /\ \/ Upd(i, DsQuantiles(obj[i]))
                           \/ Kind(i) = "ts" /\ obj[i].wa # 0 /\ Upd(i, TsQuantiles(obj[i]))
ScanA(i)  == i \in Live /\ \/ Upd(i, DsScan(obj[i]))
                           \/ Kind(i) = "ts" /\ obj[i].ta # 0 /\ Upd(i, TsScan(obj[i]))
FinalA(i) == i \in Live /\ Kind(i) = "ts" /\ obj[i].count >= 1 /\ Upd(i, TsFinalize(obj[i]))
Next == \E i \in Ids : \/ AddA(i) \/ ResetA(i) \/ TermA(i) \/ InitA(i) \/ SortA(i) \/ QuantA(i) \/ ScanA(i) \/ FinalA(i)
                       \/ \E j \in Ids : CopyA(i, j)
TypeOK == /\ DOMAIN obj = Ids
          /\ \A i \in Ids : /\ obj[i].kind = Kind(i) /\ obj[i].count >= 0 /\ obj[i].cursize >= 0
                             /\ obj[i].xa >= 0 /\ obj[i].ta >= 0 /\ obj[i].wa >= 0
CapOK == \A i \in Ids : ObjOK(obj[i])
NoOOB == oob = {}
Shape == \A i \in Live : /\ (Kind(i) = "ds" => obj[i].ta = 0 /\ obj[i].wa = 0)
                         /\ (Kind(i) = "ts" => ((obj[i].xa = 0) = (obj[i].ta = 0)) /\ ((obj[i].ta = 0) = (obj[i].wa = 0)))
                         /\ ((obj[i].xa = 0) = (obj[i].count = 0))
\* an arbitrary state satisfying the invariant: two datasets and two time series with ANY counts and capacities
IndInit == /\ obj = Gen(4)
           /\ oob = {}
           /\ TypeOK /\ CapOK /\ Shape
IndInv == TypeOK /\ CapOK /\ NoOOB /\ Shape
=============================================================================
'''

def main():
    here = os.path.dirname(os.path.abspath(__file__))
    src = open(os.path.join(here, "..", "spec", "DataArrayOps.tla")).read()
    body = src.split("EXTENDS Integers, FiniteSets", 1)[1]
    body = "\n".join(l for l in body.split("\n") if not re.fullmatch(r"=+", l.strip()))
    body = re.sub(r"CONSTANTS Cap0,.*?like cmb_dataset_copy does for xa\n", "", body, flags=re.S)
    a = body.index("(* closed form of k adds in a row"); b = body.index("(* ------------------------------------------------------------------ copy *)")
    body = body[:a] + body[b:]
    a = body.index("(* cmb_dataset_merge(tgt, s1, s2) is declared"); b = body.index("(* ------------------------------------------------------------------ calls that read")
    body = body[:a] + body[b:]
    out = []
    for line in body.split("\n"):
        m = re.match(r'^([A-Za-z]+)\(', line)
        if m and m.group(1) in ANN and "==" in line:
            out.append("\\* @type: %s;" % ANN[m.group(1)])
        elif m and "==" in line and m.group(1) not in ANN:
            raise SystemExit("c10_ind_gen: operator %s of DataArrayOps.tla has no type annotation here: extend ANN" % m.group(1))
        out.append(line)
    name = os.path.splitext(os.path.basename(sys.argv[1]))[0]
    head = ("---------------------------- MODULE %s ----------------------------\n" % name +
            "(* GENERATED by tools/c10_ind_gen.py from DataArrayOps.tla - do not edit *)\n"
            "EXTENDS Integers, FiniteSets, Apalache\nCONSTANTS\n  \\* @type: Int;\n  Cap0,\n  \\* @type: Bool;\n  TsCopyByCursize\n"
            "\\* @typeAlias: obj = {kind: Str, live: Bool, count: Int, cursize: Int, xa: Int, ta: Int, wa: Int};\n"
            "\\* @typeAlias: ret = {o: $obj, bad: Set(Str)};\nDA_aliases == TRUE\n"
            "VARIABLES\n  \\* @type: Int -> $obj;\n  obj,\n  \\* @type: Set(Str);\n  oob\n")
    open(sys.argv[1], "w").write(head + "\n".join(out) + TAIL)

if __name__ == "__main__":
    main()
