#!/bin/bash
# seedtest.sh <seed-name> [check-id] [tier] : apply seeded change to /repo, run the check, undo. Prints the verdict line(s).
N=$1; P=${2:-$(python3 -c "import json;print(json.load(open('/verif/seeded/$N/meta.json'))['property'])")}; T=${3:-quick}
cd /repo || exit 2
[ -z "$(git status --porcelain)" ] || { echo "repo dirty"; exit 2; }
PATCH=/verif/seeded/$N/patch.diff
[ -f /verif/seeded/$N/patch_rebased.diff ] && PATCH=/verif/seeded/$N/patch_rebased.diff
if ! git apply $PATCH 2>/tmp/seedapply.err; then
  if ! patch -p1 --no-backup-if-mismatch -F3 < $PATCH >/tmp/seedapply.err 2>&1; then
    echo "$N: PATCH DOES NOT APPLY"; git checkout -q -- .; git clean -fdq src include codegen; exit 3; fi
fi
cp /verif/evidence/$P.json /tmp/seedtest_evidence_$P.json 2>/dev/null
cd /verif && timeout 3000 tools/check $P --tier $T > /tmp/seedtest_$N.log 2>&1; rc=$?
cp /tmp/seedtest_evidence_$P.json /verif/evidence/$P.json 2>/dev/null   # evidence must describe the unchanged tree
echo "$N -> $P ($T): rc=$rc $(grep -c '^VIOLATION' /tmp/seedtest_$N.log) violations; $(grep -m1 '^VIOLATION' /tmp/seedtest_$N.log | cut -c1-220)"
git -C /repo checkout -q -- . ; git -C /repo clean -fdq src include codegen; git -C /repo status --short | head -3
