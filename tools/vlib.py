"""Shared machinery for the /verif checks: building the library under test from
/repo's working tree, compiling harnesses, running TLC, known-findings handling
and evidence writing.  Python 3 standard library only."""
import json, os, re, subprocess, sys, time, shutil, hashlib

ROOT = os.path.dirname(os.path.dirname(os.path.abspath(__file__)))
REPO = os.environ.get("VERIF_REPO", "/repo")
SPEC = os.path.join(ROOT, "spec")
HARN = os.path.join(ROOT, "harness")
TLA_JAR = "/opt/veriftools/tla/tla2tools.jar"
NCPU = os.cpu_count() or 4


class MachineryError(Exception):
    """Something in the checking machinery itself failed (exit code 2)."""


def seed():
    try:
        return int(os.environ.get("VERIF_SEED", "20260926"))
    except ValueError:
        return 20260926


def outdir(pid, *sub):
    d = os.path.join(ROOT, "out", pid, *sub)
    os.makedirs(d, exist_ok=True)
    return d


def run(cmd, timeout=None, env=None, cwd=None, stdin=None, check=False):
    e = dict(os.environ)
    e.setdefault("ASAN_OPTIONS", "detect_leaks=0:abort_on_error=0:exitcode=66")
    if env:
        e.update(env)
    try:
        p = subprocess.run(cmd, stdout=subprocess.PIPE, stderr=subprocess.STDOUT, timeout=timeout,
                           env=e, cwd=cwd, input=stdin, text=True, errors="replace")
        rc, out = p.returncode, p.stdout
    except subprocess.TimeoutExpired as ex:
        rc, out = 124, (ex.stdout or "") if isinstance(ex.stdout, str) else (ex.stdout or b"").decode("utf8", "replace")
    if check and rc != 0:
        raise MachineryError("command failed (%d): %s\n%s" % (rc, " ".join(map(str, cmd)), out[-4000:]))
    return rc, out


# ---------------------------------------------------------------- library build
def build_lib(pid, variant):
    """Build libcimba.a (variant rel|san|off) from REPO's working tree into
    build/<pid>/<variant>.  Returns the directory."""
    out = os.path.join(ROOT, "build", pid, variant)
    if (pid, variant) in _BUILT:          # once per check run: the tree does not change under a running check
        return out
    rc, o = run([os.path.join(ROOT, "tools", "build.sh"), variant, REPO], env={"VERIF_BUILD_OUT": out}, timeout=600)
    if rc != 0:
        raise MachineryError("library build failed (variant %s):\n%s" % (variant, o[-6000:]))
    _BUILT.add((pid, variant))
    return out


_BUILT = set()


def cc_harness(pid, variant, name, extra_src=(), extra_flags=()):
    """Compile harness/<name>.c against the library built for (pid, variant)."""
    lib = os.path.join(ROOT, "build", pid, variant)
    exe = os.path.join(lib, name)
    if variant == "san":
        cc = ["clang", "-O1", "-g", "-fno-omit-frame-pointer", "-fsanitize=address",
              "-fsanitize=signed-integer-overflow,shift,integer-divide-by-zero,float-cast-overflow,bounds,vla-bound,pointer-overflow",
              "-fno-sanitize-recover=all"]
    else:
        cc = ["gcc", "-O2", "-g"]
    cmd = cc + ["-std=gnu17", "-D_POSIX_C_SOURCE=200809L", "-DNDEBUG", "-DCIMBA_VERIF", "-Wno-pedantic",
                "-I" + os.path.join(REPO, "include"), "-I" + os.path.join(REPO, "src"),
                "-I" + os.path.join(lib, "gen"), "-I" + HARN] + list(extra_flags) + \
        [os.path.join(HARN, name + ".c")] + [os.path.join(HARN, s) for s in extra_src] + \
        ["-o", exe, os.path.join(lib, "libcimba.a"), "-lm", "-lpthread"]
    rc, o = run(cmd, timeout=600)
    if rc != 0:
        raise MachineryError("harness build failed (%s/%s):\n%s" % (name, variant, o[-6000:]))
    return exe


# ---------------------------------------------------------------- TLC
class TlcResult:
    def __init__(self):
        self.rc = None
        self.out = ""
        self.generated = 0
        self.distinct = 0
        self.violated = None      # name of violated invariant / property
        self.error = None         # other error text
        self.wall = 0.0
        self.depth = 0
        self.coverage = {}        # action -> (taken, generated) when -coverage


_RE_STATES = re.compile(r"(\d+) states generated, (\d+) distinct states found")
_RE_INV = re.compile(r"Error: Invariant (\S+) is violated")
_RE_PROP = re.compile(r"Error: (Action property|Temporal properties|Property) (\S*)")
_RE_DEPTH = re.compile(r"The depth of the complete state graph search is (\d+)")
_RE_COV = re.compile(r"^<(\w+) line \d+, col \d+ to line \d+, col \d+ of module (\w+)>: (\d+):(\d+)", re.M)


def tlc(pid, module, cfg=None, workers=None, timeout=1800, env=None, simulate=None, depth=None,
        extra=(), heap="8g", tag=None, coverage=False, deadlock=True, dfs=False):
    """Run TLC on spec/<module>.tla with spec/<cfg>.  Returns TlcResult.
    rc 0 = no error; 12 = safety violation; anything else -> .error is set."""
    tag = tag or (cfg or module).replace(".cfg", "")
    md = outdir(pid, "tlc", tag + "-" + str(os.getpid()))
    shutil.rmtree(md, ignore_errors=True)
    os.makedirs(md, exist_ok=True)
    jopts = ["-Xmx" + heap, "-Xss512m", "-XX:+UseParallelGC"]
    if dfs:
        jopts.append("-Dtlc2.tool.queue.IStateQueue=StateDeque")
    cmd = ["java"] + jopts + ["-cp", TLA_JAR + ":" + "/opt/veriftools/tla/CommunityModules-deps.jar",
                              "tlc2.TLC", "-metadir", md, "-workers", str(workers or NCPU)]
    if cfg:
        cmd += ["-config", cfg if cfg.endswith(".cfg") else cfg + ".cfg"]
    if simulate:
        cmd += ["-simulate", "num=%d" % simulate]
    if depth:
        cmd += ["-depth", str(depth)]
    if coverage:
        cmd += ["-coverage", "1"]
    if not deadlock:
        cmd += ["-deadlock"]
    cmd += list(extra) + [module]
    t0 = time.time()
    rc, out = run(cmd, timeout=timeout, env=env, cwd=SPEC)
    r = TlcResult()
    r.rc, r.out, r.wall = rc, out, time.time() - t0
    for m in _RE_STATES.finditer(out):
        r.generated, r.distinct = int(m.group(1)), int(m.group(2))
    if simulate:
        m = re.search(r"The number of states generated: (\d+)", out)
        if m:
            r.generated = int(m.group(1))
            r.distinct = int(m.group(1))      # random walks: states visited (not deduplicated)
    m = _RE_DEPTH.search(out)
    if m:
        r.depth = int(m.group(1))
    m = _RE_INV.search(out)
    if m:
        r.violated = m.group(1)
    elif rc == 12 or rc == 13:
        m = _RE_PROP.search(out)
        r.violated = m.group(2) if m else "property"
    if coverage:
        for m in _RE_COV.finditer(out):
            k = m.group(2) + "." + m.group(1)
            a, b = int(m.group(3)), int(m.group(4))
            old = r.coverage.get(k, (0, 0))
            r.coverage[k] = (old[0] + a, old[1] + b)
    if rc not in (0, 12, 13) or (rc in (12, 13) and r.violated is None):
        r.error = "TLC exit %d\n%s" % (rc, out[-5000:])
    shutil.rmtree(md, ignore_errors=True)
    return r


def tlc_classpath_probe():
    """Find the jar that carries the CommunityModules (for a custom java command line)."""
    d = "/opt/veriftools/tla"
    return ":".join(os.path.join(d, f) for f in sorted(os.listdir(d)) if f.endswith(".jar"))


# ---------------------------------------------------------------- findings
def load_findings():
    p = os.path.join(ROOT, "known_findings.json")
    if not os.path.exists(p):
        return []
    return json.load(open(p)).get("findings", [])


def match_finding(pid, signature):
    """An *open* finding whose signature equals `signature` (exact string) or, if the
    finding gives 'signature_re', matches it."""
    for f in load_findings():
        if f.get("property") != pid or f.get("status") != "open":
            continue
        if f.get("signature") == signature:
            return f
        if f.get("signature_re") and re.fullmatch(f["signature_re"], signature):
            return f
    return None


# ---------------------------------------------------------------- evidence / verdict
class Verdict:
    """Collects what a check run covered and what it found, prints the
    interface lines, writes the evidence file, returns the exit code."""

    def __init__(self, pid, level, tier):
        self.pid, self.level, self.tier = pid, level, tier
        self.t0 = time.time()
        self.cov = {"states": 0, "transitions": 0, "traces_validated_against_impl": 0,
                    "samples": [], "evaluations": 0, "distinct_nontrivial": 0, "rule": ""}
        self.assumptions = []
        self.violations = []      # (signature, replay, text)
        self.known = []           # (finding, signature)
        self.notes = []
        self.machinery_error = None

    def add_tlc(self, r, what):
        self.cov["states"] += r.distinct
        self.cov["transitions"] += r.generated
        self.cov.setdefault("tlc_runs", []).append(
            {"what": what, "distinct": r.distinct, "generated": r.generated, "depth": r.depth,
             "wall_s": round(r.wall, 1), "rc": r.rc})

    def sample(self, s, cap=6):
        if len(self.cov["samples"]) < cap:
            self.cov["samples"].append(s)

    def violation(self, signature, replay, text):
        f = match_finding(self.pid, signature)
        if f is not None:
            if not any(k[1] == signature for k in self.known):
                self.known.append((f, signature))
            return False
        if not any(v[0] == signature for v in self.violations):
            self.violations.append((signature, replay, text))
        return True

    def finish(self):
        wall = time.time() - self.t0
        for f, sig in self.known:
            print("KNOWN-FINDING: property=%s %s [%s]" % (self.pid, f.get("what", ""), sig))
        for sig, replay, text in self.violations:
            print("VIOLATION property=%s replay=%s  (%s) %s" % (self.pid, replay, sig, text))
        cov = dict(self.cov)
        if not cov["samples"]:
            cov["samples"] = ["(none)"]
        cov["known_findings_seen"] = [s for _, s in self.known]
        cov["notes"] = self.notes
        ev = {"property_id": self.pid, "tier": self.tier, "seed": seed(), "level": self.level,
              "coverage": cov, "assumptions": self.assumptions, "wall_s": round(wall, 2),
              "violations": len(self.violations)}
        os.makedirs(os.path.join(ROOT, "evidence"), exist_ok=True)
        with open(os.path.join(ROOT, "evidence", self.pid + ".json"), "w") as f:
            json.dump(ev, f, indent=1, default=str)
        print("%s %s: %s  (states=%d traces=%d evals=%d, %.1fs)" % (
            self.pid, self.tier, "VIOLATED" if self.violations else "ok", cov["states"],
            cov["traces_validated_against_impl"], cov["evaluations"], wall))
        return 1 if self.violations else 0


def save_replay(pid, name, content):
    d = outdir(pid, "replay")
    p = os.path.join(d, name)
    with open(p, "w") as f:
        f.write(content if isinstance(content, str) else json.dumps(content, indent=1))
    return p


# ---------------------------------------------------------------- trace validation
_RE_REJ = re.compile(r'<<\s*"REJECT",\s*(\d+),\s*"([^"]*)"(.*?)>>\s*(?=\n<<|\nModel checking|\nError|\n\d+ states|\Z)', re.S)
_RE_CONS = re.compile(r'<<\s*"CONSUMED",\s*(\d+)\s*>>')


class TraceVerdict:
    def __init__(self):
        self.rejects = []     # list of dict(line, rule, detail)
        self.consumed = False
        self.lines = 0
        self.tlc = None


def validate_trace(pid, module, trace_path, cfg=None, timeout=1800, extra_env=None, tag=None, heap="8g"):
    """Run a *Trace.tla spec over the ndjson file; the spec prints
    <<"REJECT", line, rule, ...>> for every rejected history and
    <<"CONSUMED", n>> when it has consumed the whole file."""
    env = {"TRACE": trace_path}
    if extra_env:
        env.update(extra_env)
    r = tlc(pid, module, cfg or module, workers=1, timeout=timeout, env=env, tag=tag or module, heap=heap, deadlock=True)
    v = TraceVerdict()
    v.tlc = r
    if r.rc != 0:
        raise MachineryError("trace validation %s failed to run (rc %s):\n%s" % (module, r.rc, r.out[-3000:]))
    for m in _RE_REJ.finditer(r.out):
        det = re.sub(r"\s+", " ", m.group(3))
        mo = re.search(r'\bop \|-> "([^"]*)"', det)
        v.rejects.append({"line": int(m.group(1)), "rule": m.group(2), "detail": det[:600], "op": mo.group(1) if mo else ""})
    m = _RE_CONS.search(r.out)
    if m:
        v.consumed = True
        v.lines = int(m.group(1))
    if not v.consumed:
        raise MachineryError("trace validation %s did not consume the trace:\n%s" % (module, r.out[-3000:]))
    return v


def extract_history(trace_path, line, start_ops=("init",), key="op"):
    """Return the lines of the history that contains 1-based `line`:
    from the closest preceding start op up to the line itself."""
    with open(trace_path) as f:
        lines = f.readlines()
    i = min(line, len(lines)) - 1
    j = i
    while j > 0:
        try:
            if json.loads(lines[j]).get(key) in start_ops:
                break
        except Exception:
            pass
        j -= 1
    return lines[j:i + 1]
