#!/usr/bin/env python3
"""Generator of spec/SamplersFit.tla (property C16).

The module lists the *fit cases* of the C16 check: a sampler, an admissible parameter set and,
for the continuous distributions, the B-1 interior bin edges that cut the stated distribution
into B bins of equal probability (its k/B quantiles).  The quantiles are computed here with
plain double precision numerics (closed forms, erfc, regularised incomplete gamma / beta by
series and continued fractions, bisection) and written as decimal pairs <<m, e>> = m * 10^-e
with 9 significant digits, because TLC has neither reals nor 64-bit integers.  Discrete
distributions with rational parameters need no table: Samplers.tla computes their probability
mass functions exactly.  Poisson gets a table of interval bounds on a 1/40000 grid.

The file is generated once and committed; `tools/c16_tables.py --check` regenerates it in
memory and compares (used by the check as a self-test of the table).  Python 3 stdlib only.
"""
import math, sys, os
from fractions import Fraction as Fr

ROOT = os.path.dirname(os.path.dirname(os.path.abspath(__file__)))
OUT = os.path.join(ROOT, "spec", "SamplersFit.tla")


# ------------------------------------------------------------------ special functions
def gammainc_p(a, x):
    """regularised lower incomplete gamma P(a, x)"""
    if x <= 0.0:
        return 0.0
    lg = math.lgamma(a)
    if x < a + 1.0:
        ap, s, d = a, 1.0 / a, 1.0 / a
        for _ in range(100000):
            ap += 1.0
            d *= x / ap
            s += d
            if abs(d) < abs(s) * 1e-17:
                break
        return min(1.0, s * math.exp(-x + a * math.log(x) - lg))
    return 1.0 - gammainc_q_cf(a, x, lg)


def gammainc_q_cf(a, x, lg):
    tiny = 1e-300
    b = x + 1.0 - a
    c = 1.0 / tiny
    d = 1.0 / b
    h = d
    for i in range(1, 100000):
        an = -i * (i - a)
        b += 2.0
        d = an * d + b
        if abs(d) < tiny:
            d = tiny
        c = b + an / c
        if abs(c) < tiny:
            c = tiny
        d = 1.0 / d
        de = d * c
        h *= de
        if abs(de - 1.0) < 1e-16:
            break
    return math.exp(-x + a * math.log(x) - lg) * h


def gammainc_q(a, x):
    if x <= 0.0:
        return 1.0
    if x < a + 1.0:
        return 1.0 - gammainc_p(a, x)
    return gammainc_q_cf(a, x, math.lgamma(a))


def _betacf(a, b, x):
    tiny = 1e-300
    qab, qap, qam = a + b, a + 1.0, a - 1.0
    c = 1.0
    d = 1.0 - qab * x / qap
    if abs(d) < tiny:
        d = tiny
    d = 1.0 / d
    h = d
    for m in range(1, 100000):
        m2 = 2 * m
        aa = m * (b - m) * x / ((qam + m2) * (a + m2))
        d = 1.0 + aa * d
        if abs(d) < tiny:
            d = tiny
        c = 1.0 + aa / c
        if abs(c) < tiny:
            c = tiny
        d = 1.0 / d
        h *= d * c
        aa = -(a + m) * (qab + m) * x / ((a + m2) * (qap + m2))
        d = 1.0 + aa * d
        if abs(d) < tiny:
            d = tiny
        c = 1.0 + aa / c
        if abs(c) < tiny:
            c = tiny
        d = 1.0 / d
        de = d * c
        h *= de
        if abs(de - 1.0) < 1e-16:
            break
    return h


def betainc(a, b, x):
    """regularised incomplete beta I_x(a, b)"""
    if x <= 0.0:
        return 0.0
    if x >= 1.0:
        return 1.0
    lbt = math.lgamma(a + b) - math.lgamma(a) - math.lgamma(b) + a * math.log(x) + b * math.log1p(-x)
    bt = math.exp(lbt)
    if x < (a + 1.0) / (a + b + 2.0):
        return bt * _betacf(a, b, x) / a
    return 1.0 - bt * _betacf(b, a, 1.0 - x) / b


def norm_cdf(z):
    return 0.5 * math.erfc(-z / math.sqrt(2.0))


# ------------------------------------------------------------------ quantiles
def quantile(cdf, q, lo, hi):
    """q-quantile of a continuous cdf on the support (lo, hi) (either may be +-inf) by bisection."""
    if math.isinf(lo) and math.isinf(hi):
        a, b = -1.0, 1.0
    elif math.isinf(hi):
        a, b = lo, lo + 1.0
    elif math.isinf(lo):
        a, b = hi - 1.0, hi
    else:
        a, b = lo, hi
    if math.isinf(lo):
        w = 1.0
        while cdf(a) > q:
            a -= w
            w *= 2.0
    if math.isinf(hi):
        w = 1.0
        while cdf(b) < q:
            b += w
            w *= 2.0
    for _ in range(400):
        m = 0.5 * (a + b)
        if m == a or m == b:
            break
        if cdf(m) < q:
            a = m
        else:
            b = m
    return 0.5 * (a + b)


# cases whose probability vector does not sum to one exactly: the statement does not fix the distribution to
# better than the tolerance, so only the support is judged (the bins are those of the normalised vector)
NOFIT = {"hyperexp_3_sum_0_9995", "hyperexp_2_sum_1_0005"}
ORG = {"uniform_1e6": 1000000, "beta_3_3_100_101": 100, "normal_10_eighth": 10, "triangular_highmode": 15}


def dec9(x):
    """x as <<m, e>> with m * 10^-e ~ x, |m| < 10^9 (9 significant digits), -18 <= e <= 120"""
    if x == 0.0:
        return (0, 0)
    e = 8 - int(math.floor(math.log10(abs(x))))
    e = max(-18, min(120, e))
    m = int(round(x * 10.0 ** e))
    while abs(m) >= 10 ** 9:
        e -= 1
        m = int(round(x * 10.0 ** e))
    assert -18 <= e <= 120 and abs(m) < 2 ** 31
    return (m, e)


PD = 32768      # bin probabilities are multiples of 1/PD


def bin_weights(B):
    """B equal bins of PD/B each; the first and the last are split into tail bins of 1, 1, 2, 4, ... (times 1/PD)"""
    w = PD // B
    tail = [1, 1]
    while sum(tail) < w:
        tail.append(tail[-1] * 2)
    assert sum(tail) == w
    return tail + [w] * (B - 2) + tail[::-1]


# ------------------------------------------------------------------ the stated distributions
INF = float("inf")


def F(x):
    return float(Fr(x))


def cdf_of(s, par, v1, v2):
    """(cdf, lo, hi) of the distribution the documentation of sampler s states for these parameters"""
    p = [float(x) for x in par]
    if s == "random":
        return (lambda x: min(1.0, max(0.0, x)), 0.0, 1.0)
    if s == "uniform":
        a, b = p
        return (lambda x: min(1.0, max(0.0, (x - a) / (b - a))), a, b)
    if s == "triangular":
        a, c, b = p

        def cdf(x):
            if x <= a:
                return 0.0
            if x >= b:
                return 1.0
            if x <= c:
                return (x - a) ** 2 / ((b - a) * (c - a))
            return 1.0 - (b - x) ** 2 / ((b - a) * (b - c))
        return (cdf, a, b)
    if s == "std_normal":
        return (norm_cdf, -INF, INF)
    if s == "normal":
        mu, sg = p
        return (lambda x: norm_cdf((x - mu) / sg), -INF, INF)
    if s == "lognormal":
        mu, sg = p
        return (lambda x: 0.0 if x <= 0 else norm_cdf((math.log(x) - mu) / sg), 0.0, INF)
    if s == "logistic":
        m, sc = p

        def cdf(x):
            z = (x - m) / sc
            return 1.0 / (1.0 + math.exp(-z)) if z > -700 else 0.0
        return (cdf, -INF, INF)
    if s == "cauchy":
        m, sc = p
        return (lambda x: 0.5 + math.atan((x - m) / sc) / math.pi, -INF, INF)
    if s == "std_exponential":
        return (lambda x: -math.expm1(-x) if x > 0 else 0.0, 0.0, INF)
    if s == "exponential":
        m = p[0]
        return (lambda x: -math.expm1(-x / m) if x > 0 else 0.0, 0.0, INF)
    if s == "erlang":
        k, m = p
        return (lambda x: gammainc_p(k, x / m), 0.0, INF)
    if s == "hypoexponential":
        ms = [float(x) for x in v1]
        if len(ms) == 1:
            return (lambda x: -math.expm1(-x / ms[0]) if x > 0 else 0.0, 0.0, INF)
        lam = [1.0 / m for m in ms]
        assert len(set(lam)) == len(lam)
        co = []
        for i, li in enumerate(lam):
            c = 1.0
            for j, lj in enumerate(lam):
                if j != i:
                    c *= lj / (lj - li)
            co.append(c)
        return (lambda x: 0.0 if x <= 0 else 1.0 - sum(c * math.exp(-l * x) for c, l in zip(co, lam)), 0.0, INF)
    if s == "hyperexponential":
        ms = [float(x) for x in v1]
        ps = [float(x) for x in v2]
        tot = sum(ps)
        ps = [q / tot for q in ps]
        return (lambda x: 0.0 if x <= 0 else sum(q * -math.expm1(-x / m) for q, m in zip(ps, ms)), 0.0, INF)
    if s == "std_gamma":
        a = p[0]
        return (lambda x: gammainc_p(a, x), 0.0, INF)
    if s == "gamma":
        a, sc = p
        return (lambda x: gammainc_p(a, x / sc), 0.0, INF)
    if s == "std_beta":
        a, b = p
        return (lambda x: betainc(a, b, x), 0.0, 1.0)
    if s == "beta":
        a, b, lo, hi = p
        return (lambda x: betainc(a, b, min(1.0, max(0.0, (x - lo) / (hi - lo)))), lo, hi)
    if s in ("PERT", "PERT_mod"):
        lo, mode, hi = p[0], p[1], p[2]
        lam = p[3] if s == "PERT_mod" else 4.0
        a = 1.0 + lam * (mode - lo) / (hi - lo)
        b = 1.0 + lam * (hi - mode) / (hi - lo)
        return (lambda x: betainc(a, b, min(1.0, max(0.0, (x - lo) / (hi - lo)))), lo, hi)
    if s == "weibull":
        k, sc = p
        return (lambda x: 0.0 if x <= 0 else -math.expm1(-((x / sc) ** k)), 0.0, INF)
    if s == "pareto":
        k, mode = p
        return (lambda x: 0.0 if x <= mode else 1.0 - (mode / x) ** k, mode, INF)
    if s == "chisquared":
        k = p[0]
        return (lambda x: gammainc_p(k / 2.0, x / 2.0), 0.0, INF)
    if s == "F_dist":
        a, b = p
        return (lambda x: 0.0 if x <= 0 else betainc(a / 2.0, b / 2.0, a * x / (a * x + b)), 0.0, INF)
    if s in ("std_t_dist", "t_dist"):
        if s == "t_dist":
            m, sc, v = p
        else:
            m, sc, v = 0.0, 1.0, p[0]

        def cdf(x):
            t = (x - m) / sc
            if t == 0.0:
                return 0.5
            tail = 0.5 * betainc(v / 2.0, 0.5, v / (v + t * t))
            return 1.0 - tail if t > 0 else tail
        return (cdf, -INF, INF)
    if s == "rayleigh":
        sg = p[0]
        return (lambda x: 0.0 if x <= 0 else -math.expm1(-x * x / (2.0 * sg * sg)), 0.0, INF)
    raise ValueError(s)


# ------------------------------------------------------------------ the cases
# (id, sampler, scalar parameters in call order, vector 1, vector 2, big)
def R(*xs):
    return [Fr(x) for x in xs]


CONT = [
    ("random", "random", R(), [], [], False),
    ("uniform_0_1", "uniform", R(0, 1), [], [], False),
    ("uniform_m5_3", "uniform", R(-5, 3), [], [], False),
    ("uniform_1e6", "uniform", R(1000000, 1000001), [], [], False),
    ("uniform_eighth", "uniform", R("-1/8", "1/8"), [], [], False),
    ("triangular_0_1_3", "triangular", R(0, 1, 3), [], [], False),
    ("triangular_m2_m1_7", "triangular", R(-2, -1, 7), [], [], False),
    ("triangular_lowmode", "triangular", R(0, "1/16", 1), [], [], False),
    ("triangular_highmode", "triangular", R(10, "79/4", 20), [], [], False),
    ("std_normal", "std_normal", R(), [], [], True),
    ("normal_0_1", "normal", R(0, 1), [], [], False),
    ("normal_10_eighth", "normal", R(10, "1/8"), [], [], False),
    ("normal_m3_50", "normal", R(-3, 50), [], [], False),
    ("lognormal_1_quarter", "lognormal", R(1, "1/4"), [], [], False),
    ("lognormal_half_1", "lognormal", R("1/2", 1), [], [], False),
    ("lognormal_2_3half", "lognormal", R(2, "3/2"), [], [], False),
    ("logistic_0_1", "logistic", R(0, 1), [], [], False),
    ("logistic_5_quarter", "logistic", R(5, "1/4"), [], [], False),
    ("cauchy_0_1", "cauchy", R(0, 1), [], [], False),
    ("cauchy_m2_half", "cauchy", R(-2, "1/2"), [], [], False),
    ("std_exponential", "std_exponential", R(), [], [], True),
    ("exponential_1", "exponential", R(1), [], [], False),
    ("exponential_small", "exponential", R("1/1024"), [], [], False),
    ("exponential_250", "exponential", R(250), [], [], False),
    ("erlang_1_1", "erlang", R(1, 1), [], [], False),
    ("erlang_3_2", "erlang", R(3, 2), [], [], False),
    ("erlang_12_half", "erlang", R(12, "1/2"), [], [], False),
    ("hypoexp_1", "hypoexponential", R(), R(2), [], False),
    ("hypoexp_3", "hypoexponential", R(), R(1, 2, 5), [], False),
    ("hypoexp_2_wide", "hypoexponential", R(), R("1/8", 10), [], False),
    ("hyperexp_1", "hyperexponential", R(), R(3), R(1), False),
    ("hyperexp_3", "hyperexponential", R(), R(1, 5, "1/4"), R("1/2", "3/10", "1/5"), False),
    ("hyperexp_2_degenerate", "hyperexponential", R(), R(2, 7), R(1, 0), False),
    ("hyperexp_3_sum_0_9995", "hyperexponential", R(), R(1, 5, "1/4"), R("1/2", "3/10", "399/2000"), False),
    ("hyperexp_2_sum_1_0005", "hyperexponential", R(), R(2, 7), R("1/2", "1001/2000"), False),
    ("std_gamma_1", "std_gamma", R(1), [], [], False),
    ("std_gamma_5half", "std_gamma", R("5/2"), [], [], False),
    ("std_gamma_30", "std_gamma", R(30), [], [], False),
    ("std_gamma_half", "std_gamma", R("1/2"), [], [], False),
    ("std_gamma_fifth", "std_gamma", R("1/5"), [], [], False),
    ("gamma_1_1", "gamma", R(1, 1), [], [], False),
    ("gamma_5half_2", "gamma", R("5/2", 2), [], [], False),
    ("gamma_half_1", "gamma", R("1/2", 1), [], [], False),
    ("gamma_tenth_3", "gamma", R("1/10", 3), [], [], False),
    ("gamma_40_quarter", "gamma", R(40, "1/4"), [], [], False),
    ("std_beta_2_3", "std_beta", R(2, 3), [], [], False),
    ("std_beta_1_1", "std_beta", R(1, 1), [], [], False),
    ("std_beta_5_1", "std_beta", R(5, 1), [], [], False),
    ("std_beta_half_half", "std_beta", R("1/2", "1/2"), [], [], False),
    ("std_beta_fifth_4", "std_beta", R("1/5", 4), [], [], False),
    ("std_beta_3half_half", "std_beta", R("3/2", "1/2"), [], [], False),     # two gamma draws of shapes s + 1 and s in a row
    ("std_beta_half_3half", "std_beta", R("1/2", "3/2"), [], [], False),
    ("beta_2_5_0_10", "beta", R(2, 5, 0, 10), [], [], False),
    ("beta_half_2_m1_1", "beta", R("1/2", 2, -1, 1), [], [], False),
    ("beta_3_3_100_101", "beta", R(3, 3, 100, 101), [], [], False),
    ("PERT_0_1_4", "PERT", R(0, 1, 4), [], [], False),
    ("PERT_m1_2_3", "PERT", R(-1, 2, 3), [], [], False),
    ("PERT_mod_0_1_4_1", "PERT_mod", R(0, 1, 4, 1), [], [], False),
    ("PERT_mod_0_3_4_10", "PERT_mod", R(0, 3, 4, 10), [], [], False),
    ("PERT_mod_2_3_9_half", "PERT_mod", R(2, 3, 9, "1/2"), [], [], False),
    ("weibull_1_1", "weibull", R(1, 1), [], [], False),
    ("weibull_2_10", "weibull", R(2, 10), [], [], False),
    ("weibull_half_3", "weibull", R("1/2", 3), [], [], False),
    ("weibull_4_fifth", "weibull", R(4, "1/5"), [], [], False),
    ("pareto_8020", "pareto", R("29/25", 1), [], [], False),
    ("pareto_3_2", "pareto", R(3, 2), [], [], False),
    ("pareto_half_5", "pareto", R("1/2", 5), [], [], False),
    ("chisquared_1", "chisquared", R(1), [], [], False),
    ("chisquared_2", "chisquared", R(2), [], [], False),
    ("chisquared_half", "chisquared", R("1/2"), [], [], False),
    ("chisquared_7", "chisquared", R(7), [], [], False),
    ("chisquared_25", "chisquared", R(25), [], [], False),
    ("F_5_10", "F_dist", R(5, 10), [], [], False),
    ("F_1_1", "F_dist", R(1, 1), [], [], False),
    ("F_2_30", "F_dist", R(2, 30), [], [], False),
    ("F_half_3", "F_dist", R("1/2", 3), [], [], False),
    ("F_3_1", "F_dist", R(3, 1), [], [], False),                              # chi-squared 3 then 1: gamma shapes 3/2 and 1/2
    ("F_1_3", "F_dist", R(1, 3), [], [], False),
    ("std_t_1", "std_t_dist", R(1), [], [], False),
    ("std_t_3", "std_t_dist", R(3), [], [], False),
    ("std_t_30", "std_t_dist", R(30), [], [], False),
    ("std_t_half", "std_t_dist", R("1/2"), [], [], False),
    ("t_10_2_5", "t_dist", R(10, 2, 5), [], [], False),
    ("rayleigh_1", "rayleigh", R(1), [], [], False),
    ("rayleigh_small", "rayleigh", R("1/16"), [], [], False),
    ("rayleigh_30", "rayleigh", R(30), [], [], False),
]

# discrete cases: pmf computed in TLA+ (Samplers!DiscBins) from the rational parameters;
# maxv = last value with its own bin (greater values share the tail bin, when the support is unbounded)
DISC = [
    ("flip", "flip", R(), [], [], 1),
    ("bernoulli_0", "bernoulli", R(0), [], [], 1),
    ("bernoulli_1", "bernoulli", R(1), [], [], 1),
    ("bernoulli_half", "bernoulli", R("1/2"), [], [], 1),
    ("bernoulli_3_10", "bernoulli", R("3/10"), [], [], 1),
    ("bernoulli_1_1000", "bernoulli", R("1/1000"), [], [], 1),
    ("geometric_1", "geometric", R(1), [], [], 3),
    ("geometric_half", "geometric", R("1/2"), [], [], 12),
    ("geometric_quarter", "geometric", R("1/4"), [], [], 7),
    ("geometric_9_10", "geometric", R("9/10"), [], [], 4),
    ("binomial_1_half", "binomial", R(1, "1/2"), [], [], 1),
    ("binomial_4_quarter", "binomial", R(4, "1/4"), [], [], 4),
    ("binomial_10_half", "binomial", R(10, "1/2"), [], [], 10),
    ("binomial_6_third", "binomial", R(6, "1/3"), [], [], 6),
    ("binomial_5_1", "binomial", R(5, 1), [], [], 5),
    ("negbin_1_half", "negative_binomial", R(1, "1/2"), [], [], 11),
    ("negbin_3_half", "negative_binomial", R(3, "1/2"), [], [], 10),
    ("negbin_2_quarter", "negative_binomial", R(2, "1/4"), [], [], 5),
    ("negbin_4_1", "negative_binomial", R(4, 1), [], [], 2),
    ("pascal_2_half", "pascal", R(2, "1/2"), [], [], 10),
    ("dice_1_6", "dice", R(1, 6), [], [], 6),
    ("dice_0_1", "dice", R(0, 1), [], [], 1),
    ("dice_m3_4", "dice", R(-3, 4), [], [], 4),
    ("dice_1e6", "dice", R(1000000, 1000012), [], [], 1000012),
    ("loaded_1", "loaded_dice", R(), [], R(1), 0),
    ("loaded_3", "loaded_dice", R(), [], R("1/2", "3/10", "1/5"), 2),
    ("loaded_4_zeros", "loaded_dice", R(), [], R(0, "1/2", 0, "1/2"), 3),
    ("loaded_8", "loaded_dice", R(), [], R("1/40", "9/40", "1/8", "1/8", "1/4", "1/20", "3/20", "1/20"), 7),
    ("loaded_3_sum_0_9995", "loaded_dice", R(), [], R("1/2", "3/10", "399/2000"), 2),
    ("loaded_3_sum_1_0005", "loaded_dice", R(), [], R("1/2", "3/10", "401/2000"), 2),
    ("loaded_2_sum_0_9992", "loaded_dice", R(), [], R("1249/1250", 0), 1),
    ("loaded_4_sum_1_0008", "loaded_dice", R(), [], R("1/4", "1/4", "1/4", "627/2500"), 3),
    ("alias_1", "alias", R(), [], R(1), 0),
    ("alias_3", "alias", R(), [], R("1/2", "3/10", "1/5"), 2),
    ("alias_4_zeros", "alias", R(), [], R(0, "1/2", 0, "1/2"), 3),
    ("alias_8", "alias", R(), [], R("1/40", "9/40", "1/8", "1/8", "1/4", "1/20", "3/20", "1/20"), 7),
    ("alias_16_skewed", "alias", R(), [], [Fr(1, 32)] * 8 + [Fr(1, 64)] * 4 + [Fr(1, 2), Fr(1, 8), Fr(1, 16), 0], 15),
    ("alias_3_sum_0_9995", "alias", R(), [], R("1/2", "3/10", "399/2000"), 2),
    ("alias_4_sum_1_0008", "alias", R(), [], R("1/4", "1/4", "1/4", "627/2500"), 3),
]

POISSON = [("poisson_half", Fr(1, 2), 5), ("poisson_4", Fr(4), 13), ("poisson_30", Fr(30), 52)]
POISSON_D = 40000


def poisson_table(r, maxv):
    """rows [lo, hi, alo, ahi] on the 1/40000 grid; the last row is the tail (hi < lo)."""
    rf = float(r)
    rows = []
    # start at the first value whose probability is not negligible; lump the lower tail into the first row
    pm = [math.exp(-rf + k * math.log(rf) - math.lgamma(k + 1)) for k in range(maxv + 1)]
    first = 0
    while first < maxv and sum(pm[:first + 1]) < 2e-4:
        first += 1
    k = 0
    out = []
    if first > 0:
        p = sum(pm[:first + 1])
        out.append((0, first, p))
        k = first + 1
    while k <= maxv:
        out.append((k, k, pm[k]))
        k += 1
    out.append((maxv + 1, maxv, max(0.0, 1.0 - sum(pm))))
    for lo, hi, p in out:
        alo = max(0, int(math.floor(p * POISSON_D - 1e-6)))
        ahi = min(POISSON_D, int(math.ceil(p * POISSON_D + 1e-6)))
        rows.append((lo, hi, alo, ahi))
    return rows


def tla_rat(x):
    x = Fr(x)
    return "<<%d, %d>>" % (x.numerator, x.denominator)


def tla_seq(xs, f=str):
    return "<<" + ", ".join(f(x) for x in xs) + ">>"


def generate():
    L = []
    L.append("---------------------------- MODULE SamplersFit ----------------------------")
    L.append("(* GENERATED by tools/c16_tables.py - do not edit by hand.                     *)")
    L.append("(* Fit cases of property C16: sampler, admissible parameters (rationals        *)")
    L.append("(* <<num, den>>, in call order; v1 / v2 are the array arguments) and, for the   *)")
    L.append("(* continuous distributions, bins: bin i has probability pw[i]/pd under the      *)")
    L.append("(* stated distribution (a body of equal bins, the two outermost ones split into *)")
    L.append("(* tail bins of 1, 1, 2, 4, ... /pd); edges are the quantiles that separate the *)")
    L.append("(* bins, as <<ref, m, e>> with nine significant digits of the distance to a     *)")
    L.append("(* reference point: ref 0: edge = org + m 10^-e (org: integer origin of the     *)")
    L.append("(* case), ref 1: edge = lower support bound + m 10^-e, ref 2: edge = upper      *)")
    L.append("(* support bound - m 10^-e.                                                     *)")
    L.append("(* Discrete distributions carry maxv (last value with a bin of its own); their  *)")
    L.append("(* probabilities are computed exactly in Samplers.tla, except Poisson (tab:     *)")
    L.append("(* rows <<lo, hi, alo, ahi>>, probability of lo..hi (hi < lo: lo and above)      *)")
    L.append("(* within [alo, ahi]/tabd).                                                     *)")
    L.append("EXTENDS Integers, Sequences")
    L.append("")
    L.append("FitCases == <<")
    rows = []
    for (cid, s, par, v1, v2, big) in CONT:
        cdf, lo, hi = cdf_of(s, par, v1, v2)
        B = 256 if big else 64
        pw = bin_weights(B)
        edges = []
        prev = None
        acc = 0
        for wgt in pw[:-1]:
            acc += wgt
            x = quantile(cdf, acc / PD, lo, hi)
            back = cdf(x)
            assert abs(back - acc / PD) < 1e-10, (cid, acc, x, back)
            # nine significant digits of the distance to the nearest reference point: the case origin (ref 0),
            # the lower support bound (ref 1: edge = lo + m 10^-e) or the upper one (ref 2: edge = hi - m 10^-e)
            cands = [(abs(x - ORG.get(cid, 0)), 0, x - ORG.get(cid, 0))]
            if not math.isinf(lo):
                cands.append((abs(x - lo), 1, x - lo))
            if not math.isinf(hi):
                cands.append((abs(hi - x), 2, hi - x))
            _, ref, dist = min(cands)
            d = dec9(dist)
            back9 = d[0] / 10.0 ** d[1]
            val = (ORG.get(cid, 0) + back9) if ref == 0 else (lo + back9) if ref == 1 else (hi - back9)
            assert prev is None or val > prev, (cid, acc, prev, val)
            prev = val
            edges.append((ref, d[0], d[1]))
        rows.append('  [id |-> "%s", s |-> "%s", kind |-> "cont", big |-> %s, par |-> %s, v1 |-> %s, v2 |-> %s,\n'
                    '   fitted |-> %s, maxv |-> 0, tabd |-> 0, tab |-> <<>>, org |-> %d, pd |-> %d,\n   pw |-> %s,\n   edges |-> %s]'
                    % (cid, s, "TRUE" if big else "FALSE", tla_seq(par, tla_rat), tla_seq(v1, tla_rat), tla_seq(v2, tla_rat),
                       "FALSE" if cid in NOFIT else "TRUE", ORG.get(cid, 0), PD, tla_seq(pw), tla_seq(edges, lambda d: "<<%d,%d,%d>>" % d)))
    for (cid, s, par, v1, v2, maxv) in DISC:
        rows.append('  [id |-> "%s", s |-> "%s", kind |-> "disc", big |-> FALSE, par |-> %s, v1 |-> %s, v2 |-> %s,\n'
                    '   fitted |-> TRUE, maxv |-> %d, tabd |-> 0, tab |-> <<>>, org |-> 0, pd |-> 0, pw |-> <<>>, edges |-> <<>>]'
                    % (cid, s, tla_seq(par, tla_rat), tla_seq(v1, tla_rat), tla_seq(v2, tla_rat), maxv))
    for (cid, r, maxv) in POISSON:
        tab = poisson_table(r, maxv)
        rows.append('  [id |-> "%s", s |-> "poisson", kind |-> "disc", big |-> FALSE, par |-> %s, v1 |-> <<>>, v2 |-> <<>>,\n'
                    '   fitted |-> TRUE, maxv |-> %d, tabd |-> %d, tab |-> %s, org |-> 0, pd |-> 0, pw |-> <<>>, edges |-> <<>>]'
                    % (cid, tla_seq([r], tla_rat), maxv, POISSON_D, tla_seq(tab, lambda t: "<<%d,%d,%d,%d>>" % t)))
    L.append(",\n".join(rows))
    L.append(">>")
    L.append("=============================================================================")
    return "\n".join(L) + "\n"


if __name__ == "__main__":
    txt = generate()
    if "--check" in sys.argv:
        cur = open(OUT).read() if os.path.exists(OUT) else ""
        print("SamplersFit.tla is up to date" if cur == txt else "SamplersFit.tla DIFFERS from the generator output")
        sys.exit(0 if cur == txt else 1)
    with open(OUT, "w") as f:
        f.write(txt)
    print("wrote %s (%d cases)" % (OUT, len(CONT) + len(DISC) + len(POISSON)))
