#!/bin/bash
# Build libcimba.a from /repo's *current working tree*, outside meson.
# usage: build.sh <variant> [repo]     variant: rel | san | off
#   rel : gcc, flags of meson.build (-O3 -DNDEBUG ...) + -DCIMBA_VERIF
#   san : clang ASan + arithmetic/bounds UBSan + -DCIMBA_VERIF
#   off : like rel but WITHOUT the hook guard
# Output: /verif/build/<variant>/libcimba.a and generated .inc files.
set -euo pipefail
V=${1:-rel}
REPO=${2:-${VERIF_REPO:-/repo}}
ROOT=$(cd "$(dirname "$0")/.." && pwd)
OUT=${VERIF_BUILD_OUT:-$ROOT/build/$V}
rm -rf "$OUT"; mkdir -p "$OUT/obj" "$OUT/gen"
COMMON="-std=c17 -D_POSIX_C_SOURCE=200809L -DNDEBUG -I$REPO/include -I$REPO/src -I$OUT/gen -Wno-pedantic"
case $V in
  rel) CC=gcc;   CFLAGS="-O3 -g -fno-semantic-interposition -ftls-model=initial-exec -DCIMBA_VERIF";;
  off) CC=gcc;   CFLAGS="-O3 -fno-semantic-interposition -ftls-model=initial-exec";;
  san) CC=clang; CFLAGS="-O1 -g -fno-omit-frame-pointer -DCIMBA_VERIF -fsanitize=address -fsanitize=signed-integer-overflow,shift,integer-divide-by-zero,float-cast-overflow,bounds,vla-bound,pointer-overflow -fno-sanitize-recover=all";;
  *) echo "unknown variant $V" >&2; exit 2;;
esac
# 1. code generators (ziggurat tables) - rebuilt so that codegen edits are seen
gcc -O2 -std=c17 -D_POSIX_C_SOURCE=200809L -I$REPO/include -I$REPO/src -I$REPO/codegen \
    $REPO/codegen/calc_exponential.c $REPO/codegen/calc_utils.c -o $OUT/gen/calc_exponential -lm &
gcc -O2 -std=c17 -D_POSIX_C_SOURCE=200809L -I$REPO/include -I$REPO/src -I$REPO/codegen \
    $REPO/codegen/calc_normal.c $REPO/codegen/calc_utils.c -o $OUT/gen/calc_normal -lm &
wait
$OUT/gen/calc_exponential > $OUT/gen/cmi_random_exp_zig.inc
$OUT/gen/calc_normal      > $OUT/gen/cmi_random_nor_zig.inc
# 2. library objects in parallel
pids=()
for f in $REPO/src/*.c $REPO/src/port/x86-64/linux/*.c; do
  o=$OUT/obj/$(basename ${f%.c}).o
  $CC $COMMON $CFLAGS -c $f -o $o & pids+=($!)
done
for f in $REPO/src/port/x86-64/linux/*.asm; do
  nasm -f elf64 -g $f -o $OUT/obj/$(basename ${f%.asm})_asm.o & pids+=($!)
done
rc=0; for p in "${pids[@]}"; do wait $p || rc=1; done
[ $rc = 0 ] || { echo "build.sh: compilation failed" >&2; exit 2; }
ar rcs $OUT/libcimba.a $OUT/obj/*.o
echo "built $OUT/libcimba.a ($V)"
