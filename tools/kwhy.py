#!/usr/bin/env python3
"""kwhy.py <trace> <tlc output> [rule substring] [max]: for each REJECT show the trace line and a few before it"""
import sys, re, json
tr = open(sys.argv[1]).readlines()
out = open(sys.argv[2]).read()
flt = sys.argv[3] if len(sys.argv) > 3 else ""
mx = int(sys.argv[4]) if len(sys.argv) > 4 else 3
n = 0
for m in re.finditer(r'<<\s*"REJECT",\s*(\d+),\s*"([^"]*)",\s*(\d+)\s*>>', out):
    line, rule, prog = int(m.group(1)), m.group(2), int(m.group(3))
    if flt not in rule: continue
    n += 1
    if n > mx: break
    print("=== line %d rule %s prog %d" % (line, rule, prog))
    ctx = []
    i = line - 1
    while i >= 0 and len(ctx) < 14:
        if '"e":"Prog"' in tr[i]: break
        if '"e":"Snap"' not in tr[i] or i == line - 1: ctx.append("%d: %s" % (i + 1, tr[i].rstrip()[:400]))
        i -= 1
    print("\n".join(reversed(ctx)))
