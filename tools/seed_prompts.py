#!/usr/bin/env python3
"""seed_prompts.py <root> [ids...]: create scratch worktrees <root>/<id> of /repo (HEAD) and the prompt files
<root>/prompts/<id>.txt handed to fresh sub-agents that seed a property-breaking change.  The prompt contains the
property text and the worktree path only - nothing about /verif."""
import json, os, subprocess, sys
root = sys.argv[1]; ids = [a for a in sys.argv[2:] if not a.startswith("--focus=")]
focus = ([a[len("--focus="):] for a in sys.argv[2:] if a.startswith("--focus=")] or
         ["Prefer a change site that is NOT the first one that comes to mind for this property: a secondary code path, a rarely taken branch, a clean-up or error path, an interaction between two modules."])[0]
props = {}
for l in open(os.path.join(os.path.dirname(__file__), "..", "properties.jsonl")):
    p = json.loads(l); props[p["id"]] = p
tmpl = '''You are helping to evaluate a verification framework for the C library "cimba" (a discrete-event simulation library: hashheap event queue, stackful coroutine processes, resources, RNG, statistics). Your job: craft ONE realistic, subtle source change ("seeded defect") to the library that BREAKS the semantic property below, while the library still compiles and its existing test suite still passes.

You have your own scratch git worktree of the library at {wt} (detached HEAD). Work ONLY inside {wt}. Never read, write or run anything under /repo or /verif (they are off-limits; your work must be independent of them).

PROPERTY {id}: {title}
Statement: {statement}
Quantified over: {qtext}
Code the property is anchored in: {files}

Requirements for the change:
- It modifies library sources only (src/, include/, codegen/, src/port/...), not tests, and is small (a few lines; at most ~30).
- The library must still compile, and the existing test suite must still pass with it.
- It must look like a plausible mistake or "optimisation" a maintainer could make (off-by-one, wrong comparison, missing re-check, dropped signal, reordered statements, stale pointer, wrong variable, missing cleanup, wrong tie-break...). No deliberately obfuscated or malicious code, no new debug output.
- It must need something SPECIFIC to manifest: a particular interleaving or same-instant tie, a fault/interrupt/timeout at a particular point, a multi-step sequence of operations, an unusual input or size threshold, or two cooperating sites that each look fine alone. It must NOT be something ordinary use or the existing tests expose at once.
- {focus}
- It must make the library violate the property as stated above (observable through the public API / internal API the property is anchored in), on at least one valid program (one that respects documented preconditions). Be aware the pristine library may already have quirks; your demonstration must PASS on the pristine tree and FAIL with your change, so pick a behaviour that is correct in the pristine tree.

Deliverables, all written into {wt}/seed_out/ :
1. patch.diff  - `git diff` of your source change (library sources only; produce it with `git -C {wt} diff -- src include codegen > seed_out/patch.diff`).
2. demo.c (or demo.sh + files) - a small standalone C program using the library that exits 0 when the property holds in the exercised scenario and exits non-zero (printing what went wrong) when it is violated. Include at the top a comment with the exact compile/run command.
3. meta.json - {{"property":"{id}","summary":"<one sentence: what was changed>","needs":"<what specific conditions are needed to manifest>","ran":["<commands you ran and their outcomes>"]}}

How to build and test (offline sandbox; gcc, meson, ninja, nasm are installed):
  cd {wt} && meson setup _build >/dev/null && meson compile -C _build && meson test -C _build
The suite has 15 tests; the test named `random` alone takes ~4 minutes, the other 14 together < 20 s. Run `meson test -C _build --no-rebuild <names>` to run a subset while iterating, but run the full suite at least once on your final change (you may run `random` in the background while doing other things) unless your change cannot possibly affect cmb_random.c/codegen, in which case say so in meta.json and run the other 14.
To build the demo against the built library, for example:
  gcc -O2 -D_POSIX_C_SOURCE=200809L -I{wt}/include -I{wt}/src -I{wt}/_build/codegen demo.c -o demo -L{wt}/_build/src -lcimba -lm -lpthread && LD_LIBRARY_PATH={wt}/_build/src ./demo
(Look at {wt}/test/*.c and tutorial/ for usage examples; `cmb_logger_flags_off(CMB_LOGGER_INFO)` silences the info log; the test programs show how to set up the event queue, processes etc. Note cimba.h does not include cmb_priorityqueue.h.)

Procedure: (1) read the anchored code, pick the change; (2) write the demo and confirm it exits 0 on the pristine tree; (3) apply the change, rebuild, confirm the test suite passes and the demo now fails; (4) write the deliverables. Finally leave the worktree WITH your change applied. Be efficient: this should take on the order of 30-60 tool calls, do not explore the rest of the repo more than needed. In your final message, report in <= 10 lines: what you changed, what is needed to trigger it, and the verified outcomes (tests pass? demo passes pristine / fails changed?).
'''
os.makedirs(os.path.join(root, "prompts"), exist_ok=True)
for id in ids:
    p = props[id]; wt = os.path.join(root, id)
    if not os.path.isdir(wt):
        subprocess.check_call(["git", "-C", "/repo", "worktree", "add", "-q", "--detach", wt, "HEAD"])
    s = tmpl.format(focus=focus, wt=wt, id=id, title=p["title"], statement=p["statement"], qtext=p["quantifier"]["text"], files=", ".join(p["anchors"]["files"]))
    open(os.path.join(root, "prompts", id + ".txt"), "w").write(s)
print("ok", ids)
