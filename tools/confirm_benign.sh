#!/bin/bash
# Confirm a property-PRESERVING change produced in scratch worktree <root>/<name>: with the change the library builds, the
# test suite passes and the demonstration (which checks the property) passes; without it the demonstration passes too.
# Keeps it as /verif/seeded/benign/<dest>/ (patch.diff, demo.c, meta.json).   usage: confirm_benign.sh <name>   (BENROOT, DESTNAME)
set -u
N=$1; WT=${BENROOT:-/tmp/benign}/$N; SO=$WT/seed_out; DEST=${DESTNAME:-$N}
[ -f $SO/patch.diff ] || { echo "no patch"; exit 2; }
cd $WT
git checkout -q -- . 2>/dev/null
git apply $SO/patch.diff || { echo "patch does not apply"; exit 2; }
[ -d _build ] || meson setup _build >/dev/null
meson compile -C _build >/dev/null 2>&1 || { echo "BUILD FAILED with change"; exit 1; }
TESTS="buffer cimba condition coroutine data event hashheap logger mempool objectqueue priorityqueue process resource resourcepool"
if grep -q "cmb_random\|codegen" $SO/patch.diff; then TESTS=""; fi
meson test -C _build --no-rebuild $TESTS > $SO/confirm_tests.log 2>&1; trc=$?
bd() { gcc -O2 -D_POSIX_C_SOURCE=200809L -I$WT/include -I$WT/src -I$WT/_build/codegen $SO/demo.c -o $SO/demo -L$WT/_build/src -lcimba -lm -lpthread 2> $SO/confirm_cc.log; }
bd || { echo "demo does not compile"; exit 1; }
LD_LIBRARY_PATH=$WT/_build/src timeout 600 $SO/demo > $SO/confirm_changed.log 2>&1; c=$?
git apply -R $SO/patch.diff; meson compile -C _build >/dev/null 2>&1; bd
LD_LIBRARY_PATH=$WT/_build/src timeout 600 $SO/demo > $SO/confirm_pristine.log 2>&1; p=$?
echo "tests_rc=$trc demo_changed_rc=$c demo_pristine_rc=$p"
if [ $trc = 0 ] && [ $c = 0 ] && [ $p = 0 ]; then
  D=/verif/seeded/benign/$DEST; mkdir -p $D; cp $SO/patch.diff $SO/meta.json $SO/demo.c $D/ 2>/dev/null; echo "CONFIRMED benign $N"
else echo "NOT CONFIRMED $N"; fi
