"""C02 - the hashheap behaves as a keyed priority queue under any history.

1. TLC model-checks spec/HashHeap.tla (implementation-shaped heap + hash map +
   tombstones + growth) against WellFormed and the refinement to KeyedPQ.tla,
   for several orderings / key regimes / hash regimes.
2. One shortest history per distinct reachable model state is exported by TLC
   and replayed on the real cmi_hashheap (harness/hh_replay script ...).
3. Seeded random long histories (growth across several doublings, colliding
   caller keys, re-insertion) are run on the real structure.
4. Every recorded trace is validated by TLC against spec/KeyedPQTrace.tla.
"""
import os, re, json, time
import vlib

PID = "C02"

CFG_TMPL = """SPECIFICATION Spec
CONSTANTS
  Ord = "%(ord)s"
  HashMode = "%(hash)s"
  Exp0 = 1
  MaxExp = %(maxexp)d
  CallerKeys = %(ckeys)s
  AutoKeys = %(auto)s
  DVals = %(dvals)s
  IVals = %(ivals)s
  PVals = %(pvals)s
  MaxOps = 1000
  MaxCtr = %(maxctr)d
INVARIANTS WellFormed QueriesAgree %(export)s
PROPERTY Refinement
CONSTRAINT Constr
VIEW View
CHECK_DEADLOCK FALSE
"""

# name, params, export histories?
QUICK_CFGS = [
    ("event_auto", dict(ord="event", hash="mod", maxexp=3, ckeys="{}", auto="TRUE", dvals="{0,1,2}", ivals="{0}", pvals="{0}", maxctr=5), True),
    ("guard_collide", dict(ord="guard", hash="zero", maxexp=2, ckeys="{101,102,103}", auto="FALSE", dvals="{0,1}", ivals="{0,1}", pvals="{0}", maxctr=4), True),
    ("pq_mixed", dict(ord="pq", hash="mod", maxexp=2, ckeys="{101,105}", auto="TRUE", dvals="{0}", ivals="{0,1}", pvals="{0,1}", maxctr=4), True),
]
THOROUGH_CFGS = [
    ("event_auto6", dict(ord="event", hash="mod", maxexp=3, ckeys="{}", auto="TRUE", dvals="{0,1,2}", ivals="{0}", pvals="{0}", maxctr=6), True),
    ("event_rich", dict(ord="event", hash="mod", maxexp=2, ckeys="{}", auto="TRUE", dvals="{0,1}", ivals="{0,1}", pvals="{0,1}", maxctr=5), True),
    ("guard_collide5", dict(ord="guard", hash="zero", maxexp=3, ckeys="{101,102,103,104,105}", auto="FALSE", dvals="{0,1}", ivals="{0,1}", pvals="{0}", maxctr=5), True),
    ("holder_collide", dict(ord="holder", hash="zero", maxexp=2, ckeys="{101,102,103,104}", auto="FALSE", dvals="{0}", ivals="{0,1,2}", pvals="{0}", maxctr=5), True),
    ("pq_mixed5", dict(ord="pq", hash="mod", maxexp=3, ckeys="{101,105,109}", auto="TRUE", dvals="{0}", ivals="{0,1}", pvals="{0,1}", maxctr=5), True),
    ("default_ties", dict(ord="default", hash="mod", maxexp=3, ckeys="{}", auto="TRUE", dvals="{0,1}", ivals="{0}", pvals="{0,1}", maxctr=6), True),
]


def parse_hists(out):
    txt = re.sub(r"\s+", "", out)
    hists = []
    for chunk in txt.split('<<"H",')[1:]:
        end = chunk.find(">>>>")
        body = chunk if end < 0 else chunk[:end]
        nums = [int(x) for x in re.findall(r"-?\d+", body)]
        hists.append([tuple(nums[i:i + 5]) for i in range(0, len(nums) - len(nums) % 5, 5)])
    return hists


def hist_to_script(h, ordname, exp0=1):
    lines = ["init %s %d" % (ordname, exp0)]
    for (c, key, p1, d, i) in h:
        if c == 1:
            lines.append("enq %d %d 0 0 0 %d %d" % (key, p1, d, i))
        elif c == 2:
            lines.append("deq")
        elif c == 3:
            lines.append("rem %d" % key)
        elif c == 4:
            lines.append("repri %d %d %d" % (key, d, i))
        elif c == 5:
            lines.append("pcancel %d -1 -1 -1" % p1)
        elif c == 6:
            lines.append("clear")
        elif c == 7:
            lines.append("reset")
    # observe the order of everything that is left
    lines += ["peek"] + ["deq"] * 9
    return lines


def run(tier, replay=None):
    v = vlib.Verdict(PID, "model_checking", tier)
    v.assumptions = [
        "the orderings of spec/KeyedPQ.tla (Before) are the intended configured orderings; a configured comparator that "
        "does not coincide with its named ordering on a 27x27 tag grid is reported as drift and not used as C02 oracle",
        "TLC explores HashHeap.tla with small geometry (initial heap size 2, at most 2-3 doublings); the real structure is "
        "driven across 8->16->32->64 by the random histories",
        "hash function in the model: key mod table size, or constant 0 (everything collides); the real Fibonacci hash is "
        "exercised with caller keys chosen to collide at exponents 1..3",
    ]
    out = vlib.outdir(PID)
    lib = vlib.build_lib(PID, "rel")
    exe = vlib.cc_harness(PID, "rel", "hh_replay")
    variants = [("rel", exe)]
    if tier == "thorough":
        vlib.build_lib(PID, "san")
        variants.append(("san", vlib.cc_harness(PID, "san", "hh_replay")))

    traces = []   # (path, description)
    if replay:
        tp = os.path.join(out, "replay.ndjson")
        rc, o = vlib.run([exe, "script", replay, tp], timeout=300)
        traces.append((tp, "replay of " + replay, replay))
    else:
        cfgs = QUICK_CFGS + (THOROUGH_CFGS if tier == "thorough" else [])
        nh_total = 0
        for name, par, export in cfgs:
            par = dict(par)
            par["export"] = "ExportHist" if export else ""
            cfgp = os.path.join(vlib.SPEC, "_gen_HashHeapMC_%s.cfg" % name)
            with open(cfgp, "w") as f:
                f.write(CFG_TMPL % par)
            r = vlib.tlc(PID, "HashHeap", os.path.basename(cfgp), timeout=3000, tag="mc_" + name)
            os.remove(cfgp)
            if r.error:
                raise vlib.MachineryError("HashHeap model checking (%s): %s" % (name, r.error))
            v.add_tlc(r, "HashHeap.tla %s: WellFormed, QueriesAgree, Refinement to KeyedPQ" % name)
            if r.violated:
                # the design model itself is wrong: this is about the model, not the code
                raise vlib.MachineryError("HashHeap model violates %s in config %s (model defect):\n%s" % (r.violated, name, r.out[-3000:]))
            hists = parse_hists(r.out)
            if export and len(hists) != r.distinct:
                v.notes.append("config %s: exported %d histories for %d distinct states" % (name, len(hists), r.distinct))
            step = 1
            cap = 6000 if tier == "quick" else 25000      # thorough: a seed-dependent stride too (the full sets reach tens of GB of trace)
            if len(hists) > cap:
                step = len(hists) // cap + 1
            sel = hists[vlib.seed() % step::step] if step > 1 else hists
            sp = os.path.join(out, "hist_%s.txt" % name)
            with open(sp, "w") as f:
                for h in sel:
                    f.write("\n".join(hist_to_script(h, par["ord"])) + "\n")
            nh_total += len(sel)
            if sel:
                v.sample({"tlc_history": name, "ops": hist_to_script(sel[len(sel) // 2], par["ord"])[:12]})
            for vn, ex in variants:
                tp = os.path.join(out, "trace_%s_%s.ndjson" % (name, vn))
                rc, o = vlib.run([ex, "script", sp, tp], timeout=1200)
                if rc not in (0, 3):
                    raise vlib.MachineryError("hh_replay script failed rc=%d: %s" % (rc, o[-2000:]))
                traces.append((tp, "TLC-exported histories %s on %s build (%d histories)" % (name, vn, len(sel)), sp))
                if rc == 3 or "ERROR: AddressSanitizer" in o or "runtime error" in o:
                    v.notes.append("harness crashed / sanitizer report on %s/%s: %s" % (name, vn, o[-1500:]))
        v.cov["tlc_histories_replayed"] = nh_total
        # random long histories
        nh, mo = (400, 60) if tier == "quick" else (3000, 120)
        for vn, ex in variants:
            tp = os.path.join(out, "trace_random_%s.ndjson" % vn)
            rc, o = vlib.run([ex, "gen", str(vlib.seed()), str(nh if vn == "rel" else nh // 4), str(mo), tp], timeout=1200)
            if rc not in (0, 3):
                raise vlib.MachineryError("hh_replay gen failed rc=%d: %s" % (rc, o[-2000:]))
            traces.append((tp, "seeded random histories on %s build" % vn, None))
            if rc == 3 or "ERROR: AddressSanitizer" in o or "runtime error" in o:
                v.notes.append("harness crashed / sanitizer report on random/%s: %s" % (vn, o[-1500:]))

    nhist = 0
    nontrivial = set()
    for tp, desc, src in traces:
        with open(tp) as f:
            first = f.readline()
            try:
                meta = json.loads(first)
                for k, ok in meta.get("usable", {}).items():
                    if not ok:
                        msg = "DRIFT: configured '%s' comparator does not coincide with its named ordering; not used as C02 oracle" % k
                        if msg not in v.notes:
                            v.notes.append(msg)
                            print(msg)
            except Exception:
                pass
            cur = []
            for line in f:
                if '"op":"init"' in line:
                    nhist += 1
                    if len(cur) > 3:
                        nontrivial.add(hash(tuple(cur)))
                    cur = []
                else:
                    cur.append(line[:60])
        # the sanitizer build replays the same scripts: when its trace is byte-identical to the release build's (the rule), the
        # verdict on that one stands for both; it is validated on its own only if it differs
        twin = tp.replace("_san.ndjson", "_rel.ndjson")
        if tp.endswith("_san.ndjson") and twin != tp and os.path.exists(twin) and src is not None:
            import filecmp
            if filecmp.cmp(tp, twin, shallow=False):
                v.notes.append("%s: trace identical to the release build's, verdict shared" % desc) if len(v.notes) < 12 else None
                continue
        tv = vlib.validate_trace(PID, "KeyedPQTrace", tp, tag="tv_" + os.path.basename(tp), timeout=3000)
        v.add_tlc(tv.tlc, "KeyedPQTrace over " + desc)
        for rj in tv.rejects:
            if rj["rule"].startswith("harness-") or rj["rule"] == "unknown-op":
                raise vlib.MachineryError("trace spec reports harness problem: %s" % rj)
            hist = vlib.extract_history(tp, rj["line"])
            rp = vlib.save_replay(PID, "viol_%s_%d.ndjson" % (os.path.basename(tp), rj["line"]), "".join(hist))
            v.violation("C02|" + rj["rule"], rp, "%s: line %d of %s %s" % (rj["rule"], rj["line"], tp, rj["detail"][:300]))
    v.cov["traces_validated_against_impl"] = nhist
    v.cov["evaluations"] = nhist
    v.cov["distinct_nontrivial"] = len(nontrivial)
    v.cov["rule"] = ("histories = operation sequences on one hashheap; TLC-exported ones are one shortest history per distinct "
                     "reachable model state, random ones are seeded; non-trivial = more than 3 operations, distinct by content")
    v.cov["exhaustive"] = False
    return v.finish()
