"""C01 - events run exactly once in (time, priority, FIFO) order; clock monotone; queries agree.

1. TLC model-checks spec/EventQueue.tla: all histories over a bounded alphabet, incl. operations
   issued from inside running actions; invariants RunsOnce, CancelledNeverRuns, Accounted,
   NeverEarly and the action properties ClockMonotone, OnlyExecMovesClock.
2. Seeded histories are run against the real cmb_event_* API by harness/evq_replay (operations
   from the dispatcher context and from inside event actions; time/priority ties; extreme
   priorities and time scales; populations across the 8/16/32/64 growth thresholds).
3. Every recorded trace is validated by TLC against spec/EventQueueTrace.tla.
4. Events that processes wait for: the kernel model's configuration wev2 (TLC) and programs with
   cmb_process_wait_event run on the real kernel; the monitor rules of C01 (clock never goes back,
   no cancelled or finished event executes) are folded over their traces.
"""
import os, json
import vlib

PID = "C01"

MC = """SPECIFICATION Spec
CONSTANTS
  Times = %(times)s
  Prios = %(prios)s
  Acts = %(acts)s
  Subjs = %(subjs)s
  MaxH = %(maxh)d
  MaxBody = %(maxbody)d
INVARIANTS RunsOnce CancelledNeverRuns Accounted NeverEarly
PROPERTIES ClockMonotone OnlyExecMovesClock
CHECK_DEADLOCK FALSE
"""
QUICK = [("small", dict(times="{0,1,2}", prios="{0,1}", acts="{0}", subjs="{0,1}", maxh=4, maxbody=2))]
THOROUGH = [("h5", dict(times="{0,1,2}", prios="{0,1}", acts="{0,1}", subjs="{0,1}", maxh=5, maxbody=2)),
            ("t4", dict(times="{0,1,2,3}", prios="{0,1,2}", acts="{0}", subjs="{0}", maxh=4, maxbody=3))]


def run(tier, replay=None):
    v = vlib.Verdict(PID, "model_checking", tier)
    v.assumptions = [
        "times and priorities are logged as integer codes; the real values are monotone images (four time scales incl. "
        "+-1e100 and 2^-20 steps at 1e6, priorities incl. INT64_MIN/MAX), so order/equality structure is preserved",
        "the handle of the dispatched event is observed by hook H1 (Exec) inside cmb_event_execute_next",
        "the current-event query is only demanded to name the running event while its action runs (as the property states)",
        "a library abort inside a history ends that history; it is reported by the C10 check, not here",
    ]
    out = vlib.outdir(PID)
    vlib.build_lib(PID, "rel")
    variants = [("rel", vlib.cc_harness(PID, "rel", "evq_replay"))]
    if tier == "thorough":
        vlib.build_lib(PID, "san")
        variants.append(("san", vlib.cc_harness(PID, "san", "evq_replay")))
    traces = []
    kernel_replay = None
    if replay:
        with open(replay) as f:
            if f.read(5).startswith("prog"):
                kernel_replay, replay = replay, None
    kstats = (0, 0, 0)
    if kernel_replay or not replay:
        import checks.kcommon as kcommon
        kstats = kcommon.kernel_part(PID, tier, kernel_replay, v)
        v.cov["kernel_programs"] = {"programs": kstats[0], "non_trivial": kstats[1], "crashed": kstats[2]}
    if kernel_replay:
        pass
    elif replay:
        tp = os.path.join(out, "replay.ndjson")
        rc, o = vlib.run([variants[0][1], "script", replay, tp], timeout=300)
        traces.append((tp, "replay of " + replay))
    else:
        for name, par in QUICK + (THOROUGH if tier == "thorough" else []):
            cfgp = os.path.join(vlib.SPEC, "_gen_EventQueueMC_%s.cfg" % name)
            open(cfgp, "w").write(MC % par)
            r = vlib.tlc(PID, "EventQueue", os.path.basename(cfgp), timeout=3000, tag="mc_" + name)
            os.remove(cfgp)
            if r.error:
                raise vlib.MachineryError("EventQueue model checking (%s): %s" % (name, r.error))
            v.add_tlc(r, "EventQueue.tla %s: RunsOnce, CancelledNeverRuns, Accounted, NeverEarly, ClockMonotone, OnlyExecMovesClock" % name)
            if r.violated:
                raise vlib.MachineryError("EventQueue model violates %s (%s): model defect\n%s" % (r.violated, name, r.out[-3000:]))
        nh, mo = (600, 40) if tier == "quick" else (6000, 60)
        for vn, ex in variants:
            tp = os.path.join(out, "trace_random_%s.ndjson" % vn)
            rc, o = vlib.run([ex, "gen", str(vlib.seed()), str(nh if vn == "rel" else nh // 5), str(mo), tp], timeout=2400)
            if rc not in (0, 3):
                raise vlib.MachineryError("evq_replay gen failed rc=%d: %s" % (rc, o[-2000:]))
            traces.append((tp, "seeded random histories on %s build" % vn))
            if "ERROR: AddressSanitizer" in o or "runtime error:" in o:
                v.notes.append("sanitizer report (see C10) on %s: %s" % (vn, o[-1200:]))
    nhist, crashes, nontrivial = 0, 0, set()
    for tp, desc in traces:
        cur = []
        with open(tp) as f:
            for line in f:
                if line.startswith('{"op":"init"'):
                    nhist += 1
                    if sum(1 for x in cur if x.startswith('{"op":"exec"')) >= 2:
                        nontrivial.add(hash(tuple(cur)))
                    if nhist % 97 == 1 and cur:
                        v.sample([x.strip() for x in cur[:8]])
                    cur = []
                else:
                    cur.append(line[:70])
                    if line.startswith('{"op":"crash"'):
                        crashes += 1
        tv = vlib.validate_trace(PID, "EventQueueTrace", tp, tag="tv_" + os.path.basename(tp))
        v.add_tlc(tv.tlc, "EventQueueTrace over " + desc)
        for rj in tv.rejects:
            if rj["rule"].startswith("harness-"):
                raise vlib.MachineryError("trace spec reports harness problem: %s" % rj)
            hist = vlib.extract_history(tp, rj["line"])
            rp = vlib.save_replay(PID, "viol_%s_%d.ndjson" % (os.path.basename(tp), rj["line"]), "".join(hist))
            v.violation("C01|" + rj["rule"] + "|" + rj["op"], rp, "line %d of %s %s" % (rj["line"], tp, rj["detail"][:240]))
    if crashes:
        v.notes.append("%d histories ended in a library abort/crash (reported by the C10 check)" % crashes)
    v.cov["traces_validated_against_impl"] = nhist + kstats[0]
    v.cov["evaluations"] = nhist + kstats[0]
    v.cov["distinct_nontrivial"] = len(nontrivial)
    v.cov["crashed_histories"] = crashes
    v.cov["rule"] = ("one history = one event queue lifetime with seeded random operations from dispatcher context and from inside "
                     "event actions; non-trivial = at least two events dispatched; distinct by content")
    return v.finish()
