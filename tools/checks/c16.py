"""C16 - every sampler stays inside its support and follows its stated distribution.

1. TLC model-checks the design models of spec/SamplersMC.tla (definitions in spec/Samplers.tla):
   loaded dice by inversion over a family of probability vectors (grid vectors and vectors whose sum
   is off by up to the accepted tolerance) and every cell of the unit interval; the Vose alias-table
   construction with every pairing order; an alias table followed by a position inside the chosen
   region (the shape of the ziggurat fall-backs); dice; geometric / binomial / negative binomial as
   Bernoulli trial processes incl. p = 1.  Two negative controls must be refuted: loaded dice without
   a rule for u beyond the total, and a position taken from the variate of the keep-or-alias decision.
2. TLC checks that the fit cases of spec/SamplersFit.tla (sampler x admissible parameter set, with the
   quantile edges of the stated distribution) are admissible and well formed and exports them (support
   bounds from Samplers!Support, bins from Samplers!DiscBins) together with the targets of the steered
   draws (cells next to every decision boundary of the design models).
3. harness/smp_replay draws from the real samplers: N seeded draws per case, classified against the
   support bounds and tallied into the bins; the alias tables the library builds; single draws whose
   uniform variate is steered (twin seeding) into the target cells.
4. TLC validates the recorded traces against spec/SamplersTrace.tla: support classes, zero-probability
   values, the count of every bin, of every aligned union of 2^k adjacent bins and of the empirical
   distribution function at every edge against the K-sigma law Samplers!FreqOK, alias tables against
   the stated probabilities.  Steered draws that leave the design model but not the property are DRIFT.

--replay <plan> re-runs the plan lines of a reported violation (same seed) and judges them again.
"""
import os, json, re, subprocess, time, concurrent.futures
import vlib

PID = "C16"

MC_CFG = """SPECIFICATION Spec
CONSTANTS
  Model = "%(model)s"
  Variant = "%(variant)s"
  NMax = %(nmax)d
  Den = %(den)d
  Step = %(step)d
  DeltaMags = %(deltas)s
  MaxTrials = %(maxtrials)d
INVARIANTS %(inv)s
CHECK_DEADLOCK FALSE
"""

INVS = {
    "loaded": "LoadedInSupport LoadedPositive LoadedExact",
    "vose": "VoseConserved VoseNoSmallLeft VoseTableOK",
    "aliaspos": "APUniform APMarginal",
    "dice": "DiceInRange DiceExact",
    "trials": "TrialsRange TrialsPmfAtOne",
    "cases": "CasesWellFormed CaseIdsDistinct EverySamplerHasACase FreqLawSane",
}

TIERS = {
    # geometry of the vector families, draws per case
    "quick": dict(loaded=dict(nmax=3, den=2000, step=500, deltas="{1, 2}"),
                  vose=dict(nmax=4, den=40, step=4, deltas="{}"),
                  vose_tol=dict(nmax=3, den=2000, step=500, deltas="{1, 2}"),
                  cases=dict(nmax=3, den=2000, step=500, deltas="{1}"),
                  aliaspos=dict(nmax=3, den=12, step=3, deltas="{}"),
                  n_big=1 << 27, t_big=8, n_cont=1 << 21, n_disc=1 << 20, maxtrials=7),
    "thorough": dict(loaded=dict(nmax=4, den=2000, step=250, deltas="{1, 2}"),
                     vose=dict(nmax=5, den=40, step=4, deltas="{}"),
                     vose_tol=dict(nmax=4, den=2000, step=250, deltas="{1, 2}"),
                     cases=dict(nmax=4, den=2000, step=250, deltas="{1}"),
                     aliaspos=dict(nmax=4, den=12, step=2, deltas="{}"),
                     n_big=1 << 30, t_big=16, n_cont=1 << 26, n_disc=1 << 25, maxtrials=10),
}


def run_mc(v, name, model, variant, geo, maxtrials, env=None, expect_violation=False, timeout=2400, workers=None, heap="3g"):
    """run one design model; returns a closure that registers the result with the verdict (call it in the main thread)"""
    par = dict(model=model, variant=variant, inv=INVS[model], maxtrials=maxtrials,
               nmax=geo["nmax"], den=geo["den"], step=geo["step"], deltas=geo["deltas"])
    cfgp = os.path.join(vlib.SPEC, "_gen_SamplersMC_%s.cfg" % name)
    with open(cfgp, "w") as f:
        f.write(MC_CFG % par)
    try:
        r = vlib.tlc(PID, "SamplersMC", os.path.basename(cfgp), timeout=timeout, tag="mc_" + name, env=env, extra=["-noGenerateSpecTE"],
                     workers=workers, heap=heap)
    finally:
        os.remove(cfgp)
    what = "SamplersMC.tla %s/%s NMax=%d Den=%d Step=%d Deltas=+-%s: %s" % (
        model, variant, geo["nmax"], geo["den"], geo["step"], geo["deltas"], INVS[model])

    def register():
        if r.error:
            raise vlib.MachineryError("SamplersMC (%s): %s" % (name, r.error))
        if expect_violation:
            v.add_tlc(r, what + " [negative control: must be refuted] -> " + (r.violated or "NOT refuted"))
            if not r.violated:
                raise vlib.MachineryError("negative control %s was not refuted: the invariants have no teeth" % name)
        else:
            v.add_tlc(r, what)
            if r.violated:
                raise vlib.MachineryError("design model %s violates %s (model defect)\n%s" % (name, r.violated, r.out[-3000:]))
        return r
    return register


def rat(x):
    return "%d %d" % (x[0], x[1])


def fit_plan_line(c, tier_par):
    if c["big"]:
        n, th = tier_par["n_big"], tier_par["t_big"]
    elif c["kind"] == "cont":
        n, th = tier_par["n_cont"], 1
    else:
        n, th = tier_par["n_disc"], 1
    t = ["case", str(c["idx"]), c["id"], c["s"], "kind", c["kind"], "N", str(n), "threads", str(th)]
    t += ["par", str(len(c["par"]))] + [rat(x) for x in c["par"]]
    t += ["v1", str(len(c["v1"]))] + [rat(x) for x in c["v1"]]
    t += ["v2", str(len(c["v2"]))] + [rat(x) for x in c["v2"]]
    t += ["lo", str(c["lo"][0]), rat(c["lo"][1]), "hi", str(c["hi"][0]), rat(c["hi"][1])]
    if c["kind"] == "cont":
        t += ["edges", str(c["org"]), str(len(c["edges"]))] + ["%d %d %d" % (e[0], e[1], e[2]) for e in c["edges"]]
    else:
        t += ["bins", str(len(c["bins"]))] + ["%d %d" % (b[0], b[1]) for b in c["bins"]]
    if c["s"] == "alias":
        t += ["qb", str(c["qb"])]
    return " ".join(t)


def rule_plan_line(i, r):
    t = ["rule", str(i), "r%d" % i, r["s"], "ub", "16", "target", str(r["tlo"]), str(r["thi"]), str(r["ud"])]
    if r["s"] in ("loaded_dice", "alias"):
        t += ["v2", str(len(r["k"]))] + ["%d %d" % (x, r["d"]) for x in r["k"]]
        t += ["kk", str(len(r["k"]))] + [str(x) for x in r["k"]] + ["kd", str(r["d"])]
    elif r["s"] == "dice":
        t += ["ab", str(r["a"]), str(r["b"])]
    elif r["s"] == "bernoulli":
        t += ["par", "1", rat(r["p"]), "pq", str(r["p"][0]), str(r["p"][1])]
    return " ".join(t)


def run_harness_parallel(exe, mode, lines, out_path, seed, nproc, weight=None, timeout=3000):
    """split the plan into nproc chunks (balanced by weight), run them concurrently, concatenate the traces"""
    out = os.path.dirname(out_path)
    order = sorted(range(len(lines)), key=lambda i: -(weight[i] if weight else 1))
    chunks = [[] for _ in range(max(1, min(nproc, len(lines))))]
    load = [0] * len(chunks)
    for i in order:
        j = load.index(min(load))
        chunks[j].append(i)
        load[j] += weight[i] if weight else 1
    procs = []
    for j, ch in enumerate(chunks):
        pp = out_path + ".plan%d" % j
        with open(pp, "w") as f:
            f.write("# mode %s\n# seed %d\n" % (mode, seed))
            for i in sorted(ch):
                f.write(lines[i] + "\n")
        tp = out_path + ".part%d" % j
        e = dict(os.environ)
        e.setdefault("ASAN_OPTIONS", "detect_leaks=0:abort_on_error=0:exitcode=66")
        procs.append((subprocess.Popen([exe, mode, pp, tp, str(seed)], stdout=subprocess.PIPE, stderr=subprocess.STDOUT, env=e), pp, tp))
    t0 = time.time()
    texts = []
    crashed = False
    for p, pp, tp in procs:
        try:
            o, _ = p.communicate(timeout=max(10, timeout - (time.time() - t0)))
        except subprocess.TimeoutExpired:
            p.kill()
            raise vlib.MachineryError("smp_replay %s timed out" % mode)
        if p.returncode not in (0, 3):
            raise vlib.MachineryError("smp_replay %s failed rc=%s: %s" % (mode, p.returncode, o.decode("utf8", "replace")[-2000:]))
        crashed = crashed or p.returncode == 3
        texts.append(open(tp).read())
        os.remove(tp)
        os.remove(pp)
    with open(out_path, "w") as f:
        f.write("".join(texts))
    return crashed


_RE_HEAD = re.compile(r'<<\s*"(REJECT|DRIFT)",\s*(\d+),\s*"([^"]*)"\s*,')


def parse_prints(out):
    """the <<"REJECT"|"DRIFT", line, rule, diag>> tuples TLC printed (they may be pretty-printed over several lines
    and interleaved with progress lines); returns [(kind, line, rule, diag text)]"""
    res = []
    for m in _RE_HEAD.finditer(out):
        i, depth, instr = m.start(), 0, False
        j = i
        while j < len(out):
            ch = out[j]
            if instr:
                if ch == '"':
                    instr = False
            elif ch == '"':
                instr = True
            elif out.startswith("<<", j):
                depth += 1
                j += 1
            elif out.startswith(">>", j):
                depth -= 1
                j += 1
                if depth == 0:
                    break
            j += 1
        diag = re.sub(r"\s+", " ", out[m.end():j - 1]).strip()
        res.append((m.group(1), int(m.group(2)), m.group(3), diag))
    return res


def judge(v, trace, tag, plan_of_line, mode, seed, tv=None):
    """validate a trace; turn REJECTs into violations with a replayable plan"""
    if tv is None:
        tv = vlib.validate_trace(PID, "SamplersTrace", trace, tag=tag, heap="8g")
    with open(trace) as f:
        tl = f.readlines()
    prints = parse_prints(tv.tlc.out)
    drifts = {}
    for kind, ln, rule, diag in prints:
        if kind == "DRIFT":
            drifts[rule] = drifts.get(rule, 0) + 1
    for rule, cnt in sorted(drifts.items()):
        msg = "DRIFT: %d steered draws do not follow the design model (%s); the property itself held" % (cnt, rule)
        v.notes.append(msg)
        print(msg)
    v.cov["drift"] = v.cov.get("drift", 0) + sum(drifts.values())
    groups = {}
    for kind, ln, rule, diag in prints:
        if kind != "REJECT":
            continue
        if rule.startswith("harness-"):
            raise vlib.MachineryError("trace spec reports a harness problem: line %d %s %s" % (ln, rule, diag[:400]))
        try:
            e = json.loads(tl[ln - 1])
        except Exception:
            e = {}
        sig = "C16|%s|%s" % (rule, e.get("s", "?"))
        groups.setdefault(sig, []).append((e, diag))
    for sig, items in sorted(groups.items()):
        # one replay file per signature: the plan lines of (at most 20 of) the rejected cases
        plan = [plan_of_line(e) for e, _ in items[:20]]
        name = re.sub(r"[^A-Za-z0-9_.-]", "_", "viol_%s_%s.plan" % (mode, sig[4:]))
        rp = vlib.save_replay(PID, name, "# mode %s\n# seed %d\n%s\n" % (mode, seed, "\n".join(x for x in plan if x)))
        e, diag = items[0]
        v.violation(sig, rp, "%d rejected case(s); first: %s %s" % (len(items), e.get("id", "?"), diag[:520]))
    return tv


def run(tier, replay=None):
    v = vlib.Verdict(PID, "model_checking", tier)
    T = TIERS[tier]
    seed = vlib.seed()
    out = vlib.outdir(PID)
    v.assumptions = [
        "the harness passes each rational parameter num/den of the specification as the double (double)num/(double)den and classifies "
        "variates against support bounds computed the same way",
        "the quantile edges of spec/SamplersFit.tla (generated by tools/c16_tables.py with double precision numerics, 9 significant digits) "
        "are the k/B quantiles of the stated distributions",
        "frequency law: a bin count may deviate from N p by K sqrt(N p (1-p)) + K^2/3 with K = 7 (false alarm probability per tested "
        "count < 5e-11 by Bernstein's inequality); smaller distortions than that are not detected at the N of the tier",
        "parameters are of moderate magnitude (1e-3 .. 1e6); overflow-range parameters are not explored",
        "draws are made with the library's own generator seeded through cmb_random_initialize (VERIF_SEED)",
    ]
    lib = vlib.build_lib(PID, "rel")
    exe = vlib.cc_harness(PID, "rel", "smp_replay")

    if replay:
        head = open(replay).read().split("\n")
        mode = "fit"
        rseed = seed
        for h in head:
            if h.startswith("# mode "):
                mode = h.split()[2]
            if h.startswith("# seed "):
                rseed = int(h.split()[2])
        tp = os.path.join(out, "replay.ndjson")
        rc, o = vlib.run([exe, mode, replay, tp, str(rseed)], timeout=3000)
        if rc not in (0, 3):
            raise vlib.MachineryError("smp_replay failed rc=%d %s" % (rc, o[-1500:]))
        plan_lines = {}
        for h in head:
            w = h.split()
            if len(w) > 2 and w[0] in ("case", "rule"):
                plan_lines[int(w[1])] = h
        tv = judge(v, tp, "tv_replay", lambda e: plan_lines.get(e.get("case"), ""), mode, rseed)
        v.add_tlc(tv.tlc, "SamplersTrace over the replay of " + replay)
        v.cov["traces_validated_against_impl"] = tv.lines
        v.cov["evaluations"] = tv.lines
        v.cov["distinct_nontrivial"] = tv.lines
        v.cov["rule"] = "replay of a saved plan"
        return v.finish()

    # 1. design models, 2. cases: well-formedness + export  (independent TLC runs, started together)
    exp = os.path.join(out, "export.json")
    if os.path.exists(exp):
        os.remove(exp)
    mt = T["maxtrials"]
    jobs = [
        ("loaded", "loaded", "intended", T["loaded"], dict(heap="8g")),
        ("loaded_fallthrough", "loaded", "fallthrough", T["loaded"], dict(expect_violation=True, heap="8g")),
        ("vose", "vose", "intended", T["vose"], {}),
        ("vose_tol", "vose", "intended", T["vose_tol"], dict(workers=4)),
        ("aliaspos", "aliaspos", "intended", T["aliaspos"], dict(workers=4)),
        ("aliaspos_reuse", "aliaspos", "reuse", T["aliaspos"], dict(expect_violation=True, workers=2)),
        ("dice", "dice", "intended", T["loaded"], dict(workers=2)),
        ("trials", "trials", "intended", T["loaded"], dict(workers=2)),
        ("cases", "cases", "intended", T["cases"], dict(env={"C16EXPORT": exp}, workers=2)),
    ]
    ex = concurrent.futures.ThreadPoolExecutor(max_workers=len(jobs))
    futs = [ex.submit(run_mc, v, n, m, va, geo, mt, **kw) for (n, m, va, geo, kw) in jobs]
    try:
        futs[-1].result()()          # the cases run: registers itself, raises if the cases are not well formed
        if not os.path.exists(exp):
            raise vlib.MachineryError("TLC did not export the cases")
        doc = json.load(open(exp))
        fit = sorted(doc["fit"], key=lambda c: c["idx"])
        rules = sorted(doc["rules"], key=lambda r: (r["s"], r["k"], r["a"], r["b"], r["p"], r["tlo"]))
        rc, o = vlib.run(["python3", os.path.join(vlib.ROOT, "tools", "c16_tables.py"), "--check"], timeout=300)
        if rc != 0:
            v.notes.append("spec/SamplersFit.tla differs from what tools/c16_tables.py generates now")

        # 3. the real samplers (while the larger design models are still being checked)
        fit_lines = [fit_plan_line(c, T) for c in fit]
        weights = [(T["n_big"] // T["t_big"] if c["big"] else (T["n_cont"] if c["kind"] == "cont" else T["n_disc"])) for c in fit]
        ft = os.path.join(out, "trace_fit.ndjson")
        big = [i for i, c in enumerate(fit) if c["big"]]
        small = [i for i, c in enumerate(fit) if not c["big"]]
        # the multi-threaded cases first (they use the cores themselves), then the rest spread over the cores
        c1 = run_harness_parallel(exe, "fit", [fit_lines[i] for i in big], ft + ".big", seed, 2)
        c2 = run_harness_parallel(exe, "fit", [fit_lines[i] for i in small], ft + ".small", seed, vlib.NCPU, weight=[weights[i] for i in small])
        with open(ft, "w") as f:
            f.write(open(ft + ".big").read() + open(ft + ".small").read())
        os.remove(ft + ".big")
        os.remove(ft + ".small")
        rule_lines = [rule_plan_line(i + 1, r) for i, r in enumerate(rules)]
        rt = os.path.join(out, "trace_rules.ndjson")
        c3 = run_harness_parallel(exe, "rules", rule_lines, rt, seed, vlib.NCPU)
        if c1 or c2 or c3:
            v.notes.append("some sampler calls did not return (crash lines in the trace)")
        for f in futs[:-1]:
            f.result()()             # the design models: register, raise if one is violated / a control is not refuted
    finally:
        ex.shutdown(wait=True)

    # 4. the oracle
    by_idx = {c["idx"]: fit_lines[i] for i, c in enumerate(fit)}
    with concurrent.futures.ThreadPoolExecutor(max_workers=2) as ex:
        f1 = ex.submit(vlib.validate_trace, PID, "SamplersTrace", ft, tag="tv_fit", heap="8g")
        f2 = ex.submit(vlib.validate_trace, PID, "SamplersTrace", rt, tag="tv_rules", heap="8g")
        pre1, pre2 = f1.result(), f2.result()
    tv1 = judge(v, ft, "tv_fit", lambda e: by_idx.get(e.get("case"), ""), "fit", seed, tv=pre1)
    v.add_tlc(tv1.tlc, "SamplersTrace over %d fit cases (%d lines)" % (len(fit), tv1.lines))
    tv2 = judge(v, rt, "tv_rules", lambda e: rule_lines[e["case"] - 1] if isinstance(e.get("case"), int) and 0 < e["case"] <= len(rule_lines) else "", "rules", seed, tv=pre2)
    v.add_tlc(tv2.tlc, "SamplersTrace over %d steered draws" % tv2.lines)

    draws = sum((T["n_big"] if c["big"] else (T["n_cont"] if c["kind"] == "cont" else T["n_disc"])) for c in fit)
    with open(ft) as f:
        fl = [json.loads(x) for x in f]
    for e in fl:
        if e.get("op") == "fit" and e.get("id") in ("std_normal", "loaded_3_sum_0_9995", "geometric_1"):
            v.sample({k: (e[k] if k != "cnt" else e[k][:12]) for k in ("id", "n", "cls", "cnt")})
    with open(rt) as f:
        for x in f.readlines()[:2]:
            v.sample(json.loads(x))
    v.cov["traces_validated_against_impl"] = len(fit) + tv2.lines
    v.cov["evaluations"] = len(fit) + tv2.lines
    v.cov["distinct_nontrivial"] = len(fit) + tv2.lines
    v.cov["draws"] = draws
    v.cov["samplers"] = len(set(c["s"] for c in fit))
    v.cov["rule"] = ("one case = one sampler with one admissible parameter set and N seeded draws (N = %d for the two ziggurat samplers, %d "
                     "for the other continuous ones, %d for the discrete ones), or one steered draw next to a decision boundary; all are "
                     "distinct by (sampler, parameters, target cell)" % (T["n_big"], T["n_cont"], T["n_disc"]))
    v.cov["exhaustive"] = False
    return v.finish()
