"""C10, part "data arrays": the growable arrays of cmb_dataset / cmb_timeseries (and the summaries).

1. TLC model-checks spec/DataArray.tla (operators in spec/DataArrayOps.tla): all sequences of add,
   copy (fresh and used targets), merge, reset, terminate / initialize, sort, quantile, scan and
   finalize calls over 2 datasets and 2 time series with initial capacity 2: CapOK (every array that
   exists has at least cursize elements, none is missing under a believed capacity, count <= cursize),
   NoOOB (no call touches an index at or behind the allocated size), Shape, BurstLemma.  Twice: with the
   repaired allocation rule of cmb_timeseries_copy (must hold) and with the rule of the code as found
   (ta, wa of the copy get count elements; must be violated: the model has teeth).
2. harness/c10_da_replay runs seeded valid call sequences on the release-flag build and on the
   ASan/UBSan build (populations on both sides of 1x, 2x, 4x CMI_DATASET_INIT_SZ, copies to fresh and
   used targets, adds to copies, sorts, quantiles, histograms, correlograms, summaries); sanitizer
   reports and library aborts are attributed to their history with c10.run_generator.
3. TLC validates the recorded traces against spec/DataArrayTrace.tla (the predicates of the design
   model on the observed capacity state: malloc_usable_size per backing array against cursize).

`arrays_part(v, tier, out)` adds all of this to the Verdict `v` of the C10 check and returns the
number of histories run.  `python3 tools/checks/c10_arrays.py [quick|thorough]` runs the part alone.
"""
import os, re, sys, json

sys.path.insert(0, os.path.dirname(os.path.dirname(os.path.abspath(__file__))))
sys.path.insert(0, os.path.dirname(os.path.abspath(__file__)))
import vlib
import c10

PID = "C10"
HARNESS = "c10_da_replay"

MC = """SPECIFICATION Spec
CONSTANTS
 Cap0 = %d
 NDs = %d
 NTs = %d
 MaxCount = %d
 TsCopyByCursize = %s
INVARIANTS %s
CHECK_DEADLOCK FALSE
"""


def model_check(v, tier):
    """the design model under the repaired rule (must hold) and under the rule of the code as found (must fail)"""
    if tier == "quick":
        runs = [(2, 2, 2, 5, "TRUE", "CapOK NoOOB Shape BurstLemma", False),
                (2, 2, 2, 5, "FALSE", "NoOOB", True),
                (2, 2, 2, 5, "FALSE", "CapOK", True)]
    else:
        runs = [(2, 2, 2, 9, "TRUE", "CapOK NoOOB Shape BurstLemma", False),
                (3, 2, 2, 7, "TRUE", "CapOK NoOOB Shape BurstLemma", False),
                (2, 3, 1, 5, "TRUE", "CapOK NoOOB Shape BurstLemma", False),
                (2, 2, 2, 9, "FALSE", "NoOOB", True),
                (2, 2, 2, 9, "FALSE", "CapOK", True)]
    for n, (cap0, nds, nts, maxc, rule, invs, expect_violation) in enumerate(runs):
        cfgp = os.path.join(vlib.SPEC, "_gen_DataArray_%d_%d.cfg" % (os.getpid(), n))
        with open(cfgp, "w") as f:
            f.write(MC % (cap0, nds, nts, maxc, rule, invs))
        try:
            r = vlib.tlc(PID, "DataArray", os.path.basename(cfgp), timeout=1500, tag="da_%d" % n, workers=8,
                         extra=["-noGenerateSpecTE"])
        finally:
            os.remove(cfgp)
        if r.error:
            raise vlib.MachineryError("DataArray model checking: " + r.error)
        what = "DataArray.tla Cap0=%d %dds+%dts MaxCount=%d TsCopyByCursize=%s: %s" % (cap0, nds, nts, maxc, rule, invs)
        v.add_tlc(r, what)
        if bool(r.violated) != expect_violation:
            raise vlib.MachineryError("%s: expected %s, TLC says violated=%s\n%s"
                                      % (what, "a violation" if expect_violation else "no violation", r.violated, r.out[-2500:]))


def scan_prints(text):
    """<<"REJECT" | "DRIFT", line, ...>> prints of the trace spec (bracket-balanced, multi-line safe)"""
    res = []
    for m in re.finditer(r'<<\s*"(REJECT|DRIFT)",\s*(\d+),', text):
        i, depth, j = m.start(), 0, m.start()
        while j < len(text) - 1:
            two = text[j:j + 2]
            if two == "<<":
                depth += 1; j += 2; continue
            if two == ">>":
                depth -= 1; j += 2
                if depth == 0:
                    break
                continue
            j += 1
        body = re.sub(r"\s+", " ", text[m.end():j])
        rule = ""
        if m.group(1) == "REJECT":
            mr = re.match(r'\s*"([^"]*)"', body)
            rule = mr.group(1) if mr else "?"
        mh = re.search(r'\bh \|-> (\d+)', body)
        res.append({"tag": m.group(1), "line": int(m.group(2)), "rule": rule, "h": int(mh.group(1)) if mh else -1, "detail": body[:700]})
    return res


def validate(v, variant, trace, explained):
    """DataArrayTrace over one trace; `explained` = histories whose death scan_output has already named"""
    r = vlib.tlc(PID, "DataArrayTrace", "DataArrayTrace.cfg", workers=1, timeout=1800, env={"TRACE": trace},
                 tag="tv_da_" + variant, heap="8g")
    if r.rc != 0:
        raise vlib.MachineryError("DataArrayTrace failed to run (rc %s):\n%s" % (r.rc, r.out[-3000:]))
    if not re.search(r'<<\s*"CONSUMED",\s*\d+\s*>>', r.out):
        raise vlib.MachineryError("DataArrayTrace did not consume the trace:\n" + r.out[-3000:])
    prints = scan_prints(r.out)
    ndrift = 0
    for p in prints:
        if p["tag"] == "DRIFT":
            ndrift += 1
            if ndrift <= 3:
                msg = "DRIFT: data arrays, %s build, history %d, trace line %d: the code does not do what DataArray.tla models: %s" % (
                    variant, p["h"], p["line"], p["detail"][:400])
                v.notes.append(msg); print(msg)
            continue
        if p["rule"].startswith("harness-"):
            raise vlib.MachineryError("DataArrayTrace reports a harness problem: %s" % p)
        if p["rule"] == "call-killed-the-program" and p["h"] in explained:
            continue          # the abort / sanitizer report of this history is already a violation with its own signature
        hist = vlib.extract_history(trace, p["line"])          # from the history's init record up to the rejected line
        rp = vlib.save_replay(PID, "da_%s_%s_%d.ndjson" % (p["rule"][:40], variant, p["h"]), "".join(hist))
        v.violation("C10|" + p["rule"], rp, "data arrays, %s build, history %d, trace line %d: %s" % (variant, p["h"], p["line"], p["detail"][:300]))
    if ndrift:
        v.notes.append("data arrays, %s build: %d histories drift from the design model" % (variant, ndrift))
    return r, len(prints) - ndrift


def run_harness(v, variant, exe, args, trace, what):
    """c10.run_generator with the output kept: every abort / sanitizer report becomes a C10|abort.. / C10|asan.. /
    C10|ubsan.. violation with the history as replay; returns (#histories, histories that printed a report)"""
    rc, o = vlib.run([exe] + args + [trace], timeout=3000)
    if rc not in (0, 3):
        raise vlib.MachineryError("%s failed rc=%d: %s" % (exe, rc, o[-2000:]))
    with open(trace) as f:
        nh = sum(1 for l in f if l.startswith('{"op":"init"'))
    if nh == 0:
        raise vlib.MachineryError("%s recorded no history: %s" % (exe, o[-2000:]))
    v.cov["evaluations"] += nh
    explained = set()
    for idx, txt in c10.segment(o).items():
        for sig, short in c10.scan_output(txt):
            explained.add(idx)
            hist = c10.history_by_index(trace, idx) if idx >= 0 else []
            rp = vlib.save_replay(PID, "crash_%s_%s_%d.ndjson" % (os.path.basename(exe), variant, idx), "".join(hist))
            v.violation("C10|" + sig, rp, "%s [%s build, %s, history %d]" % (short, variant, what, idx))
    return nh, explained


def inductive(v, tier, out):
    """Apalache: the capacity invariant is INDUCTIVE over unbounded counts with the real initial capacity (the typed module is
    generated from DataArrayOps.tla, so the proof is about the operators TLC and the trace specification use):
    Init => IndInv, and IndInit /\\ Next => IndInv' from a symbolically generated pre-state.  The code's own copy rule must fail
    the step (negative control, thorough tier)."""
    import shutil, subprocess, time
    mod = "_gen_DataArrayInd"
    tla = os.path.join(vlib.SPEC, mod + ".tla")
    rc, o = vlib.run([sys.executable, os.path.join(vlib.ROOT, "tools", "c10_ind_gen.py"), tla], timeout=60)
    if rc != 0:
        raise vlib.MachineryError("c10_ind_gen failed: " + o[-2000:])
    odir = os.path.join(out, "apalache")
    runs = [("init", "Init", 0, "TRUE", False), ("step", "IndInit", 1, "TRUE", False)]
    if tier == "thorough":
        runs.append(("step-code-as-found", "IndInit", 1, "FALSE", True))
    try:
        for name, init, length, rule, expect_error in runs:
            cfg = os.path.join(vlib.SPEC, mod + ".cfg")
            open(cfg, "w").write("CONSTANTS\n  Cap0 = 1024\n  TsCopyByCursize = %s\nINIT %s\nNEXT Next\nINVARIANT IndInv\n" % (rule, init))
            t0 = time.time()
            rc, o = vlib.run(["apalache-mc", "check", "--config=" + cfg, "--init=" + init, "--length=%d" % length, "--inv=IndInv",
                              "--out-dir=" + odir, tla], timeout=2400, cwd=vlib.SPEC)
            wall = time.time() - t0
            ok = "The outcome is: NoError" in o
            err = "The outcome is: Error" in o
            if not (ok or err):
                raise vlib.MachineryError("apalache-mc (%s) gave no verdict (rc %s):\n%s" % (name, rc, o[-2500:]))
            if ok == expect_error:
                raise vlib.MachineryError("apalache-mc (%s, TsCopyByCursize=%s): expected %s, got %s\n%s"
                                          % (name, rule, "a counterexample" if expect_error else "no error", "no error" if ok else "a counterexample", o[-2500:]))
            v.cov.setdefault("apalache_runs", []).append(
                {"what": "DataArrayOps.tla operators, Cap0=1024, unbounded counts, 2 ds + 2 ts: %s (TsCopyByCursize=%s)" % (
                    "Init => IndInv" if length == 0 else "IndInv /\\ Next => IndInv'", rule),
                 "outcome": "NoError" if ok else "counterexample (expected: negative control)", "wall_s": round(wall, 1)})
    finally:
        for f in (tla, os.path.join(vlib.SPEC, mod + ".cfg")):
            try:
                os.remove(f)
            except OSError:
                pass
        shutil.rmtree(odir, ignore_errors=True)


def arrays_part(v, tier, out):
    """model checking + harness runs (rel, san) + trace validation for the data arrays; returns #histories"""
    v.assumptions.append(
        "data arrays: a valid call sequence = calls on initialized objects, copy between distinct objects of one class into an "
        "initialized target, non-decreasing time stamps (a series sorted by x is sorted back before the time order matters), "
        "weighted quantiles / weighted summary / finalize of a series with >= 1 sample, ACF 0 < n < count, PACF 0 < n < count - 1, "
        "correlogram 0 < n < count, histogram num_bins > 0 and low <= high; sample values up to 1e10 in magnitude")
    v.assumptions.append(
        "data arrays: allocated size is observed as malloc_usable_size (>= requested; exact under ASan), so a block the allocator "
        "rounded up can hide a shortfall of a few elements on the release build; the ASan build sees it exactly")
    model_check(v, tier)
    inductive(v, tier, out)
    nh_total = 0
    nhist = 320 if tier == "quick" else 3200
    for variant in ("rel", "san"):
        vlib.build_lib(PID, variant)
        exe = vlib.cc_harness(PID, variant, HARNESS)
        n = nhist if variant == "rel" else max(1, nhist // 2)
        trace = os.path.join(out, "da_%s.ndjson" % variant)
        nh, explained = run_harness(v, variant, exe, ["gen", str(vlib.seed()), str(n), "70"], trace, "data array histories")
        nh_total += nh
        r, nrej = validate(v, variant, trace, explained)
        v.add_tlc(r, "DataArrayTrace over %d histories on %s build (%d rejected)" % (nh, variant, nrej))
        v.cov["traces_validated_against_impl"] += nh
        with open(trace) as f:
            v.sample([l.strip()[:300] for l in f.readlines()[1:3]])
    return nh_total


if __name__ == "__main__":
    tier = sys.argv[1] if len(sys.argv) > 1 else "quick"
    v = vlib.Verdict(PID, "exploration", tier)
    try:
        n = arrays_part(v, tier, vlib.outdir(PID))
        v.cov["distinct_nontrivial"] = n
        v.cov["rule"] = "one case = one seeded history of c10_da_replay (distinct by seed and index), run on the rel and on the san build"
        # evidence of the stand-alone run must not overwrite the evidence of the registered check
        ev = os.path.join(vlib.ROOT, "evidence", PID + ".json")
        keep = open(ev).read() if os.path.exists(ev) else None
        rc = v.finish()
        os.replace(ev, os.path.join(vlib.outdir(PID), "evidence_arrays_part.json"))
        if keep is not None:
            open(ev, "w").write(keep)
        sys.exit(rc)
    except vlib.MachineryError as ex:
        print("MACHINERY FAILURE: %s" % ex)
        sys.exit(2)
