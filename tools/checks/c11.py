"""C11 - see DESIGN.md §4 C11; kernel property checked by tools/checks/kcommon.py"""
from checks.kcommon import run_kernel_check


def run(tier, replay=None):
    return run_kernel_check("C11", tier, replay)
