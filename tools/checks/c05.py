"""C05 - see DESIGN.md §4 C05; kernel property checked by tools/checks/kcommon.py"""
from checks.kcommon import run_kernel_check


def run(tier, replay=None):
    return run_kernel_check("C05", tier, replay)
