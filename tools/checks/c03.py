"""C03 - context switches preserve each process's execution state and deliver messages.

Three bindings (DESIGN.md section 4, C03):
1. spec/Coroutine.tla (state function spec/CoroutineCore.tla): TLC explores every valid interleaving of
   start / yield / resume / transfer / exit / return / stop / restart / reset among N coroutines + main and
   checks the control-transfer invariants; it exports one shortest history per distinct (state, last op).
2. spec/CtxMachine.tla: an abstract x86-64 machine written in TLA+ interprets the instructions actually
   assembled from the tree under test (objdump of cmi_coroutine_context.asm's object) starting from the
   initial frame actually built by cmi_coroutine_context_init (dumped by harness/coro_probe), over symbolic
   register contents; TLC checks preservation of callee-saved registers, MXCSR, rsp, the message, the entry
   and exit contracts and that the switch never writes into live stack.
3. harness/coro_probe executes the exported histories (and seeded longer ones from TLC simulation, and
   cmb_process programs) on the real library with an assembly shim that fills rbx, rbp, r12-r15 and MXCSR
   with sentinels at varying call depths, canaries in every frame and a hash of the live stack; TLC validates
   every trace against spec/CoroutineTrace.tla.
"""
import os, re, json, random, concurrent.futures
import vlib

PID = "C03"

MC_CFG = """SPECIFICATION Spec
CONSTANTS
  N = %(n)d
  Vals = {1}
  MaxOps = %(maxops)d
INVARIANTS %(invs)s
%(props)s
CONSTRAINT Constr
VIEW %(view)s
CHECK_DEADLOCK FALSE
"""
MC_INVS = "TypeOK CurrentIsRunning DestinationWasRunning SuspConsistent ParentIsStarter NoSelfLinks"
MC_PROPS = "PROPERTIES ContinuesWhereItLeft EndingReachesStarter"

CTX_CFG = """SPECIFICATION Spec
CONSTANTS
  NCtx = %(n)d
  MaxSw = %(sw)d
  Depths = {0, 1}
INVARIANTS %(invs)s
CHECK_DEADLOCK FALSE
"""
CTX_MACH = ["Decodable"]
CTX_PROP = ["NoFault", "ControlArrivesAtTarget", "CalleeSavedPreserved", "MxcsrPreserved", "StackPointerRestored",
            "MessageDelivered", "EntryGetsHandle", "EntryGetsContext", "EntryAligned", "ExitGetsReturnValue", "ExitAligned"]
CTX_VACUITY = ["NeverResumes", "NeverEnters", "NeverExits"]


# ------------------------------------------------------------------ disassembly -> JSON program
_RE_INS = re.compile(r"^\s*([0-9a-f]+):\s+(?:[0-9a-f]{2} )+\s*(.*)$")
_RE_SYM = re.compile(r"^([0-9a-f]+) <(\w+)>:")
_RE_MEM = re.compile(r"^(?:(QWORD|DWORD) PTR )?\[(\w+)(?:([+-])0x([0-9a-f]+))?\]$")


def _ins(op, r1="", r2="", off=0, imm=0, text=""):
    return {"op": op, "r1": r1, "r2": r2, "off": off, "imm": imm, "text": text}


def _parse_ins(text):
    t = text.strip()
    parts = t.split(None, 1)
    mn = parts[0]
    args = [a.strip() for a in parts[1].split(",")] if len(parts) > 1 else []
    isreg = lambda a: re.fullmatch(r"r[a-z0-9]+", a) is not None

    def mem(a):
        m = _RE_MEM.match(a)
        if not m:
            return None
        off = int(m.group(4), 16) if m.group(4) else 0
        return m.group(1), m.group(2), (-off if m.group(3) == "-" else off)
    if mn in ("pushf", "pushfq") and not args:
        return _ins("pushf", text=t)
    if mn in ("popf", "popfq") and not args:
        return _ins("popf", text=t)
    if mn in ("ret", "retq") and not args:
        return _ins("ret", text=t)
    if mn == "nop" or (mn in ("xchg",) and args == ["ax", "ax"]):
        return _ins("nop", text=t)
    if mn in ("push", "pop") and len(args) == 1 and isreg(args[0]):
        return _ins(mn, r1=args[0], text=t)
    if mn in ("sub", "add") and len(args) == 2 and isreg(args[0]) and re.fullmatch(r"0x[0-9a-f]+", args[1]):
        return _ins(mn, r1=args[0], imm=int(args[1], 16), text=t)
    if mn in ("stmxcsr", "ldmxcsr") and len(args) == 1 and mem(args[0]) and mem(args[0])[0] in ("DWORD", None):
        _, b, off = mem(args[0])
        return _ins(mn, r1=b, off=off, text=t)
    if mn == "mov" and len(args) == 2:
        if isreg(args[0]) and isreg(args[1]):
            return _ins("mov", r1=args[0], r2=args[1], text=t)
        if mem(args[0]) and isreg(args[1]) and mem(args[0])[0] in ("QWORD", None):
            _, b, off = mem(args[0])
            return _ins("store", r1=b, r2=args[1], off=off, text=t)
        if isreg(args[0]) and mem(args[1]) and mem(args[1])[0] in ("QWORD", None):
            _, b, off = mem(args[1])
            return _ins("load", r1=args[0], r2=b, off=off, text=t)
    if mn == "xor" and len(args) == 2 and isreg(args[0]) and isreg(args[1]):
        return _ins("xor", r1=args[0], r2=args[1], text=t)
    if mn == "call" and len(args) == 1 and isreg(args[0]):
        return _ins("callr", r1=args[0], text=t)
    if mn == "jmp" and len(args) == 1 and isreg(args[0]):
        return _ins("jmpr", r1=args[0], text=t)
    return _ins("unknown", text=t)


def disassemble(libdir, out):
    obj = os.path.join(libdir, "obj", "cmi_coroutine_context_asm.o")
    if not os.path.exists(obj):
        raise vlib.MachineryError("no assembled context-switch object at " + obj)
    rc, o = vlib.run(["objdump", "-d", "-M", "intel", "--no-show-raw-insn", obj], check=True)
    rc2, o2 = vlib.run(["objdump", "-d", "-M", "intel", obj], check=True)
    ins, addr2idx, syms = [], {}, {}
    for line in o2.splitlines():
        m = _RE_SYM.match(line)
        if m:
            syms[m.group(2)] = int(m.group(1), 16)
            continue
        m = re.match(r"^\s*([0-9a-f]+):\t([0-9a-f ]+)\t(.*)$", line)
        if m and m.group(3).strip():
            addr2idx[int(m.group(1), 16)] = len(ins)
            ins.append(_parse_ins(m.group(3)))
    for need in ("cmi_coroutine_context_switch", "cmi_coroutine_trampoline"):
        if need not in syms or syms[need] not in addr2idx:
            raise vlib.MachineryError("symbol %s not found in the disassembly" % need)
    prog = {"ins": ins, "switch": addr2idx[syms["cmi_coroutine_context_switch"]],
            "trampoline": addr2idx[syms["cmi_coroutine_trampoline"]]}
    p = os.path.join(out, "ctx_prog.json")
    json.dump(prog, open(p, "w"), indent=1)
    open(os.path.join(out, "ctx_disassembly.txt"), "w").write(o2)
    return p, prog


# ------------------------------------------------------------------ CtxMachine
def _tlc_cfg(module, text, tag, env=None, timeout=1500, workers=None):
    cfgp = os.path.join(vlib.SPEC, "_gen_C03_%s.cfg" % tag)
    open(cfgp, "w").write(text)
    try:
        return vlib.tlc(PID, module, os.path.basename(cfgp), timeout=timeout, tag=tag, env=env, workers=workers,
                        extra=["-noGenerateSpecTE"])     # no *_TTrace_* files in spec/ when an invariant is (meant to be) violated
    finally:
        os.remove(cfgp)


def ctx_machine(v, tier, out, exe, libdir):
    progp, prog = disassemble(libdir, out)
    framep = os.path.join(out, "ctx_frame.json")
    rc, o = vlib.run([exe, "frame", framep], timeout=60)
    if rc != 0:
        raise vlib.MachineryError("coro_probe frame failed rc=%d %s" % (rc, o[-800:]))
    env = {"C03_PROG": progp, "C03_FRAME": framep}
    v.sample({"instructions_interpreted": [i["text"] for i in prog["ins"]]})
    cfgs = [(3, 4)] if tier == "quick" else [(3, 6), (4, 5)]
    for (n, sw) in cfgs:
        r = _tlc_cfg("CtxMachine", CTX_CFG % dict(n=n, sw=sw, invs=" ".join(CTX_MACH + CTX_PROP)), "ctx_%d_%d" % (n, sw), env=env)
        if r.error:
            raise vlib.MachineryError("CtxMachine: " + r.error)
        v.add_tlc(r, "CtxMachine.tla on the disassembled switch/trampoline and the dumped initial frame: %d contexts, <= %d switches, depths {0,1}" % (n, sw))
        if r.violated:
            if r.violated in CTX_MACH:
                m = re.search(r'mach = "([^"]*)"', r.out)
                raise vlib.MachineryError("CtxMachine cannot interpret the object (%s); extend spec/CtxMachine.tla. Instructions: %s"
                                          % (m.group(1) if m else "?", [i["text"] for i in prog["ins"] if i["op"] == "unknown"]))
            rule = r.violated
            if rule == "NoFault":
                m = re.findall(r'prop = "([^"]+)"', r.out)
                rule = "NoFault:" + (m[-1] if m else "?")
            i0 = r.out.find("Error:")
            rp = vlib.save_replay(PID, "ctxmachine_%s.ctx.txt" % re.sub(r"\W+", "_", rule),
                                  "CtxMachine.tla invariant %s violated (NCtx=%d MaxSw=%d)\n\nprogram:\n%s\n\nTLC counterexample:\n%s"
                                  % (rule, n, sw, "\n".join("%2d  %s" % (k + 1, i["text"]) for k, i in enumerate(prog["ins"])), r.out[i0:i0 + 60000]))
            v.violation("C03|ctxmachine|" + rule, rp, "the assembled context switch / trampoline with the dumped initial frame violates %s" % rule)
            return
    # vacuity: each kind of arrival is actually reached
    for inv in CTX_VACUITY:
        r = _tlc_cfg("CtxMachine", CTX_CFG % dict(n=3, sw=3, invs=inv), "ctxvac_" + inv, env=env)
        if r.error:
            raise vlib.MachineryError("CtxMachine vacuity run: " + r.error)
        if r.violated != inv:
            raise vlib.MachineryError("CtxMachine never reaches a state of kind %s: the model checking above is vacuous" % inv)
    v.cov["ctxmachine_arrivals_reached"] = ["resume", "entry", "exit"]


# ------------------------------------------------------------------ Coroutine.tla: check + export
_RE_OP = re.compile(r'<<"(\w+)",(-?\d+),(-?\d+)>>')


def parse_hists(out):
    txt = re.sub(r"\s+", "", out)
    hs = []
    for chunk in txt.split('<<"H",')[1:]:
        end = chunk.find(">>>>")
        body = chunk if end < 0 else chunk[:end + 2]
        ops = [(m.group(1), int(m.group(2)), int(m.group(3))) for m in _RE_OP.finditer(body)]
        if ops:
            hs.append(ops)
    return hs


def model_check(v, n, maxops, what):
    r = _tlc_cfg("Coroutine", MC_CFG % dict(n=n, maxops=maxops, invs=MC_INVS, props=MC_PROPS, view="View"), "mc_%d_%d" % (n, maxops), timeout=2400)
    if r.error:
        raise vlib.MachineryError("Coroutine model checking: " + r.error)
    v.add_tlc(r, what)
    if r.violated:
        raise vlib.MachineryError("Coroutine.tla violates %s (defect of the model, not of the code)\n%s" % (r.violated, r.out[-2500:]))


def export_hists(v, n, maxops, what):
    r = _tlc_cfg("Coroutine", MC_CFG % dict(n=n, maxops=maxops, invs="ExportHist", props="", view="ViewX"), "ex_%d_%d" % (n, maxops), timeout=2400)
    if r.error or r.violated:
        raise vlib.MachineryError("Coroutine history export: %s" % (r.error or r.violated))
    v.add_tlc(r, what)
    return parse_hists(r.out)


def simulate_hists(v, n, length, num):
    cfg = MC_CFG % dict(n=n, maxops=length, invs="ExportEnd", props="", view="ViewX")
    r = None
    cfgp = os.path.join(vlib.SPEC, "_gen_C03_sim_%d.cfg" % n)
    open(cfgp, "w").write(cfg)
    try:
        r = vlib.tlc(PID, "Coroutine", os.path.basename(cfgp), timeout=1200, tag="sim_%d" % n, simulate=num, depth=length + 1,
                     extra=["-seed", str(vlib.seed()), "-noGenerateSpecTE"], workers=1)
    finally:
        os.remove(cfgp)
    if r.error or r.violated:
        raise vlib.MachineryError("Coroutine simulation: %s" % (r.error or r.violated))
    return parse_hists(r.out)


# ------------------------------------------------------------------ scripts
def rand_mx(rng, all_masks=True):
    mx = 0x1f80
    if all_masks:
        for b in range(7, 13):
            if rng.random() < 0.4:
                mx &= ~(1 << b)
    mx |= rng.randrange(4) << 13
    if rng.random() < 0.3:
        mx |= 1 << 15
    return mx


def co_script(hists, ncoro_of, rng, first_id=1):
    lines = []
    for k, (n, h) in enumerate(hists):
        lines.append("hist %d %d %d" % (first_id + k, n, vlib.seed() % 1000000))
        used = set()
        for i, (kind, d, m) in enumerate(h):
            val = 0 if kind == "reset" else 1000 + 16 * i + rng.randrange(16)
            tok = rng.randrange(1, 1 << 29)
            lines.append("op %s %d %d %d %d %d" % (kind, d, val, rng.choice([0, 0, 1, 1, 2, 3, 5, 8]), tok, rand_mx(rng)))
        lines.append("end")
    return "\n".join(lines) + "\n"


def proc_script(nprog, rng, first_id=1):
    lines = []
    for k in range(nprog):
        n = rng.randrange(1, 7)
        lines.append("hist %d %d %d" % (first_id + k, n, vlib.seed() % 1000000))
        for p in range(1, n + 1):
            steps = []
            for _ in range(rng.randrange(0, 7)):
                steps += [rng.randrange(0, 4), rng.choice([0, 0, 1, 2, 3, 5, 8]), rng.randrange(1, 1 << 29), rand_mx(rng, all_masks=False)]
            lines.append("p %d %d %s" % (p, 5000 + 10 * p + rng.randrange(10), " ".join(map(str, steps))))
        lines.append("main %d %d %d" % (rng.choice([0, 1, 3, 6]), rng.randrange(1, 1 << 29), rand_mx(rng, all_masks=False)))
        lines.append("end")
    return "\n".join(lines) + "\n"


def split_script(text, parts):
    hs = [h + "end\n" for h in text.split("end\n") if h.strip()]
    parts = max(1, min(parts, len(hs)))
    per = (len(hs) + parts - 1) // parts
    return ["".join(hs[i:i + per]) for i in range(0, len(hs), per)]


# ------------------------------------------------------------------ run + validate
def run_and_validate(v, exe, mode, script_text, tag, out, stats, parallel=8):
    """Runs the script in `parallel` pieces, validates each trace with TLC; returns number of histories."""
    pieces = split_script(script_text, parallel)
    jobs = []
    for k, piece in enumerate(pieces):
        sp = os.path.join(out, "script_%s_%d.txt" % (tag, k))
        tp = os.path.join(out, "trace_%s_%d.ndjson" % (tag, k))
        open(sp, "w").write(piece)
        jobs.append((sp, tp))

    def one(job):
        sp, tp = job
        rc, o = vlib.run([exe, mode, sp, tp], timeout=1500)
        if rc not in (0, 3):
            raise vlib.MachineryError("coro_probe %s failed rc=%d %s" % (mode, rc, o[-1500:]))
        tv = vlib.validate_trace(PID, "CoroutineTrace", tp, tag="tv_" + os.path.basename(tp), heap="3g", timeout=2400)
        return sp, tp, rc, o, tv
    with concurrent.futures.ThreadPoolExecutor(max_workers=min(parallel, max(1, vlib.NCPU // 2))) as ex:
        results = list(ex.map(one, jobs))
    nh = 0
    for sp, tp, rc, o, tv in results:
        v.add_tlc(tv.tlc, "CoroutineTrace over %s (%d lines)" % (os.path.basename(tp), tv.lines))
        with open(tp) as f:
            lines = f.readlines()
        for ln in lines:
            if ln.startswith('{"e":"init"'):
                nh += 1
            elif ln.startswith('{"e":"in"'):
                stats["switch_arrivals"] += 1
                if '"c":0,' in ln:
                    stats["main_context_arrivals"] += 1
            elif ln.startswith('{"e":"entry"'):
                stats["function_entries"] += 1
            elif ln.startswith('{"e":"exitfn"'):
                stats["exit_function_calls"] += 1
        if not stats.get("sampled_" + tag):
            stats["sampled_" + tag] = True
            v.sample({"trace": tag, "lines": [l.strip() for l in lines[:6]]})
        for rj in tv.rejects:
            if rj["rule"].startswith("harness-"):
                raise vlib.MachineryError("trace spec reports a harness problem: %s" % rj)
            stats["rules_fired"][rj["rule"]] = stats["rules_fired"].get(rj["rule"], 0) + 1
            if stats["rules_fired"][rj["rule"]] > 1:
                continue        # one replay file per rule is enough
            hist = vlib.extract_history(tp, rj["line"], start_ops=("init",), key="e")
            try:
                hid = json.loads(hist[0]).get("h")
            except Exception:
                hid = None
            # the replay is the script of the offending history
            body = ""
            if hid is not None:
                m = re.search(r"(?ms)^hist %d .*?^end\n" % hid, open(sp).read())
                body = m.group(0) if m else ""
            rp = vlib.save_replay(PID, "viol_%s_%s_h%s.%s.txt" % (tag, rj["rule"][:40], hid, mode), body or "".join(hist))
            v.violation("C03|" + rj["rule"], rp, "%s at line %d of %s: %s" % (rj["rule"], rj["line"], tp, rj["detail"][:260]))
    return nh


def run(tier, replay=None):
    v = vlib.Verdict(PID, "model_checking", tier)
    v.assumptions = [
        "x86-64 Linux port only (src/port/x86-64/linux); the Windows port is not examined",
        "CtxMachine.tla gives the semantics of the 14 instruction forms that occur (push/pop/pushf/popf/sub/add rsp/stmxcsr/ldmxcsr/"
        "mov/xor/call r/jmp r/ret); any other instruction is a machinery failure (exit 2), never a verdict",
        "user code and the coroutine function obey the SysV ABI (callee-saved registers restored on return, 16-byte aligned call sites)",
        "dynamic runs use sentinel values in rbx, rbp, r12-r15 and MXCSR control bits (rounding mode, masks, FZ), not all 2^64 contents; "
        "all contents are covered symbolically by CtxMachine.tla for the instruction sequence",
        "rflags, the x87 control word, the message seen by the starter when the started coroutine ends, the start message and exit values "
        "set by stop are not part of the statement and are not judged",
        "a yield may follow either documented reading of 'caller' (last to pass control in / last to start, resume or transfer)",
    ]
    out = vlib.outdir(PID)
    rng = random.Random(vlib.seed() * 7 + 3)
    libdir = vlib.build_lib(PID, "rel")
    exe = vlib.cc_harness(PID, "rel", "coro_probe")
    variants = [("rel", exe)]
    if tier == "thorough":
        vlib.build_lib(PID, "san")
        variants.append(("san", vlib.cc_harness(PID, "san", "coro_probe")))
    stats = {"switch_arrivals": 0, "main_context_arrivals": 0, "function_entries": 0, "exit_function_calls": 0, "rules_fired": {}}

    if replay:
        if replay.endswith(".ctx.txt"):
            ctx_machine(v, tier, out, exe, libdir)
        else:
            mode = "proc" if replay.endswith(".proc.txt") else "run"
            nh = 0
            for vn, ex in variants:
                nh += run_and_validate(v, ex, mode, open(replay).read(), "replay_" + vn, out, stats, parallel=1)
            v.cov["traces_validated_against_impl"] = nh
            v.cov["evaluations"] = stats["switch_arrivals"] + stats["function_entries"]
        v.cov["rule"] = "replay of " + replay
        return v.finish()

    # 1. register / stack contract on the actual instructions and the actual initial frame
    undecodable = None
    try:
        ctx_machine(v, tier, out, exe, libdir)
    except vlib.MachineryError as ex:
        # an instruction form CtxMachine.tla does not know: the symbolic binding cannot speak, but the dynamic
        # binding (sentinel registers / MXCSR / stack on the real code) still can; fail as machinery only if it stays silent
        if "cannot interpret" not in str(ex):
            raise
        undecodable = str(ex)
        v.notes.append(undecodable)

    # 2. control transfer: model checking and export
    if tier == "quick":
        model_check(v, 2, 60, "Coroutine.tla N=2: all interleavings (complete state graph), control-transfer invariants")
        model_check(v, 3, 7, "Coroutine.tla N=3, histories <= 7 ops, control-transfer invariants")
        sets = [(2, export_hists(v, 2, 60, "export: one shortest history per (state,last op), N=2"), 2200),
                (3, export_hists(v, 3, 5, "export: N=3, one shortest history per (state,last op) up to 5 ops and every one-op extension of those"), 1300)]
        sims = [(4, simulate_hists(v, 4, 40, 60))]
        nproc = 120
    else:
        model_check(v, 2, 60, "Coroutine.tla N=2: all interleavings (complete state graph), control-transfer invariants")
        model_check(v, 3, 9, "Coroutine.tla N=3, histories <= 9 ops, control-transfer invariants")
        sets = [(2, export_hists(v, 2, 60, "export: one shortest history per (state,last op), N=2"), None),
                (3, export_hists(v, 3, 6, "export: N=3, one shortest history per (state,last op) up to 6 ops and every one-op extension of those"), 30000)]
        sims = [(4, simulate_hists(v, 4, 60, 400)), (6, simulate_hists(v, 6, 120, 200))]
        nproc = 1500
    chosen = []
    exported = 0
    for n, hs, cap in sets:
        exported += len(hs)
        if cap is not None and len(hs) > cap:
            hs = rng.sample(hs, cap)
        chosen += [(n, h) for h in hs]
    for n, hs in sims:
        chosen += [(n, h) for h in hs]
    v.cov["tlc_histories_exported"] = exported
    v.cov["tlc_histories_replayed"] = len(chosen)
    if chosen:
        v.sample({"tlc_history": chosen[len(chosen) // 2][1][:10]})
    script = co_script(chosen, None, rng)
    pscript = proc_script(nproc, rng, first_id=1)
    total = 0
    for vn, ex in variants:
        sc, ps = script, pscript
        if vn == "san":
            # the instrumented build is ~10x slower: a seeded third of the histories
            hs = [h + "end\n" for h in script.split("end\n") if h.strip()]
            sc = "".join(h for i, h in enumerate(hs) if (i + vlib.seed()) % 3 == 0)
        total += run_and_validate(v, ex, "run", sc, "co_" + vn, out, stats, parallel=8 if tier == "quick" else 12)
        total += run_and_validate(v, ex, "proc", ps, "proc_" + vn, out, stats, parallel=2 if tier == "quick" else 6)
    distinct = len({(n, tuple(h)) for n, h in chosen}) + nproc
    v.cov["traces_validated_against_impl"] = total
    v.cov["evaluations"] = stats["switch_arrivals"] + stats["function_entries"] + stats["exit_function_calls"]
    v.cov["distinct_nontrivial"] = distinct
    v.cov["switch_arrivals_checked"] = stats["switch_arrivals"]
    v.cov["main_context_arrivals_checked"] = stats["main_context_arrivals"]
    v.cov["function_entries_checked"] = stats["function_entries"]
    v.cov["exit_function_calls_checked"] = stats["exit_function_calls"]
    v.cov["rules_fired"] = stats["rules_fired"]
    v.cov["rule"] = ("one case = one history (sequence of start/resume/transfer/yield/exit/return/stop/reset ops, each run by whichever coroutine "
                     "is current) or one process program, executed in a forked child; evaluations = arrivals after a real context switch at which "
                     "registers, MXCSR, canaries, stack hash, continuation site and message were compared by the trace spec, plus function "
                     "entries and exit-function calls; distinct = distinct op sequences (TLC-exported: one shortest history per (model state,last op), at the length bound every one-op extension; TLC-simulated long ones) plus "
                     "seeded process programs; every history contains at least one real switch")
    v.cov["exhaustive"] = False
    rc = v.finish()
    if rc == 0 and undecodable:
        raise vlib.MachineryError(undecodable)
    return rc

