"""C10 - valid programs never hit memory errors, undefined behaviour or library aborts.

Validity is defined by the specifications: every history / program that a trace specification
accepts as a use of the API within its documented preconditions (no 'harness-invalid-*'
rejection) is a valid program.  This check runs the generators of the other checks against
(a) the release-flag build, where a library abort (release assert) or fatal signal is recorded
as a 'crash' event, and (b) the ASan + arithmetic/bounds-UBSan build with the fiber hooks,
where any sanitizer report counts.  spec/EventExec.tla model-checks the pointer-epoch
discipline of cmb_event_execute_next / cancel (no dereference of a pointer into the heap
array across an operation that may grow it) and tells which populations matter.
"""
import os, re, json
import vlib

PID = "C10"

_RE_ASSERT = re.compile(r'(\w+) \((\d+)\):\s+Fatal: Assert "([^"]*)" failed, source file (\S+?),')
_RE_ASAN = re.compile(r"ERROR: AddressSanitizer: ([\w-]+)")
_RE_UBSAN = re.compile(r"(\S+?):(\d+):\d+: runtime error: ([^\n]*)")
_RE_FRAME = re.compile(r"#\d+ 0x[0-9a-f]+ in (\w+) (/repo/\S+?):(\d+)")


def scan_output(text):
    """yield (signature, short text) for each abort / sanitizer report in harness output"""
    found = []
    for m in _RE_ASSERT.finditer(text):
        found.append(("abort|%s|%s" % (m.group(1), m.group(3)), "release assert '%s' failed in %s (%s)" % (m.group(3), m.group(1), m.group(4))))
    for m in _RE_ASAN.finditer(text):
        tail = text[m.end():m.end() + 3000]
        fr = _RE_FRAME.search(tail)
        where = fr.group(1) if fr else "?"
        found.append(("asan|%s|%s" % (m.group(1), where), "AddressSanitizer %s in %s" % (m.group(1), where)))
    for m in _RE_UBSAN.finditer(text):
        kind = re.sub(r"[-0-9x.e+]+", "N", m.group(3))[:60]
        found.append(("ubsan|%s|%s" % (os.path.basename(m.group(1)), kind), "UBSan %s at %s:%s" % (m.group(3)[:80], m.group(1), m.group(2))))
    return found


def segment(text):
    """split harness stderr/stdout by '#HIST n' markers -> {n: text}"""
    segs, cur, key = {}, [], -1
    for line in text.splitlines():
        if line.startswith("#HIST "):
            if cur:
                segs[key] = "\n".join(cur)
            key, cur = int(line.split()[1]), []
        else:
            cur.append(line)
    if cur:
        segs[key] = "\n".join(cur)
    return segs


def history_by_index(trace, idx, start='{"op":"init"'):
    n, cur = -1, []
    with open(trace) as f:
        for line in f:
            if line.startswith(start):
                n += 1
                if n > idx:
                    break
                cur = []
            if n == idx:
                cur.append(line)
    return cur


def run_generator(v, variant, exe, args, trace, what, start='{"op":"init"', timeout=3000):
    rc, o = vlib.run([exe] + args + [trace], timeout=timeout)
    if rc not in (0, 3):
        raise vlib.MachineryError("%s failed rc=%d: %s" % (exe, rc, o[-2000:]))
    nh = 0
    if os.path.exists(trace):
        with open(trace) as f:
            nh = sum(1 for l in f if l.startswith(start))
    v.cov["evaluations"] += nh
    segs = segment(o)
    for idx, txt in segs.items():
        for sig, short in scan_output(txt):
            hist = history_by_index(trace, idx, start) if idx >= 0 else []
            rp = vlib.save_replay(PID, "crash_%s_%s_%d.ndjson" % (os.path.basename(exe), variant, idx), "".join(hist))
            v.violation("C10|" + sig, rp, "%s [%s build, %s, history %d]" % (short, variant, what, idx))
    return nh


def run(tier, replay=None):
    v = vlib.Verdict(PID, "exploration", tier)
    v.assumptions = [
        "valid program = one the trace specifications accept as respecting documented preconditions; generators only emit such programs",
        "sanitizer build: clang ASan + UBSan(signed-integer-overflow, shift, divide-by-zero, float-cast-overflow, bounds, vla-bound, "
        "pointer-overflow); 'null' and 'alignment' are off (they fire on idioms the property does not speak about)",
        "coroutine stack switches are announced to ASan through the CIMBA_VERIF fiber hooks",
    ]
    out = vlib.outdir(PID)
    n = 0
    # design model of the dispatcher's pointer discipline (and the sensitivity run that shows the model has teeth)
    for copyfirst, expect_violation in (("TRUE", False), ("FALSE", True)):
        cfgp = os.path.join(vlib.SPEC, "_gen_EventExec_%s.cfg" % copyfirst)
        open(cfgp, "w").write("SPECIFICATION Spec\nCONSTANTS\n Cap0 = 2\n MaxCap = %d\n MaxWaiters = 3\n CopyFirst = %s\n"
                              "INVARIANT NoStaleDeref\nCONSTRAINT Constr\nCHECK_DEADLOCK FALSE\n" % (8 if tier == "quick" else 32, copyfirst))
        r = vlib.tlc(PID, "EventExec", os.path.basename(cfgp), timeout=600, tag="ee_" + copyfirst, workers=4, extra=["-noGenerateSpecTE"])
        os.remove(cfgp)
        if r.error:
            raise vlib.MachineryError("EventExec model checking: " + r.error)
        v.add_tlc(r, "EventExec.tla CopyFirst=%s: NoStaleDeref" % copyfirst)
        if bool(r.violated) != expect_violation:
            raise vlib.MachineryError("EventExec.tla CopyFirst=%s: expected %s, TLC says violated=%s"
                                      % (copyfirst, "a violation" if expect_violation else "no violation", r.violated))
    for variant in ("rel", "san"):
        vlib.build_lib(PID, variant)
        evq = vlib.cc_harness(PID, variant, "evq_replay")
        hh = vlib.cc_harness(PID, variant, "hh_replay")
        scale = 1 if tier == "quick" else 8
        if variant == "san":
            scale = max(1, scale // 2)
        n += run_generator(v, variant, evq, ["gen", str(vlib.seed()), str(300 * scale), "50"],
                           os.path.join(out, "evq_%s.ndjson" % variant), "event queue histories")
        n += run_generator(v, variant, hh, ["gen", str(vlib.seed()), str(200 * scale), "80"],
                           os.path.join(out, "hh_%s.ndjson" % variant), "hashheap histories")
        mp = vlib.cc_harness(PID, variant, "mp_replay")
        n += run_generator(v, variant, mp, ["gen", str(vlib.seed()), str(11 * scale)],
                           os.path.join(out, "mp_%s.ndjson" % variant), "memory pool histories")
        kr = vlib.cc_harness(PID, variant, "kernel_replay")
        n += run_generator(v, variant, kr, ["run", os.path.join(vlib.ROOT, "scenarios", "kernel_regressions.txt")],
                           os.path.join(out, "k_scen_%s.ndjson" % variant), "kernel regression scenarios", start='{"e":"Prog"')
        for pf in (["mix", "contend", "end", "wait"] if tier == "quick" else ["mix", "contend", "end", "wait", "res", "pool", "buf", "queue", "cond", "rec"]):
            rc, o = vlib.run(["python3", os.path.join(vlib.ROOT, "tools", "kgen.py"), str(vlib.seed()), str(150 * scale), pf], timeout=600)
            pp = os.path.join(out, "kprog_%s.txt" % pf)
            open(pp, "w").write(o)
            n += run_generator(v, variant, kr, ["run", pp], os.path.join(out, "k_%s_%s.ndjson" % (pf, variant)),
                               "kernel programs " + pf, start='{"e":"Prog"')
    # data arrays (cmb_dataset, cmb_timeseries) and summaries: capacity-discipline model, allocator-observed traces, sanitizers
    import checks.c10_arrays as c10_arrays
    n += c10_arrays.arrays_part(v, tier, out)
    v.cov["distinct_nontrivial"] = n
    v.cov["rule"] = ("every generated history/program is run on the release-flag build and on the ASan/UBSan build; a case is one "
                     "history (all generated histories are distinct by seed and index; counted: histories that started)")
    v.sample("event queue histories (evq_replay), hashheap histories (hh_replay), memory pool histories (mp_replay), kernel programs (kernel_replay) on rel and san builds")
    return v.finish()
