"""C19 - an experiment runs every trial exactly once, isolated and schedule-independent.

1. TLC model-checks spec/Experiment.tla (design model of cimba_run_experiment: main thread, W workers,
   atomic dispenser, thread-local engine state, trial programs) with the property monitor of
   spec/ExperimentMon.tla folded over every step: all interleavings, all assignments of trial bodies.
   Each design decision the property rests on is also switched off once; TLC must then find the
   violation with the expected monitor rule (sensitivity of the monitor).
2. TLC simulates the same model with W = number of cores and the real trial counts and exports the
   completion order of every behaviour ("plans").
3. harness/exp_replay calls the real cimba_run_experiment: trial counts 1 / fewer than cores / cores-1 /
   cores / cores+1 / 200 / random, struct sizes 8..4104, trial bodies mixing every sampler family, coin flips,
   a process/resource/buffer/object-queue simulation and logger settings, each experiment run many times
   under different schedule shapes (wall-clock durations, cpu affinity, forced plans from step 2), plus
   the same trials run one after another in one fresh thread.
4. TLC folds the same monitor over the recorded traces (spec/ExperimentTrace.tla).  Only a monitor rule
   rejecting a trace of the real library is a VIOLATION; design-conformance rules print DRIFT.
"""
import os, re, json, concurrent.futures
import vlib

PID = "C19"
BODIES = {
    "empty": '<<>>',
    "flipdraw": '<< <<"flip", 0>>, <<"draw", 0>> >>',
    "log": '<< <<"off", 1>>, <<"log", 1>>, <<"log", 2>> >>',
    "clock": '<< <<"hold", 2>>, <<"qterm", 0>>, <<"rterm", 0>> >>',
    "flip3": '<< <<"flip", 0>>, <<"flip", 0>>, <<"flip", 0>> >>',
    "draw": '<< <<"draw", 0>> >>',
}
DESIGN = ["AtomicFetch", "JoinsAll", "StrictBound", "SeedClearsFlipCache", "ThreadLocalState"]
EXPECT = {
    "AtomicFetch": "trial-executed-more-than-once",
    "JoinsAll": "returned-before-all-trial-calls-finished",
    "StrictBound": "call-argument-is-not-an-element-of-the-trial-array",
    "SeedClearsFlipCache": "result-differs-from-sequential-run",
    "ThreadLocalState": "result-differs-from-sequential-run",
}
FULL_INV = "TypeOK NoViolation NoDrift ExactlyOnce AllFinished OwnElement NoTwoOnOneElement Sequential MonitorSawReturn"
BIGSTACK = {"JDK_JAVA_OPTIONS": "-Xss900m"}     # SeqRes / Fold recurse N deep


def write_mc(name, W, N, bodies, off=None, inv=FULL_INV, live=False):
    mod = "_gen_ExperimentMC_%s" % name
    with open(os.path.join(vlib.SPEC, mod + ".tla"), "w") as f:
        f.write("---- MODULE %s ----\nEXTENDS Experiment\nc_Bodies == { %s }\n====\n" % (mod, ",\n  ".join(BODIES[b] for b in bodies)))
    with open(os.path.join(vlib.SPEC, mod + ".cfg"), "w") as f:
        f.write("SPECIFICATION Spec\nCONSTANTS\n  W = %d\n  N = %d\n  Bodies <- c_Bodies\n  FlipW = 2\n" % (W, N))
        for d in DESIGN:
            f.write("  %s = %s\n" % (d, "FALSE" if d == off else "TRUE"))
        f.write("INVARIANTS %s\n" % inv)
        if live:
            f.write("PROPERTIES Terminates\n")
        f.write("CHECK_DEADLOCK FALSE\n")
    return mod


def rm_mc(mod):
    for fn in os.listdir(vlib.SPEC):
        if fn in (mod + ".tla", mod + ".cfg") or fn.startswith(mod + "_TTrace_"):
            try:
                os.remove(os.path.join(vlib.SPEC, fn))
            except OSError:
                pass


def model_check(v, tier):
    cfgs = [("w2n3", 2, 3, ["empty", "flipdraw", "log", "clock"], True)]
    if tier == "quick":
        cfgs.append(("w3n3", 3, 3, ["empty", "flipdraw", "log"], False))
    else:
        cfgs.append(("w3n3", 3, 3, ["empty", "flipdraw", "log", "clock", "flip3"], False))
        cfgs.append(("w3n4", 3, 4, ["empty", "flipdraw", "log", "clock"], False))
        cfgs.append(("w2n4", 2, 4, ["empty", "flipdraw", "log", "clock", "flip3", "draw"], False))
    for name, W, N, bodies, live in cfgs:
        mod = write_mc(name, W, N, bodies, live=live)
        try:
            r = vlib.tlc(PID, mod, mod + ".cfg", timeout=2400, tag="mc_" + name, coverage=(name == "w2n3"), heap="12g")
        finally:
            rm_mc(mod)
        if r.error:
            raise vlib.MachineryError("Experiment model checking (%s): %s" % (name, r.error))
        v.add_tlc(r, "Experiment.tla W=%d N=%d bodies=%s (monitor + direct invariants%s), all interleavings"
                  % (W, N, "/".join(bodies), ", termination" if live else ""))
        if r.violated:
            raise vlib.MachineryError("intended-design model violates %s (model defect)\n%s" % (r.violated, r.out[-3000:]))
        if r.coverage:
            never = sorted(k for k, (a, b) in r.coverage.items() if a == 0 and k.startswith("Experiment."))
            v.cov["model_actions_never_taken"] = never      # expected: FetchRead, FetchWrite (deviation only)
    # sensitivity: every deviation must be caught by the monitor, with the rule that names it
    sens = {}
    for d in DESIGN:
        inv = "NoEarlyReturn" if d == "JoinsAll" else "NoViolation"
        mod = write_mc("dev_" + d, 2, 3, ["empty", "flipdraw", "log", "clock"], off=d, inv=inv)
        try:
            r = vlib.tlc(PID, mod, mod + ".cfg", timeout=900, tag="dev_" + d, heap="4g", extra=["-noGenerateSpecTE"])
        finally:
            rm_mc(mod)
        if r.error:
            raise vlib.MachineryError("Experiment sensitivity run (%s): %s" % (d, r.error))
        rules = re.findall(r'/\\ viol = \{([^}]*)\}', r.out)
        last = rules[-1] if rules else ""
        if r.violated != inv or EXPECT[d] not in last:
            raise vlib.MachineryError("deviation %s=FALSE is not caught by the monitor as %s (got %s / %s)" % (d, EXPECT[d], r.violated, last))
        sens[d] = last.replace('"', "")
        v.add_tlc(r, "sensitivity: %s = FALSE -> counterexample, monitor rule %s" % (d, sens[d]))
    v.cov["monitor_sensitivity"] = sens


_RE_PLAN = re.compile(r'<<\s*"PLAN",\s*<<([\d,\s]*)>>\s*>>')


def make_plans(v, groups, per_n, out):
    """TLC simulation of Experiment.tla with W = cores for every trial count in use;
    returns the path of the plan file (lines: n s1 .. sn)."""
    cores = groups[0]["cores"]
    ns = sorted({g["n"] for g in groups if g["n"] >= 2})
    def one(n):
        mod = write_mc("plan_%d" % n, cores, n, ["empty"], inv="NoViolation NoDrift ExportPlan")
        try:
            r = vlib.tlc(PID, mod, mod + ".cfg", workers=2, timeout=600, tag="plan_%d" % n, heap="2g", env=BIGSTACK,
                         simulate=max(1, per_n // 2), depth=4 * n + 6 * cores + 20, extra=["-seed", str(vlib.seed() % 1000003 + n)])
        finally:
            rm_mc(mod)
        if r.error or r.violated:
            raise vlib.MachineryError("plan simulation N=%d: %s" % (n, r.error or (r.violated + r.out[-1500:])))
        plans = []
        for m in _RE_PLAN.finditer(r.out):
            p = [int(x) for x in re.findall(r"\d+", m.group(1))]
            if sorted(p) == list(range(n)) and p not in plans:
                plans.append(p)
        return n, plans[:per_n], r
    lines, total = [], 0
    with concurrent.futures.ThreadPoolExecutor(max_workers=6) as ex:
        for n, plans, r in ex.map(one, ns):
            mg = re.search(r"The number of states generated: (\d+)", r.out)
            r.generated, r.distinct = (int(mg.group(1)) if mg else 0), 0
            v.add_tlc(r, "simulation of Experiment.tla W=%d N=%d (monitors as invariants): %d completion orders exported" % (cores, n, len(plans)))
            total += len(plans)
            for p in plans:
                lines.append("%d %s" % (n, " ".join(map(str, p))))
    path = os.path.join(out, "plans.txt")
    open(path, "w").write("\n".join(lines) + "\n")
    v.cov["plans_from_tlc_simulation"] = {"W": cores, "trial_counts": ns, "plans": total}
    return path


def scan_prints(out, tag):
    """All <<tag, line, "rule", info>> prints of the trace spec (bracket-balanced scan, so that
    interleaved TLC progress lines do no harm)."""
    res = []
    for m in re.finditer(r'<<\s*"%s",\s*(\d+),\s*"([^"]*)",' % tag, out):
        i, depth = m.start(), 0
        j = i
        while j < len(out) - 1:
            two = out[j:j + 2]
            if two == "<<":
                depth += 1; j += 2; continue
            if two == ">>":
                depth -= 1; j += 2
                if depth == 0:
                    break
                continue
            j += 1
        res.append({"line": int(m.group(1)), "rule": m.group(2), "detail": re.sub(r"\s+", " ", out[m.end():j])})
    return res


SECTIONS = ["random-streams", "coin-flips", "simulation", "logging"]


def diagnose(lines, gstart, slot, resline):
    """Which section digests of the rejected result differ from the reference (diagnosis only)."""
    try:
        res = json.loads(lines[resline - 1])
        k = gstart + 1 + slot
        ref = json.loads(lines[k])
        if ref.get("e") != "Ref" or ref.get("slot") != slot:
            return ""
        return "+".join(SECTIONS[i] for i in range(4) if res["d"][4 * i:4 * i + 4] != ref["d"][4 * i:4 * i + 4])
    except Exception:
        return ""


def history_of(lines, line):
    """Group header + reference lines + the run that contains 1-based `line`."""
    i = line - 1
    rs = i
    while rs > 0 and not lines[rs].startswith('{"e":"Run"'):
        rs -= 1
    gs = rs
    while gs > 0 and not lines[gs].startswith('{"e":"Group"'):
        gs -= 1
    re_ = i
    while re_ < len(lines) - 1 and not lines[re_].startswith('{"e":"RunEnd"'):
        re_ += 1
    head = [l for l in lines[gs:rs] if l.startswith('{"e":"Group"') or l.startswith('{"e":"Ref"')]
    return gs, head + lines[rs:re_ + 1]


def judge_trace(v, tp, tag, seedinfo):
    """Run ExperimentTrace over the file; returns (#runs, #rejected runs)."""
    tv = vlib.validate_trace(PID, "ExperimentTrace", tp, tag=tag, heap="8g", timeout=3000)
    with open(tp) as f:
        lines = f.readlines()
    out = tv.tlc.out
    m = re.search(r'<<\s*"RUNS",\s*(\d+),\s*(\d+)\s*>>', out)
    if not m:
        raise vlib.MachineryError("trace validation printed no RUNS line\n" + out[-2000:])
    nruns, nrej = int(m.group(1)), int(m.group(2))
    for rj in scan_prints(out, "REJECT"):
        if rj["rule"].startswith("harness-"):
            raise vlib.MachineryError("trace spec reports a malformed recording: line %d %s %s" % (rj["line"], rj["rule"], rj["detail"][:300]))
        gs, hist = history_of(lines, rj["line"])
        grp = json.loads(lines[gs])
        flips = bool(grp.get("profile", 0) & 2)
        sig = "C19|" + rj["rule"]
        text = "group %d (N=%d, struct %d bytes, cores %d) line %d of %s" % (grp["g"], grp["n"], grp["sz"], grp["cores"], rj["line"], tp)
        if rj["rule"] == "result-differs-from-sequential-run":
            sig += "|trials-flip-coins" if flips else "|no-coin-flips"
            ms = re.search(r"slot \|-> (\d+)", rj["detail"])
            if ms:
                text += "; trial %s, sections that differ: %s" % (ms.group(1), diagnose(lines, gs, int(ms.group(1)), rj["line"]) or "?")
        rp = vlib.save_replay(PID, "viol_%s_g%d_l%d.ndjson" % (tag, grp["g"], rj["line"]),
                              json.dumps(dict(e="Replay", group=grp["g"], **seedinfo)) + "\n" + "".join(hist))
        v.violation(sig, rp, text)
    for dr in scan_prints(out, "DRIFT"):
        msg = "DRIFT: %s (line %d of %s): the runner departs from the design model, the property still holds" % (dr["rule"], dr["line"], tp)
        if msg not in v.notes and len(v.notes) < 20:
            v.notes.append(msg)
            print(msg)
        v.cov["drift"] = v.cov.get("drift", 0) + 1
    v.add_tlc(tv.tlc, "ExperimentTrace (monitor folded over the real runner's traces), %d runs, %s" % (nruns, tag))
    return nruns, nrej, lines


def run(tier, replay=None):
    v = vlib.Verdict(PID, "model_checking", tier)
    v.assumptions = [
        "thread schedules: all interleavings in the model (W <= 3, N <= 4); on the real runner those the OS produces under the "
        "schedule shapes used (durations, cpu affinity, completion orders forced from TLC behaviours)",
        "a trial's result is observed as a 64-bit digest of every value it saw (bit patterns of all samples, simulation outputs, "
        "logger decisions); equal digests are taken as bit-identical results",
        "every trial of the harness sets what it relies on from its own parameters (seed, logger flags, start time), as the statement "
        "requires of the trial function; groups whose trials do not seed are checked for the counting clauses only",
        "Begin/End/Return are ordered by one global atomic stamp taken first / last thing in the trial function and right after the return; "
        "calls still running 15-60 ms after the return would be recorded as late",
        "your_trial_func == NULL is outside the statement (rejected by a release assert)",
    ]
    v.cov["drift"] = 0
    out = vlib.outdir(PID)
    vlib.build_lib(PID, "rel")
    exe = vlib.cc_harness(PID, "rel", "exp_replay")
    seed = vlib.seed()

    if replay:
        replay = os.path.abspath(replay)
        with open(replay) as f:
            first = json.loads(f.readline())
        nr, nj, _ = judge_trace(v, replay, "replay_recorded", dict(seed=first.get("seed", seed), runs=first.get("runs", 8)))
        if first.get("e") == "Replay":
            tp = os.path.join(out, "replay_rerun.ndjson")
            rc, o = vlib.run([exe, "gen", str(first["seed"]), "1", str(first.get("runs", 8)), tp, "-", str(first["group"])], timeout=600)
            if rc not in (0, 3):
                raise vlib.MachineryError("exp_replay failed rc=%d %s" % (rc, o[-1500:]))
            nr2, nj2, _ = judge_trace(v, tp, "replay_rerun", dict(seed=first["seed"], runs=first.get("runs", 8)))
            nr += nr2
        v.cov["traces_validated_against_impl"] = v.cov["evaluations"] = v.cov["distinct_nontrivial"] = nr
        v.cov["rule"] = "replay of one recorded group"
        evp = os.path.join(vlib.ROOT, "evidence", PID + ".json")          # a replay does not replace the evidence of the last full run
        keep = open(evp).read() if os.path.exists(evp) else None
        rc = v.finish()
        if keep is not None:
            open(evp, "w").write(keep)
        return rc

    if os.environ.get("C19_SKIP_MC") == "1":       # development aid for mutation runs; never set by the registered command
        v.notes.append("model checking skipped (C19_SKIP_MC=1)")
    else:
        model_check(v, tier)

    ngroups, runs, per_n = (28, 8, 4) if tier == "quick" else (91, 24, 8)
    rc, o = vlib.run([exe, "config", str(seed), str(ngroups)], timeout=60)
    if rc != 0:
        raise vlib.MachineryError("exp_replay config failed: " + o[-1000:])
    groups = [json.loads(l) for l in o.splitlines() if l.startswith("{")]
    planfile = make_plans(v, groups, per_n, out)

    variants = [("rel", exe, ngroups, runs)]
    if tier == "thorough":
        vlib.build_lib(PID, "san")
        variants.append(("san", vlib.cc_harness(PID, "san", "exp_replay"), 28, 8))
    total_runs = total_rej = nontrivial = crashes = 0
    for vn, ex, ng, nr in variants:
        tp = os.path.join(out, "trace_%s.ndjson" % vn)
        rc, o = vlib.run([ex, "gen", str(seed), str(ng), str(nr), tp, planfile], timeout=3000)
        if rc not in (0, 3):
            raise vlib.MachineryError("exp_replay failed rc=%d %s" % (rc, o[-1500:]))
        if rc == 3:
            bad = re.findall(r"#GROUPFAIL (\d+) status (\d+)", o)
            crashes += len(bad)
            msg = "%s build: %d group(s) crashed, hung or hit a sanitizer report (memory safety is C10's statement): %s" % (vn, len(bad), bad[:5])
            v.notes.append(msg); print("NOTE " + msg)
            if len(bad) * 2 > ng:
                raise vlib.MachineryError("most groups did not finish: " + o[-2500:])
        a, b, lines = judge_trace(v, tp, "tv_" + vn, dict(seed=seed, runs=nr))
        total_runs += a; total_rej += b
        # a run is non-trivial when at least one worker thread ran two or more trials, or two or more threads ran trials
        cur_w = set(); multi = False
        for l in lines:
            if l.startswith('{"e":"Run"'):
                cur_w = set(); multi = False
            elif l.startswith('{"e":"Begin"'):
                w = l.split('"w":')[1].split(",")[0]
                multi = multi or (w in cur_w); cur_w.add(w)
            elif l.startswith('{"e":"RunEnd"'):
                if multi or len(cur_w) >= 2:
                    nontrivial += 1
                if '"plan_abandoned":true' in l:
                    v.cov["plans_abandoned"] = v.cov.get("plans_abandoned", 0) + 1
        v.sample([l.strip()[:160] for l in lines[0:2]] + [l.strip() for l in lines if l.startswith('{"e":"Run"')][:1])
    v.cov["traces_validated_against_impl"] = total_runs
    v.cov["evaluations"] = total_runs
    v.cov["distinct_nontrivial"] = nontrivial
    v.cov["runs_rejected"] = total_rej
    v.cov["groups_crashed"] = crashes
    v.cov["rule"] = ("one case = one call of cimba_run_experiment (a group's experiment under one schedule shape), validated together with the "
                     "group's sequential reference; non-trivial = trials ran on >= 2 threads or some thread ran >= 2 trials; cases are distinct "
                     "by (group, run) = (trial count, struct size, content profile, seeds) x (duration shape, cpus, plan)")
    return v.finish()
