"""C17 - data summaries equal the exact sample statistics; merging equals concatenation;
laws of the weighted summary.

1. TLC model-checks spec/Summary.tla (property level: power-sum tuples vs. the definitional
   statistics of the ghost data; design level: the library's running state m1..m4 with Meng's
   update and Pebay's merge over exact rationals refines the tuple, accessors exact, weighted laws)
   for all histories over small alphabets, plain and weighted.
2. Every history TLC explored is exported and replayed on the real library by harness/sum_replay
   under several integer affine images and power-of-two units (large common offset, extreme
   magnitudes), weighted ones additionally with scaled weights, injected zero-weight samples and a
   sequential rebuild of every merged summary; seeded random histories add longer sequences,
   constant data, wide data, all split/merge shapes, cmb_dataset_summarize and
   cmb_timeseries_summarize.
3. TLC validates every recorded trace against spec/SummaryTrace.tla (exact bignum arithmetic in
   TLA+, spec/C17Big.tla).  The harness logs, the specification decides.
"""
import os, re, json, random, time
from concurrent.futures import ThreadPoolExecutor
import vlib

PID = "C17"
SHARD_LINES = 30000      # script lines per trace file (one TLC process of about 1.5 GB each)
POOL = max(2, min(12, vlib.NCPU - 3))

MC = """SPECIFICATION Spec
CONSTANTS
  Weighted = %(weighted)s
  NObj = %(nobj)d
  XCodes = %(xcodes)s
  XOff = %(xoff)d
  Wts = %(wts)s
  MaxTotal = %(maxtotal)d
  Scales = %(scales)s
  Export = %(export)s
INVARIANTS TupleIsData ClosedFormsAreDefinitions Refines AccessorsExact WeightedLaws
VIEW View
CHECK_DEADLOCK FALSE
"""
# name, parameters, workers
QUICK_CFGS = [
    ("plain3", dict(weighted="FALSE", nobj=3, xcodes="{0, 1, 3}", xoff=1, wts="{1}", maxtotal=6, scales="{2}", export="TRUE"), 8),
    ("wtd3", dict(weighted="TRUE", nobj=3, xcodes="{0, 1, 3}", xoff=1, wts="{0, 1, 3}", maxtotal=4, scales="{2, 5}", export="TRUE"), 8),
]
THOROUGH_CFGS = [
    ("plain3_7", dict(weighted="FALSE", nobj=3, xcodes="{0, 1, 3}", xoff=1, wts="{1}", maxtotal=7, scales="{2}", export="TRUE"), 4),
    ("plain3_8", dict(weighted="FALSE", nobj=3, xcodes="{0, 1, 3}", xoff=1, wts="{1}", maxtotal=8, scales="{2}", export="FALSE"), 4),
    ("plain4v", dict(weighted="FALSE", nobj=3, xcodes="{0, 2, 3, 7}", xoff=2, wts="{1}", maxtotal=6, scales="{2}", export="FALSE"), 4),
    ("wtd3_5", dict(weighted="TRUE", nobj=3, xcodes="{0, 1, 3}", xoff=1, wts="{0, 1, 3}", maxtotal=5, scales="{2, 5}", export="TRUE"), 4),
    ("wtd3_6", dict(weighted="TRUE", nobj=3, xcodes="{0, 1, 3}", xoff=1, wts="{0, 1, 3}", maxtotal=6, scales="{2, 5}", export="FALSE"), 6),
    ("wtd2w", dict(weighted="TRUE", nobj=2, xcodes="{0, 1, 3}", xoff=1, wts="{1, 2, 5}", maxtotal=6, scales="{3}", export="FALSE"), 4),
]

WSCALE_CODES = 8      # table WSCALE in harness/sum_replay.c; code 0 is 1.0


def parse_hists(out):
    txt = re.sub(r"\s+", "", out)
    hists = []
    for chunk in txt.split('<<"H",')[1:]:
        end = chunk.find(">>>>")
        body = chunk if end < 0 else chunk[:end]
        nums = [int(x) for x in re.findall(r"-?\d+", body)]
        hists.append(tuple(tuple(nums[i:i + 4]) for i in range(0, len(nums) - len(nums) % 4, 4)))
    return hists


# ------------------------------------------------------------------ script generation
class Gen:
    """Builds groups of histories as script text.  The bookkeeping kept here (which samples an
    object holds, in concatenation order) is what any caller would know; no statistic is computed."""

    def __init__(self, rng):
        self.rng = rng
        self.groups = []          # list of (gid, [lines], tag)
        self.h = 0

    def new_group(self, tag):
        self.groups.append((len(self.groups) + 1, [], tag))
        return self.groups[-1][1]

    def init(self, g, se, wc):
        self.h += 1
        g.append("init %d %d %d" % (self.h, se, wc))

    # ---- plain histories from abstract ops  (1,o,x,w) add  (2,t,a,b) merge  (3,o,0,0) reset
    def plain_history(self, g, ops, f, se):
        self.init(g, se, 0)
        for (c, p1, p2, p3) in ops:
            if c == 1:
                g.append("add %d %d" % (p1, f(p2)))
            elif c == 2:
                g.append("merge %d %d %d" % (p1, p2, p3))
            elif c == 3:
                g.append("reset %d" % p1)
            elif c == 4:      # (4, o, tuple of x) dataset summarize
                g.append("dsum %d %d %s" % (p1, len(p2), " ".join(str(f(x)) for x in p2)))

    # ---- weighted: base run, scaled run, zero-injected run, sequential rebuild of merged summaries
    def weighted_history(self, g, ops, f, se, wc, inject_zero=False):
        self.init(g, se, wc)
        ghost = {1: [], 2: [], 3: []}
        merged = []
        for (c, p1, p2, p3) in ops:
            if inject_zero and self.rng.random() < 0.5:
                g.append("addw %d %d 0" % (self.rng.randint(1, 3), f(self.rng.randint(-3, 3))))
            if c == 1:
                g.append("addw %d %d %d" % (p1, f(p2), p3))
                if p3 != 0:
                    ghost[p1] = ghost[p1] + [(p2, p3)]
            elif c == 2:
                g.append("mergew %d %d %d" % (p1, p2, p3))
                ghost[p1] = ghost[p2] + ghost[p3]
                if ghost[p1]:
                    merged.append(list(ghost[p1]))
            elif c == 3:
                g.append("resetw %d" % p1)
                ghost[p1] = []
            elif c == 5:      # (5, o, tuple of (x, w)) time series summarize
                g.append("tsum %d %d %s %s" % (p1, len(p2), " ".join(str(f(x)) for x, _ in p2), " ".join(str(w) for _, w in p2)))
                ghost[p1] = [(x, w) for x, w in p2 if w != 0]
        return merged

    def rebuild_history(self, g, merged, f, se, wc):
        if not merged:
            return
        self.init(g, se, wc)
        seen = set()
        for data in merged:
            key = tuple(data)
            if key in seen or len(data) > 40:
                continue
            seen.add(key)
            g.append("resetw 1")
            for (x, w) in data:
                g.append("addw 1 %d %d" % (f(x), w))

    def weighted_group(self, ops, f, se, tag, full=True):
        g = self.new_group(tag)
        merged = self.weighted_history(g, ops, f, se, 0)
        c1 = self.rng.randint(1, WSCALE_CODES - 1)
        self.weighted_history(g, ops, f, se, c1)
        if full:
            self.weighted_history(g, ops, f, se, self.rng.choice([0, self.rng.randint(1, WSCALE_CODES - 1)]), inject_zero=True)
            self.rebuild_history(g, merged, f, se, self.rng.choice([0, c1]))

    def script(self, groups):
        out = []
        for gid, lines, tag in groups:
            out.append("group %d" % gid)
            out.extend(lines)
        return "\n".join(out) + "\n"


def affine(a, b):
    return lambda x: a * x + b


def frames_for(rng, i, tier):
    """integer affine images k = a*x + b and power-of-two unit exponents for TLC-exported histories"""
    base = [(1, 0, 0)]
    pool = [(1, 1 << 20, 0), (1, (1 << 29) + 3, 0), (-3, 5, -200), (1000003, -17, 200), (7, -(1 << 29), 0),
            (1 << 18, 0, -60), (1, 1000000007 % (1 << 29), 3), (-1, 0, 150), (5, 1 << 24, -150)]
    k = 1 if tier == "quick" else 2
    return base + [pool[(i + j * 4) % len(pool)] for j in range(k)]


def random_ops(rng, weighted):
    """a split / merge history over a random sequence: parts summarised separately and merged"""
    cls = rng.choice(["small", "small", "wide", "offset", "offset", "const", "twoval", "outlier", "tiny"])
    L = rng.choice([0, 1, 2, 3, 4, 5, 6, 8, 11, 16, 24])
    long_run = rng.random() < 0.05       # a long first part, fed through cmb_dataset / cmb_timeseries summarize
    if long_run:
        L = rng.choice([65, 130, 500, 1500])
    if cls == "small":
        xs = [rng.randint(-8, 8) for _ in range(L)]
    elif cls == "wide":
        xs = [rng.randint(-(1 << 20), 1 << 20) for _ in range(L)]
    elif cls == "offset":
        b = rng.choice([1 << 20, 1000007, (1 << 29) + 11, -(1 << 29) + 5, 1 << 25])
        r = rng.choice([1, 3, 40, 1000])
        xs = [b + rng.randint(-r, r) for _ in range(L)]
    elif cls == "const":
        c = rng.choice([0, 1, -7, 1 << 20, (1 << 29) + 1])
        xs = [c] * L
    elif cls == "twoval":
        a, b = rng.randint(-5, 5), rng.randint(-5, 5)
        xs = [rng.choice([a, b]) for _ in range(L)]
    elif cls == "tiny":
        xs = [rng.randint(-1, 1) for _ in range(L)]
    else:
        xs = [0] * L
        if L:
            xs[rng.randrange(L)] = rng.choice([1, 1 << 20, -(1 << 16)])
    if weighted:
        wcls = rng.choice(["unit", "equal", "small", "small", "mixed", "zeros"])
        def wt():
            if wcls == "unit": return 1
            if wcls == "equal": return 4
            if wcls == "small": return rng.randint(1, 5)
            if wcls == "mixed": return rng.choice([1, 2, 100, 3000])
            return rng.choice([0, 0, 1, 2])
        data = [(x, wt()) for x in xs]
    else:
        data = [(x, 1) for x in xs]
    ops = []
    nparts = rng.choice([1, 2, 2, 3, 3])
    cuts = sorted((L - rng.randint(0, 5)) if long_run else rng.randint(0, L) for _ in range(nparts - 1))
    parts = [data[a:b] for a, b in zip([0] + cuts, cuts + [L])]
    objs = [1, 2, 3]
    rng.shuffle(objs)
    # fill the parts, interleaved
    todo = [(objs[i], list(p)) for i, p in enumerate(parts)]
    filled = {o: 0 for o in objs}
    mode = 0.0 if long_run else rng.random()
    if mode < 0.2 and not weighted and parts[0]:
        ops.append((4, todo[0][0], tuple(x for x, _ in todo[0][1]), 0)); todo[0] = (todo[0][0], [])
    if mode < 0.25 and weighted and parts[0]:
        ops.append((5, todo[0][0], tuple(todo[0][1]), 0)); todo[0] = (todo[0][0], [])
    while any(p for _, p in todo):
        o, p = rng.choice([t for t in todo if t[1]])
        x, w = p.pop(0)
        ops.append((1, o, x, w))
    # merge chain
    live = objs[:nparts]
    while len(live) > 1:
        a, b = live[0], live[1]
        if rng.random() < 0.5:
            a, b = b, a
        t = rng.choice([a, b] + [o for o in objs if o not in live][:1])
        ops.append((2, t, a, b))
        live = [t] + [o for o in live[2:] if o != t]
        if rng.random() < 0.3:
            x = rng.choice(xs) if xs else rng.randint(-3, 3)
            ops.append((1, t, x + rng.randint(-1, 1), 1 if not weighted else rng.randint(1, 3)))
    if rng.random() < 0.25:
        # merging with / of empty summaries, then carrying on
        e1, e2 = [o for o in objs if o != live[0]][:2]
        ops.append((3, e1, 0, 0)); ops.append((3, e2, 0, 0))
        if rng.random() < 0.5:
            ops.append((2, e1, e1, e2))
            for _ in range(rng.randint(1, 4)):
                ops.append((1, e1, rng.choice(xs) if xs else rng.randint(-3, 3), 1 if not weighted else rng.randint(1, 3)))
            ops.append((2, rng.choice(objs), live[0], e1))
        else:
            ops.append((2, rng.choice([live[0], e1]), live[0], e1) if rng.random() < 0.5 else (2, rng.choice([live[0], e1]), e1, live[0]))
    return ops


def build_groups(gen, tier, hists_plain, hists_wtd):
    rng = gen.rng
    ident = affine(1, 0)
    # 1. TLC-exported histories
    np_, nw_ = (1500, 500) if tier == "quick" else (20000, 5000)
    sel_p = hists_plain if len(hists_plain) <= np_ else rng.sample(hists_plain, np_)
    sel_w = hists_wtd if len(hists_wtd) <= nw_ else rng.sample(hists_wtd, nw_)
    for i, h in enumerate(sel_p):
        g = gen.new_group("tlc-plain")
        for (a, b, se) in frames_for(rng, i, tier):
            gen.plain_history(g, h, affine(a, b), se)
    for i, h in enumerate(sel_w):
        fr = frames_for(rng, i, tier)
        a, b, se = fr[i % len(fr)]
        gen.weighted_group(h, affine(a, b), se, "tlc-wtd", full=(i % 2 == 0))
    # 2. seeded random split / merge histories
    nrp, nrw = (500, 250) if tier == "quick" else (6000, 3000)
    for i in range(nrp):
        g = gen.new_group("rnd-plain")
        gen.plain_history(g, random_ops(rng, False), ident, rng.choice([0, 0, 0, -200, 200, -30, 17, 3, -3]))
    for i in range(nrw):
        gen.weighted_group(random_ops(rng, True), ident, rng.choice([0, 0, 0, -200, 200, -30, 17]), "rnd-wtd")
    return len(sel_p), len(sel_w), nrp, nrw


# ------------------------------------------------------------------ running
def record_and_validate(v, exe, vn, groups_by_shard, gen, out, grp_index):
    """run the harness on every shard's script, validate every trace; returns (#histories, #obs)"""
    def one(si):
        groups = groups_by_shard[si]
        sp = os.path.join(out, "script_%s_%02d.txt" % (vn, si))
        tp = os.path.join(out, "trace_%s_%02d.ndjson" % (vn, si))
        with open(sp, "w") as f:
            f.write(gen.script(groups))
        rc, o = vlib.run([exe, "script", sp, tp], timeout=1800)
        if rc not in (0, 3):
            raise vlib.MachineryError("sum_replay failed rc=%d: %s" % (rc, o[-1500:]))
        tv = vlib.validate_trace(PID, "SummaryTrace", tp, tag="tv_%s_%02d" % (vn, si), timeout=3000, heap="4g")
        return si, sp, tp, rc, o, tv
    with ThreadPoolExecutor(max_workers=POOL) as ex:
        results = list(ex.map(one, range(len(groups_by_shard))))
    nh = nobs = 0
    for si, sp, tp, rc, o, tv in results:
        with open(tp) as f:
            lines = f.readlines()
        nh += sum(1 for l in lines if l.startswith('{"op":"init"'))
        nobs += sum(1 for l in lines if l.startswith('{"op":"obs'))
        ncr = sum(1 for l in lines if l.startswith('{"op":"crash"'))
        if ncr or rc == 3 or "ERROR: AddressSanitizer" in o or "runtime error" in o:
            msg = "%s build, shard %d: %d group(s) ended by a crash / abort / sanitizer report (C10's business): %s" % (vn, si, ncr, o[-600:].replace("\n", " "))
            v.notes.append(msg)
        nskip = len(re.findall(r'<<\s*"SKIP"', tv.tlc.out))
        if nskip:
            v.notes.append("%s build, shard %d: %d histories skipped because the time series' own durations differ from the "
                           "differences of its time stamps (not a statement of C17)" % (vn, si, nskip))
        v.add_tlc(tv.tlc, "SummaryTrace over shard %d on %s build (%d lines)" % (si, vn, len(lines)))
        if si == 0:
            v.sample([l.strip()[:300] for l in lines[1:5]])
        if not tv.rejects and si != 0:
            os.remove(tp); os.remove(sp)          # scratch: keep shard 0 and the shards that carry a rejection
        for rj in tv.rejects:
            if rj["rule"].startswith("harness-"):
                raise vlib.MachineryError("trace spec reports harness problem: %s" % rj)
            # the group that contains the rejected line
            gid = None
            for l in reversed(lines[:rj["line"]]):
                if l.startswith('{"op":"group"'):
                    gid = json.loads(l)["g"]
                    break
            pv = re.search(r'pv \|-> "([^"]*)"', rj["detail"])
            sig = "C17|%s|%s" % (rj["rule"], pv.group(1) if pv else "")
            name = "viol_%s_g%s.txt" % (vn, gid)
            if gid in grp_index:
                g = grp_index[gid]
                rp = vlib.save_replay(PID, name, gen.script([g]))
                tag = g[2]
            else:
                rp = vlib.save_replay(PID, name, "".join(vlib.extract_history(tp, rj["line"])))
                tag = "?"
            v.violation(sig, rp, "%s [%s] line %d of %s: %s" % (rj["rule"], tag, rj["line"], tp, rj["detail"][:260]))
    return nh, nobs


def _sweep_tlc_litter():
    """TLC writes <Module>_TTrace_* files next to the spec when it stops with an error"""
    for fn in os.listdir(vlib.SPEC):
        if fn.startswith(("Summary_TTrace_", "SummaryTrace_TTrace_")):
            try:
                os.remove(os.path.join(vlib.SPEC, fn))
            except OSError:
                pass


def run(tier, replay=None):
    try:
        return _run(tier, replay)
    finally:
        _sweep_tlc_litter()


def _run(tier, replay=None):
    v = vlib.Verdict(PID, "model_checking", tier)
    v.assumptions = [
        "statistics pinned as documented in the headers: variance M2/(n-1), skewness sqrt(n(n-1))/(n-2) * sqrt(n) M3/M2^1.5, "
        "excess kurtosis (n-1)/((n-2)(n-3)) * ((n+1)(n M4/M2^2 - 3) + 6); nothing is demanded where a statistic is undefined "
        "(empty summary, variance of one sample, skewness/kurtosis of constant data or fewer than 3/4 samples)",
        "for a weighted summary only what the property states is demanded: exact weighted mean; with all non-zero weights equal, "
        "the statistics of the plain summary; equal statistics for equal samples with proportional weights (zero weights dropped), "
        "however the summary was built (adds, merges, time series)",
        "'up to floating-point rounding' = n^2 * (1 + max|x|/spread) * 2^-40 relative to the spread (n times that, absolute, for "
        "skewness and kurtosis); samples are integers k < 2^30 times a power-of-two unit 2^se, |se| <= 200, so that inputs, units "
        "and the exact statistics are free of representation error and M4 stays inside the double range",
        "a reported double is logged as round(|v| / unit * 2^48) in base-4096 limbs; all comparisons are exact integer "
        "arithmetic in TLA+ (spec/C17Big.tla)",
        "merging a summary with itself (both sources the same object) is not exercised",
    ]
    out = vlib.outdir(PID)
    for fn in os.listdir(out):
        if fn.startswith(("script_", "trace_")):
            os.remove(os.path.join(out, fn))
    if not replay and os.path.isdir(os.path.join(out, "replay")):
        for fn in os.listdir(os.path.join(out, "replay")):
            os.remove(os.path.join(out, "replay", fn))
    vlib.build_lib(PID, "rel")
    variants = [("rel", vlib.cc_harness(PID, "rel", "sum_replay"))]
    if tier == "thorough":
        vlib.build_lib(PID, "san")
        variants.append(("san", vlib.cc_harness(PID, "san", "sum_replay")))
    rng = random.Random(vlib.seed() * 1000003 + 17)
    gen = Gen(rng)

    if replay:
        tp = os.path.join(out, "replay.ndjson")
        rc, o = vlib.run([variants[0][1], "script", replay, tp], timeout=600)
        if rc not in (0, 3):
            raise vlib.MachineryError("sum_replay failed on %s rc=%d: %s" % (replay, rc, o[-1500:]))
        tv = vlib.validate_trace(PID, "SummaryTrace", tp, tag="tv_replay")
        v.add_tlc(tv.tlc, "SummaryTrace over the replay of " + replay)
        for rj in tv.rejects:
            if rj["rule"].startswith("harness-"):
                raise vlib.MachineryError("trace spec reports harness problem: %s" % rj)
            pv = re.search(r'pv \|-> "([^"]*)"', rj["detail"])
            v.violation("C17|%s|%s" % (rj["rule"], pv.group(1) if pv else ""), replay,
                        "%s line %d of %s: %s" % (rj["rule"], rj["line"], tp, rj["detail"][:260]))
        with open(tp) as f:
            lines = f.readlines()
        nh = sum(1 for l in lines if l.startswith('{"op":"init"'))
        v.cov["traces_validated_against_impl"] = v.cov["distinct_nontrivial"] = nh
        v.cov["evaluations"] = sum(1 for l in lines if l.startswith('{"op":"obs'))
        v.sample([l.strip()[:300] for l in lines[1:5]])
        v.cov["rule"] = "replay of one saved group of histories"
        return v.finish()

    # ---- 1. model checking (all configurations concurrently), export of the explored histories
    cfgs = QUICK_CFGS if tier == "quick" else THOROUGH_CFGS

    def mc(item):
        name, par, workers = item
        cfgp = os.path.join(vlib.SPEC, "_gen_SummaryMC_%s.cfg" % name)
        with open(cfgp, "w") as f:
            f.write(MC % par)
        try:
            return vlib.tlc(PID, "Summary", os.path.basename(cfgp), workers=workers, timeout=2400, tag="mc_" + name,
                            extra=("-noGenerateSpecTE",))
        finally:
            os.remove(cfgp)
    mcpool = ThreadPoolExecutor(max_workers=len(cfgs))
    futs = [(item, mcpool.submit(mc, item)) for item in cfgs]
    hists_plain, hists_wtd = set(), set()

    def collect(item, r):
        name, par, workers = item
        if r.error:
            raise vlib.MachineryError("Summary model checking (%s): %s" % (name, r.error))
        v.add_tlc(r, "Summary.tla %s: %s" % (name, ", ".join("%s=%s" % kv for kv in sorted(par.items()) if kv[0] != "export")))
        if r.violated:
            raise vlib.MachineryError("Summary model violates %s in config %s (model defect):\n%s" % (r.violated, name, r.out[-3000:]))
        if par["export"] == "TRUE":
            # (which of the equivalent paths to a state carries an exported transition depends on TLC's worker scheduling)
            hs = parse_hists(r.out)
            if len(hs) != r.generated - 1:
                v.notes.append("config %s: %d histories exported for %d transitions" % (name, len(hs), r.generated - 1))
            (hists_wtd if par["weighted"] == "TRUE" else hists_plain).update(hs)
    # the exporting configurations first; the others keep running while the traces are recorded and validated
    for item, fu in futs:
        if item[1]["export"] == "TRUE":
            collect(item, fu.result())
    hists_plain, hists_wtd = sorted(hists_plain), sorted(hists_wtd)
    v.cov["tlc_histories_explored"] = {"plain": len(hists_plain), "weighted": len(hists_wtd)}

    # ---- 2. scripts
    counts = build_groups(gen, tier, hists_plain, hists_wtd)
    v.cov["groups"] = {"tlc_plain": counts[0], "tlc_weighted": counts[1], "random_plain": counts[2], "random_weighted": counts[3]}
    grp_index = {g[0]: g for g in gen.groups}
    if gen.groups:
        mid = gen.groups[len(gen.groups) // 2]
        v.sample({"group": mid[2], "script": mid[1][:14]})
    nshard = max(POOL, sum(len(g[1]) for g in gen.groups) // SHARD_LINES + 1)
    shards = [[] for _ in range(nshard)]
    order = sorted(gen.groups, key=lambda g: -len(g[1]))
    load = [0] * nshard
    for g in order:
        i = load.index(min(load))
        shards[i].append(g); load[i] += len(g[1])
    for s in shards:
        s.sort(key=lambda g: g[0])
    shards = [s for s in shards if s]

    # ---- 3. record on the real library and validate
    nh_total = nobs_total = 0
    for vn, exe in variants:
        if vn == "san":
            sub = [s[::4] for s in shards]
            sub = [s for s in sub if s]
        else:
            sub = shards
        nh, nobs = record_and_validate(v, exe, vn, sub, gen, out, grp_index)
        nh_total += nh; nobs_total += nobs
    for item, fu in futs:
        if item[1]["export"] != "TRUE":
            collect(item, fu.result())
    mcpool.shutdown()
    v.cov["traces_validated_against_impl"] = nh_total
    v.cov["evaluations"] = nobs_total
    v.cov["distinct_nontrivial"] = len({tuple(g[1][1:]) for g in gen.groups if len(g[1]) > 3})
    v.cov["rule"] = ("trace = one history on three plain and three weighted summary objects; evaluation = one observation of all "
                     "accessors of an object judged by SummaryTrace.tla; non-trivial = groups of histories with more than 2 "
                     "operations, distinct by content")
    return v.finish()
