"""C18 - sorting, medians, quartiles, histograms and correlograms respect their definitions.

1. TLC model-checks spec/DataSetMC.tla: for every time series / dataset of 1..N samples over K
   values and durations from WSet, the in-place heapsort over the parallel arrays (design model of
   cmb_dataset_sort / cmb_timeseries_sort_x / _sort_t) satisfies the sorting law of spec/DataSet.tla,
   and the reference designs (true weighted median and quartiles, the dataset's middle-element
   median and half-medians, value-dictated binning rendered as bars, exact autocovariances under
   x -> a*x+b) satisfy the laws - so the laws are satisfiable and never demand the impossible.
2. harness/ds_replay runs the same input space (every x in {1..K}^n, w in WSet^n) and seeded large
   cases (sizes on both sides of the array doubling thresholds 1024/2048/4096, duplicates, constant,
   sorted, reversed, zero durations, one sample holding most of the duration) on the real
   cmb_dataset / cmb_timeseries: copy, median, five-number report, histogram report (and the
   exported cmi_dataset_histogram_* for exact bin contents), sort, ACF of the data and of affine
   images.  It logs order positions, integer durations, bar lengths, ACF in units of 1e-7.
3. TLC validates every recorded trace against spec/DataSetTrace.tla, which applies the laws of
   spec/DataSet.tla record by record.  A rejected record is a violation of C18.
"""
import os, json, collections, concurrent.futures
import vlib

PID = "C18"
MC = """SPECIFICATION Spec
CONSTANTS
  K = %d
  N = %d
  WSet = {%s}
  HistN = %d
INVARIANTS PermInv HeapInv SortLaw MedianLaws DsLaws HistLaws AcfLaws
CHECK_DEADLOCK FALSE
"""
NSHARD = 8


def model_check(v, K, N, W, histn, workers):
    name = "_gen_DataSetMC_%d_%d_%s_%d.cfg" % (K, N, "".join(map(str, W)), histn)
    cfgp = os.path.join(vlib.SPEC, name)
    with open(cfgp, "w") as f:
        f.write(MC % (K, N, ", ".join(map(str, W)), histn))
    try:
        r = vlib.tlc(PID, "DataSetMC", name, timeout=3000, workers=workers, tag="mc_%d_%d_%d" % (K, N, len(W)), heap="6g")
    finally:
        os.remove(cfgp)
    if r.error:
        raise vlib.MachineryError("DataSetMC model checking: " + r.error)
    if r.violated:
        raise vlib.MachineryError("DataSetMC violates %s (defect of the model or of a law)\n%s" % (r.violated, r.out[-2500:]))
    return r, "DataSetMC.tla K=%d N=%d WSet=%s HistN=%d: heapsort vs sorting law, reference designs vs median / five-number / histogram / ACF laws" % (K, N, W, histn)


def build_harness(variant, notes):
    vlib.build_lib(PID, variant)
    try:
        return vlib.cc_harness(PID, variant, "ds_replay", extra_flags=["-DC18_INTERNAL_HIST"]), True
    except vlib.MachineryError as e:
        # the exported cmi_dataset_histogram_* helpers are internal; without them only printed histograms are checked
        exe = vlib.cc_harness(PID, variant, "ds_replay")
        notes.append("internal histogram helpers (src/cmi_dataset.h) not usable (%s): exact bin contents not checked" % str(e)[:120])
        return exe, False


def shards(prefix):
    return [p for p in ("%s.%d.ndjson" % (prefix, k) for k in range(NSHARD)) if os.path.exists(p) and os.path.getsize(p) > 0]


def run_harness(exe, args, prefix, notes, what):
    for k in range(NSHARD):
        p = "%s.%d.ndjson" % (prefix, k)
        if os.path.exists(p):
            os.remove(p)
    rc, o = vlib.run([exe] + [str(a) for a in args] + [str(NSHARD), prefix], timeout=3000)
    if rc not in (0, 3):
        raise vlib.MachineryError("ds_replay %s failed rc=%d: %s" % (what, rc, o[-2000:]))
    if "ERROR: AddressSanitizer" in o or "runtime error:" in o:
        rep = [l for l in o.splitlines() if "ERROR: AddressSanitizer" in l or "runtime error:" in l]
        notes.append("%s: sanitizer reports (memory errors and undefined arithmetic are property C10): %s" % (what, "; ".join(sorted(set(rep))[:4])[:600]))
    return o


def run(tier, replay=None):
    v = vlib.Verdict(PID, "model_checking", tier)
    v.assumptions = [
        "values are compared through order positions on a ladder of distinct numbers chosen by the harness (small integers, "
        "negative, fractional, 1e-3 .. 1e150 scales), durations are small integer multiples of a time unit: the verdicts "
        "depend on order, equality and integer weight sums only",
        "printed reports carry four significant digits: a sample equal to a printed bin limit may sit in either neighbouring bin, "
        "a printed quartile may have been rounded onto a data value; both readings are accepted",
        "ACF invariance is decided on coefficients rounded to 1e-7 with a tolerance of 2e-7, on well-conditioned data only "
        "(spread / magnitude >= 1e-3); rounding-error growth and PACF values are not decided",
        "a median is demanded only where the total weight is positive; a histogram of zero total weight may look anyhow, but the call must return",
        "the harness' permutation witness (src) and its reading of the report texts are trusted; the laws re-check the witness",
        "a series whose last duration is positive is closed with cmb_timeseries_finalize (a zero-duration repeat of the last value); "
        "the content judged is what is read back from the object's arrays after the samples were added (recording itself is C14/C17)",
        "a call stopped by a sanitizer report on the san build is not judged here (C10); a call that dies by a signal or an abort "
        "of the library on either build is a missing result",
    ]
    out = vlib.outdir(PID)
    notes = v.notes

    # ---- 1. model checking (runs concurrently with the recording of traces)
    if tier == "quick":
        mcs = [(3, 4, (0, 1, 4), 3)]
        enums = [(3, 4, 6, (0, 1, 4))]            # K, largest series, largest dataset, durations: the input space of mcs[0]
        nbig, maxn = 40, 2049
    else:
        mcs = [(3, 5, (0, 1, 4), 3), (4, 3, (0, 2, 3), 3), (2, 6, (0, 1, 4), 4)]
        enums = [(3, 5, 7, (0, 1, 4)), (4, 3, 5, (0, 2, 3)), (2, 6, 9, (0, 1, 4))]
        nbig, maxn = 300, 4097
    pool = concurrent.futures.ThreadPoolExecutor(max_workers=NSHARD + 1)
    mc_futs = []
    if not replay:
        mc_futs = [pool.submit(model_check, v, k, n, w, h, max(4, vlib.NCPU // 2)) for (k, n, w, h) in mcs[:1]]

    # ---- 2. traces from the real library
    variants = [("rel",) + build_harness("rel", notes)]
    if tier == "thorough" and not replay:
        variants.append(("san",) + build_harness("san", notes))
    traces = []     # (path, description, variant)
    for vn, exe, internal in variants:
        if replay:
            pre = os.path.join(out, "replay_%s" % vn)
            run_harness(exe, ["script", replay], pre, notes, "replay on %s build" % vn)
            traces += [(p, "replay of %s on %s build" % (replay, vn), vn) for p in shards(pre)]
            continue
        for ei, (K, NTS, NDS, W) in enumerate(enums if vn == "rel" else enums[:1]):
            pre = os.path.join(out, "enum%d_%s" % (ei, vn))
            nts = NTS if vn == "rel" else NTS - 1
            run_harness(exe, ["enum", vlib.seed() + ei, K, nts, NDS, ",".join(map(str, W))], pre, notes, "enumerated inputs on %s build" % vn)
            traces += [(p, "every series x in {1..%d}^n, w in %s^n, n<=%d and every dataset n<=%d on %s build" % (K, list(W), nts, NDS, vn), vn) for p in shards(pre)]
        pre = os.path.join(out, "big_%s" % vn)
        run_harness(exe, ["big", vlib.seed(), nbig if vn == "rel" else nbig // 2, maxn], pre, notes, "large seeded cases on %s build" % vn)
        traces += [(p, "seeded large cases (sizes around 1024/2048/4096) on %s build" % vn, vn) for p in shards(pre)]

    # ---- 3. trace validation, shards in parallel
    def validate(t):
        p, desc, vn = t
        return t, vlib.validate_trace(PID, "DataSetTrace", p, tag="tv_" + os.path.basename(p), heap="4g", timeout=3000)
    results = list(pool.map(validate, traces))
    for f in mc_futs:
        r, what = f.result()
        v.add_tlc(r, what)
    for (k, n, w, h) in (mcs[1:] if not replay else []):
        r, what = model_check(v, k, n, w, h, vlib.NCPU)
        v.add_tlc(r, what)

    ncases, nontrivial = 0, set()
    ops = collections.Counter()
    rejected = collections.Counter()
    sanit = 0
    for (p, desc, vn), tv in results:
        v.add_tlc(tv.tlc, "DataSetTrace over " + desc + " [" + os.path.basename(p) + "]")
        with open(p) as f:
            lines = f.readlines()
        inits = {}
        last_init = None
        for i, ln in enumerate(lines):
            if ln.startswith('{"op":"init"'):
                last_init = i
                if '"resumed":false' in ln:
                    ncases += 1
                    e = json.loads(ln)
                    if e["cnt"] >= 2:
                        nontrivial.add(e["spec"])
                    if e["cnt"] <= 6:
                        v.sample({"case": e["spec"], "records": [json.loads(x) for x in lines[i + 1:i + 4] if len(x) < 400]}, cap=4)
            else:
                op = ln[7:ln.find('"', 7)]
                ops[op] += 1
                if op == "crash" and '"signal":0,' in ln:
                    sanit += 1
            inits[i] = last_init
        for rj in tv.rejects:
            if rj["rule"] == "harness-undecodable-input":
                # what is read back from the object is not what was added: not a statement of C18 (the case is skipped)
                msg = "some cases skipped: the object did not hold the samples that were added (see line %d of %s)" % (rj["line"], p)
                if not any(n.startswith("some cases skipped") for n in notes):
                    notes.append(msg); print("NOTE " + msg)
                continue
            if rj["rule"].startswith("harness-"):
                raise vlib.MachineryError("trace spec reports a problem of the recording: %s (line %d of %s)" % (rj["rule"], rj["line"], p))
            i = rj["line"] - 1
            e0 = json.loads(lines[inits[i]]) if inits.get(i) is not None else {"kind": "?", "spec": "?"}
            sig = "C18|%s|%s" % (e0["kind"], rj["rule"])
            rejected[sig] += 1
            if not any(s == sig for s, _, _ in v.violations) and vlib.match_finding(PID, sig) is None:
                rp = vlib.save_replay(PID, "viol_%s_%s_%s.ndjson" % (e0["kind"], rj["rule"], vn), lines[inits[i]] + lines[i])
            else:
                rp = ""
            rec = lines[i].strip()
            v.violation(sig, rp, "case [%s] record %s (line %d of %s)" % (e0["spec"][:300], rec[:300], rj["line"], p))
    if sanit:
        msg = "%d calls were stopped by a sanitizer report on the san build (not judged here: memory errors and undefined arithmetic are C10)" % sanit
        notes.append(msg)
    v.cov["traces_validated_against_impl"] = ncases
    v.cov["evaluations"] = sum(ops.values())
    v.cov["distinct_nontrivial"] = len(nontrivial)
    v.cov["records_by_call"] = dict(ops)
    v.cov["rejected_by_rule"] = dict(rejected)
    v.cov["exhaustive"] = False
    v.cov["rule"] = ("one case = one dataset or time series built on the real library and taken through copy, median, five-number report, "
                     "histogram reports, sort (by value, back by time), ACF with affine images; one evaluation = one recorded call judged by "
                     "DataSetTrace.tla; non-trivial = at least two samples, distinct by input and value ladder")
    return v.finish()
