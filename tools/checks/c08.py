"""C08 - see DESIGN.md §4 C08; kernel property checked by tools/checks/kcommon.py"""
from checks.kcommon import run_kernel_check


def run(tier, replay=None):
    return run_kernel_check("C08", tier, replay)
