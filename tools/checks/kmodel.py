"""TLC model checking of spec/Kernel.tla (+ KMon monitors as invariants) for the kernel
properties, and export of the programs TLC explored for replay on the real library.

A configuration = constants of Kernel.tla (processes, priorities, alphabet of instructions,
instructions per process).  TLC explores ALL programs over the alphabet (instructions are
chosen lazily) and prints the program at every quiescent state (ExportProg)."""
import os, re, sys, json
sys.path.insert(0, os.path.dirname(os.path.dirname(os.path.abspath(__file__))))
import vlib

def I(op, a=0, b=0, c=0):
    return (op, a, b, c)

HOLDS = [I("hold", 0), I("hold", 1)]
def both(op, *args, np=2):
    return [I(op, q, *args) for q in range(1, np + 1)]

CONFIGS = {
  # name: dict(np, prio, auto, nres, poolcap, alphabet, maxlen, maxtime, restart)
  "mutex2": dict(np=2, prio=[0, 0], auto=[1, 1], nres=1, poolcap=1, maxlen=5, maxtime=6,
                 alphabet=HOLDS + [I("acq", 1), I("rel", 1)]),
  "mutex2p": dict(np=2, prio=[0, 1], auto=[1, 1], nres=1, poolcap=1, maxlen=4, maxtime=5,
                  alphabet=HOLDS + [I("acq", 1), I("rel", 1), I("pre", 1), I("tadd", 1, -5)]),
  "mutex3": dict(np=3, prio=[0, 0, 1], auto=[1, 1, 1], nres=1, poolcap=1, maxlen=3, maxtime=4,
                 alphabet=HOLDS + [I("acq", 1), I("rel", 1), I("pre", 1)]),
  "wait2": dict(np=2, prio=[0, 0], auto=[1, 1], nres=1, poolcap=1, maxlen=4, maxtime=6,
                alphabet=[I("hold", 0), I("hold", 2), I("tadd", 1, -5), I("tcancel", 1)] + both("wproc") + both("intr", -2, 0) + [I("exit", 11)]),
  "wait2r": dict(np=2, prio=[0, 1], auto=[1, 1], nres=1, poolcap=1, maxlen=4, maxtime=6,
                 alphabet=[I("hold", 1), I("tadd", 1, -5), I("tadd", 0, 7), I("acq", 1), I("rel", 1), I("tclear")] + both("intr", 9, 5) + both("stop", 5)),
  "order3": dict(np=3, prio=[0, 1, 2], auto=[1, 1, 1], nres=1, poolcap=1, maxlen=3, maxtime=4,
                 alphabet=HOLDS + [I("acq", 1), I("rel", 1), I("prio", 1, 2), I("prio", 3, 0)]),
  "order3e": dict(np=3, prio=[1, 1, 1], auto=[1, 1, 1], nres=1, poolcap=1, maxlen=3, maxtime=4,
                  alphabet=HOLDS + [I("acq", 1), I("rel", 1), I("prio", 2, 2), I("tadd", 1, -5)]),
  "pool2": dict(np=2, prio=[0, 1], auto=[1, 1], nres=1, poolcap=2, maxlen=4, maxtime=5,
                alphabet=HOLDS + [I("pacq", 1), I("pacq", 2), I("prel", 1), I("ppre", 1), I("ppre", 2), I("tadd", 1, -5)]),
  "pool3": dict(np=3, prio=[0, 1, 2], auto=[1, 1, 1], nres=1, poolcap=2, maxlen=3, maxtime=4,
                alphabet=[I("hold", 1), I("pacq", 1), I("pacq", 2), I("prel", 1), I("ppre", 2), I("intr", 1, -2, 5), I("prio", 1, 2)]),
  "lost2": dict(np=2, prio=[0, 0], auto=[1, 1], nres=1, poolcap=2, maxlen=4, maxtime=5,
                alphabet=HOLDS + [I("acq", 1), I("rel", 1), I("tadd", 1, -5), I("tadd", 0, 7)] + both("intr", -2, 5) + both("stop", 3)),
  "lost3": dict(np=3, prio=[0, 0, 0], auto=[1, 1, 1], nres=1, poolcap=2, maxlen=3, maxtime=4,
                alphabet=[I("hold", 1), I("acq", 1), I("rel", 1), I("tadd", 1, -5), I("stop", 2, 3), I("intr", 2, -2, 5), I("pacq", 2), I("prel", 2)]),
  "end2": dict(np=2, prio=[0, 0], auto=[1, 1], nres=1, poolcap=2, maxlen=4, maxtime=5,
               alphabet=[I("hold", 1), I("acq", 1), I("pacq", 1), I("tadd", 1, -5), I("exit", 12)] + both("wproc") + both("stop", 4)),
  "restart2": dict(np=2, prio=[0, 0], auto=[1, 0], nres=1, poolcap=2, maxlen=3, maxtime=3, restart=True,
               alphabet=[I("hold", 1), I("acq", 1), I("exit", 12), I("wproc", 1)] + both("stop", 4) + both("start")),
  "end3": dict(np=3, prio=[0, 0, 1], auto=[1, 1, 1], nres=1, poolcap=2, maxlen=3, maxtime=4,
               alphabet=[I("hold", 1), I("acq", 1), I("pacq", 2), I("wproc", 1), I("wproc", 2), I("stop", 1, 4), I("stop", 2, 4), I("exit", 12), I("tadd", 0, 7)]),
  "buf2": dict(np=2, prio=[0, 0], auto=[1, 1], nres=1, poolcap=1, bufcap=2, maxlen=3, maxtime=4,
               alphabet=HOLDS + [I("bput", 1), I("bput", 3), I("bget", 1), I("bget", 3), I("tadd", 1, -5)] + both("intr", -2, 5)),
  "buf3": dict(np=3, prio=[0, 1, 0], auto=[1, 1, 1], nres=1, poolcap=1, bufcap=2, maxlen=3, maxtime=4,
               alphabet=[I("hold", 1), I("bput", 2), I("bget", 2), I("bget", 3), I("bput", 3), I("stop", 2, 3)]),
  "queue2": dict(np=2, prio=[0, 0], auto=[1, 1], nres=1, poolcap=1, oqcap=1, pqcap=1, maxlen=3, maxtime=4,
               alphabet=[I("hold", 1), I("qput", 1), I("qput", 2), I("qget"), I("pqput", 1, 0), I("pqput", 2, 1), I("pqget"), I("pqcancel", 1), I("pqreprio", 1, 2), I("tadd", 1, -5)]),
  "queue3": dict(np=3, prio=[0, 0, 1], auto=[1, 1, 1], nres=1, poolcap=1, oqcap=1, pqcap=2, maxlen=3, maxtime=4,
               alphabet=[I("hold", 1), I("qput", 1), I("qget"), I("pqput", 1, 1), I("pqput", 2, 0), I("pqget"), I("pqcancel", 1), I("intr", 1, -2, 5)]),
  "cond2": dict(np=2, prio=[0, 0], auto=[1, 1], nres=1, poolcap=1, maxlen=4, maxtime=4,
               alphabet=[I("hold", 1), I("cwait", 0), I("cwait", 2), I("csig"), I("setflag", 0, 1), I("csub", 0), I("acq", 1), I("rel", 1)] + both("ccancel") + both("cremove")),
  "cond3": dict(np=3, prio=[0, 1, 0], auto=[1, 1, 1], nres=1, poolcap=1, maxlen=3, maxtime=4,
               alphabet=[I("hold", 1), I("cwait", 0), I("cwait", 1), I("setflag", 0, 1), I("setflag", 1, 1), I("csig"), I("tadd", 1, -5)]),
  "cond3s": dict(np=3, prio=[0, 0, 0], auto=[1, 1, 1], nres=1, poolcap=1, maxlen=3, maxtime=4,
               alphabet=[I("hold", 1), I("cwait", 2), I("cwait", 0), I("csub", 0), I("acq", 1), I("rel", 1), I("setflag", 0, 1)]),
  # three waiters of equal priority arriving at different times and a fourth process that reshuffles the list and signals
  "cond4o": dict(np=4, prio=[0, 0, 0, 0], auto=[1, 1, 1, 1], nres=1, poolcap=1, maxlen=3, maxtime=4,
               alphabet=[I("hold", 1), I("cwait", 2), I("prio", 3, 1), I("prio", 1, 1), I("intr", 1, 9, 0), I("csig")],
               roles=[["hold", "cwait"], ["hold", "cwait"], ["hold", "cwait"], ["hold", "prio", "intr", "csig"]]),
  # a preemptor whose priority is lowered while it waits; a newcomer of a priority in between takes what the holder frees
  "pool3p": dict(np=3, prio=[3, 2, 1], auto=[1, 1, 1], nres=1, poolcap=2, maxlen=4, maxtime=4,
               alphabet=[I("hold", 1), I("pacq", 1), I("pacq", 2), I("prel", 1), I("prel", 2), I("ppre", 1), I("ppre", 2), I("prio", 2, 0)],
               roles=[["hold", "pacq", "prel", "prio"], ["hold", "ppre", "prel"], ["hold", "pacq", "prel"]]),
  # a process part-way through a pool acquisition is thrown out of it by a preemption of a RESOURCE it holds; a waiter is behind it
  "lost3x": dict(np=3, prio=[0, 0, 1], auto=[1, 1, 1], nres=1, poolcap=2, maxlen=3, maxtime=4,
               alphabet=[I("hold", 1), I("acq", 1), I("pre", 1), I("rel", 1), I("pacq", 1), I("pacq", 2), I("prel", 1), I("intr", 1, 9, 0)],
               roles=[["hold", "acq", "pacq", "rel"], ["hold", "pacq", "prel"], ["hold", "pacq", "pre", "intr", "prel"]]),
  # recording switched on (and off) while the other process is blocked inside a get (rec2w) / a put (rec2v) on that object
  "rec2w": dict(np=2, prio=[0, 0], auto=[1, 1], nres=1, poolcap=1, bufcap=2, oqcap=1, pqcap=1, maxlen=3, maxtime=4,
               alphabet=[I("hold", 1), I("rec", 8, 1), I("rec", 6, 1), I("rec", 4, 1), I("rec", 8, 0), I("pqput", 1, 0), I("qput", 5), I("bput", 1), I("pqget"), I("qget"), I("bget", 1)],
               roles=[["hold", "pqget", "qget", "bget"], ["hold", "rec", "pqput", "qput", "bput"]]),
  "rec2v": dict(np=2, prio=[0, 0], auto=[1, 1], nres=1, poolcap=1, bufcap=1, oqcap=1, pqcap=1, maxlen=3, maxtime=4,
               alphabet=[I("hold", 1), I("rec", 8, 1), I("rec", 6, 1), I("rec", 4, 1), I("rec", 6, 0), I("pqput", 1, 0), I("qput", 5), I("bput", 1), I("pqget"), I("qget"), I("bget", 1)],
               roles=[["hold", "pqput", "qput", "bput"], ["hold", "rec", "pqget", "qget", "bget"]]),
  # the "x3" family: P1 is inside a (possibly multi-step) call on one object while holding resource 1, P2 queues behind it,
  # P3 (higher priority) disturbs: interrupt, stop, priority changes, preemption of the resource P1 holds
  "x3pool": dict(np=3, prio=[0, 0, 1], auto=[1, 1, 1], nres=1, poolcap=2, maxlen=3, maxtime=4,
               alphabet=[I("hold", 1), I("acq", 1), I("pre", 1), I("pacq", 1), I("pacq", 2), I("prel", 1), I("ppre", 1), I("intr", 1, 9, 0), I("stop", 1, 5),
                         I("prio", 1, 2), I("prio", 2, 2), I("tadd", 1, -5)],
               roles=[["hold", "acq", "pacq", "tadd"], ["hold", "pacq", "prel"], ["hold", "pacq", "ppre", "pre", "intr", "stop", "prio"]]),
  "x3buf": dict(np=3, prio=[0, 0, 1], auto=[1, 1, 1], nres=1, poolcap=1, bufcap=2, maxlen=3, maxtime=4,
               alphabet=[I("hold", 1), I("acq", 1), I("pre", 1), I("bput", 1), I("bput", 3), I("bget", 1), I("bget", 3), I("intr", 1, 9, 0), I("stop", 1, 5)],
               roles=[["hold", "acq", "bput", "bget"], ["hold", "bput", "bget"], ["hold", "pre", "intr", "stop"]]),
  "x3oq": dict(np=3, prio=[0, 0, 1], auto=[1, 1, 1], nres=1, poolcap=1, oqcap=1, pqcap=1, maxlen=3, maxtime=4,
               alphabet=[I("hold", 1), I("acq", 1), I("pre", 1), I("qput", 5), I("qget"), I("intr", 1, 9, 0), I("stop", 1, 5), I("prio", 2, 2)],
               roles=[["hold", "acq", "qput", "qget"], ["hold", "qput", "qget"], ["hold", "qget", "pre", "intr", "stop", "prio"]]),
  "x3pq": dict(np=3, prio=[0, 0, 1], auto=[1, 1, 1], nres=1, poolcap=1, oqcap=1, pqcap=1, maxlen=3, maxtime=4,
               alphabet=[I("hold", 1), I("acq", 1), I("pre", 1), I("pqput", 1, 1), I("pqget"), I("pqcancel", 1), I("intr", 1, 9, 0), I("stop", 1, 5), I("prio", 2, 2)],
               roles=[["hold", "acq", "pqput", "pqget"], ["hold", "pqput", "pqget"], ["hold", "pqget", "pqcancel", "pre", "intr", "stop", "prio"]]),
  "x3res": dict(np=3, prio=[0, 0, 1], auto=[1, 1, 1], nres=1, poolcap=1, maxlen=3, maxtime=4,
               alphabet=[I("hold", 1), I("acq", 1), I("rel", 1), I("pre", 1), I("intr", 1, 9, 0), I("intr", 2, 9, 0), I("stop", 1, 5), I("stop", 2, 5),
                         I("prio", 1, 2), I("prio", 2, 2), I("tadd", 1, -5), I("wproc", 1)],
               roles=[["hold", "acq", "rel", "tadd"], ["hold", "acq", "rel", "tadd", "wproc"], ["hold", "pre", "rel", "intr", "stop", "prio"]]),
  "x3cond": dict(np=3, prio=[0, 0, 1], auto=[1, 1, 1], nres=1, poolcap=1, maxlen=3, maxtime=4,
               alphabet=[I("hold", 1), I("acq", 1), I("rel", 1), I("pre", 1), I("cwait", 0), I("cwait", 2), I("setflag", 0, 1), I("csig"), I("csub", 0), I("intr", 1, 9, 0),
                         I("stop", 1, 5), I("prio", 2, 2), I("tadd", 1, -5), I("tadd", 1, 7), I("ccancel", 1), I("cremove", 2)],
               roles=[["hold", "acq", "cwait", "tadd"], ["hold", "cwait", "rel", "acq"], ["hold", "pre", "setflag", "csig", "csub", "intr", "stop", "prio", "ccancel", "cremove"]]),
  # four processes: holder, two waiters, a disturber of higher priority (grant pass-on, reordering, leaving waiters)
  "x4res": dict(np=4, prio=[0, 0, 0, 1], auto=[1, 1, 1, 1], nres=1, poolcap=1, maxlen=3, maxtime=3,
               alphabet=[I("hold", 1), I("acq", 1), I("rel", 1), I("tadd", 1, -5), I("intr", 2, 9, 0), I("intr", 2, 9, 5), I("stop", 2, 5), I("prio", 3, 2), I("pre", 1)],
               roles=[["hold", "acq", "rel"], ["hold", "acq", "tadd"], ["hold", "acq", "rel"], ["hold", "intr", "stop", "prio", "pre"]]),
  "x4pool": dict(np=4, prio=[0, 0, 0, 1], auto=[1, 1, 1, 1], nres=1, poolcap=2, maxlen=3, maxtime=3,
               alphabet=[I("hold", 1), I("pacq", 1), I("pacq", 2), I("prel", 1), I("prel", 2), I("tadd", 1, -5), I("intr", 2, 9, 0), I("stop", 2, 5), I("prio", 3, 2), I("ppre", 1)],
               roles=[["hold", "pacq", "prel"], ["hold", "pacq", "tadd"], ["hold", "pacq", "prel"], ["hold", "intr", "stop", "prio", "ppre"]]),
  # not explored by TLC: the constants under which the MODEL is run on the fixed-shape random programs (profile soupfix)
  "soupfix": dict(np=4, prio=[0, 0, 1, 2], auto=[1, 1, 1, 1], nres=1, poolcap=2, bufcap=2, oqcap=1, pqcap=1, maxlen=12, maxtime=99,
               alphabet=[I("hold", 1)]),
  "soupfix2": dict(np=5, prio=[0, 1, 1, 0, 2], auto=[1, 1, 1, 1, 1], nres=2, poolcap=3, bufcap=3, oqcap=2, pqcap=2, maxlen=12, maxtime=99,
               uevs=[(1, 1, I("csig"))], alphabet=[I("hold", 1)]),
  # recording a pool while a process part-way through an acquisition is thrown out of it from elsewhere (preemption of a resource, interrupt)
  "rec3x": dict(np=3, prio=[0, 0, 1], auto=[1, 1, 1], nres=1, poolcap=2, maxlen=3, maxtime=4,
               alphabet=[I("hold", 1), I("acq", 1), I("pre", 1), I("pacq", 1), I("pacq", 2), I("prel", 1), I("rec", 3, 1), I("rec", 1, 1), I("intr", 1, 9, 0), I("stop", 1, 5)],
               roles=[["hold", "acq", "pacq"], ["rec", "hold", "pacq", "prel"], ["hold", "pacq", "pre", "intr", "stop"]]),
  # an awaited event that is rescheduled (earlier or later) or cancelled while a process waits for it with a timeout
  "wev2r": dict(np=2, prio=[0, 0], auto=[1, 1], nres=1, poolcap=1, maxlen=3, maxtime=5, uevs=[(2, 0, I("nop"))],
               alphabet=[I("hold", 1), I("wevent", 1), I("tadd", 1, -5), I("tadd", 3, 7), I("evresched", 1, 0), I("evresched", 1, 2), I("evcancel", 1)]),
  # timers armed for the other process (which is blocked in a hold, a wait for a process, an acquire)
  "wait2o": dict(np=2, prio=[0, 1], auto=[1, 1], nres=1, poolcap=1, maxlen=3, maxtime=5,
               alphabet=[I("hold", 1), I("hold", 3), I("wproc", 1), I("acq", 1), I("taddo", 1, 1, 7), I("taddo", 1, 0, -5), I("tadd", 2, -5), I("tclear")],
               roles=[["hold", "acq", "tadd", "tclear"], ["hold", "wproc", "acq", "taddo"]]),
  # subscribe / unsubscribe: is a release forwarded exactly while the condition is registered?
  "cond2u": dict(np=2, prio=[0, 0], auto=[1, 1], nres=1, poolcap=1, maxlen=5, maxtime=4,
               alphabet=[I("hold", 1), I("cwait", 2), I("csub", 0), I("cunsub", 0), I("acq", 1), I("rel", 1)]),
  "rec2p": dict(np=2, prio=[0, 0], auto=[1, 1], nres=1, poolcap=2, maxlen=4, maxtime=5,
               alphabet=[I("hold", 1), I("rec", 3, 1), I("rec", 3, 0), I("pacq", 1), I("pacq", 2), I("prel", 1), I("tadd", 1, -5)] + both("intr", -2, 5)),
  "rec2pq": dict(np=2, prio=[0, 0], auto=[1, 1], nres=1, poolcap=2, maxlen=4, maxtime=4,
               alphabet=[I("hold", 1), I("rec", 3, 1), I("rec", 3, 0), I("pacq", 1), I("pacq", 2), I("tadd", 1, -5)]),
  "rec2q": dict(np=2, prio=[0, 1], auto=[1, 1], nres=1, poolcap=2, maxlen=4, maxtime=5,
               alphabet=[I("hold", 1), I("rec", 1, 1), I("rec", 1, 0), I("acq", 1), I("rel", 1), I("pre", 1), I("exit", 11)]),
  "rec2": dict(np=2, prio=[0, 1], auto=[1, 1], nres=1, poolcap=2, maxlen=4, maxtime=5,
               alphabet=[I("hold", 1), I("rec", 1, 1), I("rec", 1, 0), I("acq", 1), I("rel", 1), I("pre", 1), I("rec", 3, 1), I("rec", 3, 0), I("pacq", 1), I("prel", 1), I("ppre", 2)]),
  "rec2b": dict(np=2, prio=[0, 0], auto=[1, 1], nres=1, poolcap=1, bufcap=2, oqcap=1, pqcap=1, maxlen=4, maxtime=5,
               alphabet=[I("hold", 1), I("rec", 4, 1), I("rec", 4, 0), I("bput", 1), I("bget", 2), I("rec", 8, 1), I("rec", 8, 0), I("pqput", 1, 0), I("pqget"), I("pqcancel", 1), I("exit", 11)]),
  "wev2": dict(np=2, prio=[0, 0], auto=[1, 1], nres=1, poolcap=1, maxlen=3, maxtime=4, uevs=[(1, 0, I("nop"))],
               alphabet=[I("hold", 0), I("hold", 2), I("wevent", 1), I("tadd", 0, -5), I("tadd", 1, 7), I("evcancel", 1)] + both("intr", -2, 5)),
  "wev2s": dict(np=2, prio=[0, 1], auto=[1, 1], nres=1, poolcap=1, maxlen=3, maxtime=4, uevs=[(1, 0, I("stop", 1, 5))],
               alphabet=[I("hold", 1), I("wevent", 1), I("tadd", 1, 7), I("acq", 1), I("wproc", 1), I("wproc", 2)]),
  # large configurations, explored by TLC random walks (-simulate) in the thorough tier only
  "big3": dict(np=3, prio=[0, 1, 2], auto=[1, 1, 1], nres=1, poolcap=2, bufcap=2, oqcap=1, pqcap=1, maxlen=6, maxtime=12,
               alphabet=[I("hold", 0), I("hold", 1), I("hold", 2), I("acq", 1), I("rel", 1), I("pre", 1), I("pacq", 1), I("pacq", 2), I("prel", 1), I("ppre", 2),
                         I("tadd", 1, -5), I("tadd", 2, 7), I("intr", 1, -2, 5), I("intr", 2, 9, 0), I("stop", 3, 4), I("wproc", 1), I("wproc", 2),
                         I("prio", 1, 2), I("prio", 3, 0), I("bput", 1), I("bget", 2), I("qput", 1), I("qget")]),
  "big4": dict(np=4, prio=[0, 0, 1, 2], auto=[1, 1, 1, 1], nres=1, poolcap=2, bufcap=2, oqcap=1, pqcap=2, maxlen=5, maxtime=10, uevs=[(2, 0, I("stop", 2, 5))],
               alphabet=[I("hold", 0), I("hold", 1), I("acq", 1), I("rel", 1), I("pacq", 1), I("prel", 1), I("ppre", 2), I("tadd", 1, -5), I("intr", 1, -2, 5),
                         I("intr", 3, 9, 0), I("wproc", 4), I("wevent", 1), I("exit", 12), I("prio", 2, 2), I("bput", 2), I("bget", 1), I("qput", 2), I("qget"),
                         I("pqput", 1, 1), I("pqput", 2, 0), I("pqget"), I("pqcancel", 1), I("cwait", 0), I("cwait", 2), I("csig"), I("setflag", 0, 1), I("csub", 0),
                         I("rec", 1, 1), I("rec", 1, 0), I("rec", 3, 1), I("rec", 3, 0)]),
}
SIMULATE = {"big3": (6000, 150), "big4": (6000, 150)}

FOR_PROPERTY = {
  "C01": (["wev2", "wev2r"], ["wev2s"]),
  "C04": (["wait2", "wev2", "wait2o"], ["wait2r", "wev2s", "wev2r", "lost2", "end2", "x3res", "x3cond"]),
  "C11": (["buf2", "x3buf"], ["buf3"]),
  "C12": (["queue2", "x3oq"], ["queue3", "x3pq"]),
  "C13": (["cond2", "cond3s", "cond2u"], ["cond3", "x3cond"]),
  "C14": (["rec2q", "rec2pq", "rec2w", "rec2v", "rec3x"], ["rec2", "rec2p", "rec2b"]),
  "C05": (["mutex2", "x3res"], ["mutex2p", "mutex3", "lost2"]),
  "C06": (["order3", "cond4o"], ["order3e", "pool3", "x3res", "x4res"]),
  "C07": (["pool2", "pool3p"], ["pool3", "x3pool", "x4pool"]),
  "C08": (["lost2", "lost3x"], ["lost3", "pool2", "mutex2p", "x3pool", "x3buf", "x3oq", "x3pq", "x3res", "x4res", "x4pool"]),
  "C09": (["end2", "x3res"], ["end3", "restart2", "wait2r", "x3pool"]),
}


def tla_tuple(t):
    return '<<"%s", %d, %d, %d>>' % t


def write_config(name, cfg, export=True, export_inv="ExportProg"):
    mod = "_gen_KernelMC_%s" % name
    with open(os.path.join(vlib.SPEC, mod + ".tla"), "w") as f:
        f.write("---- MODULE %s ----\nEXTENDS Kernel\n" % mod)
        f.write("c_Prio0 == <<%s>>\n" % ", ".join(map(str, cfg["prio"])))
        f.write("c_Auto == <<%s>>\n" % ", ".join(map(str, cfg["auto"])))
        f.write("c_Alphabet == {%s}\n" % ", ".join(tla_tuple(t) for t in cfg["alphabet"]))
        f.write("c_Roles == <<%s>>\n" % ", ".join("{%s}" % ", ".join('"%s"' % o for o in r) for r in cfg.get("roles", [])))
        f.write("c_UEvs == <<%s>>\n====\n" % ", ".join("<<%d, %d, %s>>" % (u[0], u[1], tla_tuple(u[2])) for u in cfg.get("uevs", [])))
    with open(os.path.join(vlib.SPEC, mod + ".cfg"), "w") as f:
        f.write("SPECIFICATION Spec\nCONSTANTS\n  NP = %d\n  Prio0 <- c_Prio0\n  Auto <- c_Auto\n  NRes = %d\n  PoolCap = %d\n"
                "  BufCap = %d\n  OqCap = %d\n  PqCap = %d\n  UEvs <- c_UEvs\n  Alphabet <- c_Alphabet\n  Roles <- c_Roles\n  MaxLen = %d\n  MaxTime = %d\nINVARIANTS NoViolation QuiescentOK %s\nCONSTRAINT Constr\nVIEW %s\nCHECK_DEADLOCK FALSE\n"
                % (cfg["np"], cfg["nres"], cfg["poolcap"], cfg.get("bufcap", 2), cfg.get("oqcap", 1), cfg.get("pqcap", 1), cfg["maxlen"], cfg["maxtime"], export_inv if export else "",
                   "ViewS" if cfg.get("restart") else "View"))
    return mod


_RE_INS = re.compile(r'<<"(\w+)",(-?\d+),(-?\d+),(-?\d+)>>')


def parse_programs(out, np):
    """ExportProg prints <<"P", <<script_1, ..., script_np>>>>; return list of per-process instruction lists"""
    txt = re.sub(r"\s+", "", out)
    progs = []
    for chunk in txt.split('<<"P",')[1:]:
        # cut at the end of the outer tuple: scripts are <<...>> sequences of instruction tuples
        depth, i, end = 0, 0, None
        while i < len(chunk) - 1:
            if chunk[i:i + 2] == "<<":
                depth += 1; i += 2
            elif chunk[i:i + 2] == ">>":
                depth -= 1; i += 2
                if depth == 0:
                    end = i; break
            else:
                i += 1
        body = chunk[:end] if end else chunk
        # split top-level scripts
        scripts, depth, start = [], 0, None
        i = 0
        while i < len(body) - 1:
            if body[i:i + 2] == "<<":
                depth += 1
                if depth == 2:
                    start = i
                i += 2
            elif body[i:i + 2] == ">>":
                if depth == 2 and start is not None:
                    scripts.append(body[start:i + 2]); start = None
                depth -= 1; i += 2
            else:
                i += 1
        if len(scripts) != np:
            continue
        progs.append([[(m.group(1), int(m.group(2)), int(m.group(3)), int(m.group(4))) for m in _RE_INS.finditer(s)] for s in scripts])
    return progs


def program_text(pid, cfg, scripts):
    L = ["prog %d" % pid, "cap res=%d pool=%d buf=%d oq=%d pq=%d" % (cfg["nres"], cfg["poolcap"], cfg.get("bufcap", 2), cfg.get("oqcap", 1), cfg.get("pqcap", 1))]
    for i, sc in enumerate(scripts):
        code = " ; ".join("%s %d %d %d" % ins for ins in sc) if sc else "nop"
        L.append("proc %d %d %d : %s" % (i + 1, cfg["prio"][i], cfg["auto"][i], code))
    for i, u in enumerate(cfg.get("uevs", [])):
        L.append("uev %d %d %d : %s %d %d %d" % ((i + 1, u[0], u[1]) + tuple(u[2])))
    L.append("end")
    return "\n".join(L)


def run_config(pid, name, v=None, timeout=3000, export=True, simulate=None):
    """simulate = (number of random behaviours, depth): TLC random walks instead of breadth-first search"""
    cfg = CONFIGS[name]
    mod = write_config(name, cfg, export, "ExportQuiescent" if simulate else "ExportProg")
    try:
        if simulate:
            r = vlib.tlc(pid, mod, mod + ".cfg", timeout=timeout, tag="ksim_" + name, heap="8g", workers=8,
                         simulate=simulate[0] // 8 + 1, depth=simulate[1], extra=["-seed", str(vlib.seed())])
        else:
            r = vlib.tlc(pid, mod, mod + ".cfg", timeout=timeout, tag="kmc_" + name, heap="16g")
    finally:
        for ext in (".tla", ".cfg"):
            try:
                os.remove(os.path.join(vlib.SPEC, mod + ext))
            except OSError:
                pass
    if r.error:
        raise vlib.MachineryError("Kernel model checking (%s): %s" % (name, r.error))
    if v is not None:
        v.add_tlc(r, "Kernel.tla + KMon monitors, config %s: %s over %d instructions x %d per process, %d processes"
                  % (name, ("%d random behaviours (TLC -simulate)" % simulate[0]) if simulate else "all programs",
                     len(cfg["alphabet"]), cfg["maxlen"], cfg["np"]))
    if r.violated:
        raise vlib.MachineryError("the kernel MODEL violates %s in config %s (a defect of the model, not of the code):\n%s"
                                  % (r.violated, name, r.out[-4000:]))
    progs = parse_programs(r.out, cfg["np"]) if export else []
    # distinct programs only
    seen, uniq = set(), []
    for p in progs:
        key = json.dumps(p)
        if key not in seen:
            seen.add(key); uniq.append(p)
    return r, cfg, uniq


def conformance(pid, name, trace, v):
    """Run the kernel model against a trace of TLC-exported programs of configuration `name`;
    returns (programs, drifting programs).  Drift is reported, never a violation."""
    cfg = CONFIGS[name]
    mod = "_gen_KernelConf_%s" % name
    with open(os.path.join(vlib.SPEC, mod + ".tla"), "w") as f:
        f.write("---- MODULE %s ----\nEXTENDS KernelConf\n" % mod)
        f.write("c_Prio0 == <<%s>>\n" % ", ".join(map(str, cfg["prio"])))
        f.write("c_Auto == <<%s>>\n" % ", ".join(map(str, cfg["auto"])))
        f.write("c_Alphabet == {%s}\n" % ", ".join(tla_tuple(t) for t in cfg["alphabet"]))
        f.write("c_Roles == <<%s>>\n" % ", ".join("{%s}" % ", ".join('"%s"' % o for o in r) for r in cfg.get("roles", [])))
        f.write("c_UEvs == <<%s>>\n====\n" % ", ".join("<<%d, %d, %s>>" % (u[0], u[1], tla_tuple(u[2])) for u in cfg.get("uevs", [])))
    with open(os.path.join(vlib.SPEC, mod + ".cfg"), "w") as f:
        f.write("SPECIFICATION CSpec\nCONSTANTS\n  NP = %d\n  Prio0 <- c_Prio0\n  Auto <- c_Auto\n  NRes = %d\n  PoolCap = %d\n"
                "  BufCap = %d\n  OqCap = %d\n  PqCap = %d\n  UEvs <- c_UEvs\n  Alphabet <- c_Alphabet\n  Roles <- c_Roles\n  MaxLen = %d\n  MaxTime = %d\nCHECK_DEADLOCK FALSE\n"
                % (cfg["np"], cfg["nres"], cfg["poolcap"], cfg.get("bufcap", 2), cfg.get("oqcap", 1), cfg.get("pqcap", 1), cfg["maxlen"], cfg["maxtime"]))
    from concurrent.futures import ThreadPoolExecutor
    import checks.kcommon as kcommon
    parts = kcommon.split_trace(trace)

    def one(part):
        path, off = part
        r = vlib.tlc(pid, mod, mod + ".cfg", workers=1, timeout=3000, env={"TRACE": path}, tag="kconf_%s_%s" % (name, os.path.basename(path)[-6:]),
                     heap="12g" if len(parts) == 1 else "4g", extra=["-noGenerateSpecTE"])
        if r.rc != 0 or "CONSUMED" not in r.out:
            raise vlib.MachineryError("kernel conformance run failed (%s):\n%s" % (name, r.out[-3000:]))
        return r, off
    try:
        with ThreadPoolExecutor(max_workers=min(len(parts), max(1, vlib.NCPU - 2))) as ex:
            results = list(ex.map(one, parts))
    finally:
        for ext in (".tla", ".cfg"):
            try:
                os.remove(os.path.join(vlib.SPEC, mod + ext))
            except OSError:
                pass
        for path, _ in parts:
            if path != trace:
                os.remove(path)
    drifts = []
    for i, (r, off) in enumerate(results):
        v.add_tlc(r, "KernelConf.tla: model vs recorded events, exported programs of %s%s" % (name, "" if len(parts) == 1 else " (part %d of %d)" % (i + 1, len(parts))))
        drifts += [(str(int(a) + off), b, c) for a, b, c in re.findall(r'<<\s*"DRIFT",\s*(\d+),\s*"([^"]*)",\s*"([^"]*)"\s*>>', r.out)]
    with open(trace) as f:
        nprog = sum(1 for line in f if line.startswith('{"e":"Prog"'))
    return nprog, drifts


def model_check(pid, v, tier, out):
    """called by kcommon: returns [(program file, description)]"""
    if pid not in FOR_PROPERTY:
        return []
    quick, thorough = FOR_PROPERTY[pid]
    names = quick + ((thorough + ["big3", "big4"]) if tier == "thorough" else [])
    res = []
    for name in names:
        r, cfg, progs = run_config(pid, name, v, simulate=SIMULATE.get(name))
        total = len(progs)
        cap = cfg.get("replay_quick", 12000) if tier == "quick" else 30000
        if total > cap:
            step = total // cap + 1
            progs = progs[vlib.seed() % step::step]
        path = os.path.join(out, "tlcprogs_%s.txt" % name)
        with open(path, "w") as f:
            for i, sc in enumerate(progs):
                f.write(program_text(i + 1, cfg, sc) + "\n")
        v.cov.setdefault("tlc_programs", {})[name] = {"distinct_programs_exported": total, "replayed": len(progs)}
        res.append((path, "TLC-exported programs %s" % name))
    return res


if __name__ == "__main__":
    name = sys.argv[1]
    r, cfg, progs = run_config("K", name, export=len(sys.argv) < 3)
    print(name, "distinct", r.distinct, "generated", r.generated, "depth", r.depth, "wall %.1f" % r.wall, "programs", len(progs))
    if progs:
        print(program_text(1, cfg, progs[len(progs) // 2]))
