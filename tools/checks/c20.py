"""C20 - pool-allocated objects are distinct, aligned and stable at any population size.

1. TLC model-checks spec/Mempool.tla (free list, chunks, chunk-list growth, static pools):
   Distinct, InChunks, Accounted, ListIntact, ContentStable, AllocFresh over all alloc/free histories.
2. harness/mp_replay runs seeded histories on real pools (object sizes 8..4096, dynamic and
   CMI_MEMPOOL_STATIC_INIT thread-local pools, live populations crossing chunk boundaries up to
   300 chunks, i.e. across the 64-entry chunk list growth), every object patterned and verified.
3. TLC validates the recorded traces against spec/MempoolTrace.tla.
"""
import os
import vlib

PID = "C20"
MC = """SPECIFICATION Spec
CONSTANTS
  K = %d
  L = %d
  MaxChunks = %d
  Static = %s
INVARIANTS Distinct InChunks Accounted ListIntact
PROPERTIES ContentStable AllocFresh
CONSTRAINT Constr
VIEW View
CHECK_DEADLOCK FALSE
"""


def run(tier, replay=None):
    v = vlib.Verdict(PID, "model_checking", tier)
    v.assumptions = [
        "objects are identified as (chunk, slot) from their address and the pool's public chunk list",
        "model geometry: 2 objects per chunk, chunk list growing by 2; the real pools are driven across the real thresholds "
        "(chunk list grows at 64 and 128 chunks) with 1024..4096-byte objects",
        "memory errors inside the allocator (e.g. a damaged chunk list) are reported by the C10 check",
    ]
    out = vlib.outdir(PID)
    cfgs = [(2, 2, 4, "FALSE"), (2, 2, 3, "TRUE")] if tier == "quick" else [(2, 2, 5, "FALSE"), (2, 2, 4, "TRUE"), (3, 1, 3, "FALSE")]
    for (K, L, mc, st) in cfgs:
        cfgp = os.path.join(vlib.SPEC, "_gen_MempoolMC_%d_%d_%d_%s.cfg" % (K, L, mc, st))
        open(cfgp, "w").write(MC % (K, L, mc, st))
        r = vlib.tlc(PID, "Mempool", os.path.basename(cfgp), timeout=3000, tag="mc_%d_%d_%d_%s" % (K, L, mc, st))
        os.remove(cfgp)
        if r.error:
            raise vlib.MachineryError("Mempool model checking: " + r.error)
        v.add_tlc(r, "Mempool.tla K=%d L=%d MaxChunks=%d Static=%s" % (K, L, mc, st))
        if r.violated:
            raise vlib.MachineryError("Mempool model violates %s (model defect)\n%s" % (r.violated, r.out[-2000:]))
    vlib.build_lib(PID, "rel")
    variants = [("rel", vlib.cc_harness(PID, "rel", "mp_replay"))]
    if tier == "thorough":
        vlib.build_lib(PID, "san")
        variants.append(("san", vlib.cc_harness(PID, "san", "mp_replay")))
    nh = 22 if tier == "quick" else 110
    total = 0
    for vn, ex in variants:
        tp = os.path.join(out, "trace_%s.ndjson" % vn)
        rc, o = vlib.run([ex, "gen", str(vlib.seed()), str(nh if vn == "rel" else nh // 2), tp], timeout=3000)
        if rc not in (0, 3):
            raise vlib.MachineryError("mp_replay failed rc=%d %s" % (rc, o[-1500:]))
        if rc == 3:
            v.notes.append("%s build: some histories crashed / sanitizer report (see C10)" % vn)
        with open(tp) as f:
            lines = f.readlines()
        nhist = sum(1 for l in lines if l.startswith('{"op":"init"'))
        total += nhist
        bad_list = sum(1 for l in lines if '"listok":false' in l)
        if bad_list:
            msg = "DRIFT: the pool's chunk list lost entries in %d allocations (memory error, see C10)" % bad_list
            v.notes.append(msg); print(msg)
        v.sample([l.strip() for l in lines[1:4]])
        tv = vlib.validate_trace(PID, "MempoolTrace", tp, tag="tv_" + vn, heap="12g")
        v.add_tlc(tv.tlc, "MempoolTrace over %d histories on %s build" % (nhist, vn))
        for rj in tv.rejects:
            if rj["rule"].startswith("harness-"):
                raise vlib.MachineryError("trace spec reports harness problem: %s" % rj)
            hist = vlib.extract_history(tp, rj["line"])
            rp = vlib.save_replay(PID, "viol_%s_%d.ndjson" % (vn, rj["line"]), "".join(hist[-400:]))
            v.violation("C20|" + rj["rule"], rp, "line %d of %s %s" % (rj["line"], tp, rj["detail"][:200]))
    v.cov["traces_validated_against_impl"] = total
    v.cov["evaluations"] = total
    v.cov["distinct_nontrivial"] = total
    v.cov["rule"] = "one case = one pool lifetime with a seeded alloc/free history whose live population crosses several chunk boundaries; all are non-trivial (>= 150 operations) and distinct by seed/index"
    return v.finish()
