"""Common driver for the kernel properties C04-C09, C11-C14: TLC model checking of the kernel
model with the monitors, program generation, replay on the real library, monitor folding."""
import os, re, json, time
import vlib

RE_REJ = re.compile(r'<<\s*"REJECT",\s*(\d+),\s*"(C\d+):([^"]*)",\s*(\d+)\s*>>')

PROFILES_FOR = {
    "C01": ["wait"],
    "C04": ["soup", "soupfix", "contend", "wait", "mix", "res", "end"],
    "C05": ["soup", "soupfix2", "contend", "res", "mix", "end"],
    "C06": ["soup", "soupfix2", "order", "condorder", "contend", "res", "pool", "buf", "queue", "cond"],
    "C07": ["soup", "soupfix2", "contend", "pool", "mix", "rec"],
    "C08": ["soup", "soupfix", "contend", "res", "pool", "buf", "queue", "mix", "end"],
    "C09": ["soup", "soupfix", "end", "wait", "mix"],
    "C11": ["soup", "soupfix2", "contend", "buf", "mix", "rec"],
    "C12": ["soup", "soupfix2", "contend", "queue", "mix", "rec"],
    "C13": ["soup", "soupfix", "condmany", "condorder", "cond", "mix"],
    "C14": ["soup", "soupfix2", "rec", "longrec"],
}


def gen_programs(pid, profile, count, seed, out):
    path = os.path.join(out, "prog_%s.txt" % profile)
    rc, o = vlib.run(["python3", os.path.join(vlib.ROOT, "tools", "kgen.py"), str(seed), str(count), profile], timeout=600)
    if rc != 0:
        raise vlib.MachineryError("kgen failed: " + o[-1000:])
    open(path, "w").write(o)
    return path


def program_text(trace, progid):
    """reconstruct the program text of program `progid` from its Prog header in the trace"""
    with open(trace) as f:
        for line in f:
            if line.startswith('{"e":"Prog"'):
                h = json.loads(line)
                if h["id"] == progid:
                    L = ["prog %d" % h["id"], "cap res=%d pool=%d buf=%d oq=%d pq=%d bufunit=%d" % (h["nres"], h["poolcap"], h["bufcap"], h["oqcap"], h["pqcap"], h.get("bufunit", 0))]
                    for i, code in enumerate(h["code"]):
                        L.append("proc %d %d %d : %s" % (i + 1, h["prio"][i], h["auto"][i],
                                 " ; ".join(" ".join(str(x) for x in ins) for ins in code)))
                    for i, u in enumerate(h["uevs"]):
                        L.append("uev %d %d %d : %s" % (i + 1, u[0], u[1], " ".join(str(x) for x in u[2:])))
                    L.append("end")
                    return "\n".join(L) + "\n"
    return ""


CHUNK_LINES = 45000      # a trace longer than this is folded in parallel pieces cut at program boundaries


def split_trace(trace, max_parts=14):
    """cut `trace` into at most max_parts files at "Prog" lines; returns [(path, first line number - 1)]"""
    with open(trace) as f:
        lines = f.readlines()
    if len(lines) <= CHUNK_LINES:
        return [(trace, 0)]
    nparts = min(max_parts, len(lines) // CHUNK_LINES + 1)
    target = len(lines) // nparts + 1
    parts, start = [], 0
    while start < len(lines):
        end = min(len(lines), start + target)
        while end < len(lines) and not lines[end].startswith('{"e":"Prog"'):
            end += 1
        path = "%s.part%02d" % (trace, len(parts))
        with open(path, "w") as f:
            f.writelines(lines[start:end])
        parts.append((path, start))
        start = end
    return parts


def fold_monitors(pid, v, trace, desc):
    from concurrent.futures import ThreadPoolExecutor
    parts = split_trace(trace)

    def one(part):
        path, off = part
        tv = vlib.tlc(pid, "KMonTrace", "KMonTrace.cfg", workers=1, timeout=3000, env={"TRACE": path},
                      tag="mon_" + os.path.basename(path), heap="12g" if len(parts) == 1 else "4g")
        if tv.rc != 0 or "CONSUMED" not in tv.out:
            raise vlib.MachineryError("monitor folding failed on %s:\n%s" % (path, tv.out[-3000:]))
        return tv, off
    with ThreadPoolExecutor(max_workers=min(len(parts), max(1, vlib.NCPU - 2))) as ex:
        results = list(ex.map(one, parts))
    rej = []
    for i, (tv, off) in enumerate(results):
        v.add_tlc(tv, "KMon monitors folded over %s%s" % (desc, "" if len(parts) == 1 else " (part %d of %d)" % (i + 1, len(parts))))
        for m in RE_REJ.finditer(tv.out):
            rej.append(dict(line=int(m.group(1)) + off, prop=m.group(2), rule=m.group(3), prog=int(m.group(4))))
    for path, _ in parts:
        if path != trace:
            os.remove(path)
    return rej


def hung_programs(trace):
    """ids of the programs whose child was ended by the harness's alarm (Crash record with signal 14)"""
    res, cur = [], -1
    with open(trace) as f:
        for line in f:
            if line.startswith('{"e":"Prog"'):
                m = re.search(r'"id":(\d+)', line)
                cur = int(m.group(1)) if m else -1
            elif line.startswith('{"e":"Crash","sig":14}'):
                res.append(cur)
    return res


def every_nth_program(path, n):
    """a file with every n-th program of `path` (programs end with a line "end")"""
    outp = path + ".nth%d" % n
    with open(path) as f, open(outp, "w") as g:
        k, keep = 0, True
        for line in f:
            if keep:
                g.write(line)
            if line.startswith("end"):
                k += 1
                keep = (k % n == 0)
    return outp


def trace_stats(trace):
    nprog, nontriv, crashes = 0, 0, 0
    blocked = False
    with open(trace) as f:
        for line in f:
            if line.startswith('{"e":"Prog"'):
                nprog += 1
                if blocked:
                    nontriv += 1
                blocked = False
            elif line.startswith('{"e":"GuardEnq"') or '"op":"wproc"' in line or '"op":"wevent"' in line:
                blocked = True
            elif line.startswith('{"e":"Crash"'):
                crashes += 1
    if blocked:
        nontriv += 1
    return nprog, nontriv, crashes


def run_kernel_check(pid, tier, replay, level_text_extra=""):
    v = vlib.Verdict(pid, "model_checking", tier)
    v.assumptions = list(KERNEL_ASSUMPTIONS)
    nprog, nontriv, crashes = kernel_part(pid, tier, replay, v)
    v.cov["traces_validated_against_impl"] = nprog
    v.cov["evaluations"] = nprog
    v.cov["distinct_nontrivial"] = nontriv
    v.cov["crashed_programs"] = crashes
    v.cov["rule"] = KERNEL_RULE
    return v.finish()


KERNEL_ASSUMPTIONS = [
    "monitors (spec/KMon.tla) demand only what the property states; freedom the property leaves is left open",
    "programs are valid by construction: the interpreter skips instructions whose documented precondition is not met",
    "durations/times are small integers (exact in doubles); guard-level events come from hooks H2/H3",
    "a library abort inside a program is reported by the C10 check; here it only ends that program",
]
KERNEL_RULE = ("one case = one program (processes with scripts + pre-scheduled events) run on the real kernel; non-trivial = at least one "
               "process blocked on a guard, a process or an event; programs differ by seed/index (random) or are distinct by construction (TLC export)")


def kernel_part(pid, tier, replay, v):
    """model-check the kernel configurations of `pid`, replay exported / regression / random programs on the real kernel,
    fold the monitors, report the rules of `pid` into verdict v; returns (programs, non-trivial programs, crashed programs)"""
    out = vlib.outdir(pid)
    vlib.build_lib(pid, "rel")
    variants = [("rel", vlib.cc_harness(pid, "rel", "kernel_replay"))]
    if tier == "thorough":
        vlib.build_lib(pid, "san")
        variants.append(("san", vlib.cc_harness(pid, "san", "kernel_replay")))
    runs = []
    if replay:
        runs.append(("rel", variants[0][1], replay, "replay"))
    else:
        # 1. TLC: kernel model + monitors (design level), exported programs
        try:
            import checks.kmodel as kmodel
            for path, desc in kmodel.model_check(pid, v, tier, out):
                for vn, ex in variants:
                    runs.append((vn, ex, path, desc))
        except ImportError:
            v.notes.append("kernel model checking not available in this revision")
        # 1b. regression scenarios (programs that once exposed a defect)
        scen = os.path.join(vlib.ROOT, "scenarios", "kernel_regressions.txt")
        if os.path.exists(scen):
            for vn, ex in variants:
                runs.append((vn, ex, scen, "regression scenarios"))
        # 2. seeded random programs
        n = 250 if tier == "quick" else 1500
        for pf in PROFILES_FOR[pid]:
            path = gen_programs(pid, pf, (3 if tier == "quick" else 12) if pf == "longrec" else n, vlib.seed(), out)
            for vn, ex in variants:
                runs.append((vn, ex, path, "random " + pf))
    nprog = nontriv = crashes = 0
    for vn, ex, progs, desc in runs:
        tp = os.path.join(out, "trace_%s_%s.ndjson" % (re.sub(r"\W+", "_", desc), vn))
        if vn == "san" and desc.startswith("TLC-exported programs "):
            progs = every_nth_program(progs, 5)      # the sanitizer build is 5-10x slower: a fifth of the exported programs
        rc, o = vlib.run([ex, "run", progs, tp], timeout=3000)
        if rc not in (0, 3):
            raise vlib.MachineryError("kernel_replay failed rc=%d: %s" % (rc, o[-2000:]))
        a, b, c = trace_stats(tp)
        nprog += a; nontriv += b; crashes += c
        hung = hung_programs(tp)
        if hung:
            # a program of a few dozen events that is still inside one library call after a minute: no result of that call,
            # hence nothing the property says about it, can be observed
            txt = program_text(tp, hung[0])
            rp = vlib.save_replay(pid, "hang_%s_%d.txt" % (vn, hung[0]), txt)
            v.violation("%s|library-call-did-not-return" % pid, rp, "%s program %d (and %d more) on the %s build" % (desc, hung[0], len(hung) - 1, vn))
        for r in fold_monitors(pid, v, tp, "%s programs on %s build" % (desc, vn)):
            if r["prop"] != pid:
                note = "other property %s:%s seen in %s program %d (reported by that property's check)" % (r["prop"], r["rule"], desc, r["prog"])
                if len(v.notes) < 20:
                    v.notes.append(note)
                continue
            txt = program_text(tp, r["prog"])
            rp = vlib.save_replay(pid, "viol_%s_%s_%d.txt" % (r["rule"][:40], vn, r["prog"]), txt)
            v.violation("%s|%s" % (pid, r["rule"]), rp, "%s program %d, trace line %d of %s" % (desc, r["prog"], r["line"], tp))
        if (desc.startswith("TLC-exported programs ") or desc in ("random soupfix", "random soupfix2")) and vn == "rel" and not replay:
            # does the real code take, event for event, the path the model predicts for these programs?
            # (soupfix: random programs of a fixed shape, far longer than TLC explores, under the constants of CONFIGS["soupfix"])
            import checks.kmodel as kmodel
            name = desc.split()[-1]
            np_, drifts = kmodel.conformance(pid, name, tp, v)
            d = v.cov.setdefault("model_conformance", {})
            d[name] = {"programs": np_, "drifting_programs": len(drifts), "first_drifts": [list(x) for x in drifts[:5]]}
            if drifts:
                msg = "DRIFT: %d of %d exported programs of %s take another path on the real code than in the model (first: trace line %s, model %s / code %s)" % (
                    len(drifts), np_, name, drifts[0][0], drifts[0][1], drifts[0][2])
                v.notes.append(msg)
                print(msg)
        if tier == "thorough" and not replay and os.path.getsize(tp) > 50_000_000:
            os.remove(tp)        # the thorough tier writes tens of GB of traces: replay files of rejected programs are kept, the trace is not
        if len(v.cov["samples"]) < 4:
            with open(progs) as f:
                txt = f.read().split("end\n")
            if txt and txt[0].strip():
                v.sample({"program (%s)" % desc: txt[len(txt) // 2].strip().split("\n")})
    return nprog, nontriv, crashes
