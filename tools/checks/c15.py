"""C15 - random streams depend on the seed alone and are the documented generator.

1. TLC model-checks spec/Random.tla (generator position, coin-flip bit cache, gamma shape cache,
   per thread; threads interleave freely) for SeedAlone (results since the last seeding equal what
   a fresh thread returns for the same seed and calls) and RawIsStream.  The three defective
   designs (flip cache survives seeding, shared generator, stale gamma constants) are run as
   negative controls: TLC must find a violating history for each.
2. TLC exports one history per distinct final model state; tools/checks/c15.py turns each into a
   script for the real library: abstract call classes are mapped to real sampling functions,
   a raw probe closes every seeding, and every seeding gets a canonical twin (a newly created
   thread that makes only the calls of that seeding while no other thread draws).  Seeded random long histories over all 38
   sampling entry points, up to 4 dirty threads, free-running concurrency, special seeds
   (0, 1, 2^63, 2^64-1, the library's dummy seed) are added.
3. harness/rng15_replay runs the scripts on real pthreads and records bit patterns;
   TLC validates the traces against spec/RandomTrace.tla, whose stream is spec/Sfc64.tla
   (splitmix64 + sfc64 over spec/W64.tla).  Only that spec decides.
"""
import os, re, random, json
from concurrent.futures import ThreadPoolExecutor
import vlib

PID = "C15"
M64 = (1 << 64) - 1

MC = """SPECIFICATION Spec
CONSTANTS
  Threads = %(threads)s
  Seeds = %(seeds)s
  Shapes = %(shapes)s
  MaxCalls = %(maxcalls)d
  FlipBits = %(flipbits)d
  InitClearsFlip = %(clr)s
  ThreadLocal = %(tl)s
  GammaKeyed = %(gk)s
INVARIANTS %(invs)s
VIEW View
CHECK_DEADLOCK FALSE
"""

# abstract call classes of Random.tla -> real entry points (name, parameter set)
FIX = [("u01", 0), ("dice", 0), ("dice", 1), ("uniform", 1), ("bernoulli", 0), ("logistic", 0), ("pareto", 1),
       ("triangular", 0), ("loaded_dice", 0), ("loaded_dice", 1), ("uniform", 2), ("dice", 2)]
VAR = [("exponential", 0), ("std_normal", 0), ("normal", 1), ("cauchy", 0), ("std_exponential", 0), ("poisson", 1),
       ("lognormal", 0), ("weibull", 2), ("rayleigh", 0), ("hyperexponential", 0), ("erlang", 1), ("alias_sample", 0),
       ("binomial", 0), ("F_dist", 0), ("t_dist", 0), ("hypoexponential", 2), ("std_t_dist", 1)]
GAM = [("std_gamma", (0, 1, 2)), ("std_gamma", (2, 0, 1)), ("std_gamma", (1, 2, 0)), ("gamma", (0, 1, 2)),
       ("chisquared", (0, 2, 1)), ("std_beta", (0, 1, 2)), ("beta", (1, 2, 0)), ("PERT", (0, 2, 1)), ("PERT_mod", (1, 2, 0))]
GEO = [("geometric", 0), ("geometric", 1), ("negative_binomial", 0), ("pascal", 1), ("geometric", 2)]
ALLF = {"raw": 1, "flip": 1, "flip32": 1, "u01": 1, "uniform": 3, "triangular": 3, "std_normal": 1, "normal": 3, "lognormal": 3,
        "logistic": 3, "cauchy": 3, "std_exponential": 1, "exponential": 3, "erlang": 3, "hypoexponential": 3,
        "hyperexponential": 1, "std_gamma": 6, "gamma": 5, "std_beta": 5, "beta": 3, "PERT_mod": 3, "PERT": 3, "weibull": 3,
        "pareto": 3, "chisquared": 4, "F_dist": 5, "std_t_dist": 3, "t_dist": 3, "rayleigh": 3, "bernoulli": 3,
        "geometric": 4, "binomial": 3, "negative_binomial": 4, "pascal": 4, "poisson": 3, "dice": 3, "loaded_dice": 3,
        "alias_sample": 3}
CACHED = ["flip", "flip32", "flip", "std_gamma", "gamma", "std_beta", "chisquared", "geometric", "PERT", "F_dist", "negative_binomial"]


def seed_pool():
    r = random.Random(vlib.seed() * 7919 + 15)
    return [0, 1, 1 << 63, M64, 0x0000DEAD5EED0000] + [r.getrandbits(64) for _ in range(8)]


# ------------------------------------------------------------ histories -> scripts
def finish_history(ops, nt):
    """ops: list of (t, 'S', seed) | (t, 'C', f, a) | (t, 'X').  Close every seeding with a raw probe and
    add a canonical twin (a new thread that makes the seeding and its calls only, while no other thread
    is drawing) for every seeding, except the first one of a thread that is alone in the history (that one
    is canonical itself).  Returns (ops, number of threads, number of twins)."""
    out = []
    nmain = nt
    cur = {}          # t -> [seed, calls] of the open seeding
    nseg = {}         # t -> seedings so far
    twins = []

    def close(t):
        if t in cur:
            seg = cur.pop(t)
            if not seg[1] or seg[1][-1][0] != "raw":
                seg[1].append(("raw", 0)); out.append((t, "C", "raw", 0))
            if nseg[t] > 1 or nmain > 1:
                twins.append(seg)
    for o in ops:
        t = o[0]
        if o[1] in ("S", "X"):
            close(t)
            if o[1] == "S":
                cur[t] = [o[2], []]; nseg[t] = nseg.get(t, 0) + 1
        else:
            if t not in cur:
                continue           # never draw on an unseeded thread
            cur[t][1].append((o[2], o[3]))
        out.append(o)
    for t in sorted(cur):
        close(t)
    ntw = 0
    done = set()
    for seg in twins:
        k = (seg[0], tuple(seg[1]))
        if k in done:
            continue
        done.add(k)
        if nt >= 16:
            break
        nt += 1; ntw += 1
        out.append((nt, "S", seg[0]))
        out += [(nt, "C", f, a) for (f, a) in seg[1]]
    return out, nt, ntw


def script_text(hid, mode, nt, ops, npar):
    ls = ["H %d %s %d %d" % (hid, mode, nt, npar)]
    for o in ops:
        if o[1] == "S":
            ls.append("S %d %016x" % (o[0], o[2]))
        elif o[1] == "X":
            ls.append("X %d" % o[0])
        else:
            ls.append("C %d %s %d" % (o[0], o[2], o[3]))
    ls.append("E")
    return "\n".join(ls) + "\n"


def abstract_to_ops(h, idx, pool):
    """h: list of (thread, code, arg) exported by TLC from Random.tla."""
    np_ = len(pool)
    smap = {1: pool[idx % np_], 2: pool[(idx + 1 + (idx // np_) % (np_ - 1)) % np_], 3: pool[(idx + 2 + (idx // 7) % (np_ - 2)) % np_]}
    if len(set(smap.values())) < 3:
        smap = {1: pool[0], 2: pool[1], 3: pool[2]}
    fix, var, geo = FIX[idx % len(FIX)], VAR[(idx // 3) % len(VAR)], GEO[(idx // 5) % len(GEO)]
    gam = GAM[(idx // 2) % len(GAM)]
    ops = []
    for (t, c, a) in h:
        if c == 1: ops.append((t, "S", smap[a]))
        elif c == 2: ops.append((t, "C", "raw", 0))
        elif c == 3: ops.append((t, "C", "flip32", 0))     # FlipBits = 2 in the model: two calls use up one word
        elif c == 4: ops.append((t, "C", var[0], var[1]))
        elif c == 5: ops.append((t, "C", fix[0], fix[1]))
        elif c == 6: ops.append((t, "C", gam[0], gam[1][a - 1]))
        elif c == 7: ops.append((t, "C", geo[0], geo[1]))
    return ops


def random_history(r, pool):
    """A long history: templates (seed + calls) are shared between threads with different prior use."""
    seeds = r.sample(pool, 3)
    names = sorted(ALLF)

    def calls(n):
        cs, since = [], 0
        for _ in range(n):
            x = r.random()
            if since >= 5 or x < 0.12:
                cs.append(("raw", 0)); since = 0; continue
            f = r.choice(CACHED) if x < 0.45 else r.choice(names)
            if f == "raw":
                since = -1
            cs.append((f, r.randrange(ALLF[f]))); since += 1
            if r.random() < 0.25:                      # the very same call again (parameter caches see a hit)
                cs.append(cs[-1]); since += 1
            if f == "flip" and r.random() < 0.7:       # leave the bit cache at an odd position
                k = r.randrange(1, 40)
                cs += [("flip", 0)] * k
        return cs
    templates = [(r.choice(seeds), calls(r.randrange(3, 22))) for _ in range(r.randrange(2, 5))]
    nt = r.randrange(1, 5)
    per = {}
    for t in range(1, nt + 1):
        segs = []
        for _ in range(r.randrange(1, 5)):
            if r.random() < 0.75:
                s, cs = r.choice(templates)
                cut = len(cs) if r.random() < 0.6 else r.randrange(1, len(cs) + 1)
                segs.append((s, cs[:cut], r.random() < 0.15))
            else:
                segs.append((r.choice(seeds), calls(r.randrange(1, 12)), r.random() < 0.15))
        per[t] = []
        for (s, cs, term) in segs:
            per[t].append((t, "S", s))
            per[t] += [(t, "C", f, a) for (f, a) in cs]
            if term:
                per[t].append((t, "X"))
    # a global order: random merge
    ops, idx = [], {t: 0 for t in per}
    live = [t for t in per if per[t]]
    while live:
        t = r.choice(live)
        burst = r.randrange(1, 6)
        ops += per[t][idx[t]:idx[t] + burst]; idx[t] += burst
        if idx[t] >= len(per[t]):
            live.remove(t)
    return ops, nt


# ------------------------------------------------------------ TLC output parsing
def parse_hists(out):
    txt = re.sub(r"\s+", "", out)
    hists = []
    for chunk in txt.split('<<"H",')[1:]:
        end = chunk.find(">>>>")
        body = chunk if end < 0 else chunk[:end]
        nums = [int(x) for x in re.findall(r"-?\d+", body)]
        hists.append([tuple(nums[i:i + 3]) for i in range(0, len(nums) - len(nums) % 3, 3)])
    return hists


def parse_cex_hist(out):
    txt = re.sub(r"\s+", "", out)
    i = txt.rfind("hist=")
    if i < 0:
        return None
    j = txt.find("/\\", i)
    nums = [int(x) for x in re.findall(r"-?\d+", txt[i:j if j > 0 else None])]
    return [tuple(nums[k:k + 3]) for k in range(0, len(nums) - len(nums) % 3, 3)]


def run_mc(tag, threads, seeds, shapes, maxcalls, clr=True, tl=True, gk=True, export=False, timeout=3000, workers=None):
    par = dict(threads="{%s}" % ", ".join(map(str, range(1, threads + 1))), seeds="{%s}" % ", ".join(map(str, range(1, seeds + 1))),
               shapes="{%s}" % ", ".join(map(str, range(1, shapes + 1))), maxcalls=maxcalls, flipbits=2,
               clr=str(clr).upper(), tl=str(tl).upper(), gk=str(gk).upper(),
               invs="TypeOK ExportHist" if export else "TypeOK SeedAlone RawIsStream")
    cfgp = os.path.join(vlib.SPEC, "_gen_RandomMC_%s.cfg" % tag)
    with open(cfgp, "w") as f:
        f.write(MC % par)
    try:
        r = vlib.tlc(PID, "Random", os.path.basename(cfgp), timeout=timeout, tag="mc_" + tag, workers=workers or vlib.NCPU,
                     extra=("-noGenerateSpecTE",))     # no *_TTrace_* files in spec/ for the negative controls
    finally:
        os.remove(cfgp)
    if r.error:
        raise vlib.MachineryError("Random model checking (%s): %s" % (tag, r.error))
    return r


# ------------------------------------------------------------ the check
def run(tier, replay=None):
    v = vlib.Verdict(PID, "model_checking", tier)
    v.assumptions = [
        "the documented generator is spec/Sfc64.tla: splitmix64 and sfc64 written from their published definitions "
        "(splitmix64 tied to its published test vector by an ASSUME), seeding = 4 splitmix64 outputs as a, b, c, d then 20 discarded outputs",
        "one sampling call consumes at most 64 raw words before the next raw probe (WindowPerCall of RandomTrace.tla); the harness keeps "
        "parameters small (binomial n <= 16, erlang k <= 8, poisson rate <= 4) so that exceeding it has probability < 1e-30 per call",
        "a 64-bit word does not repeat within a 400-word window of one stream (probability < 1e-16 per probe)",
        "Random.tla abstracts stream words to tokens <<seed, position>> and uses a 2-flip bit cache; the real 64-flip cache is "
        "crossed by mapping the abstract flip to 32 real flips and by random histories with 1..40 single flips",
        "real thread interleavings are those the OS yields (mode par) or the exact global order of the history (mode seq)",
    ]
    out = vlib.outdir(PID)
    pool = seed_pool()
    scripts = []      # (hid, text, kind)
    hid = [0]

    def add(ops, nt, mode, kind):
        ops2, nt2, ntw = finish_history(ops, nt)
        if not any(o[1] == "C" for o in ops2):
            return
        hid[0] += 1
        scripts.append((hid[0], script_text(hid[0], mode, nt2, ops2, nt), kind))

    if not replay:
        import shutil, glob
        shutil.rmtree(os.path.join(out, "replay"), ignore_errors=True)
        for f in glob.glob(os.path.join(out, "trace_*.ndjson")) + glob.glob(os.path.join(out, "script_*.txt")):
            os.remove(f)
    if replay:
        txt = open(replay).read()
        ids = [int(x) for x in re.findall(r"^H (\d+)", txt, re.M)]
        if not ids:
            raise vlib.MachineryError("replay file %s holds no history (expected a rng15_replay script)" % replay)
        parts = re.split(r"(?m)^(?=H )", txt)
        for p in parts:
            m = re.match(r"H (\d+)", p)
            if m:
                scripts.append((int(m.group(1)), p, "replay"))
    else:
        # ---- 1. model checking of the design
        if tier == "quick":
            main_cfgs = [("t2s2c7", 2, 2, 2, 7)]
            exp_cfg = ("exp_t2s2c5", 2, 2, 2, 5)
        else:
            main_cfgs = [("t2s2c8", 2, 2, 2, 8), ("t3s3c6", 3, 3, 3, 6)]
            exp_cfg = ("exp_t2s2c6", 2, 2, 2, 6)
        for (tag, nt, ns, nsh, mc) in main_cfgs:
            r = run_mc(tag, nt, ns, nsh, mc)
            v.add_tlc(r, "Random.tla intended design: %d threads, %d seeds, %d shapes, <= %d calls: TypeOK, SeedAlone, RawIsStream" % (nt, ns, nsh, mc))
            if r.violated:
                raise vlib.MachineryError("Random.tla (intended design) violates %s (model defect)\n%s" % (r.violated, r.out[-2500:]))
        # negative controls: each defective design must be caught by the invariant
        negs = [("flipcache", dict(clr=False)), ("shared", dict(tl=False)), ("gammastale", dict(gk=False))]
        with ThreadPoolExecutor(3) as ex:
            futs = [(nm, ex.submit(run_mc, "neg_" + nm, 2, 2, 2, 5, workers=4, **kw)) for nm, kw in negs]
            negres = [(nm, f.result()) for nm, f in futs]
        cex = []
        for nm, r in negres:
            v.add_tlc(r, "Random.tla defective design '%s' (negative control, must violate SeedAlone)" % nm)
            if r.violated != "SeedAlone":
                raise vlib.MachineryError("negative control %s: TLC did not report a SeedAlone violation (vacuous invariant?)\n%s" % (nm, r.out[-1500:]))
            h = parse_cex_hist(r.out)
            if h:
                cex.append((nm, h))
        v.cov["negative_controls_caught"] = [nm for nm, _ in negres]
        # export: one history per distinct final state of the design that forgets nothing at seeding
        # (flip cache survives), so that prior histories the intended design would merge stay apart
        (tag, nt, ns, nsh, mc) = exp_cfg
        r = run_mc(tag, nt, ns, nsh, mc, clr=False, export=True)
        v.add_tlc(r, "Random.tla history export (design in which the flip cache survives seeding, no property checked): "
                     "%d threads, <= %d calls, one history per distinct final state" % (nt, mc))
        if r.violated:
            raise vlib.MachineryError("Random.tla export run violates %s" % r.violated)
        hists = parse_hists(r.out)
        if not hists:
            raise vlib.MachineryError("no histories exported by TLC:\n" + r.out[-1500:])
        v.cov["tlc_histories_exported"] = len(hists)
        for nm, h in cex:
            for k in range(6):
                add(abstract_to_ops(h, k * 13 + 1, pool), 2, "seq", "tlc-counterexample-" + nm)
        for i, h in enumerate(hists):
            nthr = max(t for (t, _, _) in h)
            add(abstract_to_ops(h, i, pool), nthr, "seq", "tlc")
        # the same interleavings left to the OS for a sample
        step = 7 if tier == "quick" else 4
        for i, h in enumerate(hists[vlib.seed() % step::step]):
            nthr = max(t for (t, _, _) in h)
            add(abstract_to_ops(h, i * 11 + 5, pool), nthr, "par", "tlc-par")
        # ---- 2. seeded random long histories
        rr = random.Random(vlib.seed())
        for k in range(400 if tier == "quick" else 3000):
            ops, nthr = random_history(rr, pool)
            add(ops, nthr, "par" if k % 4 else "seq", "random")

    # ---- 3. run on the real library, validate with TLC
    vlib.build_lib(PID, "rel")
    variants = [("rel", vlib.cc_harness(PID, "rel", "rng15_replay"))]
    if tier == "thorough" and not replay:
        vlib.build_lib(PID, "san")
        variants.append(("san", vlib.cc_harness(PID, "san", "rng15_replay")))
    by_id = {h: (txt, kind) for (h, txt, kind) in scripts}
    jobs = []
    for vn, exe in variants:
        sel = scripts if vn == "rel" else [s for s in scripts if s[2] != "tlc" or s[0] % 4 == 0]
        nchunk = max(1, min(16, len(sel) // 1500 + 1))
        for c in range(nchunk):
            part = sel[c::nchunk]
            if part:
                jobs.append((vn, exe, c, part))

    def work(job):
        vn, exe, c, part = job
        sp = os.path.join(out, "script_%s_%02d.txt" % (vn, c))
        tp = os.path.join(out, "trace_%s_%02d.ndjson" % (vn, c))
        with open(sp, "w") as f:
            f.write("".join(p[1] for p in part))
        rc, o = vlib.run([exe, sp, tp], timeout=3000)
        if rc not in (0, 3):
            raise vlib.MachineryError("rng15_replay failed rc=%d: %s" % (rc, o[-1500:]))
        tv = vlib.validate_trace(PID, "RandomTrace", tp, tag="tv_%s_%02d" % (vn, c), heap="3g", timeout=3000,
                                 extra_env={"JAVA_TOOL_OPTIONS": "-XX:ParallelGCThreads=2"})
        return vn, c, tp, rc, o, tv

    with ThreadPoolExecutor(8) as ex:
        results = list(ex.map(work, jobs))

    nhist = ncalls = ncmp = nontriv = 0
    kinds = {}
    rejects = []
    for vn, c, tp, rc, o, tv in results:
        v.add_tlc(tv.tlc, "RandomTrace over chunk %d on %s build" % (c, vn))
        if rc == 3:
            msg = "%s build chunk %d: a history crashed / sanitizer report (memory errors are C10's): %s" % (vn, c, o[-300:])
            v.notes.append(msg)
        # coverage counting (no judgement): repeated (seed, call prefix) keys = comparisons made by the memo rule
        with open(tp) as f:
            seen, thr, hc = set(), {}, 0
            for line in f:
                e = json.loads(line)
                if e["op"] == "begin":
                    nhist += 1; nontriv += 1 if hc else 0
                    seen, thr, hc = set(), {}, 0
                elif e["op"] == "seed":
                    thr[e["t"]] = (tuple(e["s"]), ())
                elif e["op"] == "call" and e["t"] in thr:
                    ncalls += 1
                    s, cs = thr[e["t"]]
                    cs = cs + ((e["f"], e["a"]),)
                    thr[e["t"]] = (s, cs)
                    k = hash((s, cs))
                    if k in seen:
                        ncmp += 1; hc += 1
                    seen.add(k)
            nontriv += 1 if hc else 0
        for rj in tv.rejects:
            if rj["rule"].startswith("harness-"):
                raise vlib.MachineryError("trace spec reports harness problem: %s" % rj)
            m = re.search(r"\bhist \|-> (\d+)", rj["detail"])
            h = int(m.group(1)) if m else 0
            m = re.search(r'\bctx \|-> "([^"]*)"', rj["detail"])
            ctx = m.group(1) if m else "?"
            txt, kind = by_id.get(h, ("", "?"))
            kinds[kind] = kinds.get(kind, 0) + 1
            # the diagnosis context only tells apart differences between equal (seed, call sequence) pairs
            sig = "C15|%s|%s" % (rj["rule"], ctx) if rj["rule"].startswith("result-") else "C15|" + rj["rule"]
            rj["detail"] = rj["detail"].split("Progress(")[0]
            rejects.append((len(txt), sig, h, kind, vn, tp, rj))
    # one VIOLATION per (rule, diagnosis context): the shortest rejected history is the replay
    groups = {}
    for rec in sorted(rejects, key=lambda x: (x[0], x[2])):
        groups.setdefault(rec[1], []).append(rec)
    for sig, recs in sorted(groups.items()):
        (_, _, h, kind, vn, tp, rj) = recs[0]
        rp = vlib.save_replay(PID, "viol_%s_h%d.script" % (vn, h), by_id.get(h, ("", ""))[0])
        ops = sorted(set(r[6]["op"] for r in recs))
        v.violation(sig, rp, "%d histories rejected (calls at which the difference showed: %s); shortest: history %d (%s, %s build), "
                    "trace %s line %d: %s" % (len(recs), ",".join(ops)[:200], h, kind, vn, tp, rj["line"], rj["detail"][:560]))
        v.cov.setdefault("rejects", {})[sig] = {"histories": len(recs), "ops": ops, "replay": rp}
    if kinds:
        v.cov["rejected_histories_by_source"] = kinds
    for (h, txt, kind) in scripts[:1] + scripts[len(scripts) // 2:len(scripts) // 2 + 1] + scripts[-1:]:
        v.sample({"history": h, "source": kind, "script": txt.split("\n")[:14]})
    v.cov["traces_validated_against_impl"] = nhist
    v.cov["evaluations"] = ncalls
    v.cov["memo_comparisons"] = ncmp
    v.cov["distinct_nontrivial"] = nontriv
    v.cov["rule"] = ("one case = one history run on newly created pthreads; evaluations = recorded calls, each checked by RandomTrace "
                     "(raw words against Sfc64 stream, every result against the first result of the same (seed, call sequence)); "
                     "non-trivial = histories in which at least one (seed, call sequence) occurred twice (prior history / other thread / twin)")
    v.cov["exhaustive"] = False
    return v.finish()
