#!/usr/bin/env python3
"""Regenerate MANIFEST.json from the table below (kept in one place so that it
stays valid at all times)."""
import json, os
ROOT = os.path.dirname(os.path.dirname(os.path.abspath(__file__)))
props = [json.loads(l) for l in open(os.path.join(ROOT, "properties.jsonl"))]

CHECKS = {
 "C02": dict(level="model_checking", design="DESIGN.md §4 C02",
   text="TLC exhaustively checks an implementation-shaped model of the heap + hash map + tombstones + doubling (spec/HashHeap.tla) "
        "against a structural invariant and step-wise refinement to the abstract keyed priority queue (spec/KeyedPQ.tla); one shortest "
        "history per distinct reachable model state plus seeded long histories are run on the real cmi_hashheap with the library's own "
        "comparators, and every recorded trace is validated by TLC against the abstract specification (spec/KeyedPQTrace.tla).",
   note="Trusted: TLC, the harness's logging of arguments/results, the named orderings of KeyedPQ.tla. Model geometry is small (heap 2..8); "
        "the code is driven across 8..64 by random histories only. A comparator that is not its named ordering is reported as DRIFT, not judged.",
   technique="TLA+ refinement model checking (TLC) + trace validation of recorded operation histories"),
 "C01": dict(level="model_checking", design="DESIGN.md §4 C01",
   text="TLC checks the abstract event queue (spec/EventQueue.tla: schedule/cancel/reschedule/reprioritize/pattern ops/clear from dispatcher "
        "context and from inside running actions) for run-once, cancelled-never-runs, accounting and clock monotonicity over all bounded "
        "histories; seeded histories are executed on the real cmb_event_* API (incl. operations from inside actions, ties, extreme "
        "priorities/time scales, populations across growth thresholds) and every trace is validated by TLC against spec/EventQueueTrace.tla, "
        "which demands the dispatch order, the clock, the current-event query inside actions and all handle queries after every operation. "
        "Events that processes wait for are covered by the kernel model (spec/Kernel.tla, configuration wev2) and by programs with "
        "cmb_process_wait_event run on the real kernel, with the C01 rules of spec/KMon.tla (clock never goes back, no cancelled or finished event executes).",
   note="Trusted: TLC, hook H1 (handle of the dispatched event), the monotone code<->value maps of the harness. Histories are random beyond the "
        "model's bounds, not exhaustive. NaN times are out of scope.",
   technique="TLA+ model checking (TLC) of the abstract event queue + TLC trace validation of recorded API histories"),
 "C10": dict(level="exploration", design="DESIGN.md §4 C10",
   text="Every history/program the other checks generate (valid by the specifications' preconditions) is run on the release-flag build, where "
        "a library abort or fatal signal is recorded, and on an ASan+UBSan build with fiber annotations; any abort or sanitizer report is a violation. "
        "spec/EventExec.tla model-checks the dispatcher's pointer discipline; spec/DataArray.tla model-checks the capacity discipline of the data arrays "
        "(count, believed capacity, allocated elements per backing array) for all call sequences over 4 small objects, and spec/DataArrayTrace.tla judges the "
        "allocator-observed capacity state after every call of seeded valid histories across the real doubling thresholds by the model's own predicates; "
        "Apalache shows the capacity invariant inductive for unbounded counts with the real initial capacity (and not inductive for the copy rule of the code as found).",
   note="Exploration under instrumentation guided by the specifications' generators; not a proof of memory safety. UBSan null/alignment checks are off by design.",
   technique="spec-generated valid behaviours replayed under ASan/UBSan and release asserts; TLA+ capacity-discipline model with allocator-observed trace validation"),
 "C04": dict(level="model_checking", design="DESIGN.md §4 C04",
   text="The property is a monitor in spec/KMon.tla, a total TLA+ step function over the kernel event vocabulary: waits return at the right time for exactly one cause, no stale wake-ups, armed timers fire, nobody stays suspended after its awaited thing happened. "
        "TLC folds the monitor over traces recorded from the real library by harness/kernel_replay running seeded programs of the relevant "
        "profiles (processes with scripts over hold/timers/waits/interrupt/stop/exit/restart/resources/pools/buffers/queues/conditions/recording, "
        "same-instant ties by construction: integer durations 0..3, priorities 0..2) and, where spec/Kernel.tla covers the calls, over TLC-exported programs.",
   note="Trusted: TLC, hooks H1-H3 and the harness's logging. Programs are random beyond the bounds TLC explores exhaustively; a rule fires only for events "
        "impossible in any behaviour satisfying the property, so ties and unspecified orders are never judged.",
   technique="TLA+ monitor (step function) folded by TLC over recorded kernel traces; TLC model checking of the kernel model"),
 "C05": dict(level="model_checking", design="DESIGN.md §4 C05",
   text="The property is a monitor in spec/KMon.tla, a total TLA+ step function over the kernel event vocabulary: mutual exclusion of a resource and agreement of the holder queries with the acquire/release/preempt/end history. "
        "TLC folds the monitor over traces recorded from the real library by harness/kernel_replay running seeded programs of the relevant "
        "profiles (processes with scripts over hold/timers/waits/interrupt/stop/exit/restart/resources/pools/buffers/queues/conditions/recording, "
        "same-instant ties by construction: integer durations 0..3, priorities 0..2) and, where spec/Kernel.tla covers the calls, over TLC-exported programs.",
   note="Trusted: TLC, hooks H1-H3 and the harness's logging. Programs are random beyond the bounds TLC explores exhaustively; a rule fires only for events "
        "impossible in any behaviour satisfying the property, so ties and unspecified orders are never judged.",
   technique="TLA+ monitor (step function) folded by TLC over recorded kernel traces; TLC model checking of the kernel model"),
 "C06": dict(level="model_checking", design="DESIGN.md §4 C06",
   text="The property is a monitor in spec/KMon.tla, a total TLA+ step function over the kernel event vocabulary: waiters are granted in (priority, waiting time) order, also after priority changes. "
        "TLC folds the monitor over traces recorded from the real library by harness/kernel_replay running seeded programs of the relevant "
        "profiles (processes with scripts over hold/timers/waits/interrupt/stop/exit/restart/resources/pools/buffers/queues/conditions/recording, "
        "same-instant ties by construction: integer durations 0..3, priorities 0..2) and, where spec/Kernel.tla covers the calls, over TLC-exported programs.",
   note="Trusted: TLC, hooks H1-H3 and the harness's logging. Programs are random beyond the bounds TLC explores exhaustively; a rule fires only for events "
        "impossible in any behaviour satisfying the property, so ties and unspecified orders are never judged.",
   technique="TLA+ monitor (step function) folded by TLC over recorded kernel traces; TLC model checking of the kernel model"),
 "C07": dict(level="model_checking", design="DESIGN.md §4 C07",
   text="The property is a monitor in spec/KMon.tla, a total TLA+ step function over the kernel event vocabulary: pool unit conservation, exact acquire/rollback/preempt/release accounting, preemption only from lower priority with notification. "
        "TLC folds the monitor over traces recorded from the real library by harness/kernel_replay running seeded programs of the relevant "
        "profiles (processes with scripts over hold/timers/waits/interrupt/stop/exit/restart/resources/pools/buffers/queues/conditions/recording, "
        "same-instant ties by construction: integer durations 0..3, priorities 0..2) and, where spec/Kernel.tla covers the calls, over TLC-exported programs.",
   note="Trusted: TLC, hooks H1-H3 and the harness's logging. Programs are random beyond the bounds TLC explores exhaustively; a rule fires only for events "
        "impossible in any behaviour satisfying the property, so ties and unspecified orders are never judged.",
   technique="TLA+ monitor (step function) folded by TLC over recorded kernel traces; TLC model checking of the kernel model"),
 "C08": dict(level="model_checking", design="DESIGN.md §4 C08",
   text="The property is a monitor in spec/KMon.tla, a total TLA+ step function over the kernel event vocabulary: no waiter stays blocked at the end of an instant or at quiescence while its guard's demand is true (lost wake-ups, lost grants). "
        "TLC folds the monitor over traces recorded from the real library by harness/kernel_replay running seeded programs of the relevant "
        "profiles (processes with scripts over hold/timers/waits/interrupt/stop/exit/restart/resources/pools/buffers/queues/conditions/recording, "
        "same-instant ties by construction: integer durations 0..3, priorities 0..2) and, where spec/Kernel.tla covers the calls, over TLC-exported programs.",
   note="Trusted: TLC, hooks H1-H3 and the harness's logging. Programs are random beyond the bounds TLC explores exhaustively; a rule fires only for events "
        "impossible in any behaviour satisfying the property, so ties and unspecified orders are never judged.",
   technique="TLA+ monitor (step function) folded by TLC over recorded kernel traces; TLC model checking of the kernel model"),
 "C09": dict(level="model_checking", design="DESIGN.md §4 C09",
   text="The property is a monitor in spec/KMon.tla, a total TLA+ step function over the kernel event vocabulary: ending a process (return, exit, stop by another, stop by itself): waiters told once with the right code, holdings freed, no pending events, exit value, clean restart. "
        "TLC folds the monitor over traces recorded from the real library by harness/kernel_replay running seeded programs of the relevant "
        "profiles (processes with scripts over hold/timers/waits/interrupt/stop/exit/restart/resources/pools/buffers/queues/conditions/recording, "
        "same-instant ties by construction: integer durations 0..3, priorities 0..2) and, where spec/Kernel.tla covers the calls, over TLC-exported programs.",
   note="Trusted: TLC, hooks H1-H3 and the harness's logging. Programs are random beyond the bounds TLC explores exhaustively; a rule fires only for events "
        "impossible in any behaviour satisfying the property, so ties and unspecified orders are never judged.",
   technique="TLA+ monitor (step function) folded by TLC over recorded kernel traces; TLC model checking of the kernel model"),
 "C11": dict(level="model_checking", design="DESIGN.md §4 C11",
   text="The property is a monitor in spec/KMon.tla, a total TLA+ step function over the kernel event vocabulary: buffer level conservation including the partial progress of blocked and interrupted calls. "
        "TLC folds the monitor over traces recorded from the real library by harness/kernel_replay running seeded programs of the relevant "
        "profiles (processes with scripts over hold/timers/waits/interrupt/stop/exit/restart/resources/pools/buffers/queues/conditions/recording, "
        "same-instant ties by construction: integer durations 0..3, priorities 0..2) and, where spec/Kernel.tla covers the calls, over TLC-exported programs.",
   note="Trusted: TLC, hooks H1-H3 and the harness's logging. Programs are random beyond the bounds TLC explores exhaustively; a rule fires only for events "
        "impossible in any behaviour satisfying the property, so ties and unspecified orders are never judged.",
   technique="TLA+ monitor (step function) folded by TLC over recorded kernel traces; TLC model checking of the kernel model"),
 "C12": dict(level="model_checking", design="DESIGN.md §4 C12",
   text="The property is a monitor in spec/KMon.tla, a total TLA+ step function over the kernel event vocabulary: object queue FIFO and priority queue order/cancel/reprioritise/position, exactly-once delivery, capacity. "
        "TLC folds the monitor over traces recorded from the real library by harness/kernel_replay running seeded programs of the relevant "
        "profiles (processes with scripts over hold/timers/waits/interrupt/stop/exit/restart/resources/pools/buffers/queues/conditions/recording, "
        "same-instant ties by construction: integer durations 0..3, priorities 0..2) and, where spec/Kernel.tla covers the calls, over TLC-exported programs.",
   note="Trusted: TLC, hooks H1-H3 and the harness's logging. Programs are random beyond the bounds TLC explores exhaustively; a rule fires only for events "
        "impossible in any behaviour satisfying the property, so ties and unspecified orders are never judged.",
   technique="TLA+ monitor (step function) folded by TLC over recorded kernel traces; TLC model checking of the kernel model"),
 "C13": dict(level="model_checking", design="DESIGN.md §4 C13",
   text="The property is a monitor in spec/KMon.tla, a total TLA+ step function over the kernel event vocabulary: a condition signal resumes exactly the waiters whose predicate is true; cancel/remove; forwarded signals. "
        "TLC folds the monitor over traces recorded from the real library by harness/kernel_replay running seeded programs of the relevant "
        "profiles (processes with scripts over hold/timers/waits/interrupt/stop/exit/restart/resources/pools/buffers/queues/conditions/recording, "
        "same-instant ties by construction: integer durations 0..3, priorities 0..2) and, where spec/Kernel.tla covers the calls, over TLC-exported programs.",
   note="Trusted: TLC, hooks H1-H3 and the harness's logging. Programs are random beyond the bounds TLC explores exhaustively; a rule fires only for events "
        "impossible in any behaviour satisfying the property, so ties and unspecified orders are never judged.",
   technique="TLA+ monitor (step function) folded by TLC over recorded kernel traces; TLC model checking of the kernel model"),
 "C14": dict(level="model_checking", design="DESIGN.md §4 C14",
   text="The property is a monitor in spec/KMon.tla, a total TLA+ step function over the kernel event vocabulary: recorded (value,time) histories define the true trajectory and the exact time average. "
        "TLC folds the monitor over traces recorded from the real library by harness/kernel_replay running seeded programs of the relevant "
        "profiles (processes with scripts over hold/timers/waits/interrupt/stop/exit/restart/resources/pools/buffers/queues/conditions/recording, "
        "same-instant ties by construction: integer durations 0..3, priorities 0..2) and, where spec/Kernel.tla covers the calls, over TLC-exported programs.",
   note="Trusted: TLC, hooks H1-H3 and the harness's logging. Programs are random beyond the bounds TLC explores exhaustively; a rule fires only for events "
        "impossible in any behaviour satisfying the property, so ties and unspecified orders are never judged.",
   technique="TLA+ monitor (step function) folded by TLC over recorded kernel traces; TLC model checking of the kernel model"),
 "C20": dict(level="model_checking", design="DESIGN.md §4 C20",
   text="TLC checks an implementation-shaped model of the pool allocator (spec/Mempool.tla: LIFO free list, chunks, growth of the chunk list, static "
        "thread-local pools) for distinctness, containment, accounting and content stability over all alloc/free histories with small geometry; "
        "seeded histories on real pools (object sizes 8..4096, dynamic and CMI_MEMPOOL_STATIC_INIT pools, up to 300 chunks, every object patterned "
        "and verified) are recorded and validated by TLC against spec/MempoolTrace.tla.",
   note="Trusted: TLC, the harness's address-to-(chunk,slot) mapping through the public chunk list. Geometry of the model is tiny; thresholds of the real "
        "allocator (64/128 chunks) are crossed by the harness only. Memory errors inside the allocator are C10's.",
   technique="TLA+ model checking (TLC) of the allocator model + TLC trace validation of recorded allocation histories"),
 "C03": dict(level="model_checking", design="DESIGN.md §4 C03",
   text="TLC explores all interleavings of start/resume/transfer/yield/exit/return/stop/restart for 2 coroutines + main (complete) and 3 (bounded) "
        "on spec/Coroutine.tla, and checks the register / MXCSR / rsp / message / entry / exit contracts symbolically on spec/CtxMachine.tla, an abstract "
        "x86-64 machine that interprets the disassembly of the context switch assembled from the current tree and the initial frame dumped after the real "
        "cmi_coroutine_context_init. TLC-exported histories run on the real library (harness/coro_probe) with sentinels in all callee-saved registers and the "
        "MXCSR control bits, stack canaries and hashes; every trace is validated by TLC against spec/CoroutineTrace.tla.",
   note="Trusted: TLC; objdump and the instruction semantics in CtxMachine.tla (14 instruction forms; anything else = machinery failure); the assembly shim; "
        "SysV-ABI compliance of compiled C. Dynamic part is sentinel-valued; rflags and the x87 control word are not judged.",
   technique="TLA+ model checking + symbolic machine over the real disassembly + TLC trace validation"),
 "C18": dict(level="model_checking", design="DESIGN.md §4 C18",
   text="spec/DataSet.tla states the laws (sort = ascending permutation keeping (t,w) tags, exact copy, true weighted median, ordered in-range five-number "
        "summary, histogram accounting, ACF lag 0 and affine invariance) over order positions and integer weights; TLC model-checks that an in-place heapsort "
        "design and reference median/quartile/binning designs satisfy them for all small inputs. The identical input space plus sizes around 1024/2048/4096 is "
        "run on the real cmb_dataset / cmb_timeseries by harness/ds_replay and every recorded call is judged by TLC against spec/DataSetTrace.tla.",
   note="Trusted: the harness's encoding of doubles as order positions, its parsing of report texts, its permutation witness (re-checked by the spec), the 1e-7 "
        "ACF quantisation, TLC. PACF and rounding-error growth are not decided; values near DBL_MAX excluded.",
   technique="TLA+ laws over order positions + TLC trace validation of the real library"),
 "C19": dict(level="model_checking", design="DESIGN.md §4 C19",
   text="TLC checks the experiment runner design (spec/Experiment.tla: atomic trial dispenser, join-all, thread-local engine state re-initialised by seeding) "
        "for every interleaving up to 3 workers x 4 trials with the property monitor (spec/ExperimentMon.tla) and direct invariants; sensitivity runs show the "
        "monitor rejects each forbidden deviation. The same monitor judges real cimba_run_experiment executions (trial counts around the core count, struct "
        "sizes 8..4104, trial bodies over all sampler families, flips, processes, logger flags; schedule shapes incl. completion orders exported from TLC) "
        "against a single-thread reference.",
   note="Trusted: harness/exp_replay.c (stamps, digests, trial bodies), TLC, and that the OS plus forced plans produce representative schedules; no TSan.",
   technique="monitor-as-function TLA+ design model + trace validation + forced-schedule replay"),
 "C15": dict(level="model_checking", design="DESIGN.md §4 C15",
   text="TLC verifies on spec/Random.tla, for all histories of up to 7-8 calls on 2-3 threads, that the seeding/cache design (generator position, coin-flip "
        "bit cache, gamma constant cache) makes results a function of seed and calls, and finds the violating history for each of three defective designs. "
        "One history per distinct model state plus seeded long histories over all 38 sampling entry points run on real pthreads with canonical-twin "
        "comparisons; TLC validates every recorded raw word against an executable TLA+ definition of splitmix64/sfc64 (spec/Sfc64.tla over 16-bit limbs, "
        "spec/W64.tla) and every result against the first result for the same (seed, call sequence) (spec/RandomTrace.tla).",
   note="Trusted: TLC and the Bitwise/Json modules; Sfc64.tla as transcription of the documented generator (splitmix64 test vector checked by an ASSUME); the "
        "harness's logging of bit patterns; a 64-word search window per sampler call. Sampler formulas are not checked here (C16).",
   technique="TLC model checking of the seeding/cache design + TLC trace validation against an executable TLA+ sfc64"),
 "C16": dict(level="model_checking", design="DESIGN.md §4 C16",
   text="TLC exhaustively checks the discrete decision logic on spec/SamplersMC.tla (loaded-dice inversion incl. vectors summing to 1 +- 1e-3, Vose alias "
        "construction with all pairing orders, alias followed by a position, dice, Bernoulli trial processes incl. p = 1) with refuted negative controls. Every "
        "sampler x 124 admissible parameter sets (boundaries included) is run on the real library; TLC judges the recorded support classes, alias tables and "
        "bin / empirical-distribution-function frequencies against spec/Samplers.tla (spec/SamplersTrace.tla). The distribution-fit half is statistical "
        "conformance (7 sigma + Bernstein term, false-alarm probability < 5e-11 per tested count), not proof.",
   note="Trusted: TLC, the harness's classification and counting, the generated quantile table spec/SamplersFit.tla (independent double-precision numerics), "
        "the conversion of rational parameters to doubles. Distortions below 7 sigma at the tier's sample size, or inside the outermost 2^-15 tail bin, are not detected.",
   technique="TLA+ model checking of sampler decision logic + TLC-judged support/frequency trace validation"),
 "C17": dict(level="model_checking", design="DESIGN.md §4 C17",
   text="A summary's abstract state is the exact power-sum tuple of its samples (spec/SummaryStats.tla over exact bignum rationals, spec/C17Big.tla); TLC proves "
        "on spec/Summary.tla, for all add/merge/reset histories over small alphabets, that the closed forms equal the definitional statistics, that the library's "
        "update and merge formulas (transcribed over exact rationals) refine the tuple, and the weighted laws. Every explored transition, under affine and unit "
        "frames, plus seeded long and offset histories, is replayed on the real summaries; TLC decides each reported accessor value with exact integer arithmetic "
        "(spec/SummaryTrace.tla).",
   note="Trusted: TLC; the harness's exact ldexp fixed-point logging; statistic conventions as documented in the headers; the tolerance bound "
        "n^2 (1 + max|x|/spread) 2^-40. Rounding-error growth beyond the tolerance and |x|^4 outside the double range are not decided.",
   technique="TLA+ model checking of summary algebra/design (TLC) + exact-arithmetic TLC trace validation"),
}
NA = {}

def main():
    checks = []
    for p in props:
        pid = p["id"]
        if pid in CHECKS:
            c = CHECKS[pid]
            checks.append({
                "property_id": pid,
                "quick_cmd": "tools/check %s --tier quick" % pid,
                "thorough_cmd": "tools/check %s --tier thorough" % pid,
                "evidence_file": "/verif/evidence/%s.json" % pid,
                "replay_cmd_template": "tools/check %s --replay {path}" % pid,
                "engine": "tlc",
                "level_claimed": {"category": c["level"], "text": c["text"], "design_ref": c["design"]},
                "level_note": c["note"],
                "technique": c["technique"],
            })
    na = [{"property_id": p["id"], "reason": NA.get(p["id"], "not yet covered by a registered check in this revision (work in progress; see DESIGN.md)")}
          for p in props if p["id"] not in CHECKS]
    man = {
        "version": 1,
        "setup_cmd": "tools/setup.sh",
        "hooks": {
            "guard": "CIMBA_VERIF",
            "enable": "tools/build.sh compiles /repo's working tree outside meson with -DCIMBA_VERIF (variants rel: gcc -O3 -DNDEBUG, san: clang ASan+UBSan); each check calls it",
            "baseline_off_cmd": "cd /repo && (test -d _build || meson setup _build) && meson compile -C _build && meson test -C _build",
            "source_commits": json.load(open(os.path.join(ROOT, "hook_commits.json"))),
            "add_only": True,
        },
        "engines": [
            {"name": "tlc", "path": "/opt/veriftools/tla/tla2tools.jar", "serves_properties": sorted(CHECKS), "kind_free_text": "TLC 1.8.0 explicit-state model checker for the TLA+ specifications under /verif/spec; also used for trace validation"},
            {"name": "apalache", "path": "/opt/veriftools/apalache", "serves_properties": ["C10"], "kind_free_text": "Apalache 0.58.0 symbolic model checker: inductive-invariant check of the data-array capacity discipline (module generated from spec/DataArrayOps.tla by tools/c10_ind_gen.py)"},
        ],
        "checks": checks,
        "not_applicable": na,
        "notes": "All checks: tools/check <id> [--tier quick|thorough] [--replay file]; exit 0 ok, 1 VIOLATION, 2 machinery failure. Known findings: known_findings.json.",
    }
    json.dump(man, open(os.path.join(ROOT, "MANIFEST.json"), "w"), indent=1)

if __name__ == "__main__":
    main()
