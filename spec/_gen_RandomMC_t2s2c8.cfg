SPECIFICATION Spec
CONSTANTS
  Threads = {1, 2}
  Seeds = {1, 2}
  Shapes = {1, 2}
  MaxCalls = 8
  FlipBits = 2
  InitClearsFlip = TRUE
  ThreadLocal = TRUE
  GammaKeyed = TRUE
INVARIANTS TypeOK SeedAlone RawIsStream
VIEW View
CHECK_DEADLOCK FALSE
