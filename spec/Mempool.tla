------------------------------- MODULE Mempool -------------------------------
(* Implementation-shaped model of src/cmi_mempool.c (property C20): a LIFO    *)
(* free list threaded through fixed-size objects, chunks of K objects         *)
(* allocated on demand, and a growable list of chunk addresses (capacity      *)
(* grows by L entries, preserving its contents).  Static (thread local)       *)
(* pools are initialised by their first expansion.                            *)
(* Objects are <<chunk, slot>>; addresses are abstract.                       *)
EXTENDS Integers, Sequences, FiniteSets, TLC

CONSTANTS K,          \* objects per chunk
          L,          \* chunk list increment
          MaxChunks,  \* state constraint
          Static      \* TRUE: statically initialised pool (first expand initialises)

VARIABLES free,     \* the free list, head first
          chunks,   \* number of chunks allocated
          clist,    \* the chunk list as the pool sees it: sequence of chunk ids (0 = lost entry)
          clen,     \* capacity of the chunk list
          live,     \* objects handed out and not yet returned
          content,  \* what the user wrote into each live object
          inited,
          stamp     \* ghost: next unique pattern
vars == <<free, chunks, clist, clen, live, content, inited, stamp>>

Obj(c, s) == <<c, s>>
ChunkObjs(c) == [s \in 1..K |-> Obj(c, s)]

Init == /\ free = <<>> /\ chunks = 0 /\ clist = <<>> /\ clen = IF Static THEN 0 ELSE L
        /\ live = {} /\ content = [o \in {} |-> 0] /\ inited = ~Static /\ stamp = 1

(* cmi_mempool_expand: (initialise if static,) grow the chunk list when full, keeping the    *)
(* entries it has, allocate a chunk, thread the free list through it in address order          *)
Expanded ==
  LET len0 == IF inited THEN clen ELSE L
      cnt2 == chunks + 1
      len2 == IF cnt2 = len0 THEN len0 + L ELSE len0
  IN [free |-> ChunkObjs(cnt2), chunks |-> cnt2, clist |-> Append(clist, cnt2), clen |-> len2]

Alloc ==
  /\ LET st == IF free = <<>> THEN Expanded ELSE [free |-> free, chunks |-> chunks, clist |-> clist, clen |-> clen]
         o == Head(st.free)
     IN /\ free' = Tail(st.free)
        /\ chunks' = st.chunks /\ clist' = st.clist /\ clen' = st.clen
        /\ live' = live \cup {o}
        /\ content' = [x \in live \cup {o} |-> IF x = o THEN stamp ELSE content[x]]
  /\ inited' = TRUE
  /\ stamp' = stamp + 1

Free(o) ==
  /\ o \in live
  /\ free' = <<o>> \o free
  /\ live' = live \ {o}
  /\ content' = [x \in live \ {o} |-> content[x]]
  /\ UNCHANGED <<chunks, clist, clen, inited, stamp>>

Next == Alloc \/ \E o \in live : Free(o)
Spec == Init /\ [][Next]_vars

(* ---- C20 on the model ---- *)
FreeSet == {free[i] : i \in 1..Len(free)}
Distinct == /\ live \cap FreeSet = {}                                      \* never handed out while still allocated
            /\ \A i, j \in 1..Len(free) : i # j => free[i] # free[j]        \* no object twice in the free list
InChunks == \A o \in live \cup FreeSet : o[1] \in 1..chunks /\ o[2] \in 1..K
Accounted == Cardinality(live) + Len(free) = chunks * K
ListIntact == /\ Len(clist) = chunks /\ \A i \in 1..chunks : clist[i] = i   \* growth preserves the entries
              /\ chunks < clen \/ chunks = 0 \/ ~inited
ContentStable == [][\A o \in live \cap live' : content'[o] = content[o]]_vars
AllocFresh == [][\A o \in live' \ live : o \notin live]_vars

Constr == chunks <= MaxChunks /\ stamp <= 4 * K * MaxChunks
View == <<free, chunks, clist, clen, live, inited>>
=============================================================================
