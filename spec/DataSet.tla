------------------------------ MODULE DataSet ------------------------------
(* Property C18 of cimba: what sorting, copying, medians, five-number        *)
(* summaries, histograms and autocorrelation coefficients of a dataset or a  *)
(* time series must satisfy ("respect their definitions").                   *)
(*                                                                           *)
(* Everything is stated over ORDER and small integer WEIGHTS, never over      *)
(* floating point numbers:                                                   *)
(*  * a value is a POSITION on the doubled rank scale of a ladder of K        *)
(*    distinct numbers  val[1] < ... < val[K]  chosen by whoever feeds the    *)
(*    data:  2r = "equals val[r]",  2r+1 = "strictly between val[r] and       *)
(*    val[r+1]",  1 = "below val[1]",  2K+1 = "above val[K]",  0 = "not a     *)
(*    number".  Samples always sit on even positions; reported medians,       *)
(*    quartiles and bin limits may sit anywhere.                              *)
(*  * the weight of a time-series sample is its duration, a small integer     *)
(*    number of time units; a dataset sample has weight 1.                    *)
(*                                                                           *)
(* Part 1 holds the laws (the property, nothing more).  Part 2 holds          *)
(* reference designs (a true weighted median, quartiles, the dataset's        *)
(* middle-element median, value-dictated binning and bar rendering, the       *)
(* in-place heapsort over parallel arrays) that DataSetMC.tla checks against   *)
(* the laws for every small input, so that the laws are known to be           *)
(* satisfiable by the intended design and never demand the impossible.        *)
EXTENDS Integers, Sequences, FiniteSets

NaN == 0

(* A collection S = [kind |-> "ds" | "ts", x |-> positions, t |-> times, w |-> durations] *)
Idx(S) == 1..Len(S.x)
Wt(S, i) == IF S.kind = "ds" THEN 1 ELSE S.w[i]

RECURSIVE SumOver(_, _)
SumOver(D, f) == IF D = {} THEN 0
                 ELSE LET d == CHOOSE e \in D : TRUE IN f[d] + SumOver(D \ {d}, f)

(* total weight of the samples with index in I (no recursion over the samples:   *)
(* collections of a few thousand samples are handled with set cardinalities)     *)
WSum(S, I) == LET V == {Wt(S, i) : i \in I}
              IN SumOver(V, [v \in V |-> v * Cardinality({i \in I : Wt(S, i) = v})])

Total(S) == WSum(S, Idx(S))
Below(S, m) == WSum(S, {i \in Idx(S) : S.x[i] < m})
Above(S, m) == WSum(S, {i \in Idx(S) : S.x[i] > m})
Values(S) == {S.x[i] : i \in Idx(S)}
MinPos(S) == CHOOSE v \in Values(S) : \A u \in Values(S) : v <= u
MaxPos(S) == CHOOSE v \in Values(S) : \A u \in Values(S) : v >= u

(* ======================= Part 1: the laws ================================ *)

(* -- sorting: same multiset of samples, ascending, every sample keeps its own *)
(* time and weight.  src is a witness (out[i] is the sample that was at        *)
(* in[src[i]]); the law checks the witness, so a wrong witness can only make    *)
(* a correct result look wrong to whoever produced the witness, never the       *)
(* other way round.                                                             *)
IsPermutation(out, in, src) ==
  /\ Len(out.x) = Len(in.x) /\ Len(src) = Len(in.x)
  /\ (in.kind = "ts") => (Len(out.t) = Len(in.x) /\ Len(out.w) = Len(in.x))
  /\ {src[i] : i \in 1..Len(src)} = 1..Len(in.x)
  /\ \A i \in 1..Len(src) :
        /\ out.x[i] = in.x[src[i]]
        /\ (in.kind = "ts") => (out.t[i] = in.t[src[i]] /\ out.w[i] = in.w[src[i]])
Ascending(s) == \A i \in 1..(Len(s) - 1) : s[i] <= s[i + 1]

(* -- copies are exact *)
CopyExact(c, S) == /\ c.x = S.x
                   /\ (S.kind = "ts") => (c.t = S.t /\ c.w = S.w)

(* -- a true (duration-weighted) median: at most half of the total weight lies  *)
(* strictly below it and at most half strictly above it                          *)
IsMedian(S, m) == LET tot == Total(S) IN
                  /\ m # NaN
                  /\ 2 * Below(S, m) <= tot
                  /\ 2 * Above(S, m) <= tot
InRange(S, m) == m # NaN /\ (\E i \in Idx(S) : S.x[i] <= m) /\ (\E i \in Idx(S) : S.x[i] >= m)

(* -- five-number summary f = <<min, Q1, median, Q3, max>> *)
FiveOrdered(f) == /\ \A j \in 1..5 : f[j] # NaN
                  /\ \A j \in 1..4 : f[j] <= f[j + 1]
FiveInRange(S, f) == \A j \in 1..5 : InRange(S, f[j])

(* -- histograms.  A histogram has B = Len(edges) + 1 bins; bin 1 is            *)
(* (-inf, edges[1]), bin b is [edges[b-1], edges[b]), bin B is [edges[B-1], inf) *)
NBins(edges) == Len(edges) + 1
InBin(edges, b, p) == /\ (b = 1 \/ edges[b - 1] <= p)
                      /\ (b = NBins(edges) \/ p < edges[b])
(* exact bin contents (when the limits are known exactly): every bin holds the  *)
(* weight of precisely the samples its limits dictate; hence the bins account   *)
(* for every sample once                                                         *)
Dictated(S, edges, b) == WSum(S, {i \in Idx(S) : InBin(edges, b, S.x[i])})
HistExactOK(S, edges, cont) ==
  /\ Len(cont) = NBins(edges)
  /\ \A b \in 1..NBins(edges) : cont[b] = Dictated(S, edges, b)

(* printed histograms: the limits are printed with four significant digits, so  *)
(* a sample whose value EQUALS a printed limit may belong to either neighbour   *)
(* (the true limit may be a hair above or below); any other sample belongs to   *)
(* the bin the limits dictate.  All samples of one value go to the same bin (a  *)
(* bin is a set of values).  Bars: bar[b] full symbols and a mark (0 none, 1     *)
(* "less than half", 2 "at least half") render content[b] * width / max content  *)
(* for a bar width that is the length of the longest bar (or one more, if       *)
(* rounding shortened it).  A histogram of zero total weight has no scale and   *)
(* is left open.                                                                 *)
MayHold(edges, b, p) == /\ (b = 1 \/ edges[b - 1] <= p)
                        /\ (b = NBins(edges) \/ p <= edges[b])
AllowedBins(edges, p) == {b \in 1..NBins(edges) : MayHold(edges, b, p)}

RECURSIVE Assignments(_, _)
Assignments(G, edges) ==
  IF G = {} THEN { [g \in {} |-> 0] }
  ELSE LET g == CHOOSE e \in G : TRUE IN
       { [h \in (DOMAIN f) \cup {g} |-> IF h = g THEN b ELSE f[h]] :
             f \in Assignments(G \ {g}, edges), b \in AllowedBins(edges, g) }

Content(S, binof, b) == WSum(S, {i \in Idx(S) : binof[S.x[i]] = b})
MaxOf(T) == CHOOSE v \in T : \A u \in T : v >= u

BarOK(c, cm, wd, n, mark) ==           \* bar renders r = wd * c / cm
  /\ n * cm <= wd * c /\ wd * c <= (n + 1) * cm
  /\ CASE mark = 0 -> wd * c = n * cm
       [] mark = 1 -> 2 * wd * c <= (2 * n + 1) * cm
       [] mark = 2 -> 2 * wd * c >= (2 * n + 1) * cm
       [] OTHER -> FALSE

HistTextOK(S, edges, bars, marks) ==
  /\ Len(bars) = NBins(edges) /\ Len(marks) = NBins(edges)
  /\ \/ Total(S) = 0
     \/ LET G == Values(S)
            B == NBins(edges)
            nmax == MaxOf({bars[b] : b \in 1..B})
        IN \E a \in Assignments(G, edges) :
             LET c == [b \in 1..B |-> Content(S, a, b)]
                 cm == MaxOf({c[b] : b \in 1..B})
             IN \E wd \in {nmax, nmax + 1} :
                  /\ wd >= 1
                  /\ \A b \in 1..B : BarOK(c[b], cm, wd, bars[b], marks[b])

(* -- autocorrelation coefficients, logged in units of 10^-7; lag 0 is q[1].    *)
(* fin[k] = FALSE marks a coefficient that is not a finite number.              *)
AcfUnit == 10000000
AcfTol == 2
AcfLag0One(q, fin) == Len(q) >= 1 /\ fin[1] /\ q[1] >= AcfUnit - AcfTol /\ q[1] <= AcfUnit + AcfTol
AcfSame(q1, f1, q2, f2) ==
  /\ Len(q1) = Len(q2)
  /\ \A k \in 1..Len(q1) : /\ f1[k] = f2[k]
                           /\ f1[k] => (q1[k] - q2[k] <= AcfTol /\ q2[k] - q1[k] <= AcfTol)

(* ======================= Part 2: reference designs ======================== *)

(* weight of the samples at or below position p *)
Cum(S, p) == WSum(S, {i \in Idx(S) : S.x[i] <= p})
(* the num/den quantile by cumulative weight: the first data value at which the *)
(* cumulative weight reaches the fraction; if it reaches it exactly, a point     *)
(* between this value and the next one (position + 1)                            *)
RefQuantile(S, num, den) ==
  LET tot == Total(S) IN
  IF tot = 0 THEN MinPos(S)
  ELSE LET G == Values(S)
           cum == [q \in G |-> Cum(S, q)]
           R == {q \in G : den * cum[q] >= num * tot}
           p == CHOOSE q \in R : \A u \in R : q <= u
       IN IF den * cum[p] = num * tot /\ p # MaxPos(S) THEN p + 1 ELSE p
RefMedian(S) == RefQuantile(S, 1, 2)
RefFive(S) == <<MinPos(S), RefQuantile(S, 1, 4), RefMedian(S), RefQuantile(S, 3, 4), MaxPos(S)>>

(* the dataset's own design: k-th smallest, middle element or midpoint of the    *)
(* two middle elements, quartiles as medians of the lower and upper halves      *)
Kth(S, k) == CHOOSE p \in Values(S) :
               /\ Cardinality({i \in Idx(S) : S.x[i] <= p}) >= k
               /\ \A u \in Values(S) : Cardinality({i \in Idx(S) : S.x[i] <= u}) >= k => p <= u
Mid(a, b) == IF a = b THEN a ELSE a + 1          \* some point strictly between two data values
SeqMedian(S, lo, n) ==                           \* median of the sorted elements lo+1 .. lo+n
  IF n % 2 = 1 THEN Kth(S, lo + (n + 1) \div 2)
  ELSE Mid(Kth(S, lo + n \div 2), Kth(S, lo + n \div 2 + 1))
DsMedian(S) == SeqMedian(S, 0, Len(S.x))
DsFive(S) == LET n == Len(S.x)  h == n \div 2 IN
  IF n = 1 THEN <<S.x[1], S.x[1], S.x[1], S.x[1], S.x[1]>>
  ELSE <<MinPos(S), SeqMedian(S, 0, h), DsMedian(S),
         IF n % 2 = 0 THEN SeqMedian(S, h, h) ELSE SeqMedian(S, h + 1, h), MaxPos(S)>>

(* value-dictated binning and its rendering with bars of a given width *)
RefCont(S, edges) == [b \in 1..NBins(edges) |-> Dictated(S, edges, b)]
RefBars(c, wd) == LET cm == MaxOf({c[b] : b \in DOMAIN c}) IN
  [b \in DOMAIN c |-> IF cm = 0 THEN 0 ELSE (wd * c[b]) \div cm]
RefMarks(c, wd) == LET cm == MaxOf({c[b] : b \in DOMAIN c}) IN
  [b \in DOMAIN c |-> IF cm = 0 THEN 0
                      ELSE LET rem == wd * c[b] - ((wd * c[b]) \div cm) * cm
                           IN IF rem = 0 THEN 0 ELSE IF 2 * rem >= cm THEN 2 ELSE 1]

(* in-place heapsort over parallel arrays (0-based indices as in the code);      *)
(* an array element is [k |-> key, id |-> original index]                        *)
At(a, i) == a[i + 1]
Swap(a, i, j) == [a EXCEPT ![i + 1] = a[j + 1], ![j + 1] = a[i + 1]]
RECURSIVE Sift(_, _, _)
Sift(a, un, r) ==
  LET cl == 2 * r + 1
      cr == 2 * r + 2
      b1 == IF cl < un /\ At(a, cl).k > At(a, r).k THEN cl ELSE r
      b2 == IF cr < un /\ At(a, cr).k > At(a, b1).k THEN cr ELSE b1
  IN IF b2 = r THEN a ELSE Sift(Swap(a, r, b2), un, b2)
IsMaxHeapFrom(a, un, r) ==            \* every node >= r of the first un satisfies the heap condition
  \A i \in r..(un - 1) :
     /\ (2 * i + 1 < un) => At(a, i).k >= At(a, 2 * i + 1).k
     /\ (2 * i + 2 < un) => At(a, i).k >= At(a, 2 * i + 2).k

(* exact autocovariance sums of integer data, scaled by n*n so that they stay    *)
(* integers: D[i] = n*x[i] - sum(x);  C(k) = sum_i D[i]*D[i+k]                    *)
RECURSIVE SeqSum(_, _)
SeqSum(s, i) == IF i = 0 THEN 0 ELSE s[i] + SeqSum(s, i - 1)
Dev(xs) == [i \in 1..Len(xs) |-> Len(xs) * xs[i] - SeqSum(xs, Len(xs))]
CovSum(xs, k) == LET d == Dev(xs) IN SeqSum([i \in 1..(Len(xs) - k) |-> d[i] * d[i + k]], Len(xs) - k)
Affine(xs, a, b) == [i \in 1..Len(xs) |-> a * xs[i] + b]
=============================================================================
