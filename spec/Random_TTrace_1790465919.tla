---- MODULE Random_TTrace_1790465919 ----
EXTENDS Sequences, TLCExt, Random, Toolbox, Naturals, TLC

_expression ==
    LET Random_TEExpression == INSTANCE Random_TEExpression
    IN Random_TEExpression!expression
----

_trace ==
    LET Random_TETrace == INSTANCE Random_TETrace
    IN Random_TETrace!trace
----

_inv ==
    ~(
        TLCGet("level") = Len(_TETrace)
        /\
        gen = (<<[seed |-> 0, pos |-> 0], [seed |-> 1, pos |-> 2]>>)
        /\
        hist = (<<<<2, 1, 1>>, <<2, 6, 1>>, <<2, 1, 1>>, <<2, 6, 2>>>>)
        /\
        cache = (<<[fw |-> <<>>, fn |-> 0, gc |-> 0], [fw |-> <<>>, fn |-> 0, gc |-> 1]>>)
        /\
        seg = (<<[seed |-> 0, calls |-> <<>>, res |-> <<>>], [seed |-> 1, calls |-> <<<<6, 2>>>>, res |-> <<<<"gam", 2, 1, <<1, 0>>, <<1, 1>>>>>>]>>)
        /\
        n = (4)
    )
----

_init ==
    /\ n = _TETrace[1].n
    /\ hist = _TETrace[1].hist
    /\ gen = _TETrace[1].gen
    /\ cache = _TETrace[1].cache
    /\ seg = _TETrace[1].seg
----

_next ==
    /\ \E i,j \in DOMAIN _TETrace:
        /\ \/ /\ j = i + 1
              /\ i = TLCGet("level")
        /\ n  = _TETrace[i].n
        /\ n' = _TETrace[j].n
        /\ hist  = _TETrace[i].hist
        /\ hist' = _TETrace[j].hist
        /\ gen  = _TETrace[i].gen
        /\ gen' = _TETrace[j].gen
        /\ cache  = _TETrace[i].cache
        /\ cache' = _TETrace[j].cache
        /\ seg  = _TETrace[i].seg
        /\ seg' = _TETrace[j].seg

\* Uncomment the ASSUME below to write the states of the error trace
\* to the given file in Json format. Note that you can pass any tuple
\* to `JsonSerialize`. For example, a sub-sequence of _TETrace.
    \* ASSUME
    \*     LET J == INSTANCE Json
    \*         IN J!JsonSerialize("Random_TTrace_1790465919.json", _TETrace)

=============================================================================

 Note that you can extract this module `Random_TEExpression`
  to a dedicated file to reuse `expression` (the module in the 
  dedicated `Random_TEExpression.tla` file takes precedence 
  over the module `Random_TEExpression` below).

---- MODULE Random_TEExpression ----
EXTENDS Sequences, TLCExt, Random, Toolbox, Naturals, TLC

expression == 
    [
        \* To hide variables of the `Random` spec from the error trace,
        \* remove the variables below.  The trace will be written in the order
        \* of the fields of this record.
        n |-> n
        ,hist |-> hist
        ,gen |-> gen
        ,cache |-> cache
        ,seg |-> seg
        
        \* Put additional constant-, state-, and action-level expressions here:
        \* ,_stateNumber |-> _TEPosition
        \* ,_nUnchanged |-> n = n'
        
        \* Format the `n` variable as Json value.
        \* ,_nJson |->
        \*     LET J == INSTANCE Json
        \*     IN J!ToJson(n)
        
        \* Lastly, you may build expressions over arbitrary sets of states by
        \* leveraging the _TETrace operator.  For example, this is how to
        \* count the number of times a spec variable changed up to the current
        \* state in the trace.
        \* ,_nModCount |->
        \*     LET F[s \in DOMAIN _TETrace] ==
        \*         IF s = 1 THEN 0
        \*         ELSE IF _TETrace[s].n # _TETrace[s-1].n
        \*             THEN 1 + F[s-1] ELSE F[s-1]
        \*     IN F[_TEPosition - 1]
    ]

=============================================================================



Parsing and semantic processing can take forever if the trace below is long.
 In this case, it is advised to uncomment the module below to deserialize the
 trace from a generated binary file.

\*
\*---- MODULE Random_TETrace ----
\*EXTENDS IOUtils, Random, TLC
\*
\*trace == IODeserialize("Random_TTrace_1790465919.bin", TRUE)
\*
\*=============================================================================
\*

---- MODULE Random_TETrace ----
EXTENDS Random, TLC

trace == 
    <<
    ([gen |-> <<[seed |-> 0, pos |-> 0], [seed |-> 0, pos |-> 0]>>,hist |-> <<>>,cache |-> <<[fw |-> <<>>, fn |-> 0, gc |-> 0], [fw |-> <<>>, fn |-> 0, gc |-> 0]>>,seg |-> <<[seed |-> 0, calls |-> <<>>, res |-> <<>>], [seed |-> 0, calls |-> <<>>, res |-> <<>>]>>,n |-> 0]),
    ([gen |-> <<[seed |-> 0, pos |-> 0], [seed |-> 1, pos |-> 0]>>,hist |-> <<<<2, 1, 1>>>>,cache |-> <<[fw |-> <<>>, fn |-> 0, gc |-> 0], [fw |-> <<>>, fn |-> 0, gc |-> 0]>>,seg |-> <<[seed |-> 0, calls |-> <<>>, res |-> <<>>], [seed |-> 1, calls |-> <<>>, res |-> <<>>]>>,n |-> 1]),
    ([gen |-> <<[seed |-> 0, pos |-> 0], [seed |-> 1, pos |-> 2]>>,hist |-> <<<<2, 1, 1>>, <<2, 6, 1>>>>,cache |-> <<[fw |-> <<>>, fn |-> 0, gc |-> 0], [fw |-> <<>>, fn |-> 0, gc |-> 1]>>,seg |-> <<[seed |-> 0, calls |-> <<>>, res |-> <<>>], [seed |-> 1, calls |-> <<<<6, 1>>>>, res |-> <<<<"gam", 1, 1, <<1, 0>>, <<1, 1>>>>>>]>>,n |-> 2]),
    ([gen |-> <<[seed |-> 0, pos |-> 0], [seed |-> 1, pos |-> 0]>>,hist |-> <<<<2, 1, 1>>, <<2, 6, 1>>, <<2, 1, 1>>>>,cache |-> <<[fw |-> <<>>, fn |-> 0, gc |-> 0], [fw |-> <<>>, fn |-> 0, gc |-> 1]>>,seg |-> <<[seed |-> 0, calls |-> <<>>, res |-> <<>>], [seed |-> 1, calls |-> <<>>, res |-> <<>>]>>,n |-> 3]),
    ([gen |-> <<[seed |-> 0, pos |-> 0], [seed |-> 1, pos |-> 2]>>,hist |-> <<<<2, 1, 1>>, <<2, 6, 1>>, <<2, 1, 1>>, <<2, 6, 2>>>>,cache |-> <<[fw |-> <<>>, fn |-> 0, gc |-> 0], [fw |-> <<>>, fn |-> 0, gc |-> 1]>>,seg |-> <<[seed |-> 0, calls |-> <<>>, res |-> <<>>], [seed |-> 1, calls |-> <<<<6, 2>>>>, res |-> <<<<"gam", 2, 1, <<1, 0>>, <<1, 1>>>>>>]>>,n |-> 4])
    >>
----


=============================================================================

---- CONFIG Random_TTrace_1790465919 ----
CONSTANTS
    Threads = { 1 , 2 }
    Seeds = { 1 , 2 }
    Shapes = { 1 , 2 }
    MaxCalls = 5
    FlipBits = 2
    InitClearsFlip = TRUE
    ThreadLocal = TRUE
    GammaKeyed = FALSE

INVARIANT
    _inv

CHECK_DEADLOCK
    \* CHECK_DEADLOCK off because of PROPERTY or INVARIANT above.
    FALSE

INIT
    _init

NEXT
    _next

CONSTANT
    _TETrace <- _trace

ALIAS
    _expression
=============================================================================
\* Generated on Sat Sep 26 23:38:41 UTC 2026