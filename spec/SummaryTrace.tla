---------------------------- MODULE SummaryTrace ----------------------------
(* Trace validation for C17: histories recorded by harness/sum_replay from the *)
(* real cmb_datasummary / cmb_wtdsummary.  The state is, per summary object,   *)
(* the exact power-sum tuple of SummaryStats.tla (samples are the integers k   *)
(* of the trace; the harness logs every reported double in the power-of-two    *)
(* unit of the run as sign + limbs of round(|v| * 2^48)).                      *)
(*                                                                            *)
(* Plain summaries (op obs): count, min, max exactly; mean, variance, stddev,   *)
(* skewness, kurtosis within Tol of the exact statistic of the tuple, on the    *)
(* domain where the statistic is defined (mean n >= 1, variance n >= 2,         *)
(* skewness n >= 3 and data not constant, kurtosis n >= 4 and not constant;     *)
(* nothing is demanded of min/max/mean/... of an empty summary).                *)
(* Weighted summaries (op obsw):                                                *)
(*   - the mean is the exact weighted mean;                                     *)
(*   - if all non-zero weights are equal, every statistic is that of the plain  *)
(*     summary of the samples of non-zero weight (unit-weight law + scale law   *)
(*     + zero-weight law);                                                      *)
(*   - two observations, within a group of histories, of weighted summaries     *)
(*     holding the same samples in the same order with proportional weights     *)
(*     (zero-weight samples dropped) agree in every statistic: this is the      *)
(*     scale law, the zero-weight law and merge = concatenation at once.        *)
(* "Up to floating-point rounding": Tol = n^2 * cond * 2^-40 relative to the    *)
(* spread R = max - min of the data (R for mean and stddev, R^2 for variance,   *)
(* n * Tol absolute for skewness and kurtosis), cond = 1 + max|x| / R - a bound  *)
(* far above the rounding error of any stable update and far below the effect   *)
(* of a wrong term.                                                             *)
EXTENDS Integers, Sequences, FiniteSets, TLC, Json, IOUtils, SummaryStats
LOCAL INSTANCE SequencesExt      \* FoldLeft: long data are folded iteratively, not by recursion

Tr == ndJsonDeserialize(IOEnv.TRACE)
VARIABLES l,      \* next trace line
          U,      \* plain summaries: [t |-> tuple, pv |-> provenance]
          V,      \* weighted summaries: [t, u, ks, wq, pv, z]
          seen,   \* weighted observations of this group, by canonical data
          wc      \* weight scale code of the current history
vars == <<l, U, V, seen, wc>>

NObj == 3
TwoF == NPow2(48)
TwoFF == NPow2(96)
IAbs(i) == IF i < 0 THEN -i ELSE i

U0 == [t |-> T0, pv |-> "fresh"]
V0 == [t |-> T0, u |-> T0, ks |-> <<>>, wq |-> <<>>, pv |-> "fresh", z |-> FALSE]
Init == /\ l = 1 /\ U = [o \in 1..NObj |-> U0] /\ V = [o \in 1..NObj |-> V0]
        /\ seen = [k \in {} |-> 0] /\ wc = 0

(* ---------------- observed values ---------------- *)
Fin(v) == v.c = 0
Obs(v) == ZMk(v.s, v.d)                      \* the value in quanta of 2^-48

(* |obs - num/den| <= tol quanta *)
Near(v, num, den, tol) ==
  /\ Fin(v)
  /\ NCmp(ZSub(ZMulNat(Obs(v), den), ZMulNat(num, TwoF)).m, NMul(tol, den)) <= 0
(* obs = k exactly *)
IsInt(v, k) == Fin(v) /\ ZCmp(Obs(v), ZMulNat(ZFromInt(k), TwoF)) = 0
(* obs >= 0 and |obs^2 - num/den| <= tol2 (tol2 in quanta of 2^-48 of the squared unit) *)
NearSq(v, num, den, tol2) ==
  /\ Fin(v) /\ v.s >= 0
  /\ NCmp(ZSub(ZMulNat(ZFromNat(NMul(v.d, v.d)), den), ZMulNat(num, TwoFF)).m, NMul(NMul(tol2, TwoF), den)) <= 0
(* |obs - sg * sqrt(num/den)| <= tol *)
NearRoot(v, sg, num, den, tol) ==
  /\ Fin(v)
  /\ IF sg = 0 \/ num.s = 0 THEN NCmp(v.d, tol) <= 0
     ELSE LET o == IF sg > 0 THEN Obs(v) ELSE ZNeg(Obs(v))
              hi == ZAdd(o, ZFromNat(tol))
              lo == ZSub(o, ZFromNat(tol))
              e2 == ZMulNat(num, TwoFF)
          IN /\ hi.s >= 0
             /\ ZCmp(ZMulNat(ZSq(hi), den), e2) >= 0
             /\ (lo.s <= 0 \/ ZCmp(ZMulNat(ZSq(lo), den), e2) <= 0)

(* ---------------- tolerance (quanta of 2^-48) ---------------- *)
Spread(t) == IF t.n = 0 THEN 1 ELSE IMax(t.mx - t.mn, 1)
TolBase(t) ==
  LET A == IMax(IAbs(t.mn), IAbs(t.mx))
  IN NMul(NFromInt(t.n * t.n * 256), NFromInt(1 + A \div Spread(t)))
Tol1(t, f) == NMulSmall(NMul(TolBase(t), NFromInt(Spread(t))), f)                          \* mean, stddev-like
Tol2(t, f) == NMulSmall(NMul(NMul(TolBase(t), NFromInt(Spread(t))), NFromInt(Spread(t))), f)  \* variance
Tol0(t, f) == NMulSmall(NMulSmall(TolBase(t), t.n), f)                                       \* skewness, kurtosis

(* ---------------- plain summary: exact statistics of tuple t, slack factor f ---------------- *)
NonConst(t) == t.n >= 2 /\ t.mx > t.mn
PlainVerdict(t, e, f, pfx) ==
  IF ~(e.cnt.c = 0 /\ e.cnt.v = t.n) THEN pfx \o "count-wrong"
  ELSE IF t.n >= 1 /\ ~IsInt(e.min, t.mn) THEN pfx \o "min-wrong"
  ELSE IF t.n >= 1 /\ ~IsInt(e.max, t.mx) THEN pfx \o "max-wrong"
  ELSE IF t.n >= 1 /\ ~Near(e.mean, t.s1, t.W, Tol1(t, f)) THEN pfx \o "mean-wrong"
  ELSE IF t.n >= 2 /\ ~(LET q == XVar(t) IN Near(e.var, q.n, q.d, Tol2(t, f))) THEN pfx \o "variance-wrong"
  ELSE IF t.n >= 2 /\ ~(LET q == XVar(t) IN NearSq(e.sd, q.n, q.d, Tol2(t, 2 * f))) THEN pfx \o "stddev-wrong"
  ELSE IF t.n >= 3 /\ NonConst(t) /\ ~(LET q == XSkew2(t) IN NearRoot(e.skew, XSkewSign(t), q.n, q.d, Tol0(t, f)))
       THEN pfx \o "skewness-wrong"
  ELSE IF t.n >= 4 /\ NonConst(t) /\ ~(LET q == XKurt(t) IN Near(e.kurt, q.n, q.d, Tol0(t, f)))
       THEN pfx \o "kurtosis-wrong"
  ELSE ""

(* ---------------- weighted summary ---------------- *)
RECURSIVE Gcd(_, _)
Gcd(a, b) == IF b = 0 THEN a ELSE Gcd(b, a % b)
GcdSeq(s) == FoldLeft(LAMBDA g, x : Gcd(x, g), 0, s)
KeyOf(v) == LET g == GcdSeq(v.wq) IN <<v.ks, <<>> \o [i \in 1..Len(v.wq) |-> v.wq[i] \div g]>>
EqualWeights(v) == \A i \in 1..Len(v.wq) : v.wq[i] = v.wq[1]

(* two logged values agree within tol quanta (or are the same kind of non-number) *)
Agree(a, b, tol) == IF Fin(a) /\ Fin(b) THEN NCmp(ZSub(Obs(a), Obs(b)).m, tol) <= 0
                    ELSE a.c = b.c /\ a.s = b.s
TwinDiff(t, e, r) ==     \* name of the first statistic that differs between observations e and r, or ""
  IF e.cnt # r.cnt THEN "count"
  ELSE IF t.n >= 1 /\ ~Agree(e.min, r.min, <<>>) THEN "min"
  ELSE IF t.n >= 1 /\ ~Agree(e.max, r.max, <<>>) THEN "max"
  ELSE IF t.n >= 1 /\ ~Agree(e.mean, r.mean, Tol1(t, 2)) THEN "mean"
  ELSE IF t.n >= 2 /\ ~Agree(e.var, r.var, Tol2(t, 2)) THEN "variance"
  ELSE IF t.n >= 2 /\ ~Agree(e.sd, r.sd, Tol1(t, 2 * t.n)) THEN "stddev"
  ELSE IF t.n >= 3 /\ NonConst(t) /\ ~Agree(e.skew, r.skew, Tol0(t, 2)) THEN "skewness"
  ELSE IF t.n >= 4 /\ NonConst(t) /\ ~Agree(e.kurt, r.kurt, Tol0(t, 2)) THEN "kurtosis"
  ELSE ""

(* references: earlier observations of the same canonical data in this group; the closest kind *)
(* of reference that disagrees names the rule                                                    *)
RefClass(r, v) == IF r.wc = wc /\ r.z = v.z THEN 1 ELSE IF r.wc = wc THEN 2 ELSE IF r.z = v.z THEN 3 ELSE 4
TwinVerdict(v, e, refs) ==
  LET bad(c) == {i \in 1..Len(refs) : RefClass(refs[i], v) = c /\ TwinDiff(v.u, e, refs[i].e) # ""}
      cs == {c \in 1..4 : bad(c) # {}}
  IN IF cs = {} THEN ""
     ELSE LET c == CHOOSE x \in cs : \A y \in cs : x <= y
              i == CHOOSE x \in bad(c) : \A y \in bad(c) : x <= y
              d == TwinDiff(v.u, e, refs[i].e)
          IN CASE c = 1 -> IF refs[i].pv = v.pv THEN "wtd-" \o d \o "-differs-for-the-same-samples"
                           ELSE "wtd-" \o d \o "-differs-between-merge-and-concatenation"
               [] c = 2 -> "wtd-" \o d \o "-changes-with-zero-weight-sample"
               [] c = 3 -> "wtd-" \o d \o "-changes-with-weight-scale"
               [] OTHER -> "wtd-" \o d \o "-changes-with-weight-scale-or-zero-weight-sample"

WeightedVerdict(v, e) ==
  LET t == v.t  key == KeyOf(v) IN
  IF t.n >= 1 /\ ~Near(e.mean, t.s1, t.W, Tol1(v.u, 1)) THEN "wtd-mean-not-the-weighted-mean"
  ELSE LET pl == IF t.n >= 1 /\ EqualWeights(v) THEN PlainVerdict(v.u, e, 3, "wtd-equal-weights-") ELSE "" IN
  IF pl # "" THEN pl
  ELSE IF key \in DOMAIN seen THEN TwinVerdict(v, e, seen[key])
  ELSE ""

(* ---------------- state update ---------------- *)
Taint(p) == p = "merge-of-empties"
MergePv(pa, na, pb, nb) ==
  IF (na = 0 /\ nb = 0) \/ Taint(pa) \/ Taint(pb) THEN "merge-of-empties"
  ELSE IF na = 0 \/ nb = 0 THEN "merge-with-empty" ELSE "merge"
AddPv(p) == IF p = "fresh" THEN "adds" ELSE p

TupleOfKs(ks) == FoldLeft(LAMBDA t, k : TAdd(t, k, 1), T0, ks)
WAddAll(v, ks, ws) ==      \* samples of weight zero are ignored (and remembered in z)
  LET idx == SelectSeq([i \in 1..Len(ks) |-> i], LAMBDA i : ws[i] # 0)
  IN [v EXCEPT !.t = FoldLeft(LAMBDA t, i : TAdd(t, ks[i], ws[i]), @, idx),
               !.u = FoldLeft(LAMBDA t, i : TAdd(t, ks[i], 1), @, idx),
               !.ks = @ \o [j \in 1..Len(idx) |-> ks[idx[j]]],
               !.wq = @ \o [j \in 1..Len(idx) |-> ws[idx[j]]],
               !.z = @ \/ Len(idx) < Len(ks)]

OkInt(k) == k > -1073741824 /\ k < 1073741824
ObjOk(o) == o \in 1..NObj
HarnessProblem(e) ==
  CASE e.op \in {"add"} -> IF ObjOk(e.o) /\ OkInt(e.k) THEN "" ELSE "harness-bad-argument"
    [] e.op = "addw" -> IF ObjOk(e.o) /\ OkInt(e.k) /\ e.w >= 0 /\ e.w < 32768 THEN "" ELSE "harness-bad-argument"
    [] e.op \in {"merge", "mergew"} -> IF ObjOk(e.t) /\ ObjOk(e.a) /\ ObjOk(e.b) /\ e.a # e.b THEN "" ELSE "harness-bad-argument"
    [] e.op \in {"reset", "resetw", "obs", "obsw"} -> IF ObjOk(e.o) THEN "" ELSE "harness-bad-argument"
    [] e.op = "dsum" -> IF ObjOk(e.o) /\ \A i \in 1..Len(e.ks) : OkInt(e.ks[i]) THEN "" ELSE "harness-bad-argument"
    [] e.op = "tsum" -> IF ObjOk(e.o) /\ Len(e.ks) = Len(e.ws) /\ \A i \in 1..Len(e.ks) : OkInt(e.ks[i]) /\ e.ws[i] >= 0 /\ e.ws[i] < 32768
                        THEN "" ELSE "harness-bad-argument"
    [] e.op \in {"group", "init", "crash"} -> ""
    [] OTHER -> "harness-unknown-op"

Verdict(e) ==
  LET hp == HarnessProblem(e) IN
  IF hp # "" THEN hp
  ELSE IF e.op = "obs" THEN PlainVerdict(U[e.o].t, e, 1, "")
  ELSE IF e.op = "obsw" THEN WeightedVerdict(V[e.o], e)
  ELSE ""

InitIdx == {x \in 1..Len(Tr) : Tr[x].op = "init"}
Resync(x) == LET later == {y \in InitIdx : y > x} IN
             IF later = {} THEN Len(Tr) + 1 ELSE CHOOSE y \in later : \A z \in later : y <= z

Next ==
  /\ l <= Len(Tr)
  /\ LET e == Tr[l]  bad == Verdict(e) IN
     IF bad # "" THEN
          /\ PrintT(<<"REJECT", l, bad,
                      IF e.op = "obs" THEN [pv |-> U[e.o].pv, n |-> U[e.o].t.n, mn |-> U[e.o].t.mn, mx |-> U[e.o].t.mx]
                      ELSE IF e.op = "obsw" THEN [pv |-> V[e.o].pv, n |-> V[e.o].t.n, ks |-> V[e.o].ks, wq |-> V[e.o].wq, wc |-> wc]
                      ELSE e>>)
          /\ l' = Resync(l) /\ UNCHANGED <<U, V, seen, wc>>
     ELSE IF e.op = "tsum" /\ ~e.wa THEN     \* the time series' own durations are off: not C17's business
          /\ PrintT(<<"SKIP", l, "timeseries-durations-differ">>)
          /\ l' = Resync(l) /\ UNCHANGED <<U, V, seen, wc>>
     ELSE /\ l' = l + 1
          /\ U' = CASE e.op = "init" -> [o \in 1..NObj |-> U0]
                    [] e.op = "add" -> [U EXCEPT ![e.o] = [t |-> TAdd(@.t, e.k, 1), pv |-> AddPv(@.pv)]]
                    [] e.op = "merge" -> [U EXCEPT ![e.t] = [t |-> TMerge(U[e.a].t, U[e.b].t),
                                                             pv |-> MergePv(U[e.a].pv, U[e.a].t.n, U[e.b].pv, U[e.b].t.n)]]
                    [] e.op = "reset" -> [U EXCEPT ![e.o] = U0]
                    [] e.op = "dsum" -> [U EXCEPT ![e.o] = [t |-> TupleOfKs(e.ks), pv |-> "dataset"]]
                    [] OTHER -> U
          /\ V' = CASE e.op = "init" -> [o \in 1..NObj |-> V0]
                    [] e.op = "addw" -> [V EXCEPT ![e.o] = [WAddAll(@, <<e.k>>, <<e.w>>) EXCEPT !.pv = AddPv(@)]]
                    [] e.op = "mergew" ->
                         LET a == V[e.a]  b == V[e.b] IN
                         [V EXCEPT ![e.t] = [t |-> TMerge(a.t, b.t), u |-> TMerge(a.u, b.u), ks |-> a.ks \o b.ks,
                                             wq |-> a.wq \o b.wq, pv |-> MergePv(a.pv, a.t.n, b.pv, b.t.n), z |-> a.z \/ b.z]]
                    [] e.op = "resetw" -> [V EXCEPT ![e.o] = V0]
                    [] e.op = "tsum" -> [V EXCEPT ![e.o] = [WAddAll(V0, e.ks, e.ws) EXCEPT !.pv = "timeseries"]]
                    [] OTHER -> V
          /\ wc' = IF e.op = "init" THEN e.wc ELSE wc
          /\ seen' = IF e.op = "group" THEN [k \in {} |-> 0]
                     ELSE IF e.op = "obsw" /\ V[e.o].t.n >= 1
                          THEN LET v == V[e.o]  key == KeyOf(v)
                                   ref == [e |-> e, wc |-> wc, z |-> v.z, pv |-> v.pv]
                                   old == IF key \in DOMAIN seen THEN seen[key] ELSE <<>>
                               IN IF Len(old) < 8 /\ \A i \in 1..Len(old) : <<old[i].wc, old[i].z, old[i].pv>> # <<wc, v.z, v.pv>>
                                  THEN (key :> Append(old, ref)) @@ seen ELSE seen
                     ELSE seen
  /\ (l' = Len(Tr) + 1) => PrintT(<<"CONSUMED", Len(Tr)>>)
Spec == Init /\ [][Next]_vars
=============================================================================
