---------------------------- MODULE EventQueueTrace ----------------------------
(* Trace validation for C01: a trace recorded by harness/evq_replay from the  *)
(* real cmb_event_* API must be a behaviour of the abstract event queue       *)
(* (operators of EventQueue.tla), and after every operation the clock, the    *)
(* current-event query, count / is-empty and the per-handle queries           *)
(* (is_scheduled, time, priority) must agree with the abstract pending set.   *)
EXTENDS Integers, Sequences, FiniteSets, TLC, Json, IOUtils, EventQueueOps

Tr == ndJsonDeserialize(IOEnv.TRACE)

VARIABLES l, st
(* st = [now, pend, nextH, cur, run]  run = handle of the action that is running, 0 if none *)
vars == <<l, st>>

St0 == [now |-> 0, pend |-> NoEvents, nextH |-> 1, cur |-> 0, run |-> 0]
Init == l = 1 /\ st = St0

DumpMap(dump) == [h \in {dump[x].h : x \in 1..Len(dump)} |->
                    LET x == CHOOSE y \in 1..Len(dump) : dump[y].h = h IN [t |-> dump[x].t, pr |-> dump[x].pr]]
NoDup(dump) == \A x, y \in 1..Len(dump) : x # y => dump[x].h # dump[y].h

R(s, okv, rule) == [st |-> s, ok |-> okv, rule |-> rule]

Step(s, e) ==
  CASE e.op = "init" ->
         R([St0 EXCEPT !.now = e.t0], TRUE, "init")
    [] e.op = "sched" ->
         IF e.t < s.now THEN R(s, FALSE, "harness-invalid-schedule-in-past")
         ELSE R([s EXCEPT !.pend = With(s.pend, s.nextH, [t |-> e.t, pr |-> e.pr, a |-> e.a, s |-> e.s, o |-> e.o]),
                          !.nextH = s.nextH + 1],
                e.ret = s.nextH, "schedule-handle-not-next-in-issue-order")
    [] e.op = "cancel" ->
         R([s EXCEPT !.pend = Without(s.pend, {e.h})], e.ret = (e.h \in DOMAIN s.pend), "cancel-result")
    [] e.op = "resched" ->
         IF e.h \notin DOMAIN s.pend \/ e.t < s.now THEN R(s, FALSE, "harness-invalid-reschedule")
         ELSE R([s EXCEPT !.pend[e.h].t = e.t], TRUE, "")
    [] e.op = "reprio" ->
         IF e.h \notin DOMAIN s.pend THEN R(s, FALSE, "harness-invalid-reprioritize")
         ELSE R([s EXCEPT !.pend[e.h].pr = e.pr], TRUE, "")
    [] e.op = "pfind" ->
         R(s, IF EvMatching(s.pend, e.pat) = {} THEN e.ret = 0 ELSE e.ret \in EvMatching(s.pend, e.pat), "pattern-find")
    [] e.op = "pcount" ->
         R(s, e.ret = Cardinality(EvMatching(s.pend, e.pat)), "pattern-count")
    [] e.op = "pcancel" ->
         R([s EXCEPT !.pend = Without(s.pend, EvMatching(s.pend, e.pat))],
           e.ret = Cardinality(EvMatching(s.pend, e.pat)), "pattern-cancel-count")
    [] e.op = "clear" ->
         R([s EXCEPT !.pend = NoEvents], TRUE, "")
    [] e.op = "exec" ->      \* hook H1: the event the dispatcher dequeued
         IF s.run # 0 THEN R(s, FALSE, "harness-nested-exec")
         ELSE IF e.h \notin DOMAIN s.pend THEN R(s, FALSE, "executed-event-not-pending")   \* cancelled, cleared, ran before, or never issued
         ELSE IF ~IsNext(s.pend, e.h) THEN R(s, FALSE, "executed-event-not-first-in-order")
         ELSE IF e.t # s.pend[e.h].t \/ e.pr # s.pend[e.h].pr \/ e.a # s.pend[e.h].a
                THEN R(s, FALSE, "executed-event-time-priority-or-action-changed")
         ELSE IF e.t < s.now THEN R(s, FALSE, "clock-went-backwards")
         ELSE R([s EXCEPT !.now = e.t, !.cur = e.h, !.run = e.h, !.pend = Without(s.pend, {e.h})], TRUE, "")
    [] e.op = "enter" ->     \* the action function was entered with these arguments
         R(s, s.run # 0 /\ e.ctx = s.run, "action-entered-without-dispatch")
    [] e.op = "ret" ->
         R([s EXCEPT !.run = 0], s.run # 0, "execute-next-true-without-dispatch")
    [] e.op = "execfail" ->
         R(s, s.run = 0 /\ DOMAIN s.pend = {}, "execute-next-false-with-pending-events")
    [] e.op = "end" -> R(s, s.run = 0, "history-ended-inside-action")
    [] e.op = "crash" -> R(s, TRUE, "crash")   \* a library abort is C10's business; the history just ends
    [] OTHER -> R(s, FALSE, "harness-unknown-op")

(* the queries after the operation *)
Queries(s, e) ==
  IF "dump" \notin DOMAIN e THEN ""
  ELSE IF e.now # s.now THEN "clock-differs"
  ELSE IF s.run # 0 /\ e.cur # s.cur THEN "current-event-wrong-inside-action"
  ELSE IF e.cnt # Cardinality(DOMAIN s.pend) \/ e.empty # (DOMAIN s.pend = {}) THEN "count-or-is-empty-wrong"
  ELSE IF ~NoDup(e.dump) THEN "harness-dup"
  ELSE IF DOMAIN DumpMap(e.dump) # DOMAIN s.pend THEN "is-scheduled-disagrees-with-pending-set"
  ELSE IF \E h \in DOMAIN s.pend : DumpMap(e.dump)[h].t # s.pend[h].t \/ DumpMap(e.dump)[h].pr # s.pend[h].pr
         THEN "time-or-priority-query-wrong"
  ELSE ""

InitIdx == {x \in 1..Len(Tr) : Tr[x].op = "init"}
Resync(x) == LET later == {y \in InitIdx : y > x} IN
             IF later = {} THEN Len(Tr) + 1 ELSE CHOOSE y \in later : \A z \in later : y <= z

Next ==
  /\ l <= Len(Tr)
  /\ LET e == Tr[l]
         r == Step(st, e)
         bad == IF ~r.ok THEN r.rule ELSE Queries(r.st, e) IN
     IF bad # ""
       THEN /\ PrintT(<<"REJECT", l, bad, e>>)
            /\ l' = Resync(l) /\ st' = St0
       ELSE /\ st' = r.st /\ l' = l + 1
  /\ (l' = Len(Tr) + 1) => PrintT(<<"CONSUMED", Len(Tr)>>)

Spec == Init /\ [][Next]_vars
=============================================================================
