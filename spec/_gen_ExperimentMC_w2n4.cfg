SPECIFICATION Spec
CONSTANTS
  W = 2
  N = 4
  Bodies <- c_Bodies
  FlipW = 2
  AtomicFetch = TRUE
  JoinsAll = TRUE
  StrictBound = TRUE
  SeedClearsFlipCache = TRUE
  ThreadLocalState = TRUE
INVARIANTS TypeOK NoViolation NoDrift ExactlyOnce AllFinished OwnElement NoTwoOnOneElement Sequential MonitorSawReturn
CHECK_DEADLOCK FALSE
