--------------------------- MODULE DataArrayTrace ---------------------------
(* Trace validation for C10, data arrays: call sequences recorded by          *)
(* harness/c10_da_replay from the real cmb_dataset / cmb_timeseries /          *)
(* cmb_datasummary / cmb_wtdsummary.  After every call the harness logs, for   *)
(* each array object, count, cursize and per backing array 0 (NULL) or         *)
(* malloc_usable_size / sizeof(double).  usable >= requested, so               *)
(* usable < cursize means: an access below cursize, which the code considers   *)
(* its own, can land outside the block.                                        *)
(*                                                                             *)
(* REJECT rules (the predicates are those of DataArrayOps.tla, the invariant   *)
(* CapOK of the design model DataArray.tla, evaluated on the observed state):  *)
(*   array-allocated-smaller-than-believed-capacity                            *)
(*   array-missing-under-believed-capacity                                     *)
(*   count-exceeds-believed-capacity                                           *)
(*   call-killed-the-program        (crash record: fatal signal or abort       *)
(*                                   inside a library call of a valid program) *)
(*   harness-...                    (the harness broke a precondition)         *)
(* DRIFT prints (not verdicts): the observed state after a call is not the one *)
(* the design model computes from the observed state before it (count,         *)
(* cursize, which arrays exist, summary counts).  The property does not speak  *)
(* about counts or the growth policy; a drift says that the model checked by   *)
(* TLC is not a model of this code any more.                                   *)
EXTENDS Integers, Sequences, FiniteSets, TLC, Json, IOUtils

Tr == ndJsonDeserialize(IOEnv.TRACE)
CapT == IF Len(Tr) > 0 /\ Tr[1].op = "init" THEN Tr[1].cap0 ELSE 1024
Ops == INSTANCE DataArrayOps WITH Cap0 <- CapT, TsCopyByCursize <- TRUE

VARIABLES l,      \* next line
          prev,   \* the record before (observed state the next call starts from)
          dr      \* a drift has been printed for this history
vars == <<l, prev, dr>>
Init == l = 1 /\ prev = [op |-> "none"] /\ dr = FALSE

ArrayOps == {"add", "addn", "finalize", "copy", "merge", "reset", "term", "reinit", "sort", "sort_x", "sort_t",
             "median", "median_w", "fivenum", "fivenum_w", "hist", "hist_w", "print", "print_ts",
             "acf", "pacf", "correlogram", "correlogram_acf", "correlogram_pacf", "summarize", "summarize_w"}
SumOps == {"dsum_add", "dsum_merge", "dsum_reset", "dsum_print", "wsum_add", "wsum_merge", "wsum_reset", "wsum_print"}
Stateful == ArrayOps \cup SumOps \cup {"init", "missing_merge"}
N(e) == Len(e.st)

(* ---- what the property demands of the observed state ---- *)
BadObj(e, rule(_)) == {i \in 1 .. N(e) : e.st[i].live /\ rule(e.st[i])}
Small(o) == Ops!SmallArrays(o) # {}
Missing(o) == Ops!MissingArrays(o) # {}
Over(o) == ~Ops!CountOK(o)
First(S) == CHOOSE i \in S : \A j \in S : i <= j

(* ---- did the harness stay inside the preconditions (judged on the state before the call) ---- *)
HarnessBad(e) ==
  IF e.op = "init" \/ e.op \notin ArrayOps \/ prev.op = "none" THEN ""
  ELSE LET p == prev.st IN
    IF e.cap0 # CapT THEN "harness-initial-capacity-changed-within-a-trace"
    ELSE IF e.o < 1 \/ e.o > Len(p) THEN "harness-no-such-object"
    ELSE IF e.op = "reinit" THEN (IF p[e.o].live THEN "harness-initialize-of-a-live-object" ELSE "")
    ELSE IF ~p[e.o].live THEN "harness-call-on-uninitialized-object"
    ELSE IF e.op = "copy" /\ (e.s1 = e.o \/ ~p[e.s1].live \/ p[e.s1].kind # p[e.o].kind) THEN "harness-invalid-copy"
    ELSE IF e.op = "merge" /\ (~p[e.s1].live \/ ~p[e.s2].live) THEN "harness-invalid-merge"
    ELSE IF e.op \in {"median_w", "fivenum_w", "summarize_w", "finalize"} /\ p[e.o].count < 1 THEN "harness-weighted-call-on-empty-series"
    ELSE IF e.op \in {"acf", "correlogram", "correlogram_acf"} /\ ~(e.k > 0 /\ e.k < p[e.o].count) THEN "harness-lag-out-of-range"
    ELSE IF e.op \in {"pacf", "correlogram_pacf"} /\ ~(e.k > 0 /\ e.k < p[e.o].count - 1) THEN "harness-lag-out-of-range"
    ELSE IF e.op \in {"hist", "hist_w"} /\ e.k < 1 THEN "harness-histogram-without-bins"
    ELSE ""

Verdict(e) ==
  IF e.op = "crash" THEN "call-killed-the-program"
  ELSE IF e.op \notin Stateful THEN ""
  ELSE IF HarnessBad(e) # "" THEN HarnessBad(e)
  ELSE IF BadObj(e, Small) # {} THEN "array-allocated-smaller-than-believed-capacity"
  ELSE IF BadObj(e, Missing) # {} THEN "array-missing-under-believed-capacity"
  ELSE IF BadObj(e, Over) # {} THEN "count-exceeds-believed-capacity"
  ELSE ""
Culprit(e) ==
  IF e.op = "crash" \/ e.op \notin Stateful \/ HarnessBad(e) # "" THEN <<>>
  ELSE LET S == BadObj(e, Small) \cup BadObj(e, Missing) \cup BadObj(e, Over) IN
       IF S = {} THEN <<>> ELSE <<First(S), e.st[First(S)]>>

(* ---- the design model's prediction from the state before the call ---- *)
Step(p, e) ==
  LET o == p[e.o] IN
  CASE e.op = "add"      -> [p EXCEPT ![e.o] = Ops!Add(o).o]
    [] e.op = "addn"     -> [p EXCEPT ![e.o] = Ops!AddN(o, e.k)]
    [] e.op = "finalize" -> [p EXCEPT ![e.o] = Ops!TsFinalize(o).o]
    [] e.op = "copy"     -> [p EXCEPT ![e.o] = Ops!Copy(o, p[e.s1]).o]
    [] e.op = "merge"    -> [p EXCEPT ![e.o] = Ops!Merge(o, p[e.s1], p[e.s2]).o]
    [] e.op = "reset"    -> [p EXCEPT ![e.o] = Ops!Reset(o).o]
    [] e.op = "term"     -> [p EXCEPT ![e.o] = Ops!Terminate(o).o]
    [] e.op = "reinit"   -> [p EXCEPT ![e.o] = Ops!Initialize(o).o]
    [] OTHER -> p
(* compared: initialized or not, count, cursize, which arrays exist (a terminated object: only NULL-ness) *)
Same(a, b) == /\ a.live = b.live /\ (a.xa = 0) = (b.xa = 0) /\ (a.ta = 0) = (b.ta = 0) /\ (a.wa = 0) = (b.wa = 0)
              /\ (a.live => a.count = b.count /\ a.cursize = b.cursize)
ArrayDrift(e) ==
  IF e.op \notin ArrayOps \cup SumOps \/ prev.op = "none" THEN {}
  ELSE LET q == IF e.op \in ArrayOps THEN Step(prev.st, e) ELSE prev.st IN
       {<<"object", i, "model", q[i], "code", e.st[i]>> : i \in {j \in 1 .. N(e) : ~Same(q[j], e.st[j])}}
SumDrift(e) ==
  IF e.op \notin ArrayOps \cup SumOps \/ prev.op = "none" THEN {}
  ELSE LET d == prev.dc  w == prev.wc
           dq == CASE e.op = "dsum_add" -> [d EXCEPT ![e.s1] = @ + e.k]
                   [] e.op = "dsum_merge" -> [d EXCEPT ![e.o] = d[e.s1] + d[e.s2]]
                   [] e.op = "dsum_reset" -> [d EXCEPT ![e.s1] = 0]
                   [] e.op = "summarize" -> [d EXCEPT ![e.s1] = prev.st[e.o].count]
                   [] OTHER -> d
           (* zero-weight samples are not counted: a range *)
           wlo == CASE e.op = "wsum_add" -> w
                    [] e.op = "wsum_merge" -> [w EXCEPT ![e.o] = w[e.s1] + w[e.s2]]
                    [] e.op = "wsum_reset" -> [w EXCEPT ![e.s1] = 0]
                    [] e.op = "summarize_w" -> [w EXCEPT ![e.s1] = 0]
                    [] OTHER -> w
           whi == CASE e.op = "wsum_add" -> [w EXCEPT ![e.s1] = @ + e.k]
                    [] e.op = "summarize_w" -> [w EXCEPT ![e.s1] = prev.st[e.o].count - 1]
                    [] OTHER -> wlo
       IN {<<"data summary", i, "model", dq[i], "code", e.dc[i]>> : i \in {j \in 1 .. Len(d) : dq[j] # e.dc[j]}}
          \cup {<<"weighted summary", i, "model", wlo[i], whi[i], "code", e.wc[i]>> : i \in {j \in 1 .. Len(w) : e.wc[j] < wlo[j] \/ e.wc[j] > whi[j]}}

InitIdx == {x \in 1 .. Len(Tr) : Tr[x].op = "init"}
Resync(x) == LET later == {y \in InitIdx : y > x} IN
             IF later = {} THEN Len(Tr) + 1 ELSE CHOOSE y \in later : \A z \in later : y <= z

Next ==
  /\ l <= Len(Tr)
  /\ LET e == Tr[l]  bad == Verdict(e) IN
     IF bad # "" THEN /\ PrintT(<<"REJECT", l, bad, IF e.op = "crash" THEN e ELSE [h |-> e.h, op |-> e.op], Culprit(e)>>)
                      /\ l' = Resync(l) /\ prev' = [op |-> "none"] /\ dr' = FALSE
     ELSE LET D == IF e.op = "init" \/ dr THEN {} ELSE ArrayDrift(e) \cup SumDrift(e) IN
          /\ (D # {} => PrintT(<<"DRIFT", l, [h |-> e.h, op |-> e.op], CHOOSE x \in D : TRUE>>))
          /\ l' = l + 1
          /\ prev' = IF e.op \in Stateful THEN e ELSE IF e.op = "end" THEN [op |-> "none"] ELSE prev
          /\ dr' = IF e.op = "init" THEN FALSE ELSE (dr \/ D # {})
  /\ (l' = Len(Tr) + 1) => PrintT(<<"CONSUMED", Len(Tr)>>)
Spec == Init /\ [][Next]_vars
=============================================================================
