SPECIFICATION Spec
CONSTANTS
  W = 2
  N = 3
  Bodies <- c_Bodies
  FlipW = 2
  AtomicFetch = TRUE
  JoinsAll = TRUE
  StrictBound = TRUE
  SeedClearsFlipCache = TRUE
  ThreadLocalState = TRUE
INVARIANTS TypeOK NoViolation NoDrift ExactlyOnce AllFinished OwnElement NoTwoOnOneElement Sequential MonitorSawReturn
PROPERTIES Terminates
CHECK_DEADLOCK FALSE
