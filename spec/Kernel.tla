------------------------------- MODULE Kernel -------------------------------
(* Model of the cimba process kernel at the grain of the code: an event      *)
(* queue ordered by (time up, priority down, handle up); processes that run  *)
(* atomically from the moment they are resumed until they block or end;      *)
(* hold / timers / wait-for-process / interrupt / stop / exit / restart /    *)
(* priority changes / resources with guards, grants and preemption / pools.  *)
(*                                                                           *)
(* The model is written in a functional style: the kernel state is ONE       *)
(* record k, every library routine is an operator from a pair                *)
(* S = [k |-> state, ev |-> events emitted so far] to such a pair, so that   *)
(* routines compose the way the C functions call each other                  *)
(* (release -> guard signal -> schedule wakeup, stop -> cancel awaiteds ->   *)
(* guard remove / pass the grant on, ...).  The emitted events are exactly   *)
(* the vocabulary harness/kernel_replay.c records from the real library, so  *)
(* the monitors of KMon.tla are folded over them unchanged.                  *)
(*                                                                           *)
(* Programs are not fixed: every time a process needs its next instruction,  *)
(* any instruction of the configured alphabet may be chosen (bounded by      *)
(* MaxLen instructions per process).  TLC therefore explores all programs    *)
(* over the alphabet and all same-instant tie resolutions the code leaves    *)
(* open (order of a batch of waiter wake-ups, equal (priority, since) in a   *)
(* waiting list).  The ghost variable script records the chosen program for  *)
(* export to the replay harness.                                             *)
EXTENDS Integers, Sequences, FiniteSets, TLC, KMon

CONSTANTS NP,        \* number of processes
          Prio0,     \* initial priority of each process (sequence of length NP)
          Auto,      \* which processes are started at time 0 (sequence of 0/1)
          NRes,      \* number of resources (1..2)
          PoolCap,   \* pool capacity
          BufCap, OqCap, PqCap,   \* capacities of the buffer, the object queue and the priority queue
          UEvs,      \* pre-scheduled user events: sequence of <<time, priority, instruction>> (run in dispatcher context)
          Alphabet,  \* set of instructions <<op, a1, a2, a3>> a process may execute
          Roles,     \* <<>>: every process draws from the whole alphabet; else Roles[p] = the operation names process p may use
          MaxLen,    \* instructions per process
          MaxTime    \* state constraint on the clock

VARIABLES k,       \* the kernel state (record)
          mon,     \* monitor state (KMon)
          viol,    \* rules broken so far (set of <<prop, rule>>)
          script   \* ghost: the instructions each process has executed
vars == <<k, mon, viol, script>>

PIDs == 1..NP
NoInstr == <<"none", 0, 0, 0>>
NoCallK == [op |-> "none", a |-> <<0, 0, 0>>, h |-> 0, rem |-> 0, held0 |-> 0]

Header == [np |-> NP, nres |-> NRes, poolcap |-> PoolCap, bufcap |-> BufCap, oqcap |-> OqCap, pqcap |-> PqCap, prio |-> Prio0]
NUEv == Len(UEvs)
RecObjs == (1..NRes) \cup {GPOOL, GBUFF, GOQF, GPQF}

K0 ==
  [ now    |-> 0,
    evq    |-> {},                 \* [h, t, pr, kind, p, arg]
    nextH  |-> 1,
    run    |-> 0,                  \* 0 = dispatcher, else the pid that has the CPU
    st     |-> [p \in PIDs |-> "created"],
    prio   |-> [p \in PIDs |-> Prio0[p]],
    pc     |-> [p \in PIDs |-> 0],
    call   |-> [p \in PIDs |-> NoCallK],
    sigin  |-> [p \in PIDs |-> 0],
    awaits |-> [p \in PIDs |-> {}],   \* [ty |-> "time", x |-> h] | [ty |-> "res", x |-> g] | [ty |-> "proc", x |-> q]
    pwait  |-> [p \in PIDs |-> <<>>], \* processes waiting for p to end, in registration order
    uevh   |-> [i \in 1..NUEv |-> 0],  \* handles of the user events
    ewait  |-> [i \in 1..NUEv |-> <<>>], \* processes waiting for user event i
    xv     |-> [p \in PIDs |-> 0],
    tim    |-> [p \in PIDs |-> <<>>], \* timer handles in issue order
    gq     |-> [g \in Guards |-> {}], \* waiting lists: [p, pr, since]
    holder |-> [r \in 1..2 |-> 0],
    pheld  |-> [p \in PIDs |-> 0],
    hl     |-> [p \in PIDs |-> <<>>], \* what p holds (resource r, GPOOL), most recently acquired first: the order in which an ending process drops it
    pinuse |-> 0,
    level  |-> 0,                      \* buffer
    oq     |-> <<>>,                   \* object queue content
    pqs    |-> {},                     \* priority queue content [h, obj, pr]
    pqall  |-> <<>>,                   \* all priority queue handles issued, in order
    flag   |-> <<0, 0>>,               \* data the condition predicates read
    csub   |-> [g \in Guards |-> 0],  \* how many times the condition is registered as observer of guard g
    rec    |-> [o \in Guards |-> FALSE],
    rect0  |-> [o \in Guards |-> 0],
    hist   |-> [o \in Guards |-> <<>>] ]

S0(kk) == [k |-> kk, ev |-> <<>>]
Emit(S, e) == [S EXCEPT !.ev = Append(@, e)]
SetK(S, kk) == [S EXCEPT !.k = kk]

(* ---------------------------------------------------------------------- *)
(* event queue                                                             *)
(* ---------------------------------------------------------------------- *)
EvBefore(a, b) == \/ a.t < b.t
                  \/ a.t = b.t /\ a.pr > b.pr
                  \/ a.t = b.t /\ a.pr = b.pr /\ a.h < b.h
NextEvents(kk) == {e \in kk.evq : \A f \in kk.evq : ~EvBefore(f, e)}

Sched(S, kind, t, pr, p, arg) ==
  SetK(S, [S.k EXCEPT !.evq = @ \cup {[h |-> S.k.nextH, t |-> t, pr |-> pr, kind |-> kind, p |-> p, arg |-> arg]},
                      !.nextH = @ + 1])
CancelEv(S, h) == SetK(S, [S.k EXCEPT !.evq = {e \in @ : e.h # h}])
CancelEvsOf(S, p) == SetK(S, [S.k EXCEPT !.evq = {e \in @ : e.p # p}])
CancelKindOf(S, kind, p) == SetK(S, [S.k EXCEPT !.evq = {e \in @ : ~(e.p = p /\ e.kind = kind)}])
Pending(kk, h) == \E e \in kk.evq : e.h = h

(* ---------------------------------------------------------------------- *)
(* snapshots (what the harness reads through the public queries)          *)
(* ---------------------------------------------------------------------- *)
StCode(s) == IF s = "created" THEN 0 ELSE IF s = "alive" THEN 1 ELSE 2
SetToSeq(T) == LET RECURSIVE F(_)
                   F(U) == IF U = {} THEN <<>> ELSE LET x == CHOOSE y \in U : \A z \in U : y <= z IN <<x>> \o F(U \ {x})
               IN F(T)
SnapOf(kk) ==
  [ e |-> "Snap", t |-> kk.now,
    st |-> [p \in PIDs |-> StCode(kk.st[p])],
    prio |-> kk.prio,
    xv |-> [p \in PIDs |-> IF kk.st[p] = "done" THEN kk.xv[p] ELSE 0],
    pend |-> [p \in PIDs |-> Cardinality({e \in kk.evq : e.p = p})],
    naw |-> [p \in PIDs |-> Cardinality(kk.awaits[p])],
    nhold |-> [p \in PIDs |-> Cardinality({r \in 1..NRes : kk.holder[r] = p}) + (IF kk.pheld[p] > 0 THEN 1 ELSE 0)],
    res |-> [r \in 1..NRes |-> [inuse |-> IF kk.holder[r] = 0 THEN 0 ELSE 1, avail |-> IF kk.holder[r] = 0 THEN 1 ELSE 0, holder |-> kk.holder[r]]],
    pool |-> [inuse |-> kk.pinuse, avail |-> PoolCap - kk.pinuse, held |-> kk.pheld],
    buf |-> [level |-> kk.level, space |-> BufCap - kk.level, exact |-> TRUE],
    amnt |-> [p \in PIDs |-> IF kk.call[p].op = "bput" THEN kk.call[p].rem
                              ELSE IF kk.call[p].op = "bget" THEN kk.call[p].a[1] - kk.call[p].rem ELSE 0],
    oq |-> [len |-> Len(kk.oq), space |-> OqCap - Len(kk.oq),
            pos |-> [o \in 1..15 |-> IF \E i \in 1..Len(kk.oq) : kk.oq[i] = o
                                       THEN CHOOSE i \in 1..Len(kk.oq) : kk.oq[i] = o /\ \A j \in 1..(i - 1) : kk.oq[j] # o ELSE 0]],
    pq |-> [len |-> Cardinality(kk.pqs), space |-> PqCap - Cardinality(kk.pqs),
            pos |-> [i \in 1..Len(kk.pqall) |->
                       LET h == kk.pqall[i] IN
                       <<h, IF \E x \in kk.pqs : x.h = h
                              THEN LET x == CHOOSE y \in kk.pqs : y.h = h IN
                                   1 + Cardinality({y \in kk.pqs : y.pr > x.pr \/ (y.pr = x.pr /\ y.h < x.h)})
                              ELSE 0>>]],
    gq |-> [g \in Guards |-> SetToSeq({x.p : x \in kk.gq[g]})] ]
Snap(S) == Emit(S, SnapOf(S.k))

(* ---------------------------------------------------------------------- *)
(* resource guards                                                         *)
(* ---------------------------------------------------------------------- *)
(* the recorded histories: a sample (value, time) whenever the code records one *)
ObjVal(kk, o) == CASE o \in 1..2 -> IF kk.holder[o] = 0 THEN 0 ELSE 1
                   [] o = GPOOL -> kk.pinuse
                   [] o = GBUFF -> kk.level
                   [] o = GOQF -> Len(kk.oq)
                   [] o = GPQF -> Cardinality(kk.pqs)
                   [] OTHER -> 0
Rec(S, o) == IF S.k.rec[o] THEN SetK(S, [S.k EXCEPT !.hist[o] = Append(@, <<ObjVal(S.k, o), S.k.now>>)]) ELSE S

PredVal(kk, pred) == CASE pred = 0 -> kk.flag[1] # 0
                       [] pred = 1 -> kk.flag[2] # 0
                       [] pred = 2 -> kk.holder[1] = 0
                       [] OTHER -> kk.level >= 2

Demand(kk, g) == CASE g \in 1..2 -> kk.holder[g] = 0
                   [] g = GPOOL -> kk.pinuse < PoolCap
                   [] g = GBUFF -> kk.level > 0
                   [] g = GBUFR -> kk.level < BufCap
                   [] g = GOQF -> Len(kk.oq) > 0
                   [] g = GOQR -> Len(kk.oq) < OqCap
                   [] g = GPQF -> Cardinality(kk.pqs) > 0
                   [] g = GPQR -> Cardinality(kk.pqs) < PqCap
                   [] OTHER -> FALSE

(* cmb_resourceguard_signal: grant the first waiter if its demand holds.  Ties on (priority, since) are  *)
(* resolved by process address in the code; the model leaves them open through the parameter pick.      *)
FirstWaiters(kk, g) == {x \in kk.gq[g] : IsBest(kk.gq[g], x)}
GuardSignalPick(S, g, x) ==
  IF g = GCOND /\ S.k.gq[g] # {}
    THEN \* plain guard signal on the condition's own list: the first waiter's predicate decides
         LET S0c == Emit(S, [e |-> "Pred", p |-> x.p, pred |-> x.pred, v |-> PredVal(S.k, x.pred)]) IN
         IF ~PredVal(S.k, x.pred) THEN S0c
         ELSE Sched(Emit(SetK(S0c, [S0c.k EXCEPT !.gq[g] = @ \ {x}]), [e |-> "GuardGrant", g |-> g, p |-> x.p, all |-> 0, t |-> S.k.now]),
                    "resource", S.k.now, S.k.prio[x.p], x.p, SUCCESS)
  ELSE IF S.k.gq[g] = {} \/ ~Demand(S.k, g) THEN S
  ELSE LET S1 == SetK(S, [S.k EXCEPT !.gq[g] = @ \ {x}])
           S2 == Emit(S1, [e |-> "GuardGrant", g |-> g, p |-> x.p, all |-> 0, t |-> S.k.now])
       IN Sched(S2, "resource", S.k.now, S.k.prio[x.p], x.p, SUCCESS)
(* deterministic representative: lowest pid among the tied first waiters (the tie is explored via pids' roles) *)
(* the harness logs the truth of the predicate of every process that is inside a condition wait *)
RECURSIVE TruthsOf(_, _, _)
TruthsOf(S, ps, released) ==
  IF ps = {} THEN S
  ELSE LET p == CHOOSE x \in ps : \A y \in ps : x <= y
           pred == S.k.call[p].a[1]
           v == PredVal(S.k, pred) \/ (pred = 2 /\ released = 1)
       IN TruthsOf(Emit(S, [e |-> "Truth", p |-> p, pred |-> pred, v |-> v]), ps \ {p}, released)
Truths(S, released) == TruthsOf(S, {p \in PIDs : S.k.call[p].op = "cwait"}, released)

(* cmb_condition_signal: evaluate every waiter (the code walks the heap array, whose order is not specified: the  *)
(* model evaluates in pid order and the conformance check compares a run of evaluations as a set), then resume   *)
(* those whose predicate holds, in queue order: priority, then waiting time, then process address               *)
RECURSIVE CondPreds(_, _)
CondPreds(S, ws) ==
  IF ws = {} THEN S
  ELSE LET x == CHOOSE y \in ws : \A z \in ws : y.p <= z.p
       IN CondPreds(Emit(S, [e |-> "Pred", p |-> x.p, pred |-> x.pred, v |-> PredVal(S.k, x.pred)]), ws \ {x})
RECURSIVE CondGrants(_, _)
CondGrants(S, ws) ==
  IF ws = {} THEN S
  ELSE LET F == {x \in ws : IsBest(ws, x)}
           x == CHOOSE y \in F : \A z \in F : y.p <= z.p
           S2 == Sched(Emit(SetK(S, [S.k EXCEPT !.gq[GCOND] = @ \ {x}]),
                            [e |-> "GuardGrant", g |-> GCOND, p |-> x.p, all |-> 1, t |-> S.k.now]),
                       "condition", S.k.now, S.k.prio[x.p], x.p, SUCCESS)
       IN CondGrants(S2, ws \ {x})
CondSignal(S) == LET ws == S.k.gq[GCOND] IN CondGrants(CondPreds(S, ws), {x \in ws : PredVal(S.k, x.pred)})

GuardSignal(S, g) ==
  LET S1 == IF S.k.gq[g] = {} THEN S
            ELSE LET F == FirstWaiters(S.k, g)
                     x == CHOOSE y \in F : \A z \in F : y.p <= z.p
                 IN GuardSignalPick(S, g, x)
      RECURSIVE Fwd(_, _)
      Fwd(T, n) == IF n = 0 THEN T ELSE Fwd(CondSignal(T), n - 1)
  IN IF g # GCOND THEN Fwd(S1, S.k.csub[g]) ELSE S1   \* forwarded to the observing condition, once per registration

(* ---------------------------------------------------------------------- *)
(* process clean-up routines                                               *)
(* ---------------------------------------------------------------------- *)
(* cmi_process_cancel_awaiteds *)
RECURSIVE CancelAw(_, _, _)
CancelAw(S, q, aws) ==
  IF aws = {} THEN S
  ELSE LET a == CHOOSE x \in aws : TRUE
           S1 == CASE a.ty = "time" -> CancelEv(S, a.x)
                   [] a.ty = "res" ->
                        IF \E y \in S.k.gq[a.x] : y.p = q
                          THEN Emit(SetK(S, [S.k EXCEPT !.gq[a.x] = {y \in @ : y.p # q}]),
                                    [e |-> "GuardRemove", g |-> a.x, p |-> q, t |-> S.k.now])
                          ELSE GuardSignal(S, a.x)          \* it had been granted: pass the turn on
                   [] a.ty = "proc" -> SetK(S, [S.k EXCEPT !.pwait[a.x] = SelectSeq(@, LAMBDA w : w # q)])
                   [] a.ty = "event" -> SetK(S, [S.k EXCEPT !.ewait[a.x] = SelectSeq(@, LAMBDA w : w # q)])
                   [] OTHER -> S
       IN CancelAw(S1, q, aws \ {a})
CancelAwaiteds(S, q) ==
  LET S1 == CancelAw(S, q, S.k.awaits[q])
      S2 == SetK(S1, [S1.k EXCEPT !.awaits[q] = {}])
  IN CancelEvsOf(S2, q)

(* cmi_process_drop_resources: the process's list of holdings is pushed at the front, so the last thing acquired goes first *)
NormH(kk) ==
  [kk EXCEPT !.hl = [p \in PIDs |->
     LET held == {r \in 1..NRes : kk.holder[r] = p} \cup (IF kk.pheld[p] > 0 THEN {GPOOL} ELSE {})
         kept == SelectSeq(kk.hl[p], LAMBDA x : x \in held)
         new == held \ {kept[i] : i \in 1..Len(kept)}
     IN SetToSeq(new) \o kept]]
RECURSIVE DropRes(_, _, _)
DropRes(S, q, rs) ==
  IF rs = <<>> THEN S
  ELSE LET r == Head(rs) IN
       IF r = GPOOL
         THEN DropRes(GuardSignal(Rec(SetK(S, [S.k EXCEPT !.pinuse = @ - S.k.pheld[q], !.pheld[q] = 0]), GPOOL), GPOOL), q, Tail(rs))
         ELSE DropRes(GuardSignal(Rec(SetK(S, [S.k EXCEPT !.holder[r] = 0]), r), r), q, Tail(rs))
DropResources(S, q) == DropRes(S, q, NormH(S.k).hl[q])

(* wake_process_waiters: one wakeup event per waiter, in some order (lowest pid first as representative) *)
RECURSIVE WakeWaiters(_, _, _, _)
WakeWaiters(S, ws, kind, sig) ==      \* the waiter lists are LIFO: the last one registered is woken first
  IF ws = <<>> THEN S
  ELSE LET w == ws[Len(ws)] IN
       WakeWaiters(Sched(S, kind, S.k.now, S.k.prio[w], w, sig), SubSeq(ws, 1, Len(ws) - 1), kind, sig)

(* the three routes to the end of process q; order of the clean-up steps as in the code *)
EndByExit(S, q, val) ==       \* cmb_process_exit (also reached by returning from the process function)
  LET S1 == DropResources(S, q)
      S2 == CancelAwaiteds(S1, q)
      S3 == WakeWaiters(S2, S2.k.pwait[q], "process", SUCCESS)
  IN SetK(S3, [S3.k EXCEPT !.pwait[q] = <<>>, !.st[q] = "done", !.xv[q] = val, !.call[q] = NoCallK])
EndByStop(S, q, val) ==       \* cmb_process_stop, on another process or on the caller itself
  LET S0a == SetK(S, [S.k EXCEPT !.st[q] = "done", !.xv[q] = val, !.call[q] = NoCallK])
      S1 == CancelAwaiteds(S0a, q)
      S2 == DropResources(S1, q)
      S3 == WakeWaiters(S2, S2.k.pwait[q], "process", STOPPED)
  IN SetK(S3, [S3.k EXCEPT !.pwait[q] = <<>>])

(* the process has blocked or ended: the dispatcher takes over *)
ToDispatcher(S) == Snap(Emit(SetK(S, [S.k EXCEPT !.run = 0]), [e |-> "Disp", t |-> S.k.now]))

(* ---------------------------------------------------------------------- *)
(* blocking calls: first phase, and continuation when resumed with sig    *)
(* ---------------------------------------------------------------------- *)
CallEv(p, in, t) == [e |-> "Call", p |-> p, op |-> in[1], a |-> <<in[2], in[3], in[4]>>, t |-> t]
RetEv(p, c, sig, o1, t) == [e |-> "Ret", p |-> p, op |-> c.op, a |-> c.a, sig |-> sig, out |-> <<o1, 0>>, t |-> t]
DoEv(p, in, o1, o2, t) == [e |-> "Do", p |-> p, op |-> in[1], a |-> <<in[2], in[3], in[4]>>, out |-> <<o1, o2>>, t |-> t]
Finish(S, p, sig, o1) ==      \* the call returns to the script
  Snap(Emit(SetK(S, [S.k EXCEPT !.call[p] = NoCallK]), RetEv(p, S.k.call[p], sig, o1, S.k.now)))

(* cmb_resourceguard_wait up to the yield *)
GuardWait(S, p, g) ==
  LET S1 == SetK(S, [S.k EXCEPT !.gq[g] = @ \cup {[p |-> p, pr |-> S.k.prio[p], since |-> S.k.now,
                                                     pred |-> IF g = GCOND THEN S.k.call[p].a[1] ELSE 0]},
                                !.awaits[p] = @ \cup {[ty |-> "res", x |-> g]}])
  IN ToDispatcher(Emit(S1, [e |-> "GuardEnq", g |-> g, p |-> p, pr |-> S.k.prio[p], t |-> S.k.now]))
(* cmb_resourceguard_wait after the yield *)
GuardBack(S, p, g, sig) ==
  LET S1 == Emit(S, [e |-> "GuardLeave", g |-> g, p |-> p, sig |-> sig, t |-> S.k.now])
      registered == [ty |-> "res", x |-> g] \in S.k.awaits[p]
      S2 == SetK(S1, [S1.k EXCEPT !.awaits[p] = @ \ {[ty |-> "res", x |-> g]}])
  IN IF sig # SUCCESS /\ registered
       THEN IF \E y \in S2.k.gq[g] : y.p = p
              THEN SetK(S2, [S2.k EXCEPT !.gq[g] = {y \in @ : y.p # p}])
              ELSE GuardSignal(CancelKindOf(S2, "resource", p), g)   \* granted but leaving: revoke and pass on
       ELSE S2

Grab(S, p, r) == Rec(SetK(S, [S.k EXCEPT !.holder[r] = p]), r)

(* cmb_resource_acquire from the top of its loop *)
AcquireLoop(S, p, r) ==
  IF S.k.holder[r] = 0 THEN Finish(Grab(S, p, r), p, SUCCESS, 0)
  ELSE GuardWait(S, p, r)

(* cmi_pool_acquire_inner from the top of its loop; c.rem = remaining claim *)
RECURSIVE PreemptLoop(_, _)
PreemptLoop(S, p) ==
  LET c == S.k.call[p]
      victims == {v \in PIDs : S.k.pheld[v] > 0 /\ v # p /\ S.k.prio[v] < S.k.prio[p]}
  IN IF victims = {} \/ c.rem = 0 THEN S
     ELSE LET v == CHOOSE x \in victims : \A y \in victims : S.k.prio[x] < S.k.prio[y] \/ (S.k.prio[x] = S.k.prio[y] /\ x >= y)
              loot == S.k.pheld[v]
              S1 == Sched(CancelAwaiteds(SetK(S, [S.k EXCEPT !.pheld[v] = 0]), v), "interrupt", S.k.now, S.k.prio[v], v, PREEMPTED)
          IN IF loot < c.rem
               THEN PreemptLoop(SetK(S1, [S1.k EXCEPT !.pheld[p] = @ + loot, !.call[p].rem = c.rem - loot]), p)
               ELSE Rec(SetK(S1, [S1.k EXCEPT !.pheld[p] = @ + c.rem, !.pinuse = @ - (loot - c.rem), !.call[p].rem = 0]), GPOOL)
PoolLoop(S, p) ==
  LET c == S.k.call[p]
      avail == PoolCap - S.k.pinuse
  IN IF avail >= c.rem
       THEN LET S1 == Rec(SetK(S, [S.k EXCEPT !.pinuse = @ + c.rem, !.pheld[p] = @ + c.rem, !.call[p].rem = 0]), GPOOL)
                S2 == GuardSignal(S1, GPOOL)
            IN Finish(S2, p, SUCCESS, S2.k.pheld[p])
       ELSE LET S1 == IF avail > 0 THEN Rec(SetK(S, [S.k EXCEPT !.pinuse = @ + avail, !.pheld[p] = @ + avail, !.call[p].rem = c.rem - avail]), GPOOL) ELSE S
                S2 == IF c.op = "ppre" THEN PreemptLoop(S1, p) ELSE S1
            IN IF S2.k.call[p].rem = 0
                 THEN LET S3 == GuardSignal(S2, GPOOL) IN Finish(S3, p, SUCCESS, S3.k.pheld[p])
                 ELSE GuardWait(S2, p, GPOOL)

(* cmb_buffer_get / cmb_buffer_put from the top of their loops; c.rem = remaining claim *)
BufGetLoop(S, p) ==
  LET c == S.k.call[p] IN
  IF S.k.level >= c.rem
    THEN LET S1 == Rec(SetK(S, [S.k EXCEPT !.level = @ - c.rem, !.call[p].rem = 0]), GBUFF)
             S2 == GuardSignal(S1, GBUFR)
             S3 == IF S2.k.level > 0 THEN GuardSignal(S2, GBUFF) ELSE S2
         IN Finish(S3, p, SUCCESS, c.a[1])
    ELSE LET S1 == IF S.k.level > 0
                     THEN GuardSignal(Rec(SetK(S, [S.k EXCEPT !.call[p].rem = c.rem - S.k.level, !.level = 0]), GBUFF), GBUFR)
                     ELSE S
         IN GuardWait(GuardSignal(S1, GBUFR), p, GBUFF)
BufPutLoop(S, p) ==
  LET c == S.k.call[p] IN
  IF BufCap - S.k.level >= c.rem
    THEN LET S1 == Rec(SetK(S, [S.k EXCEPT !.level = @ + c.rem, !.call[p].rem = 0]), GBUFF)
             S2 == GuardSignal(S1, GBUFF)
             S3 == IF S2.k.level < BufCap THEN GuardSignal(S2, GBUFR) ELSE S2
         IN Finish(S3, p, SUCCESS, 0)
    ELSE LET S1 == IF S.k.level < BufCap
                     THEN GuardSignal(Rec(SetK(S, [S.k EXCEPT !.call[p].rem = c.rem - (BufCap - S.k.level), !.level = BufCap]), GBUFF), GBUFF)
                     ELSE S
         IN GuardWait(GuardSignal(S1, GBUFF), p, GBUFR)

(* object queue and priority queue *)
OqPutLoop(S, p) ==
  IF Len(S.k.oq) < OqCap
    THEN Finish(GuardSignal(Rec(SetK(S, [S.k EXCEPT !.oq = Append(@, S.k.call[p].a[1])]), GOQF), GOQF), p, SUCCESS, 0)
    ELSE GuardWait(S, p, GOQR)
OqGetLoop(S, p) ==
  IF Len(S.k.oq) > 0
    THEN Finish(GuardSignal(Rec(SetK(S, [S.k EXCEPT !.oq = Tail(@)]), GOQF), GOQR), p, SUCCESS, Head(S.k.oq))
    ELSE GuardWait(S, p, GOQF)
PqPutLoop(S, p) ==
  IF Cardinality(S.k.pqs) < PqCap
    THEN LET h == Len(S.k.pqall) + 1
             S1 == SetK(S, [S.k EXCEPT !.pqs = @ \cup {[h |-> h, obj |-> S.k.call[p].a[1], pr |-> S.k.call[p].a[2]]}, !.pqall = Append(@, h)])
         IN Finish(GuardSignal(Rec(S1, GPQF), GPQF), p, SUCCESS, h)
    ELSE GuardWait(S, p, GPQR)
PqGetLoop(S, p) ==
  IF S.k.pqs # {}
    THEN LET x == CHOOSE y \in S.k.pqs : \A z \in S.k.pqs : ~(z.pr > y.pr \/ (z.pr = y.pr /\ z.h < y.h))
         IN Finish(GuardSignal(Rec(SetK(S, [S.k EXCEPT !.pqs = @ \ {x}]), GPQF), GPQR), p, SUCCESS, x.obj)
    ELSE GuardWait(S, p, GPQF)

(* a blocked call is resumed with signal sig *)
Continue(S, p, sig) ==
  LET c == S.k.call[p] IN
  CASE c.op = "hold" ->
         LET S1 == IF sig # SUCCESS
                     THEN SetK(S, [S.k EXCEPT !.evq = {e \in @ : e.h # c.h}, !.awaits[p] = @ \ {[ty |-> "time", x |-> c.h]}])
                     ELSE S
         IN Finish(S1, p, sig, 0)
    [] c.op = "wproc" ->
         LET q == c.a[1]
             S1 == IF [ty |-> "proc", x |-> q] \in S.k.awaits[p]
                     THEN CancelKindOf(SetK(S, [S.k EXCEPT !.awaits[p] = @ \ {[ty |-> "proc", x |-> q]}, !.pwait[q] = SelectSeq(@, LAMBDA w : w # p)]), "process", p)
                     ELSE S
         IN Finish(S1, p, sig, 0)
    [] c.op \in {"acq", "pre"} ->
         LET S1 == GuardBack(S, p, c.a[1], sig) IN
         IF sig = SUCCESS THEN AcquireLoop(S1, p, c.a[1]) ELSE Finish(S1, p, sig, 0)
    [] c.op \in {"pacq", "ppre"} ->
         LET S1 == GuardBack(S, p, GPOOL, sig) IN
         IF sig = SUCCESS THEN PoolLoop(S1, p)
         ELSE \* roll back to what it held before the call (nothing, if it was robbed meanwhile)
              LET keep == IF S1.k.pheld[p] >= c.held0 /\ S1.k.pheld[p] > 0 THEN c.held0 ELSE 0
                  back == S1.k.pheld[p] - keep
                  S2 == Rec(SetK(S1, [S1.k EXCEPT !.pheld[p] = keep, !.pinuse = @ - back]), GPOOL)
                  S3 == IF back > 0 THEN GuardSignal(S2, GPOOL) ELSE S2
              IN Finish(S3, p, sig, keep)
    [] c.op = "yield" -> Finish(S, p, sig, 0)
    [] c.op = "wevent" ->
         LET i == c.a[1]
             S1 == IF [ty |-> "event", x |-> i] \in S.k.awaits[p]
                     THEN CancelKindOf(SetK(S, [S.k EXCEPT !.awaits[p] = @ \ {[ty |-> "event", x |-> i]},
                                                           !.ewait[i] = SelectSeq(@, LAMBDA w : w # p)]), "event", p)
                     ELSE S
         IN Finish(S1, p, sig, 0)
    [] c.op = "bget" ->
         LET S1 == GuardBack(S, p, GBUFF, sig) IN
         IF sig = SUCCESS THEN BufGetLoop(S1, p) ELSE Finish(S1, p, sig, c.a[1] - c.rem)
    [] c.op = "bput" ->
         LET S1 == GuardBack(S, p, GBUFR, sig) IN
         IF sig = SUCCESS THEN BufPutLoop(S1, p) ELSE Finish(S1, p, sig, c.rem)
    [] c.op = "qput" -> LET S1 == GuardBack(S, p, GOQR, sig) IN IF sig = SUCCESS THEN OqPutLoop(S1, p) ELSE Finish(S1, p, sig, 0)
    [] c.op = "qget" -> LET S1 == GuardBack(S, p, GOQF, sig) IN IF sig = SUCCESS THEN OqGetLoop(S1, p) ELSE Finish(S1, p, sig, 0)
    [] c.op = "pqput" -> LET S1 == GuardBack(S, p, GPQR, sig) IN IF sig = SUCCESS THEN PqPutLoop(S1, p) ELSE Finish(S1, p, sig, 0)
    [] c.op = "pqget" -> LET S1 == GuardBack(S, p, GPQF, sig) IN IF sig = SUCCESS THEN PqGetLoop(S1, p) ELSE Finish(S1, p, sig, 0)
    [] c.op = "cwait" ->
         LET S1 == GuardBack(S, p, GCOND, sig)
             S2 == IF sig # SUCCESS THEN CancelKindOf(S1, "condition", p) ELSE S1
         IN Finish(S2, p, sig, 0)
    [] OTHER -> S

(* ---------------------------------------------------------------------- *)
(* one instruction                                                         *)
(* ---------------------------------------------------------------------- *)
Alive(kk, q) == q \in PIDs /\ kk.st[q] = "alive"

(* is the instruction legal now (documented preconditions; the harness skips it otherwise)? *)
Legal(kk, p, in) ==
  LET op == in[1]  a1 == in[2]  a2 == in[3] IN
  CASE op = "wproc" -> a1 \in PIDs /\ a1 # p
    [] op \in {"acq", "pre"} -> a1 \in 1..NRes /\ kk.holder[a1] # p
    [] op = "rel" -> a1 \in 1..NRes /\ kk.holder[a1] = p
    [] op \in {"pacq", "ppre"} -> a1 >= 1 /\ kk.pheld[p] + a1 <= PoolCap
    [] op = "prel" -> a1 >= 1 /\ kk.pheld[p] >= a1
    [] op = "intr" -> Alive(kk, a1) /\ a1 # p
    [] op = "resume" -> Alive(kk, a1) /\ a1 # p /\ kk.call[a1].op = "yield"    \* documented for a process that has yielded
    [] op = "stop" -> Alive(kk, a1)
    [] op = "prio" -> a1 \in PIDs
    [] op = "start" -> a1 \in PIDs /\ a1 # p /\ kk.st[a1] # "alive" /\ ~(\E e \in kk.evq : e.p = a1)
    [] op = "taddo" -> Alive(kk, a1) /\ a1 # p /\ in[4] # 0       \* a timer armed for another (suspended) process
    [] op = "tcancel" -> a1 \in 1..Len(kk.tim[p])
    [] op = "wevent" -> a1 \in 1..NUEv /\ Pending(kk, kk.uevh[a1])
    [] op = "evcancel" -> a1 \in 1..NUEv
    [] op = "evresched" -> a1 \in 1..NUEv /\ Pending(kk, kk.uevh[a1])
    [] op = "pqcancel" -> a1 \in 1..Len(kk.pqall)
    [] op = "pqreprio" -> a1 \in 1..Len(kk.pqall) /\ \E x \in kk.pqs : x.h = kk.pqall[a1]
    [] op \in {"ccancel", "cremove"} -> a1 \in PIDs /\ a1 # p
    [] op = "rec" -> a1 \in RecObjs
    [] OTHER -> TRUE

Exec1(S, p, in) ==
  LET kk == S.k  op == in[1]  a1 == in[2]  a2 == in[3]  a3 == in[4]  t == kk.now
      call0 == [op |-> op, a |-> <<a1, a2, a3>>, h |-> 0, rem |-> 0, held0 |-> kk.pheld[p]]
      SC == Emit(SetK(S, [kk EXCEPT !.call[p] = call0]), CallEv(p, in, t))
  IN
  CASE op = "hold" ->
         LET S1 == Sched(SC, "time", t + a1, kk.prio[p], p, SUCCESS)
             S2 == SetK(S1, [S1.k EXCEPT !.awaits[p] = @ \cup {[ty |-> "time", x |-> kk.nextH]}, !.call[p].h = kk.nextH])
         IN ToDispatcher(S2)
    [] op = "yield" -> ToDispatcher(SC)
    [] op = "wproc" ->
         IF kk.st[a1] = "done" THEN Finish(SC, p, SUCCESS, 0)
         ELSE ToDispatcher(SetK(SC, [SC.k EXCEPT !.awaits[p] = @ \cup {[ty |-> "proc", x |-> a1]}, !.pwait[a1] = Append(@, p)]))
    [] op = "acq" -> AcquireLoop(SC, p, a1)
    [] op = "pre" ->
         LET v == kk.holder[a1] IN
         IF v = 0 THEN Finish(Grab(SC, p, a1), p, SUCCESS, 0)
         ELSE IF kk.prio[p] >= kk.prio[v]
           THEN \* kicked out: the resource stays occupied, the code records no sample here
                Finish(SetK(Sched(SC, "preempt", t, kk.prio[v], v, PREEMPTED), [Sched(SC, "preempt", t, kk.prio[v], v, PREEMPTED).k EXCEPT !.holder[a1] = p]), p, SUCCESS, 0)
           ELSE AcquireLoop(SC, p, a1)
    [] op \in {"pacq", "ppre"} -> PoolLoop(SetK(SC, [SC.k EXCEPT !.call[p].rem = a1]), p)
    [] op = "bget" -> BufGetLoop(SetK(SC, [SC.k EXCEPT !.call[p].rem = a1]), p)
    [] op = "bput" -> BufPutLoop(SetK(SC, [SC.k EXCEPT !.call[p].rem = a1]), p)
    [] op = "qput" -> OqPutLoop(SC, p)
    [] op = "qget" -> OqGetLoop(SC, p)
    [] op = "pqput" -> PqPutLoop(SC, p)
    [] op = "pqget" -> PqGetLoop(SC, p)
    [] op = "cwait" -> GuardWait(SC, p, GCOND)
    [] op = "wevent" ->
         ToDispatcher(SetK(SC, [SC.k EXCEPT !.awaits[p] = @ \cup {[ty |-> "event", x |-> a1]}, !.ewait[a1] = Append(@, p)]))
    (* ---- non-blocking *)
    [] op = "tadd" ->
         LET S1 == Sched(S, "time", t + a1, kk.prio[p], p, a2)
             S2 == SetK(S1, [S1.k EXCEPT !.awaits[p] = @ \cup {[ty |-> "time", x |-> kk.nextH]}, !.tim[p] = Append(@, kk.nextH)])
         IN Snap(Emit(S2, DoEv(p, in, kk.nextH, Len(kk.tim[p]) + 1, t)))
    [] op = "taddo" ->      \* cmb_process_timer_add(other process): the timer belongs to the target and has the target's priority
         LET q == a1
             S1 == Sched(S, "time", t + a2, kk.prio[q], q, a3)
             S2 == SetK(S1, [S1.k EXCEPT !.awaits[q] = @ \cup {[ty |-> "time", x |-> kk.nextH]}, !.tim[q] = Append(@, kk.nextH)])
         IN Snap(Emit(S2, DoEv(p, in, kk.nextH, Len(kk.tim[q]) + 1, t)))
    [] op = "tcancel" ->
         LET h == kk.tim[p][a1]
             found == Pending(kk, h)
             S1 == SetK(S, [kk EXCEPT !.evq = {e \in @ : e.h # h}, !.awaits[p] = @ \ {[ty |-> "time", x |-> h]}])
         IN Snap(Emit(S1, DoEv(p, in, IF found THEN 1 ELSE 0, h, t)))
    [] op = "tclear" ->
         LET hs == {a.x : a \in {b \in kk.awaits[p] : b.ty = "time"}}
             S1 == SetK(S, [kk EXCEPT !.evq = {e \in @ : e.h \notin hs}, !.awaits[p] = {b \in @ : b.ty # "time"}])
         IN Snap(Emit(S1, DoEv(p, in, 0, 0, t)))
    [] op = "intr" -> Snap(Emit(Sched(S, "interrupt", t, a3, a1, a2), DoEv(p, in, 0, 0, t)))
    [] op = "resume" -> Snap(Emit(Sched(S, "resume", t, kk.prio[a1], a1, a2), DoEv(p, in, 0, 0, t)))   \* cmb_process_resume
    [] op = "prio" ->
         LET q == a1
             timeHs == {a.x : a \in {b \in kk.awaits[q] : b.ty = "time"}}
             S1 == SetK(S, [kk EXCEPT !.prio[q] = a2,
                                      !.evq = {IF e.h \in timeHs THEN [e EXCEPT !.pr = a2] ELSE e : e \in @},
                                      !.gq = [g \in Guards |-> {IF y.p = q THEN [y EXCEPT !.pr = a2] ELSE y : y \in @[g]}]])
         IN Snap(Emit(S1, DoEv(p, in, 0, 0, t)))
    [] op = "start" -> Snap(Emit(Sched(S, "start", t, kk.prio[a1], a1, 0), DoEv(p, in, 0, 0, t)))
    [] op = "rel" ->
         LET Sf == IF \E g \in Guards : kk.csub[g] > 0 THEN Truths(Emit(S, [e |-> "FwdBegin", p |-> p, g |-> a1, t |-> t]), a1) ELSE S
             S1 == GuardSignal(Rec(SetK(Sf, [kk EXCEPT !.holder[a1] = 0]), a1), a1)
         IN Snap(Emit(S1, DoEv(p, in, 0, 0, t)))
    [] op = "prel" ->
         LET S1 == GuardSignal(Rec(SetK(S, [kk EXCEPT !.pheld[p] = @ - a1, !.pinuse = @ - a1]), GPOOL), GPOOL) IN
         Snap(Emit(S1, DoEv(p, in, S1.k.pheld[p], 0, t)))
    [] op = "stop" ->
         LET S1 == Emit(S, [e |-> "StopCall", p |-> p, q |-> a1, val |-> a2, t |-> t])
             S2 == EndByStop(S1, a1, a2)
         IN IF a1 = p THEN ToDispatcher(S2) ELSE Snap(Emit(S2, DoEv(p, in, 0, 0, t)))
    [] op = "exit" ->
         ToDispatcher(EndByExit(Emit(S, [e |-> "ExitCall", p |-> p, val |-> a1, t |-> t]), p, a1))
    [] op = "pqcancel" ->
         LET h == kk.pqall[a1]
             found == \E x \in kk.pqs : x.h = h
             S1 == IF found THEN GuardSignal(Rec(SetK(S, [kk EXCEPT !.pqs = {x \in @ : x.h # h}]), GPQF), GPQR) ELSE S
         IN Snap(Emit(S1, DoEv(p, in, IF found THEN 1 ELSE 0, h, t)))
    [] op = "pqreprio" ->
         LET h == kk.pqall[a1] IN
         Snap(Emit(SetK(S, [kk EXCEPT !.pqs = {IF x.h = h THEN [x EXCEPT !.pr = a2] ELSE x : x \in @}]), DoEv(p, in, 0, h, t)))
    [] op = "csig" ->
         LET S1 == CondSignal(Truths(Emit(S, [e |-> "CSigBegin", p |-> p, t |-> t]), 0)) IN
         Snap(Emit(S1, DoEv(p, in, IF S1.k.gq[GCOND] # kk.gq[GCOND] THEN 1 ELSE 0, 0, t)))
    [] op = "setflag" -> Snap(Emit(SetK(S, [kk EXCEPT !.flag[a1 + 1] = a2]), DoEv(p, in, 0, 0, t)))
    [] op = "csub" -> Snap(Emit(SetK(S, [kk EXCEPT !.csub[IF a1 = 0 THEN 1 ELSE GBUFF] = @ + 1]), DoEv(p, in, 0, 0, t)))
    [] op = "cunsub" -> LET g == IF a1 = 0 THEN 1 ELSE GBUFF IN
                        Snap(Emit(SetK(S, [kk EXCEPT !.csub[g] = IF @ > 0 THEN @ - 1 ELSE 0]), DoEv(p, in, IF kk.csub[g] > 0 THEN 1 ELSE 0, 0, t)))
    [] op = "ccancel" ->
         IF \E x \in kk.gq[GCOND] : x.p = a1
           THEN LET S1 == Emit(SetK(S, [kk EXCEPT !.gq[GCOND] = {x \in @ : x.p # a1}]), [e |-> "GuardCancel", g |-> GCOND, p |-> a1, t |-> t])
                IN Snap(Emit(Sched(S1, "resource", t, kk.prio[a1], a1, CANCELLED), DoEv(p, in, 1, 0, t)))
           ELSE Snap(Emit(S, DoEv(p, in, 0, 0, t)))
    [] op = "cremove" ->
         IF \E x \in kk.gq[GCOND] : x.p = a1
           THEN Snap(Emit(Emit(SetK(S, [kk EXCEPT !.gq[GCOND] = {x \in @ : x.p # a1}]), [e |-> "GuardRemove", g |-> GCOND, p |-> a1, t |-> t]),
                          DoEv(p, in, 1, 0, t)))
           ELSE Snap(Emit(S, DoEv(p, in, 0, 0, t)))
    [] op = "evcancel" ->
         LET h == kk.uevh[a1]
             found == Pending(kk, h)
             S1 == IF found
                     THEN LET Sa == SetK(S, [kk EXCEPT !.evq = {e \in @ : e.h # h}])
                              Sb == WakeWaiters(Sa, Sa.k.ewait[a1], "event", CANCELLED)
                          IN SetK(Sb, [Sb.k EXCEPT !.ewait[a1] = <<>>])
                     ELSE S
         IN Snap(Emit(S1, DoEv(p, in, IF found THEN 1 ELSE 0, 0, t)))
    [] op = "evresched" ->      \* cmb_event_reschedule: the same event (handle, priority, waiters) at the time now + a2
         LET h == kk.uevh[a1] IN
         Snap(Emit(SetK(S, [kk EXCEPT !.evq = {IF e.h = h THEN [e EXCEPT !.t = t + a2] ELSE e : e \in @}]), DoEv(p, in, 0, 0, t)))
    [] op = "rec" ->
         IF a2 = 1
           THEN LET S1 == SetK(S, [kk EXCEPT !.rec[a1] = TRUE, !.rect0[a1] = t]) IN
                Snap(Emit(Rec(S1, a1), DoEv(p, in, 0, 0, t)))
           ELSE LET S1 == Rec(S, a1)
                    hs == S1.k.hist[a1]
                    S2 == Snap(Emit(SetK(S1, [S1.k EXCEPT !.rec[a1] = FALSE]), DoEv(p, in, 0, 0, t)))
                    tend == IF Len(hs) = 0 THEN 0 ELSE hs[Len(hs)][2]
                IN Emit(S2, [e |-> "Hist", o |-> a1, t |-> t, n |-> Len(hs), xs |-> [i \in 1..Len(hs) |-> hs[i][1]],
                             ts |-> [i \in 1..Len(hs) |-> hs[i][2]], wsum_milli |-> 1000 * Area(hs, tend),
                             dur |-> IF Len(hs) = 0 THEN 0 ELSE tend - hs[1][2]])
    [] op = "nop" -> Snap(Emit(S, DoEv(p, in, 0, 0, t)))
    [] OTHER -> S

ReturnFromBody(S, p) ==
  ToDispatcher(EndByExit(Emit(S, [e |-> "Return", p |-> p, val |-> 100 + p, t |-> S.k.now]), p, 100 + p))

(* ---------------------------------------------------------------------- *)
(* the dispatcher: cmb_event_execute_next                                  *)
(* ---------------------------------------------------------------------- *)
Deliver(S, p, sig) == SetK(S, [S.k EXCEPT !.run = p, !.sigin[p] = sig])

DispatchEv(S, e) ==
  LET S1 == Emit(SetK(S, [S.k EXCEPT !.now = e.t, !.evq = @ \ {e}]), [e |-> "Exec", h |-> e.h, t |-> e.t, pr |-> e.pr, subj |-> e.p])
      p == e.p
  IN
  CASE e.kind = "start" ->
         LET S2 == SetK(S1, [S1.k EXCEPT !.st[p] = "alive", !.pc[p] = 0, !.call[p] = NoCallK, !.run = p, !.tim[p] = <<>>, !.xv[p] = 0])
         IN Snap(Emit(S2, [e |-> "Enter", p |-> p, self_ok |-> TRUE, naw |-> Cardinality(S2.k.awaits[p]),
                           nhold |-> Cardinality({r \in 1..NRes : S2.k.holder[r] = p}) + (IF S2.k.pheld[p] > 0 THEN 1 ELSE 0), t |-> e.t]))
    [] e.kind = "time" ->
         Deliver(SetK(S1, [S1.k EXCEPT !.awaits[p] = @ \ {[ty |-> "time", x |-> e.h]}]), p, e.arg)
    [] e.kind = "process" ->
         LET S2 == SetK(S1, [S1.k EXCEPT !.awaits[p] = {a \in @ : a.ty # "proc"}]) IN
         IF S2.k.st[p] = "alive" THEN Deliver(S2, p, e.arg) ELSE ToDispatcher(S2)
    [] e.kind \in {"resource", "preempt", "resume"} ->
         IF S1.k.st[p] = "alive" THEN Deliver(S1, p, e.arg) ELSE ToDispatcher(S1)
    [] e.kind = "condition" ->
         LET ra == {a \in S1.k.awaits[p] : a.ty = "res"}
             S2 == IF ra = {} THEN S1 ELSE SetK(S1, [S1.k EXCEPT !.awaits[p] = @ \ {CHOOSE a \in ra : TRUE}])
         IN IF S2.k.st[p] = "alive" THEN Deliver(S2, p, e.arg) ELSE ToDispatcher(S2)
    [] e.kind = "event" ->
         LET S2 == SetK(S1, [S1.k EXCEPT !.awaits[p] = {a \in @ : a.ty # "event"}]) IN
         IF S2.k.st[p] = "alive" THEN Deliver(S2, p, e.arg) ELSE ToDispatcher(S2)
    [] e.kind = "uev" ->
         \* the processes waiting for this event get their wakeup calls first, then the action runs in dispatcher context
         LET i == e.arg
             S2 == WakeWaiters(S1, S1.k.ewait[i], "event", SUCCESS)
             S3 == Emit(SetK(S2, [S2.k EXCEPT !.ewait[i] = <<>>]), [e |-> "UEvent", i |-> i, t |-> e.t])
             in == UEvs[i][3]
             S4 == IF Legal(S3.k, 0, in) THEN Exec1(S3, 0, in) ELSE S3
         IN ToDispatcher(S4)
    [] e.kind = "interrupt" ->
         \* a preemption notice that this interrupt overtakes is sent again
         LET again == e.arg # PREEMPTED /\ \E f \in S1.k.evq : f.p = p /\ f.kind = "interrupt" /\ f.arg = PREEMPTED
             S2 == CancelAwaiteds(S1, p)
             S3 == IF again THEN Sched(S2, "interrupt", e.t, S2.k.prio[p], p, PREEMPTED) ELSE S2
         IN Deliver(S3, p, e.arg)
    [] OTHER -> ToDispatcher(S1)

(* ---------------------------------------------------------------------- *)
(* the transition relation                                                 *)
(* ---------------------------------------------------------------------- *)
Fold(m, evs) ==
  LET RECURSIVE F(_, _, _)
      F(mm, bad, i) == IF i > Len(evs) THEN [m |-> mm, bad |-> bad]
                       ELSE LET r == MStep(mm, evs[i]) IN F(r.m, bad \cup r.bad, i + 1)
  IN F(m, {}, 1)

Apply(S) ==
  LET r == Fold(mon, S.ev) IN
  /\ k' = NormH(S.k)
  /\ mon' = r.m
  /\ viol' = viol \cup r.bad

Init ==
  LET SU == LET RECURSIVE Ue(_, _)
                Ue(S, i) == IF i > NUEv THEN S
                            ELSE Ue(SetK(Sched(S, "uev", UEvs[i][1], UEvs[i][2], 0, i), [Sched(S, "uev", UEvs[i][1], UEvs[i][2], 0, i).k EXCEPT !.uevh[i] = S.k.nextH]), i + 1)
            IN Ue(S0(K0), 1)
      S1 == LET RECURSIVE St(_, _)
                St(S, p) == IF p > NP THEN S
                            ELSE St(IF Auto[p] = 1 THEN Sched(S, "start", 0, Prio0[p], p, 0) ELSE S, p + 1)
            IN St(SU, 1)
      S2 == Snap(S1)
      r == Fold(MInit(Header), S2.ev)
  IN /\ k = S2.k /\ mon = r.m /\ viol = r.bad
     /\ script = [p \in PIDs |-> <<>>]

Dispatch ==
  /\ k.run = 0 /\ k.evq # {}
  /\ \E e \in NextEvents(k) :
       LET S1 == DispatchEv(S0(k), e)
           \* a delivered wake-up continues the blocked call at once (the process runs until it blocks or returns to its script)
           S2 == IF S1.k.run # 0 /\ S1.k.call[S1.k.run].op # "none" /\ e.kind # "start"
                   THEN Continue(S1, S1.k.run, S1.k.sigin[S1.k.run]) ELSE S1
       IN Apply(S2)
  /\ UNCHANGED script

Step(p) ==
  /\ k.run = p /\ k.st[p] = "alive" /\ k.call[p].op = "none"
  /\ IF k.pc[p] >= MaxLen
       THEN Apply(ReturnFromBody(S0(k), p)) /\ UNCHANGED script
       ELSE LET kpc == [k EXCEPT !.pc[p] = @ + 1] IN
            IF k.pc[p] < Len(script[p])
              THEN \* a restarted process runs its function again from the start: the same instructions
                   LET in == script[p][k.pc[p] + 1] IN
                   /\ IF Legal(k, p, in) THEN Apply(Exec1(S0(kpc), p, in)) ELSE Apply(S0(kpc))   \* illegal now: skipped by the harness
                   /\ UNCHANGED script
              ELSE \E in \in Alphabet :
                     /\ IF Roles = <<>> THEN TRUE ELSE in[1] \in Roles[p]
                     /\ Legal(k, p, in)
                     /\ Apply(Exec1(S0(kpc), p, in))
                     /\ script' = [script EXCEPT ![p] = Append(@, in)]

Next == Dispatch \/ (\E p \in PIDs : Step(p))
Spec == Init /\ [][Next]_vars

(* quiescence is checked as an invariant on the monitor's verdict for a hypothetical Quiescent event *)
QuiescentOK ==
  (k.run = 0 /\ k.evq = {}) => MStep(mon, [e |-> "Quiescent", t |-> k.now]).bad = {}

NoViolation == viol = {}

Constr == k.now <= MaxTime /\ k.nextH <= 40
View == <<k, mon>>
ViewS == <<k, mon, script>>   \* needed when the alphabet can restart processes (scripts are re-read)

(* export: for every distinct state, the program (prefix) that reaches it on a shortest path; the    *)
(* replay harness runs it on the real library, where each process returns when its script runs out  *)
ExportProg == PrintT(<<"P", script>>)
(* for random walks (TLC -simulate) through configurations too large for breadth-first search: print  *)
(* the program only when it has run to quiescence                                                     *)
ExportQuiescent == (k.run = 0 /\ k.evq = {}) => PrintT(<<"P", script>>)
=============================================================================
