------------------------------ MODULE Samplers ------------------------------
(* Property C16 - every sampler of cmb_random.h stays inside the support of    *)
(* its distribution and follows the distribution it states.                    *)
(*                                                                             *)
(* This module is the property-level specification: pure definitions shared by *)
(* the design models (SamplersMC.tla, model-checked by TLC) and by the trace   *)
(* specification (SamplersTrace.tla, which judges what harness/smp_replay      *)
(* records from the real library).                                             *)
(*                                                                             *)
(*  1. rationals and 32-bit-safe integer helpers (TLC integers are 32 bit)     *)
(*  2. the catalogue: documented preconditions and mathematical support of     *)
(*     every sampler                                                           *)
(*  3. the stated distributions of the discrete samplers as exact probability  *)
(*     mass functions                                                          *)
(*  4. the frequency law: what "N draws follow the stated distribution" means  *)
(*     for a bin of probability in [alo/d, ahi/d]                              *)
(*  5. decision rules of the discrete samplers on cells of the unit interval   *)
(*  6. alias tables: the distribution a table encodes                          *)
EXTENDS Integers, Sequences, FiniteSets, TLC

(* ======================= 1. arithmetic helpers ============================ *)
Min2(a, b) == IF a <= b THEN a ELSE b
Max2(a, b) == IF a >= b THEN a ELSE b
Abs(a) == IF a < 0 THEN -a ELSE a

RECURSIVE Pow(_, _)
Pow(x, n) == IF n = 0 THEN 1 ELSE x * Pow(x, n - 1)

RECURSIVE Gcd(_, _)
Gcd(a, b) == IF b = 0 THEN a ELSE Gcd(b, a % b)
Lcm(a, b) == (a \div Gcd(a, b)) * b

RECURSIVE Binom(_, _)
Binom(n, k) == IF k = 0 \/ k = n THEN 1 ELSE Binom(n - 1, k - 1) + Binom(n - 1, k)

RECURSIVE SumRange(_, _, _)       \* s[a] + ... + s[b], by halving (TLC's stack is shallow)
SumRange(s, a, b) == IF a > b THEN 0 ELSE IF a = b THEN s[a]
                     ELSE LET m == (a + b) \div 2 IN SumRange(s, a, m) + SumRange(s, m + 1, b)
SumSeq(s) == SumRange(s, 1, Len(s))

RECURSIVE LcmDen(_)
LcmDen(rs) == IF rs = <<>> THEN 1 ELSE Lcm(Head(rs)[2], LcmDen(Tail(rs)))

(* rationals are <<num, den>> with den > 0 *)
RLt(a, b) == a[1] * b[2] < b[1] * a[2]
RLe(a, b) == a[1] * b[2] <= b[1] * a[2]
REq(a, b) == a[1] * b[2] = b[1] * a[2]
RPos(a) == a[1] > 0
RIsInt(a) == a[1] % a[2] = 0
RInt(a) == a[1] \div a[2]
Zero == <<0, 1>>
One == <<1, 1>>

(* floor(n * a / d) for 0 <= a <= d, without leaving 32 bits (needs d <= 46340, n < 2^31) *)
MulDivFloor(n, a, d) == (n \div d) * a + ((n % d) * a) \div d
MulDivCeil(n, a, d) == (n \div d) * a + ((n % d) * a + d - 1) \div d

RECURSIVE BSqrt(_, _, _)
BSqrt(x, lo, hi) == IF lo = hi THEN lo
                    ELSE LET m == (lo + hi + 1) \div 2
                         IN IF m * m <= x THEN BSqrt(x, m, hi) ELSE BSqrt(x, lo, m - 1)
ISqrt(x) == BSqrt(x, 0, 46340)          \* floor of the square root, 0 <= x < 2^31

(* ======================= 2. the catalogue ================================= *)
Continuous == {"random", "uniform", "triangular", "std_normal", "normal", "lognormal", "logistic",
               "cauchy", "std_exponential", "exponential", "erlang", "hypoexponential",
               "hyperexponential", "std_gamma", "gamma", "std_beta", "beta", "PERT", "PERT_mod",
               "weibull", "pareto", "chisquared", "F_dist", "std_t_dist", "t_dist", "rayleigh"}
Discrete == {"flip", "bernoulli", "geometric", "binomial", "negative_binomial", "pascal", "poisson",
             "dice", "loaded_dice", "alias"}
AllSamplers == Continuous \cup Discrete

(* the tolerance the library accepts on the sum of a probability vector: 1e-3 *)
TolNum == 1
TolDen == 1000
SumWithinTolerance(v) ==
  LET D == LcmDen(v)
      S == SumSeq([i \in 1..Len(v) |-> v[i][1] * (D \div v[i][2])])
  IN Abs(S - D) * TolDen <= TolNum * D

(* documented preconditions (the doc comments of include/cmb_random.h) *)
Admissible(s, par, v1, v2) ==
  CASE s \in {"random", "std_normal", "std_exponential", "flip"} -> par = <<>>
    [] s = "uniform" -> RLt(par[1], par[2])
    [] s = "triangular" -> RLt(par[1], par[2]) /\ RLt(par[2], par[3])
    [] s \in {"normal", "logistic", "cauchy"} -> RPos(par[2])
    [] s = "lognormal" -> RPos(par[1]) /\ RPos(par[2])
    [] s \in {"exponential", "std_gamma", "chisquared", "std_t_dist", "rayleigh", "poisson"} -> RPos(par[1])
    [] s = "erlang" -> RIsInt(par[1]) /\ RPos(par[1]) /\ RPos(par[2])
    [] s = "hypoexponential" -> Len(v1) > 0 /\ \A i \in 1..Len(v1) : RPos(v1[i])
    [] s = "hyperexponential" -> /\ Len(v1) > 0 /\ Len(v2) = Len(v1)
                                 /\ \A i \in 1..Len(v1) : RPos(v1[i]) /\ RLe(Zero, v2[i])
                                 /\ SumWithinTolerance(v2)
    [] s \in {"gamma", "std_beta", "weibull", "pareto", "F_dist"} -> RPos(par[1]) /\ RPos(par[2])
    [] s = "beta" -> RPos(par[1]) /\ RPos(par[2]) /\ RLt(par[3], par[4])
    [] s = "PERT" -> RLt(par[1], par[2]) /\ RLt(par[2], par[3])
    [] s = "PERT_mod" -> RLt(par[1], par[2]) /\ RLt(par[2], par[3]) /\ RPos(par[4])
    [] s = "t_dist" -> RPos(par[2]) /\ RPos(par[3])
    [] s = "bernoulli" -> RLe(Zero, par[1]) /\ RLe(par[1], One)
    [] s = "geometric" -> RPos(par[1]) /\ RLe(par[1], One)
    [] s \in {"binomial", "negative_binomial", "pascal"} ->
         RIsInt(par[1]) /\ RPos(par[1]) /\ RPos(par[2]) /\ RLe(par[2], One)
    [] s = "dice" -> RIsInt(par[1]) /\ RIsInt(par[2]) /\ RLt(par[1], par[2])
    [] s \in {"loaded_dice", "alias"} -> /\ Len(v2) > 0 /\ \A i \in 1..Len(v2) : RLe(Zero, v2[i])
                                         /\ SumWithinTolerance(v2)
    [] OTHER -> FALSE

(* mathematical support: [lo, hi]; a bound is <<1, r>> (finite, the rational r) or <<0, Zero>>  *)
(* (unbounded).  A variate is in the support iff it is a real (neither NaN nor an infinity)    *)
(* with lo <= x <= hi.                                                                           *)
Unb == <<0, Zero>>
Fin(r) == <<1, r>>
Support(s, par, v2) ==
  CASE s \in {"random", "std_beta"} -> [lo |-> Fin(Zero), hi |-> Fin(One)]
    [] s = "uniform" -> [lo |-> Fin(par[1]), hi |-> Fin(par[2])]
    [] s = "triangular" -> [lo |-> Fin(par[1]), hi |-> Fin(par[3])]
    [] s \in {"std_normal", "normal", "logistic", "cauchy", "std_t_dist", "t_dist"} -> [lo |-> Unb, hi |-> Unb]
    [] s \in {"lognormal", "std_exponential", "exponential", "erlang", "hypoexponential", "hyperexponential",
              "std_gamma", "gamma", "weibull", "chisquared", "F_dist", "rayleigh"} -> [lo |-> Fin(Zero), hi |-> Unb]
    [] s = "beta" -> [lo |-> Fin(par[3]), hi |-> Fin(par[4])]
    [] s \in {"PERT", "PERT_mod"} -> [lo |-> Fin(par[1]), hi |-> Fin(par[3])]
    [] s = "pareto" -> [lo |-> Fin(par[2]), hi |-> Unb]
    [] s \in {"flip", "bernoulli"} -> [lo |-> Fin(Zero), hi |-> Fin(One)]
    [] s = "geometric" -> [lo |-> Fin(One), hi |-> Unb]
    [] s = "binomial" -> [lo |-> Fin(Zero), hi |-> Fin(par[1])]
    [] s \in {"negative_binomial", "pascal", "poisson"} -> [lo |-> Fin(Zero), hi |-> Unb]
    [] s = "dice" -> [lo |-> Fin(par[1]), hi |-> Fin(par[2])]
    [] s \in {"loaded_dice", "alias"} -> [lo |-> Fin(Zero), hi |-> Fin(<<Len(v2) - 1, 1>>)]

(* classes a harness sorts variates into, relative to the bounds above:                       *)
(* 1 NaN, 2 -infinity, 3 below lo, 4 = lo, 5 strictly inside, 6 = hi, 7 above hi, 8 +infinity *)
ClassesInSupport == {4, 5, 6}

(* ======================= 3. stated discrete distributions ================= *)
(* a probability vector on a common denominator: [k |-> <<k_1..k_n>>, d |-> D] *)
OnCommonDen(v) == LET D == LcmDen(v) IN [k |-> [i \in 1..Len(v) |-> v[i][1] * (D \div v[i][2])], d |-> D]

(* bins <<lo, hi, alo, ahi>> over the common denominator d: the values lo..hi (hi < lo: lo and  *)
(* everything above) have total probability within [alo/d, ahi/d] under the stated distribution *)
Bin(lo, hi, alo, ahi) == <<lo, hi, alo, ahi>>

DiscBins(c) ==
  LET s == c.s  par == c.par  M == c.maxv IN
  CASE s = "flip" -> [d |-> 2, bins |-> <<Bin(0, 0, 1, 1), Bin(1, 1, 1, 1)>>]
    [] s = "bernoulli" ->
         LET a == par[1][1]  b == par[1][2] IN [d |-> b, bins |-> <<Bin(0, 0, b - a, b - a), Bin(1, 1, a, a)>>]
    [] s = "geometric" ->      \* P(k) = (1-p)^(k-1) p, k = 1, 2, ...
         LET a == par[1][1]  b == par[1][2]
             P(k) == Pow(b - a, k - 1) * a * Pow(b, M - k)
             T == Pow(b - a, M)
         IN [d |-> Pow(b, M), bins |-> [k \in 1..M |-> Bin(k, k, P(k), P(k))] \o <<Bin(M + 1, M, T, T)>>]
    [] s = "binomial" ->       \* P(k) = C(n,k) p^k (1-p)^(n-k), k = 0..n
         LET n == RInt(par[1])  a == par[2][1]  b == par[2][2]
             P(k) == Binom(n, k) * Pow(a, k) * Pow(b - a, n - k)
         IN [d |-> Pow(b, n), bins |-> [j \in 1..(n + 1) |-> Bin(j - 1, j - 1, P(j - 1), P(j - 1))]]
    [] s \in {"negative_binomial", "pascal"} ->   \* failures before the m-th success: C(k+m-1,k) p^m (1-p)^k
         LET m == RInt(par[1])  a == par[2][1]  b == par[2][2]
             P(k) == Binom(k + m - 1, k) * Pow(a, m) * Pow(b - a, k) * Pow(b, M - k)
             D == Pow(b, m + M)
             T == D - SumSeq([j \in 1..(M + 1) |-> P(j - 1)])
         IN [d |-> D, bins |-> [j \in 1..(M + 1) |-> Bin(j - 1, j - 1, P(j - 1), P(j - 1))] \o <<Bin(M + 1, M, T, T)>>]
    [] s = "dice" ->           \* uniform on a..b
         LET a == RInt(par[1])  b == RInt(par[2])
         IN [d |-> b - a + 1, bins |-> [j \in 1..(b - a + 1) |-> Bin(a + j - 1, a + j - 1, 1, 1)]]
    [] s \in {"loaded_dice", "alias"} ->
         \* index i with probability v2[i]; when the vector does not sum to one exactly (it may be off
         \* by the accepted tolerance) the statement does not say where the difference goes, so every
         \* probability is only required to lie within that difference of its entry
         LET cd == OnCommonDen(c.v2)  S == SumSeq(cd.k)  sl == Abs(cd.d - S)
         IN [d |-> cd.d, bins |-> [i \in 1..Len(cd.k) |-> Bin(i - 1, i - 1, Max2(0, cd.k[i] - sl), Min2(cd.d, cd.k[i] + sl))]]
    [] s = "poisson" -> [d |-> c.tabd, bins |-> c.tab]

PmfWellFormed(c) ==
  LET db == DiscBins(c) IN
  /\ db.d >= 1 /\ db.d <= 46340
  /\ \A i \in 1..Len(db.bins) : 0 <= db.bins[i][3] /\ db.bins[i][3] <= db.bins[i][4] /\ db.bins[i][4] <= db.d
  /\ SumSeq([i \in 1..Len(db.bins) |-> db.bins[i][3]]) <= db.d
  /\ SumSeq([i \in 1..Len(db.bins) |-> db.bins[i][4]]) >= db.d

(* ======================= 4. the frequency law ============================= *)
(* K standard deviations plus the Bernstein correction K^2/3: for a bin of true probability p   *)
(* the count c of N independent draws satisfies |c - Np| <= K sqrt(Np(1-p)) + K^2/3 except with  *)
(* probability < 2 exp(-K^2/2) (4.6e-11 for K = 7).  A sampler "follows its stated distribution" *)
(* only if every bin, every union of adjacent bins considered and every value of the empirical   *)
(* distribution function considered stays within this bound; a bin of probability zero must stay *)
(* empty and a bin of probability one must receive every draw.                                   *)
KSigma == 7

FreqBound(n, alo, ahi, d) ==
  LET am == IF 2 * ahi <= d THEN ahi ELSE IF 2 * alo >= d THEN alo ELSE d \div 2   \* p closest to 1/2
      vup == MulDivFloor(MulDivFloor(n, am, d) + 1, d - am, d) + 1                  \* >= N p (1-p)
  IN KSigma * (ISqrt(vup) + 1) + (KSigma * KSigma) \div 3 + 1

FreqLo(n, alo, ahi, d) == IF alo = d THEN n ELSE IF ahi = 0 THEN 0 ELSE MulDivFloor(n, alo, d) - FreqBound(n, alo, ahi, d)
FreqHi(n, alo, ahi, d) == IF ahi = 0 THEN 0 ELSE IF alo = d THEN n ELSE MulDivCeil(n, ahi, d) + FreqBound(n, alo, ahi, d)
FreqOK(c, n, alo, ahi, d) == FreqLo(n, alo, ahi, d) <= c /\ c <= FreqHi(n, alo, ahi, d)

(* ======================= 5. decision rules on cells ======================= *)
(* A uniform variate u is known to lie in the open cell (ulo/ud, uhi/ud).  Compare it with the   *)
(* rational threshold t/td: "lt" (certainly u < t/td), "ge" (certainly u >= t/td) or "open"      *)
(* (the threshold lies strictly inside the cell).  Exact; a user that must allow for the rounding *)
(* of t/td to a double widens the cell by one unit on either side.                                *)
CellVs(ulo, uhi, ud, t, td) ==
  IF uhi * td <= t * ud THEN "lt" ELSE IF ulo * td >= t * ud THEN "ge" ELSE "open"

(* loaded dice by inversion: the least index whose cumulative probability exceeds u; cells that   *)
(* touch a cumulative boundary allow both neighbours; u beyond the total (a vector summing to      *)
(* less than one) allows any index the vector gives a positive probability                         *)
RECURSIVE LDFrom(_, _, _, _, _, _, _)
LDFrom(k, d, ulo, uhi, ud, i, cum) ==
  IF i > Len(k) THEN {j \in 1..Len(k) : k[j] > 0}
  ELSE LET cv == CellVs(ulo, uhi, ud, cum + k[i], d) IN
       IF cv = "lt" THEN {i}
       ELSE IF cv = "ge" THEN LDFrom(k, d, ulo, uhi, ud, i + 1, cum + k[i])
       ELSE {i} \cup LDFrom(k, d, ulo, uhi, ud, i + 1, cum + k[i])
LoadedDiceDesign(k, d, ulo, uhi, ud) == {i - 1 : i \in LDFrom(k, d, ulo, uhi, ud, 1, 0)}   \* 0-based indices

(* what the property itself demands of one loaded-dice / alias draw: a valid index, and - when the *)
(* vector sums to one exactly - an index of positive probability                                    *)
IndexInSupport(k, d, r) == r >= 0 /\ r < Len(k) /\ (SumSeq(k) = d => k[r + 1] > 0)

(* dice: floor(a + (b-a+1) u) for u in the open cell *)
DiceDesign(a, b, ulo, uhi, ud) ==
  LET w == b - a + 1 IN { a + f : f \in Max2(0, (w * ulo) \div ud)..Min2(w - 1, (w * uhi + ud - 1) \div ud - 1) }

(* Bernoulli: 1 iff u <= p *)
BernoulliDesign(p, ulo, uhi, ud) ==
  LET cv == CellVs(ulo, uhi, ud, p[1], p[2]) IN IF cv = "lt" THEN {1} ELSE IF cv = "ge" THEN {0} ELSE {0, 1}

(* ======================= 6. alias tables ================================== *)
(* A table (q, al) over n columns, q[i] in 0..qd the probability (in units 1/qd) of keeping        *)
(* column i, al[i] its alias (0-based).  Drawing a column uniformly and keeping it with            *)
(* probability q[i]/qd gives index i the probability Encoded(i) / (n * qd).                         *)
AliasEncoded(q, al, qd, i) ==
  q[i] + SumSeq([j \in 1..Len(q) |-> IF al[j] = i - 1 THEN qd - q[j] ELSE 0])

(* the table encodes probabilities within [alo, ahi]/d, up to `slack` units of 1/(n*qd) per column *)
(* (the harness reports only the top bits of each 64-bit probability)                              *)
AliasTableOK(q, al, qd, bins, d, slack) ==
  LET n == Len(q) IN
  /\ \A i \in 1..n : al[i] >= 0 /\ al[i] < n /\ q[i] >= 0 /\ q[i] <= qd
  /\ \A i \in 1..n :
       LET enc == AliasEncoded(q, al, qd, i) IN
       /\ (enc + slack) * d >= bins[i][3] * n * qd
       /\ (enc - slack) * d <= bins[i][4] * n * qd
=============================================================================
