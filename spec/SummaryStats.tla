---------------------------- MODULE SummaryStats ----------------------------
(* Property C17, property level: the abstract state of a data summary and the  *)
(* exact statistics it must report.  Used by Summary.tla (model checking) and  *)
(* SummaryTrace.tla (validation of traces of the real library).                *)
(*                                                                            *)
(* The abstract state is the exact power-sum tuple of the samples given:       *)
(*    n = number of samples of non-zero weight, W = sum of weights,            *)
(*    s_p = sum of w * x^p (p = 1..4), min, max.                               *)
(* Adding a sample adds its powers; merging adds the tuples component-wise,    *)
(* so "merge = summary of the concatenated data, in either order, into either  *)
(* operand, with empty operands" is the abstract semantics by construction.    *)
(* Samples are integers, weights naturals (the harness logs the power-of-two   *)
(* unit of a run separately); arithmetic is exact (C17Big).                    *)
(* Conventions, as documented in the library headers: variance = M2/(n-1);     *)
(* skewness = sqrt(n(n-1))/(n-2) * sqrt(n) M3 / M2^1.5; excess kurtosis =      *)
(* (n-1)/((n-2)(n-3)) * ((n+1)(n M4/M2^2 - 3) + 6).  Skewness is handled as    *)
(* (sign, square) since it is not rational.                                    *)
EXTENDS Integers, Sequences, C17Big

T0 == [n |-> 0, W |-> <<>>, s1 |-> ZZero, s2 |-> ZZero, s3 |-> ZZero, s4 |-> ZZero, mn |-> 0, mx |-> 0]

IMin(a, b) == IF a <= b THEN a ELSE b
IMax(a, b) == IF a >= b THEN a ELSE b

TAdd(t, k, w) ==            \* a zero-weight sample is ignored
  IF w = 0 THEN t
  ELSE LET kz == ZFromInt(k)
           p1 == ZMulNat(kz, NFromInt(w))
           p2 == ZMul(p1, kz)
           p3 == ZMul(p2, kz)
           p4 == ZMul(p3, kz)
       IN [n |-> t.n + 1, W |-> NAdd(t.W, NFromInt(w)),
           s1 |-> ZAdd(t.s1, p1), s2 |-> ZAdd(t.s2, p2), s3 |-> ZAdd(t.s3, p3), s4 |-> ZAdd(t.s4, p4),
           mn |-> IF t.n = 0 THEN k ELSE IMin(t.mn, k), mx |-> IF t.n = 0 THEN k ELSE IMax(t.mx, k)]

TMerge(a, b) ==
  [n |-> a.n + b.n, W |-> NAdd(a.W, b.W),
   s1 |-> ZAdd(a.s1, b.s1), s2 |-> ZAdd(a.s2, b.s2), s3 |-> ZAdd(a.s3, b.s3), s4 |-> ZAdd(a.s4, b.s4),
   mn |-> IF a.n = 0 THEN b.mn ELSE IF b.n = 0 THEN a.mn ELSE IMin(a.mn, b.mn),
   mx |-> IF a.n = 0 THEN b.mx ELSE IF b.n = 0 THEN a.mx ELSE IMax(a.mx, b.mx)]

TScale(t, c) == [t EXCEPT !.W = NMulSmall(t.W, c), !.s1 = ZMulInt(t.s1, c), !.s2 = ZMulInt(t.s2, c),
                          !.s3 = ZMulInt(t.s3, c), !.s4 = ZMulInt(t.s4, c)]

RECURSIVE TOfData(_, _, _)
TOfData(D, i, t) == IF i > Len(D) THEN t ELSE TOfData(D, i + 1, TAdd(t, D[i][1], D[i][2]))
TupleOfData(D) == TOfData(D, 1, T0)      \* D: sequence of <<value, weight>>

(* central sums, cleared of denominators: with mu = s1/W,                                 *)
(*   sum w (x-mu)^2 = A2/W,   sum w (x-mu)^3 = A3/W^2,   sum w (x-mu)^4 = A4/W^3          *)
A2(t) == ZSub(ZMulNat(t.s2, t.W), ZSq(t.s1))
A3(t) == LET W2 == NMul(t.W, t.W)
         IN ZAdd(ZSub(ZMulNat(t.s3, W2), ZMulInt(ZMulNat(ZMul(t.s1, t.s2), t.W), 3)),
                 ZMulInt(ZMul(ZSq(t.s1), t.s1), 2))
A4(t) == LET W2 == NMul(t.W, t.W)
             W3 == NMul(W2, t.W)
             q1 == ZSq(t.s1)
         IN ZAdd(ZSub(ZMulNat(t.s4, W3), ZMulInt(ZMulNat(ZMul(t.s1, t.s3), W2), 4)),
                 ZSub(ZMulInt(ZMulNat(ZMul(q1, t.s2), t.W), 6), ZMulInt(ZSq(q1), 3)))

(* exact statistics of an unweighted tuple (W = n); the caller respects the domains:     *)
(* mean n >= 1, variance n >= 2, skewness n >= 3 and A2 > 0, kurtosis n >= 4 and A2 > 0   *)
XMean(t) == QMk(t.s1, t.W)
XVar(t) == QMk(A2(t), NMulSmall(t.W, t.n - 1))
XSkewSign(t) == A3(t).s
XSkew2(t) == LET a2 == A2(t) IN
             QMk(ZMulInt(ZSq(A3(t)), t.n * (t.n - 1)),
                 NMul(NMul(NMul(a2.m, a2.m), a2.m), NFromInt((t.n - 2) * (t.n - 2))))
XKurt(t) == LET a2s == ZSq(A2(t)) IN
            QMk(ZMulInt(ZAdd(ZMulInt(ZSub(A4(t), ZMulInt(a2s, 3)), t.n + 1), ZMulInt(a2s, 6)), t.n - 1),
                NMul(a2s.m, NFromInt((t.n - 2) * (t.n - 3))))
(* the weighted mean of any tuple with W > 0 is XMean *)

(* ---- definitional statistics of the data themselves ------------------------------- *)
RECURSIVE DSum(_, _, _, _)     \* sum over i of w_i * (W x_i - S1)^p as an integer
DSum(D, i, p, c) ==
  IF i > Len(D) THEN ZZero
  ELSE LET dev == ZSub(ZMulNat(ZFromInt(D[i][1]), c.W), c.S1)
           pw == IF p = 2 THEN ZSq(dev) ELSE IF p = 3 THEN ZMul(ZSq(dev), dev) ELSE ZSq(ZSq(dev))
       IN ZAdd(ZMulInt(pw, D[i][2]), DSum(D, i + 1, p, c))
RECURSIVE DW(_, _)
DW(D, i) == IF i > Len(D) THEN <<>> ELSE NAdd(NFromInt(D[i][2]), DW(D, i + 1))
RECURSIVE DS1(_, _)
DS1(D, i) == IF i > Len(D) THEN ZZero ELSE ZAdd(ZMulInt(ZFromInt(D[i][1]), D[i][2]), DS1(D, i + 1))
Central(D) == LET c == [W |-> DW(D, 1), S1 |-> DS1(D, 1)]
              IN [W |-> c.W, S1 |-> c.S1, C2 |-> DSum(D, 1, 2, c), C3 |-> DSum(D, 1, 3, c), C4 |-> DSum(D, 1, 4, c)]
NonZero(D) == SelectSeq(D, LAMBDA e : e[2] # 0)
(* unit weights: W = n, deviations scaled by n: M_p = C_p / n^p *)
DefMean(c) == QMk(c.S1, c.W)
DefVar(c, n) == QMk(c.C2, NMulSmall(NMul(c.W, c.W), n - 1))
DefSkewSign(c) == c.C3.s
DefSkew2(c, n) == QMk(ZMulInt(ZMulInt(ZSq(c.C3), n), n * (n - 1)),
                      NMul(NMul(NMul(c.C2.m, c.C2.m), c.C2.m), NFromInt((n - 2) * (n - 2))))
DefKurt(c, n) == LET c2s == ZSq(c.C2) IN
                 QMk(ZMulInt(ZAdd(ZMulInt(ZSub(ZMulInt(c.C4, n), ZMulInt(c2s, 3)), n + 1), ZMulInt(c2s, 6)), n - 1),
                     NMul(c2s.m, NFromInt((n - 2) * (n - 3))))

=============================================================================
