--------------------------- MODULE CoroutineCore ---------------------------
(* Control-transfer bookkeeping of cimba's coroutines as a pure state       *)
(* function, shared by the model (Coroutine.tla, explored by TLC) and by    *)
(* trace validation (CoroutineTrace.tla, folded over traces of the real     *)
(* library).  Property C03.                                                 *)
(*                                                                          *)
(* Coroutine 0 is the main stack (dispatcher); 1..n are created ones.       *)
(* A state is a record                                                      *)
(*   cur     the coroutine that has the CPU                                 *)
(*   st      "C" created | "R" running (started, not ended) | "F" finished  *)
(*   caller  who passed control to c most recently, by any means            *)
(*           (struct comment: "the coroutine that last (re)activated this") *)
(*   act     who most recently started / resumed / transferred to c         *)
(*           (comment of cmi_coroutine_yield: "the coroutine that last      *)
(*           resumed this one or transferred to it")                        *)
(*   parent  who started c (where exit / return go)                         *)
(*   xv      exit value                                                     *)
(*   susp    the call c is suspended in: "start" "resume" "transfer"        *)
(*           "yield"; "none" when c is current or was never started;        *)
(*           "dead" when its frames are abandoned (finished)                *)
(* An op is a record [k, d, m]: kind, target (or NONE), message / value.    *)
EXTENDS Integers

NONE == -1
Kinds == {"start", "resume", "transfer", "yield", "exit", "return", "stopself", "stop", "reset"}
Switching == {"start", "resume", "transfer", "yield", "exit", "return", "stopself"}
Ending == {"exit", "return", "stopself"}

S0(n) == [cur    |-> 0,
          st     |-> [c \in 0..n |-> IF c = 0 THEN "R" ELSE "C"],
          caller |-> [c \in 0..n |-> NONE],
          act    |-> [c \in 0..n |-> NONE],
          parent |-> [c \in 0..n |-> NONE],
          xv     |-> [c \in 0..n |-> 0],
          susp   |-> [c \in 0..n |-> "none"]]

Ids(s) == DOMAIN s.st
IsRunning(s, c) == c \in Ids(s) /\ s.st[c] = "R"

(* Documented preconditions (the release asserts of cmi_coroutine.c): what a *)
(* valid user program may do in state s.  A yield must be valid under both  *)
(* documented readings of "caller" (the library follows the first one; the  *)
(* two agree whenever yield is only used towards the last resumer).         *)
Enabled(s, op) ==
  LET c == s.cur IN
  CASE op.k = "start"    -> op.d \in Ids(s) \ {0, c} /\ s.st[op.d] # "R"
    [] op.k \in {"resume", "transfer"} -> op.d \in Ids(s) \ {c} /\ s.st[op.d] = "R"
    [] op.k = "yield"    -> /\ s.caller[c] # NONE /\ s.caller[c] # c /\ IsRunning(s, s.caller[c])
                            /\ s.act[c] # NONE /\ s.act[c] # c /\ IsRunning(s, s.act[c])
    [] op.k \in Ending   -> c # 0 /\ s.parent[c] # NONE /\ s.parent[c] # c /\ IsRunning(s, s.parent[c])
    [] op.k = "stop"     -> op.d \in Ids(s) \ {0, c} /\ s.st[op.d] = "R"
    [] op.k = "reset"    -> op.d \in Ids(s) \ {0, c} /\ s.st[op.d] = "F"
    [] OTHER -> FALSE

(* where control goes *)
Dest(s, op) ==
  CASE op.k \in {"start", "resume", "transfer"} -> op.d
    [] op.k = "yield"  -> s.caller[s.cur]
    [] op.k \in Ending -> s.parent[s.cur]
    [] OTHER -> s.cur

(* the other reading of "caller" for a yield; equals Dest in asymmetric use *)
AltYieldDest(s) == s.act[s.cur]

(* control passes from s.cur (left suspended in a call of kind k, or dead) to d *)
Pass(s, d, k) ==
  [s EXCEPT !.cur = d, !.caller[d] = s.cur, !.susp[s.cur] = k, !.susp[d] = "none"]

Step(s, op) ==
  LET c == s.cur IN
  CASE op.k = "start" ->
         Pass([s EXCEPT !.parent[op.d] = c, !.act[op.d] = c, !.xv[op.d] = 0, !.st[op.d] = "R"], op.d, "start")
    [] op.k \in {"resume", "transfer"} ->
         Pass([s EXCEPT !.act[op.d] = c], op.d, op.k)
    [] op.k = "yield" ->
         Pass(s, s.caller[c], "yield")
    [] op.k \in Ending ->
         Pass([s EXCEPT !.xv[c] = op.m, !.st[c] = "F"], s.parent[c], "dead")
    [] op.k = "stop" ->
         [s EXCEPT !.xv[op.d] = op.m, !.st[op.d] = "F", !.susp[op.d] = "dead"]
    [] op.k = "reset" ->
         [s EXCEPT !.xv[op.d] = 0, !.st[op.d] = "C"]
    [] OTHER -> s

(* a yield that follows the other reading of "caller" *)
StepYieldAlt(s) == Pass(s, s.act[s.cur], "yield")

(* how the destination continues: by entering its function or by returning from a call *)
ArrivesByEntry(op) == op.k = "start"
=============================================================================
