SPECIFICATION Spec
CONSTANTS
  K = 2
  L = 2
  MaxChunks = 5
  Static = FALSE
INVARIANTS Distinct InChunks Accounted ListIntact
PROPERTIES ContentStable AllocFresh
CONSTRAINT Constr
VIEW View
CHECK_DEADLOCK FALSE
