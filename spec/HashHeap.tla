---------------------------- MODULE HashHeap ----------------------------
(* Implementation-shaped model of src/cmi_hashheap.c: a binary heap in an    *)
(* array (slots 1..cnt; slot 0 = scratch copy of the last dequeued entry)    *)
(* plus an open-addressing hash map with linear probing, lazy deletion       *)
(* (tombstone = heap index 0, never-used = key 0), and doubling with rehash. *)
(* One action per public operation; the helper operators mirror the static   *)
(* functions of the C file (hash_find_index, hash_find_slot, heap_up,        *)
(* heap_down, hash_rehash, hashheap_grow).                                   *)
(*                                                                           *)
(* TLC checks (HashHeapMC.cfg): WellFormed in every reachable state and that *)
(* every step refines the abstract keyed priority queue of KeyedPQ.tla.      *)
EXTENDS Integers, Sequences, FiniteSets, TLC, KeyedPQ

CONSTANTS Ord,        \* which ordering ("default", "event", "guard", "holder", "pq")
          HashMode,   \* "mod": key mod table size, "zero": everything collides
          Exp0,       \* initial exponent (heap size 2^Exp0)
          MaxExp,     \* stop growing beyond this (state constraint)
          CallerKeys, \* set of caller-supplied keys (disjoint from auto keys)
          AutoKeys,   \* TRUE: enqueue with key 0 (auto-issued) is in the alphabet
          DVals, IVals, PVals, \* sort key and payload(first word) values
          MaxOps,     \* bound on the number of operations (use a large value to disable)
          MaxCtr      \* bound on the number of enqueues (state constraint)

VARIABLES exp, heap, cnt, hmap, ctr, slot0, last, nops,
          hist   \* ghost: the operations so far, compactly, for export to the replay harness
vars == <<exp, heap, cnt, hmap, ctr, slot0, last, nops, hist>>

Pow2(n) == IF n = 0 THEN 1 ELSE IF n = 1 THEN 2 ELSE IF n = 2 THEN 4 ELSE IF n = 3 THEN 8
           ELSE IF n = 4 THEN 16 ELSE IF n = 5 THEN 32 ELSE 64
HeapSize == Pow2(exp)
MapSize(e) == Pow2(e + 1)
NoEntry == [k |-> 0, h |-> 0, pl |-> <<0,0,0,0>>, d |-> 0, i |-> 0]
FreeSlot == [key |-> 0, idx |-> 0]

Hash(key, e) == IF HashMode = "zero" THEN 0 ELSE key % MapSize(e)
Cmp(a, b) == Before(Ord, a, b)

(* hash_find_index: probe from the hash; stop at the key, a never-used slot, *)
(* or after a full circle                                                    *)
RECURSIVE ProbeIdx(_, _, _, _, _)
ProbeIdx(hm, n, key, pos, steps) ==
  IF hm[pos].key = key THEN hm[pos].idx
  ELSE IF hm[pos].key = 0 THEN 0
  ELSE IF steps + 1 = n THEN 0
  ELSE ProbeIdx(hm, n, key, (pos + 1) % n, steps + 1)
FindIndex(hm, e, key) == ProbeIdx(hm, MapSize(e), key, Hash(key, e), 0)

(* hash_find_slot: first slot with heap index 0 (never used or tombstone)    *)
RECURSIVE ProbeSlot(_, _, _, _)
ProbeSlot(hm, n, pos, steps) ==
  IF hm[pos].idx = 0 THEN pos
  ELSE IF steps + 1 = n THEN -1      \* cannot happen below 50 % load; -1 makes TLC fail loudly
  ELSE ProbeSlot(hm, n, (pos + 1) % n, steps + 1)
FindSlot(hm, e, key) == ProbeSlot(hm, MapSize(e), Hash(key, e), 0)

Place(hp, hm, k, w) == [heap |-> [hp EXCEPT ![k] = w], hmap |-> [hm EXCEPT ![w.h].idx = k]]

RECURSIVE UpLoop(_, _, _, _)
UpLoop(hp, hm, k, w) ==
  LET l == k \div 2 IN
  IF l > 0 /\ Cmp(w, hp[l])
    THEN UpLoop([hp EXCEPT ![k] = hp[l]], [hm EXCEPT ![hp[l].h].idx = k], l, w)
    ELSE Place(hp, hm, k, w)
HeapUp(hp, hm, k) == UpLoop(hp, hm, k, hp[k])

RECURSIVE DownLoop(_, _, _, _, _)
DownLoop(hp, hm, c, k, w) ==
  IF k <= c \div 2 THEN
    LET l0 == 2 * k
        r  == l0 + 1
        l  == IF r <= c /\ Cmp(hp[r], hp[l0]) THEN r ELSE l0
    IN IF Cmp(w, hp[l]) THEN Place(hp, hm, k, w)
       ELSE DownLoop([hp EXCEPT ![k] = hp[l]], [hm EXCEPT ![hp[l].h].idx = k], c, l, w)
  ELSE Place(hp, hm, k, w)
HeapDown(hp, hm, c, k) == DownLoop(hp, hm, c, k, hp[k])

(* hash_rehash: old slots in index order, live entries only *)
RECURSIVE Rehash(_, _, _, _, _, _)
Rehash(hp, newhm, oldhm, oldn, ui, e) ==
  IF ui = oldn THEN [heap |-> hp, hmap |-> newhm]
  ELSE IF oldhm[ui].key # 0 /\ oldhm[ui].idx # 0
    THEN LET s == FindSlot(newhm, e, oldhm[ui].key) IN
         Rehash([hp EXCEPT ![oldhm[ui].idx].h = s],
                [newhm EXCEPT ![s] = [key |-> oldhm[ui].key, idx |-> oldhm[ui].idx]],
                oldhm, oldn, ui + 1, e)
    ELSE Rehash(hp, newhm, oldhm, oldn, ui + 1, e)

Grown == LET e2 == exp + 1
             hp2 == TLCEval([x \in 1..Pow2(e2) |-> IF x <= HeapSize THEN heap[x] ELSE NoEntry])
             hm2 == TLCEval([x \in 0..(MapSize(e2) - 1) |-> FreeSlot])
         IN Rehash(hp2, hm2, hmap, MapSize(exp), 0, e2)

Init ==
  /\ exp = Exp0
  /\ heap = TLCEval([x \in 1..Pow2(Exp0) |-> NoEntry])
  /\ cnt = 0
  /\ hmap = TLCEval([x \in 0..(MapSize(Exp0) - 1) |-> FreeSlot])
  /\ ctr = 0
  /\ slot0 = NoEntry
  /\ last = [op |-> "init"]
  /\ nops = 0
  /\ hist = <<>>

Live == {heap[x].k : x \in 1..cnt}

Enqueue(key, pl, d, i) ==
  /\ key # 0 => key \notin Live                 \* documented precondition
  /\ LET g   == IF cnt = HeapSize THEN Grown ELSE [heap |-> heap, hmap |-> hmap]
         e2  == IF cnt = HeapSize THEN exp + 1 ELSE exp
         hc  == cnt + 1
         k2  == IF key = 0 THEN ctr + 1 ELSE key
         s   == FindSlot(g.hmap, e2, k2)
         ent == [k |-> k2, h |-> s, pl |-> pl, d |-> d, i |-> i]
         hp1 == [g.heap EXCEPT ![hc] = ent]
         hm1 == [g.hmap EXCEPT ![s] = [key |-> k2, idx |-> hc]]
         u   == HeapUp(hp1, hm1, hc)
     IN /\ exp' = e2
        /\ heap' = u.heap
        /\ hmap' = u.hmap
        /\ cnt' = hc
        /\ ctr' = ctr + 1
        /\ last' = [op |-> "enq", key |-> key, pl |-> pl, d |-> d, i |-> i, ret |-> k2]
  /\ UNCHANGED slot0

Dequeue ==
  IF cnt = 0 THEN /\ last' = [op |-> "deq", ret |-> 0, pl |-> <<0,0,0,0>>]
                  /\ UNCHANGED <<exp, heap, cnt, hmap, ctr, slot0>>
  ELSE LET top == heap[1]
           hm1 == [hmap EXCEPT ![top.h].idx = 0]
       IN /\ slot0' = top
          /\ last' = [op |-> "deq", ret |-> top.k, pl |-> top.pl]
          /\ IF cnt > 1
               THEN LET hp2 == [heap EXCEPT ![1] = heap[cnt]]
                        hm2 == [hm1 EXCEPT ![heap[cnt].h].idx = 1]
                        c2  == cnt - 1
                        dn  == IF c2 > 1 THEN HeapDown(hp2, hm2, c2, 1) ELSE [heap |-> hp2, hmap |-> hm2]
                    IN heap' = dn.heap /\ hmap' = dn.hmap /\ cnt' = c2
               ELSE heap' = heap /\ hmap' = hm1 /\ cnt' = 0
          /\ UNCHANGED <<exp, ctr>>

Remove(key) ==
  LET idx == IF cnt = 0 THEN 0 ELSE FindIndex(hmap, exp, key) IN
  /\ last' = [op |-> "rem", key |-> key, ret |-> (idx # 0)]
  /\ IF idx = 0 THEN UNCHANGED <<exp, heap, cnt, hmap, ctr, slot0>>
     ELSE LET hm1 == [hmap EXCEPT ![heap[idx].h].idx = 0] IN
          /\ IF idx = cnt THEN heap' = heap /\ hmap' = hm1
             ELSE LET a   == heap[idx]
                      b   == heap[cnt]
                      hp2 == [heap EXCEPT ![idx] = b]
                      hm2 == [hm1 EXCEPT ![b.h].idx = idx]
                      r   == IF Cmp(a, b) THEN HeapDown(hp2, hm2, cnt - 1, idx)
                                          ELSE HeapUp(hp2, hm2, idx)
                  IN heap' = r.heap /\ hmap' = r.hmap
          /\ cnt' = cnt - 1
          /\ UNCHANGED <<exp, ctr, slot0>>

Reprioritize(key, d, i) ==
  LET idx == FindIndex(hmap, exp, key) IN
  /\ cnt > 0 /\ idx # 0                          \* documented precondition
  /\ LET old == heap[idx]
         new == [old EXCEPT !.d = d, !.i = i]
         hp1 == [heap EXCEPT ![idx] = new]
         r   == IF Cmp(old, new) THEN HeapDown(hp1, hmap, cnt, idx) ELSE HeapUp(hp1, hmap, idx)
     IN /\ heap' = r.heap /\ hmap' = r.hmap
        /\ slot0' = old                          \* the code saves the old copy in slot 0
  /\ last' = [op |-> "repri", key |-> key, d |-> d, i |-> i]
  /\ UNCHANGED <<exp, cnt, ctr>>

(* pattern cancel = collect matching keys in heap order, then remove each.   *)
(* Modelled atomically through a fold of Remove's effect.                    *)
RECURSIVE RemoveAll(_, _, _, _)
RemoveAll(hp, hm, c, ks) ==
  IF ks = <<>> THEN [heap |-> hp, hmap |-> hm, cnt |-> c]
  ELSE LET key == Head(ks)
           idx == IF c = 0 THEN 0 ELSE FindIndex(hm, exp, key)
       IN IF idx = 0 THEN RemoveAll(hp, hm, c, Tail(ks))
          ELSE LET hm1 == [hm EXCEPT ![hp[idx].h].idx = 0] IN
               IF idx = c THEN RemoveAll(hp, hm1, c - 1, Tail(ks))
               ELSE LET a == hp[idx]
                        b == hp[c]
                        hp2 == [hp EXCEPT ![idx] = b]
                        hm2 == [hm1 EXCEPT ![b.h].idx = idx]
                        r == IF Cmp(a, b) THEN HeapDown(hp2, hm2, c - 1, idx) ELSE HeapUp(hp2, hm2, idx)
                    IN RemoveAll(r.heap, r.hmap, c - 1, Tail(ks))

RECURSIVE CollectMatches(_, _)
CollectMatches(x, pat) ==
  IF x > cnt THEN <<>>
  ELSE IF Matches(heap[x].pl, pat) THEN <<heap[x].k>> \o CollectMatches(x + 1, pat)
  ELSE CollectMatches(x + 1, pat)

PatternCancel(pat) ==
  LET ks == CollectMatches(1, pat)
      r  == RemoveAll(heap, hmap, cnt, ks)
  IN /\ heap' = r.heap /\ hmap' = r.hmap /\ cnt' = r.cnt
     /\ last' = [op |-> "pcancel", pat |-> pat, ret |-> Len(ks)]
     /\ UNCHANGED <<exp, ctr, slot0>>

Clear ==
  /\ heap' = TLCEval([x \in 1..HeapSize |-> NoEntry])
  /\ hmap' = TLCEval([x \in 0..(MapSize(exp) - 1) |-> FreeSlot])
  /\ cnt' = 0 /\ slot0' = NoEntry
  /\ last' = [op |-> "clear"]
  /\ UNCHANGED <<exp, ctr>>

Reset ==
  /\ exp' = Exp0
  /\ heap' = TLCEval([x \in 1..Pow2(Exp0) |-> NoEntry])
  /\ hmap' = TLCEval([x \in 0..(MapSize(Exp0) - 1) |-> FreeSlot])
  /\ cnt' = 0 /\ slot0' = NoEntry
  /\ last' = [op |-> "reset"]
  /\ UNCHANGED ctr

(* compact numeric encoding of an operation for export *)
Code(o) ==
  CASE o.op = "enq"     -> <<1, o.key, o.pl[1], o.d, o.i>>
    [] o.op = "deq"     -> <<2, 0, 0, 0, 0>>
    [] o.op = "rem"     -> <<3, o.key, 0, 0, 0>>
    [] o.op = "repri"   -> <<4, o.key, 0, o.d, o.i>>
    [] o.op = "pcancel" -> <<5, 0, o.pat[1], 0, 0>>
    [] o.op = "clear"   -> <<6, 0, 0, 0, 0>>
    [] o.op = "reset"   -> <<7, 0, 0, 0, 0>>
    [] OTHER            -> <<0, 0, 0, 0, 0>>

Payloads == {<<a, 0, 0, 0>> : a \in PVals}
Patterns == {<<a, ANY, ANY, ANY>> : a \in PVals \cup {ANY}}

Next ==
  /\ nops < MaxOps
  /\ nops' = nops + 1
  /\ \/ \E key \in (CallerKeys \cup (IF AutoKeys THEN {0} ELSE {})), pl \in Payloads, d \in DVals, i \in IVals :
          Enqueue(key, pl, d, i)
     \/ Dequeue
     \/ \E key \in CallerKeys \cup (IF AutoKeys THEN 1..(ctr + 1) ELSE {}) : Remove(key)
     \/ \E key \in Live, d \in DVals, i \in IVals : Reprioritize(key, d, i)
     \/ \E pat \in Patterns : PatternCancel(pat)
     \/ Clear
     \/ Reset
  /\ hist' = Append(hist, Code(last'))

Spec == Init /\ [][Next]_vars

---------------------------------------------------------------------------
(* Structural invariant *)
WellFormed ==
  /\ cnt <= HeapSize
  /\ \A x \in 2..cnt : ~Cmp(heap[x], heap[x \div 2])                      \* heap order
  /\ \A x \in 1..cnt : /\ heap[x].k # 0
                       /\ hmap[heap[x].h] = [key |-> heap[x].k, idx |-> x] \* back pointers
                       /\ FindIndex(hmap, exp, heap[x].k) = x              \* every live key is found
  /\ \A x, y \in 1..cnt : x # y => heap[x].k # heap[y].k                  \* no key live twice
  /\ \A s \in DOMAIN hmap : hmap[s].idx # 0 =>
        /\ hmap[s].idx <= cnt /\ heap[hmap[s].idx].k = hmap[s].key        \* no dangling map entry
  /\ Cardinality({s \in DOMAIN hmap : hmap[s].idx # 0}) = cnt

(* Abstraction to KeyedPQ *)
Abs == [k \in Live |-> LET x == CHOOSE y \in 1..cnt : heap[y].k = k
                       IN [pl |-> heap[x].pl, d |-> heap[x].d, i |-> heap[x].i]]

(* Every step is a correct abstract step, and queries agree in every state *)
StepRefines ==
  LET m == Abs  m2 == Abs'  l == last' IN
  CASE l.op = "enq"     -> EnqueueOK(m, ctr, l.key, l.pl, l.d, l.i, l.ret, m2, ctr')
    [] l.op = "deq"     -> DequeueOK(Ord, m, l.ret, l.pl, m2) /\ (l.ret # 0 => slot0'.k = l.ret)
    [] l.op = "rem"     -> RemoveOK(m, l.key, l.ret, m2)
    [] l.op = "repri"   -> ReprioritizeOK(m, l.key, l.d, l.i, m2)
    [] l.op = "pcancel" -> PatternCancelOK(m, l.pat, l.ret, m2)
    [] l.op = "clear"   -> m2 = Empty /\ ctr' = ctr
    [] l.op = "reset"   -> m2 = Empty /\ ctr' = ctr
    [] OTHER            -> FALSE
Refinement == [][StepRefines]_vars

QueriesAgree ==
  /\ cnt = Cardinality(Keys(Abs))
  /\ cnt > 0 => IsMin(Ord, Abs, heap[1].k)                                 \* peek
  /\ \A k \in CallerKeys \cup 1..(ctr + 1) :
        (cnt > 0 /\ FindIndex(hmap, exp, k) # 0) <=> k \in Keys(Abs)       \* is_enqueued

Constr == exp <= MaxExp /\ ctr <= MaxCtr
(* side-effect invariant: print one shortest history per distinct state *)
ExportHist == PrintT(<<"H", hist>>)
View == <<exp, [x \in 1..cnt |-> heap[x]], cnt, hmap, ctr>>
=============================================================================
