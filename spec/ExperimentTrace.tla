--------------------------- MODULE ExperimentTrace ---------------------------
(* Trace validation for C19: folds the property monitor MStep and the design-  *)
(* conformance monitor DStep (both from spec/ExperimentMon.tla, the operators  *)
(* that TLC model-checks inside spec/Experiment.tla) over an ndjson trace that *)
(* harness/exp_replay recorded from the real cimba_run_experiment (env TRACE). *)
(* One history = the lines from a "Run" line to its "RunEnd"; a "Group" line   *)
(* (a new experiment description with its sequential reference results)        *)
(* restarts everything.  For every run, each broken rule is printed once:      *)
(*    <<"REJECT", line, rule, [g, run, e, ref]>>   property rule or harness-...*)
(*    <<"DRIFT",  line, rule, [g, run, e]>>        design conformance only     *)
(* and validation continues; <<"RUNS", n, rejected>> and <<"CONSUMED", n>> end *)
(* the output.                                                                 *)
EXTENDS Integers, Sequences, FiniteSets, TLC, Json, IOUtils, ExperimentMon

Tr == ndJsonDeserialize(IOEnv.TRACE)

VARIABLES l, m, d, seen, dseen, g, run, nruns, nrej
vars == <<l, m, d, seen, dseen, g, run, nruns, nrej>>

Init == l = 1 /\ m = MInit /\ d = DInit /\ seen = {} /\ dseen = {} /\ g = -1 /\ run = -1 /\ nruns = 0 /\ nrej = 0

RECURSIVE PrintAll(_, _, _, _)
PrintAll(tag, S, line, info) ==
  IF S = {} THEN TRUE
  ELSE LET x == CHOOSE y \in S : TRUE IN PrintT(<<tag, line, x, info>>) /\ PrintAll(tag, S \ {x}, line, info)

Next ==
  /\ l <= Len(Tr)
  /\ LET e == Tr[l]
         r == MStep(m, e)
         q == DStep(d, e)
         fresh == e.e \in {"Group", "Run"}
         new == r.bad \ (IF fresh THEN {} ELSE seen)
         dnew == q.bad \ (IF fresh THEN {} ELSE dseen)
         gg == IF e.e = "Group" THEN e.g ELSE g
         rr == IF e.e = "Run" THEN e.run ELSE IF e.e = "Group" THEN -1 ELSE run
         refv == IF e.e = "Result" /\ e.slot \in DOMAIN m.ref THEN m.ref[e.slot] ELSE <<>>
     IN /\ m' = r.m /\ d' = q.d
        /\ seen' = (IF fresh THEN {} ELSE seen) \cup r.bad
        /\ dseen' = (IF fresh THEN {} ELSE dseen) \cup q.bad
        /\ g' = gg /\ run' = rr
        /\ nruns' = nruns + (IF e.e = "Run" THEN 1 ELSE 0)
        /\ nrej' = nrej + (IF new # {} /\ (IF fresh THEN {} ELSE seen) = {} THEN 1 ELSE 0)
        /\ PrintAll("REJECT", new, l, [g |-> gg, run |-> rr, e |-> e, ref |-> refv])
        /\ PrintAll("DRIFT", dnew, l, [g |-> gg, run |-> rr, e |-> e])
  /\ l' = l + 1
  /\ (l' = Len(Tr) + 1) => PrintT(<<"RUNS", nruns', nrej'>>) /\ PrintT(<<"CONSUMED", Len(Tr)>>)

Spec == Init /\ [][Next]_vars
=============================================================================
