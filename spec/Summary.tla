------------------------------ MODULE Summary ------------------------------
(* Property C17: data summaries (src/cmb_datasummary.c, src/cmb_wtdsummary.c), *)
(* model-checking instance.                                                   *)
(*                                                                            *)
(* Property level (SummaryStats.tla, shared with SummaryTrace.tla): the        *)
(* abstract state of a summary is the exact power-sum tuple of its samples;    *)
(* adding adds powers, merging adds tuples; the exact statistics are rational  *)
(* functions of the tuple (X... operators).  TLC checks here that they         *)
(* coincide with the definitional statistics (sums of powers of deviations     *)
(* from the mean) of the ghost data, for every history (TupleIsData,           *)
(* ClosedFormsAreDefinitions).                                                 *)
(*                                                                            *)
(* Design level (this module): the running state of the library (count, wsum,  *)
(* m1 .. m4, min, max) and its update formulas - Meng's single-sample update,  *)
(* Pebay's pairwise merge, the weighted variants - transcribed over exact      *)
(* rationals, with the behaviour the property demands where the code departs   *)
(* from it (merging nothing gives an empty summary; the weighted variance,     *)
(* skewness and kurtosis are normalised by the weight sum).  TLC checks that   *)
(* this state refines the tuple after every history (Refines), that the        *)
(* accessors give the exact statistics (AccessorsExact) and the laws of the    *)
(* weighted summary: exact weighted mean, zero weights ignored, unit weights   *)
(* = plain summary, invariance under a common weight factor (WeightedLaws).    *)
(*                                                                            *)
(* Histories: Add / Merge(target, a, b) with a # b and the target either       *)
(* source or a third object / Reset, over NObj objects, all sample values of   *)
(* Xs and weights of Wts, at most MaxTotal stored samples.  With Export every  *)
(* explored transition prints its history for the replay harness.              *)
EXTENDS Integers, Sequences, FiniteSets, TLC, SummaryStats

CONSTANTS Weighted,   \* TRUE: cmb_wtdsummary objects, FALSE: cmb_datasummary objects
          NObj,       \* summary objects 1..NObj
          XCodes,     \* sample values are the integers c - XOff for c in XCodes (a cfg file cannot
          XOff,       \*   hold negative numbers)
          Wts,        \* weights (naturals, may contain 0); {1} when ~Weighted
          MaxTotal,   \* bound: samples (of non-zero weight) stored in all objects together
          Scales,     \* positive factors for the weight-scale law
          Export      \* TRUE: print every explored history (for the replay harness)

Xs == {c - XOff : c \in XCodes}

(* ======================= PART 2: the running state of the library ========= *)
(* normal form of the rationals kept in the state: weight sums below 37 have no other prime *)
(* factors (beyond that the state merely stops being canonical; comparisons stay exact)     *)
Primes == <<2, 3, 5, 7, 11, 13, 17, 19, 23, 29, 31>>
Nm(q) == QCancel(q, Primes)
QI(i) == QFromInt(i)
A0 == [cnt |-> 0, wsum |-> QZero, m1 |-> QZero, m2 |-> QZero, m3 |-> QZero, m4 |-> QZero, mn |-> 0, mx |-> 0]

(* cmb_datasummary_add (Meng's evaluation order: m3 uses the new m2, m4 the new m2 and m3) *)
DAdd(a, y) ==
  LET d == QSub(QI(y), a.m1)
      d2 == QMul(d, d)
      d3 == QMul(d, d2)
      n == a.cnt + 1
      dn == QDivNat(d, NFromInt(n))
      dn2 == QMul(dn, dn)
      dn3 == QMul(dn2, dn)
      m1 == Nm(QAdd(a.m1, dn))
      m2 == Nm(QAdd(a.m2, QMul(d, QSub(d, dn))))
      m3 == Nm(QSub(QAdd(a.m3, QMul(d, QSub(d2, dn2))), QMulInt(QMul(dn, m2), 3)))
      m4 == Nm(QSub(QSub(QAdd(a.m4, QMul(d, QSub(d3, dn3))), QMulInt(QMul(dn2, m2), 6)), QMulInt(QMul(dn, m3), 4)))
  IN [cnt |-> n, wsum |-> QI(n), m1 |-> m1, m2 |-> m2, m3 |-> m3, m4 |-> m4,
      mn |-> IF a.cnt = 0 THEN y ELSE IMin(a.mn, y), mx |-> IF a.cnt = 0 THEN y ELSE IMax(a.mx, y)]

(* pairwise merge (Pebay) with weights w1, w2 standing for n1, n2 in the unweighted case;  *)
(* intended design: nothing to merge -> empty summary                                      *)
PMerge(a, b, w1, w2) ==
  LET ws == QAdd(w1, w2)
      d21 == QSub(b.m1, a.m1)
      dw == QDiv(d21, ws)
      dw2 == QMul(dw, dw)
      dw3 == QMul(dw, dw2)
      w12 == QMul(w1, w2)
      m1 == Nm(QAdd(a.m1, QMul(w2, dw)))
      m2 == Nm(QAdd(QAdd(a.m2, b.m2), QMul(QMul(w12, d21), dw)))
      m3 == Nm(QAdd(QAdd(QAdd(a.m3, b.m3), QMul(QMul(QMul(w12, QSub(w1, w2)), d21), dw2)),
                    QMulInt(QMul(QSub(QMul(w1, b.m2), QMul(w2, a.m2)), dw), 3)))
      m4 == Nm(QAdd(QAdd(QAdd(QAdd(a.m4, b.m4),
                    QMul(QMul(QMul(w12, QAdd(QSub(QMul(w1, w1), w12), QMul(w2, w2))), d21), dw3)),
                    QMulInt(QMul(QAdd(QMul(QMul(w1, w1), b.m2), QMul(QMul(w2, w2), a.m2)), dw2), 6)),
                    QMulInt(QMul(QSub(QMul(w1, b.m3), QMul(w2, a.m3)), dw), 4)))
  IN IF a.cnt + b.cnt = 0 THEN A0
     ELSE [cnt |-> a.cnt + b.cnt, wsum |-> Nm(ws), m1 |-> m1, m2 |-> m2, m3 |-> m3, m4 |-> m4,
           mn |-> IF a.cnt = 0 THEN b.mn ELSE IF b.cnt = 0 THEN a.mn ELSE IMin(a.mn, b.mn),
           mx |-> IF a.cnt = 0 THEN b.mx ELSE IF b.cnt = 0 THEN a.mx ELSE IMax(a.mx, b.mx)]
DMerge(a, b) == PMerge(a, b, QI(a.cnt), QI(b.cnt))      \* cmb_datasummary_merge
WMerge(a, b) == PMerge(a, b, a.wsum, b.wsum)            \* cmb_wtdsummary_merge

(* cmb_wtdsummary_add *)
WAdd(a, x, w) ==
  IF w = 0 THEN a
  ELSE IF a.cnt = 0 THEN [A0 EXCEPT !.cnt = 1, !.wsum = QI(w), !.m1 = QI(x), !.mn = x, !.mx = x]
  ELSE LET w1 == a.wsum
           w2 == QI(w)
           ws == QAdd(w1, w2)
           d21 == QSub(QI(x), a.m1)
           dw == QDiv(d21, ws)
           dw2 == QMul(dw, dw)
           dw3 == QMul(dw, dw2)
           w12 == QMul(w1, w2)
       IN [cnt |-> a.cnt + 1, wsum |-> Nm(ws),
           m1 |-> Nm(QAdd(a.m1, QMul(w2, dw))),
           m2 |-> Nm(QAdd(a.m2, QMul(QMul(w12, d21), dw))),
           m3 |-> Nm(QSub(QAdd(a.m3, QMul(QMul(QMul(w12, QSub(w1, w2)), d21), dw2)),
                          QMulInt(QMul(QMul(w2, a.m2), dw), 3))),
           m4 |-> Nm(QSub(QAdd(QAdd(a.m4, QMul(QMul(QMul(w12, QAdd(QSub(QMul(w1, w1), w12), QMul(w2, w2))), d21), dw3)),
                               QMulInt(QMul(QMul(QMul(w2, w2), a.m2), dw2), 6)),
                          QMulInt(QMul(QMul(w2, a.m3), dw), 4))),
           mn |-> IMin(a.mn, x), mx |-> IMax(a.mx, x)]

(* accessors of the running state.  Unweighted: as in the headers.  Weighted (intended    *)
(* design): moments normalised by the weight sum, finite-sample corrections by the count. *)
AMean(a) == a.m1
AVar(a) == IF Weighted THEN QDivNat(QMulInt(QDiv(a.m2, a.wsum), a.cnt), NFromInt(a.cnt - 1))
           ELSE QDivNat(a.m2, NFromInt(a.cnt - 1))
APop(a) == IF Weighted THEN a.wsum ELSE QI(a.cnt)
ASkewSign(a) == QSign(a.m3)
ASkew2(a) ==   \* (sqrt(n(n-1))/(n-2))^2 * N m3^2 / m2^3,  N = count or weight sum
  QDivNat(QMulInt(QDiv(QMul(APop(a), QMul(a.m3, a.m3)), QMul(a.m2, QMul(a.m2, a.m2))), a.cnt * (a.cnt - 1)),
          NFromInt((a.cnt - 2) * (a.cnt - 2)))
AKurt(a) ==    \* (n-1)/((n-2)(n-3)) * ((n+1) g + 6),  g = N m4 / m2^2 - 3
  LET g == QSub(QDiv(QMul(APop(a), a.m4), QMul(a.m2, a.m2)), QI(3))
  IN QDivNat(QMulInt(QAdd(QMulInt(g, a.cnt + 1), QI(6)), a.cnt - 1), NFromInt((a.cnt - 2) * (a.cnt - 3)))
AScale(a, c) == [a EXCEPT !.wsum = QMulInt(a.wsum, c), !.m2 = QMulInt(a.m2, c), !.m3 = QMulInt(a.m3, c), !.m4 = QMulInt(a.m4, c)]

(* ======================= the state machine ================================ *)
VARIABLES abs,     \* abs[o]: power-sum tuple
          alg,     \* alg[o]: running state of the library design
          ghost,   \* ghost[o]: the data, sequence of <<value, weight>>, in the order of concatenation
          hist     \* operations so far, for export
vars == <<abs, alg, ghost, hist>>
O == 1..NObj

Init == /\ abs = [o \in O |-> T0] /\ alg = [o \in O |-> A0]
        /\ ghost = [o \in O |-> <<>>] /\ hist = <<>>

Stored(o) == abs[o].n
Total == LET RECURSIVE S(_) S(o) == IF o = 0 THEN 0 ELSE Stored(o) + S(o - 1) IN S(NObj)

(* The bound MaxTotal is an enabling condition that depends on the VIEW only (so the explored  *)
(* graph is the whole graph of view states, whatever history first reaches a state).           *)
Add(o, x, w) ==
  /\ Total < MaxTotal
  /\ abs' = [abs EXCEPT ![o] = TAdd(@, x, w)]
  /\ alg' = [alg EXCEPT ![o] = IF Weighted THEN WAdd(@, x, w) ELSE DAdd(@, x)]
  /\ ghost' = [ghost EXCEPT ![o] = Append(@, <<x, w>>)]
  /\ hist' = Append(hist, <<1, o, x, w>>)

Merge(t, a, b) ==     \* two distinct sources; the target may be either of them or a third object
  /\ a # b
  /\ Total - Stored(t) + Stored(a) + Stored(b) <= MaxTotal
  /\ abs' = [abs EXCEPT ![t] = TMerge(abs[a], abs[b])]
  /\ alg' = [alg EXCEPT ![t] = IF Weighted THEN WMerge(alg[a], alg[b]) ELSE DMerge(alg[a], alg[b])]
  /\ ghost' = [ghost EXCEPT ![t] = ghost[a] \o ghost[b]]
  /\ hist' = Append(hist, <<2, t, a, b>>)

Reset(o) ==
  /\ abs[o].n > 0
  /\ abs' = [abs EXCEPT ![o] = T0] /\ alg' = [alg EXCEPT ![o] = A0] /\ ghost' = [ghost EXCEPT ![o] = <<>>]
  /\ hist' = Append(hist, <<3, o, 0, 0>>)

Next == /\ \/ \E o \in O, x \in Xs, w \in Wts : Add(o, x, w)
           \/ \E t, a, b \in O : Merge(t, a, b)
           \/ \E o \in O : Reset(o)
        /\ Export => PrintT(<<"H", hist'>>)
Spec == Init /\ [][Next]_vars
View == <<abs, alg>>

(* ======================= what TLC checks ================================== *)
(* the tuple is the tuple of the concatenated data *)
TupleIsData == \A o \in O : abs[o] = TupleOfData(ghost[o])

(* the closed forms over the tuple are the definitional statistics of the data *)
ClosedFormsAreDefinitions ==
  \A o \in O :
    LET t == abs[o]  D == NonZero(ghost[o])  n == Len(D)  c == Central(D) IN
    /\ t.n = n
    /\ n >= 1 => /\ QEq(XMean(t), DefMean(c))
                 /\ c.C2 = ZMulNat(A2(t), t.W) /\ c.C3 = ZMulNat(A3(t), t.W) /\ c.C4 = ZMulNat(A4(t), t.W)
                 /\ t.mn = CHOOSE m \in {D[i][1] : i \in 1..n} : \A i \in 1..n : m <= D[i][1]
                 /\ t.mx = CHOOSE m \in {D[i][1] : i \in 1..n} : \A i \in 1..n : m >= D[i][1]
    /\ (~Weighted /\ n >= 2) => QEq(XVar(t), DefVar(c, n))
    /\ (~Weighted /\ n >= 3 /\ c.C2.s > 0) => XSkewSign(t) = DefSkewSign(c) /\ QEq(XSkew2(t), DefSkew2(c, n))
    /\ (~Weighted /\ n >= 4 /\ c.C2.s > 0) => QEq(XKurt(t), DefKurt(c, n))

(* the running state refines the tuple: m1 = s1/W, m2 = A2/W, m3 = A3/W^2, m4 = A4/W^3 *)
Refines ==
  \A o \in O :
    LET t == abs[o]  a == alg[o]  W2 == NMul(t.W, t.W) IN
    /\ a.cnt = t.n
    /\ t.n = 0 => a = A0
    /\ t.n > 0 => /\ a.mn = t.mn /\ a.mx = t.mx
                  /\ QEq(a.wsum, QMk(ZFromNat(t.W), <<1>>))
                  /\ QEq(a.m1, QMk(t.s1, t.W))
                  /\ QEq(a.m2, QMk(A2(t), t.W))
                  /\ QEq(a.m3, QMk(A3(t), W2))
                  /\ QEq(a.m4, QMk(A4(t), NMul(W2, t.W)))

(* the accessors of the plain summary give the exact statistics *)
AccessorsExact ==
  ~Weighted =>
  \A o \in O :
    LET t == abs[o]  a == alg[o]  nonconst == t.n >= 2 /\ A2(t).s > 0 IN
    /\ t.n >= 1 => QEq(AMean(a), XMean(t))
    /\ t.n >= 2 => QEq(AVar(a), XVar(t))
    /\ (t.n >= 3 /\ nonconst) => ASkewSign(a) = XSkewSign(t) /\ QEq(ASkew2(a), XSkew2(t))
    /\ (t.n >= 4 /\ nonconst) => QEq(AKurt(a), XKurt(t))

(* laws of the weighted summary on the intended design *)
AllUnit(D) == \A i \in 1..Len(D) : D[i][2] = 1
WeightedLaws ==
  Weighted =>
  \A o \in O :
    LET t == abs[o]  a == alg[o]  D == NonZero(ghost[o])  nonconst == t.n >= 2 /\ A2(t).s > 0 IN
    /\ t.n >= 1 => QEq(AMean(a), XMean(t))                       \* exact weighted mean
    /\ abs[o] = TupleOfData(D)                                        \* zero-weight samples are ignored
    /\ AllUnit(D) =>                                              \* all weights one: the plain summary
         /\ t.n >= 2 => QEq(AVar(a), XVar(t))
         /\ (t.n >= 3 /\ nonconst) => ASkewSign(a) = XSkewSign(t) /\ QEq(ASkew2(a), XSkew2(t))
         /\ (t.n >= 4 /\ nonconst) => QEq(AKurt(a), XKurt(t))
    /\ \A c \in Scales :                                          \* every weight times c: nothing changes
         LET b == AScale(a, c)  u == TScale(t, c)  U2 == NMul(u.W, u.W) IN
         /\ t.n >= 1 => /\ QEq(b.wsum, QMk(ZFromNat(u.W), <<1>>)) /\ QEq(b.m1, QMk(u.s1, u.W))   \* b is the state of the
                        /\ QEq(b.m2, QMk(A2(u), u.W)) /\ QEq(b.m3, QMk(A3(u), U2))                \* scaled history
                        /\ QEq(b.m4, QMk(A4(u), NMul(U2, u.W)))
                        /\ QEq(AMean(b), AMean(a))
         /\ t.n >= 2 => QEq(AVar(b), AVar(a))
         /\ (t.n >= 3 /\ nonconst) => ASkewSign(b) = ASkewSign(a) /\ QEq(ASkew2(b), ASkew2(a))
         /\ (t.n >= 4 /\ nonconst) => QEq(AKurt(b), AKurt(a))
=============================================================================
