---------------------------- MODULE DataSetTrace ----------------------------
(* Trace validation for C18: a trace recorded by harness/ds_replay from the   *)
(* real cmb_dataset / cmb_timeseries (file given by env TRACE) is judged      *)
(* line by line against the laws of DataSet.tla.                              *)
(*                                                                            *)
(* The abstract state is the content of the object under test as last         *)
(* observed (`cur`: positions, times, durations, in array order) and the      *)
(* autocorrelation coefficients of the last base dataset (`acf`).  An "init"   *)
(* or "sort" record replaces the content; everything else is an observation    *)
(* judged against it.  A rejected record is printed with its rule and          *)
(* validation goes on with the next record.                                    *)
(*                                                                            *)
(* Rules (each is a clause of the property statement):                         *)
(*   sort-not-a-permutation        sorted arrays are not the same multiset of   *)
(*                                 samples, each with its own time and weight   *)
(*   sort-not-ascending                                                         *)
(*   copy-not-exact                                                             *)
(*   median-not-a-number / median-outside-data-range / median-not-a-true-median *)
(*   fivenum-not-ordered / fivenum-outside-data-range /                         *)
(*   fivenum-median-not-a-true-median                                           *)
(*   histogram-bins-do-not-account-for-samples   (exact bin contents)           *)
(*   histogram-report-does-not-account-for-samples   (printed bars)             *)
(*   acf-lag0-not-one / acf-changed-by-shift-or-positive-scaling                *)
(*   no-result-<call>              the call whose result the property           *)
(*                                 constrains never returned (crash, abort)     *)
(* Rules starting with harness- mean the recording itself is unusable.         *)
EXTENDS DataSet, TLC, Json, IOUtils

Tr == ndJsonDeserialize(IOEnv.TRACE)

VARIABLES l,      \* next trace line
          cur,    \* content of the object under test: [kind, x, t, w, mn, mx]
          acf     \* [q, fin] of the last base dataset
vars == <<l, cur, acf>>

Empty == [kind |-> "ds", x |-> <<>>, t |-> <<>>, w |-> <<>>, mn |-> 0, mx |-> 0]
Init == l = 1 /\ cur = Empty /\ acf = [q |-> <<>>, fin |-> <<>>]

ObsOf(e, kind) == [kind |-> kind, x |-> e.x, t |-> e.t, w |-> e.w, mn |-> e.mn, mx |-> e.mx]
Decodable(o) == /\ \A i \in 1..Len(o.x) : o.x[i] >= 2 /\ o.x[i] % 2 = 0
                /\ (o.kind = "ts") => /\ Len(o.t) = Len(o.x) /\ Len(o.w) = Len(o.x)
                                       /\ \A i \in 1..Len(o.x) : o.t[i] >= 0 /\ o.w[i] >= 0
HasData == Len(cur.x) >= 1
Lost == [kind |-> "lost", x |-> <<>>, t |-> <<>>, w |-> <<>>, mn |-> 0, mx |-> 0]   \* content unknown until the next init

ConstrainedCalls == {"copy", "median", "fivenum", "hist", "acf", "sort", "sort_x", "sort_t"}

(* verdict on record e in state cur: "" = accepted *)
Verdict(e) ==
  CASE cur.kind = "lost" /\ e.op \in {"copy", "sort", "median", "fivenum", "hist"} -> ""
    [] e.op = "init" ->
         IF e.cnt # Len(e.x) \/ ~Decodable(ObsOf(e, e.kind)) \/ Len(e.x) < 1 THEN "harness-undecodable-input" ELSE ""
    [] e.op = "copy" ->
         IF ~HasData THEN "harness-no-data"
         ELSE IF e.cnt # Len(cur.x) \/ ~CopyExact(ObsOf(e, cur.kind), cur) \/ e.mn # cur.mn \/ e.mx # cur.mx
              THEN "copy-not-exact" ELSE ""
    [] e.op = "sort" ->
         IF ~HasData THEN "harness-no-data"
         ELSE LET o == ObsOf(e, cur.kind) IN
              IF e.cnt # Len(cur.x) \/ ~IsPermutation(o, cur, e.src) THEN "sort-not-a-permutation"
              ELSE IF ~Ascending(IF e.by = "x" THEN o.x ELSE o.t) THEN "sort-not-ascending"
              ELSE ""
    [] e.op = "median" ->
         IF ~HasData THEN "harness-no-data"
         ELSE IF Total(cur) = 0 THEN ""                \* no weight at all: the statement demands nothing
         ELSE IF e.pos = NaN THEN "median-not-a-number"
         ELSE IF ~InRange(cur, e.pos) THEN "median-outside-data-range"
         ELSE IF ~IsMedian(cur, e.pos) THEN "median-not-a-true-median"
         ELSE ""
    [] e.op = "fivenum" ->
         IF ~HasData THEN "harness-no-data"
         ELSE IF ~e.ok THEN "harness-unparsable-report"
         ELSE IF ~FiveOrdered(e.pos) THEN "fivenum-not-ordered"
         ELSE IF ~FiveInRange(cur, e.pos) THEN "fivenum-outside-data-range"
         ELSE IF Total(cur) > 0 /\ ~IsMedian(cur, e.pos[3]) THEN "fivenum-median-not-a-true-median"
         ELSE ""
    [] e.op = "hist" ->
         IF ~HasData THEN "harness-no-data"
         ELSE IF e.via = "internal" THEN
              IF ~e.integral \/ ~HistExactOK(cur, e.edges, e.cont) THEN "histogram-bins-do-not-account-for-samples" ELSE ""
         ELSE IF e.status = "unparsable" THEN "harness-unparsable-report"
         ELSE IF e.status = "declined" \/ ~e.contig THEN ""      \* nothing (decidable) was reported
         ELSE IF ~HistTextOK(cur, e.edges, e.bars, e.marks) THEN "histogram-report-does-not-account-for-samples"
         ELSE ""
    [] e.op = "acf" ->
         IF ~AcfLag0One(e.q, e.fin) THEN "acf-lag0-not-one" ELSE ""
    [] e.op = "acf_image" ->
         IF ~AcfLag0One(e.q, e.fin) THEN "acf-lag0-not-one"
         ELSE IF ~AcfSame(acf.q, acf.fin, e.q, e.fin) THEN "acf-changed-by-shift-or-positive-scaling"
         ELSE ""
    [] e.op = "crash" ->
         \* signal = 0: the process was stopped by a sanitizer report (memory error, undefined arithmetic:
         \* property C10, not judged here); a death while the data were being added is not C18's either
         IF e.signal # 0 /\ e.during \in ConstrainedCalls THEN "no-result-" \o e.during ELSE ""
    [] OTHER -> "harness-unknown-record"

Next ==
  /\ l <= Len(Tr)
  /\ LET e == Tr[l]  bad == Verdict(e) IN
     /\ bad # "" => PrintT(<<"REJECT", l, bad,
                              IF Len(cur.x) <= 12 /\ e.op # "init" THEN [op |-> e.op, rec |-> e, x |-> cur.x, t |-> cur.t, w |-> cur.w]
                              ELSE [op |-> e.op, n |-> Len(cur.x), kind |-> cur.kind]>>)
     /\ cur' = CASE e.op = "init" -> IF bad = "" THEN ObsOf(e, e.kind) ELSE Lost
                 [] e.op = "sort" /\ cur.kind # "lost" ->
                      IF Len(e.x) >= 1 /\ Decodable(ObsOf(e, cur.kind)) THEN ObsOf(e, cur.kind) ELSE Lost
                 [] OTHER -> cur
     /\ acf' = IF e.op = "acf" THEN [q |-> e.q, fin |-> e.fin] ELSE acf
     /\ l' = l + 1
  /\ (l' = Len(Tr) + 1) => PrintT(<<"CONSUMED", Len(Tr)>>)
Spec == Init /\ [][Next]_vars
=============================================================================
