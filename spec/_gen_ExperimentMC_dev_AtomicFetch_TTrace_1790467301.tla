---- MODULE _gen_ExperimentMC_dev_AtomicFetch_TTrace_1790467301 ----
EXTENDS Sequences, TLCExt, Toolbox, Naturals, TLC, _gen_ExperimentMC_dev_AtomicFetch

_expression ==
    LET _gen_ExperimentMC_dev_AtomicFetch_TEExpression == INSTANCE _gen_ExperimentMC_dev_AtomicFetch_TEExpression
    IN _gen_ExperimentMC_dev_AtomicFetch_TEExpression!expression
----

_trace ==
    LET _gen_ExperimentMC_dev_AtomicFetch_TETrace == INSTANCE _gen_ExperimentMC_dev_AtomicFetch_TETrace
    IN _gen_ExperimentMC_dev_AtomicFetch_TETrace!trace
----

_inv ==
    ~(
        TLCGet("level") = Len(_TETrace)
        /\
        next = (1)
        /\
        arr = ((0 :> <<<<0, 0, 0, 0>>>> @@ 1 :> <<<<0, 0, 0, 0>>>> @@ 2 :> <<<<0, 0, 0, 0>>>>))
        /\
        wk = (<<[k |-> 1, acc |-> <<>>, pc |-> "run", idx |-> 0, tmp |-> 0], [k |-> 1, acc |-> <<>>, pc |-> "run", idx |-> 0, tmp |-> 0]>>)
        /\
        dmon = ([cores |-> 2, last |-> <<0, 0>>, open |-> {1, 2}])
        /\
        viol = ({"trial-executed-more-than-once"})
        /\
        endorder = (<<>>)
        /\
        tls = (<<[rng |-> <<1, 0>>, fc |-> <<0, 0, 0>>, mask |-> {1, 2}, clk |-> 0], [rng |-> <<1, 0>>, fc |-> <<0, 0, 0>>, mask |-> {1, 2}, clk |-> 0]>>)
        /\
        main = ([c |-> 0, pc |-> "join"])
        /\
        body = ((0 :> <<>> @@ 1 :> <<>> @@ 2 :> <<>>))
        /\
        runs = ((0 :> 2 @@ 1 :> 0 @@ 2 :> 0))
        /\
        mon = ([ref |-> (0 :> <<>> @@ 1 :> <<>> @@ 2 :> <<>>), n |-> 3, seeded |-> TRUE, ph |-> "run", begun |-> (0 :> 2 @@ 1 :> 0 @@ 2 :> 0), ended |-> (0 :> 0 @@ 1 :> 0 @@ 2 :> 0), returned |-> FALSE, got |-> {}])
        /\
        drift = ({})
    )
----

_init ==
    /\ runs = _TETrace[1].runs
    /\ dmon = _TETrace[1].dmon
    /\ tls = _TETrace[1].tls
    /\ viol = _TETrace[1].viol
    /\ endorder = _TETrace[1].endorder
    /\ drift = _TETrace[1].drift
    /\ main = _TETrace[1].main
    /\ next = _TETrace[1].next
    /\ body = _TETrace[1].body
    /\ mon = _TETrace[1].mon
    /\ wk = _TETrace[1].wk
    /\ arr = _TETrace[1].arr
----

_next ==
    /\ \E i,j \in DOMAIN _TETrace:
        /\ \/ /\ j = i + 1
              /\ i = TLCGet("level")
        /\ runs  = _TETrace[i].runs
        /\ runs' = _TETrace[j].runs
        /\ dmon  = _TETrace[i].dmon
        /\ dmon' = _TETrace[j].dmon
        /\ tls  = _TETrace[i].tls
        /\ tls' = _TETrace[j].tls
        /\ viol  = _TETrace[i].viol
        /\ viol' = _TETrace[j].viol
        /\ endorder  = _TETrace[i].endorder
        /\ endorder' = _TETrace[j].endorder
        /\ drift  = _TETrace[i].drift
        /\ drift' = _TETrace[j].drift
        /\ main  = _TETrace[i].main
        /\ main' = _TETrace[j].main
        /\ next  = _TETrace[i].next
        /\ next' = _TETrace[j].next
        /\ body  = _TETrace[i].body
        /\ body' = _TETrace[j].body
        /\ mon  = _TETrace[i].mon
        /\ mon' = _TETrace[j].mon
        /\ wk  = _TETrace[i].wk
        /\ wk' = _TETrace[j].wk
        /\ arr  = _TETrace[i].arr
        /\ arr' = _TETrace[j].arr

\* Uncomment the ASSUME below to write the states of the error trace
\* to the given file in Json format. Note that you can pass any tuple
\* to `JsonSerialize`. For example, a sub-sequence of _TETrace.
    \* ASSUME
    \*     LET J == INSTANCE Json
    \*         IN J!JsonSerialize("_gen_ExperimentMC_dev_AtomicFetch_TTrace_1790467301.json", _TETrace)

=============================================================================

 Note that you can extract this module `_gen_ExperimentMC_dev_AtomicFetch_TEExpression`
  to a dedicated file to reuse `expression` (the module in the 
  dedicated `_gen_ExperimentMC_dev_AtomicFetch_TEExpression.tla` file takes precedence 
  over the module `_gen_ExperimentMC_dev_AtomicFetch_TEExpression` below).

---- MODULE _gen_ExperimentMC_dev_AtomicFetch_TEExpression ----
EXTENDS Sequences, TLCExt, Toolbox, Naturals, TLC, _gen_ExperimentMC_dev_AtomicFetch

expression == 
    [
        \* To hide variables of the `_gen_ExperimentMC_dev_AtomicFetch` spec from the error trace,
        \* remove the variables below.  The trace will be written in the order
        \* of the fields of this record.
        runs |-> runs
        ,dmon |-> dmon
        ,tls |-> tls
        ,viol |-> viol
        ,endorder |-> endorder
        ,drift |-> drift
        ,main |-> main
        ,next |-> next
        ,body |-> body
        ,mon |-> mon
        ,wk |-> wk
        ,arr |-> arr
        
        \* Put additional constant-, state-, and action-level expressions here:
        \* ,_stateNumber |-> _TEPosition
        \* ,_runsUnchanged |-> runs = runs'
        
        \* Format the `runs` variable as Json value.
        \* ,_runsJson |->
        \*     LET J == INSTANCE Json
        \*     IN J!ToJson(runs)
        
        \* Lastly, you may build expressions over arbitrary sets of states by
        \* leveraging the _TETrace operator.  For example, this is how to
        \* count the number of times a spec variable changed up to the current
        \* state in the trace.
        \* ,_runsModCount |->
        \*     LET F[s \in DOMAIN _TETrace] ==
        \*         IF s = 1 THEN 0
        \*         ELSE IF _TETrace[s].runs # _TETrace[s-1].runs
        \*             THEN 1 + F[s-1] ELSE F[s-1]
        \*     IN F[_TEPosition - 1]
    ]

=============================================================================



Parsing and semantic processing can take forever if the trace below is long.
 In this case, it is advised to uncomment the module below to deserialize the
 trace from a generated binary file.

\*
\*---- MODULE _gen_ExperimentMC_dev_AtomicFetch_TETrace ----
\*EXTENDS IOUtils, TLC, _gen_ExperimentMC_dev_AtomicFetch
\*
\*trace == IODeserialize("_gen_ExperimentMC_dev_AtomicFetch_TTrace_1790467301.bin", TRUE)
\*
\*=============================================================================
\*

---- MODULE _gen_ExperimentMC_dev_AtomicFetch_TETrace ----
EXTENDS TLC, _gen_ExperimentMC_dev_AtomicFetch

trace == 
    <<
    ([next |-> 0,arr |-> (0 :> <<<<0, 0, 0, 0>>>> @@ 1 :> <<<<0, 0, 0, 0>>>> @@ 2 :> <<<<0, 0, 0, 0>>>>),wk |-> <<[k |-> 0, acc |-> <<>>, pc |-> "off", idx |-> 0, tmp |-> 0], [k |-> 0, acc |-> <<>>, pc |-> "off", idx |-> 0, tmp |-> 0]>>,dmon |-> [cores |-> 2, last |-> <<>>, open |-> {}],viol |-> {},endorder |-> <<>>,tls |-> <<[rng |-> <<0, 0>>, fc |-> <<0, 0, 0>>, mask |-> {1, 2}, clk |-> 0], [rng |-> <<0, 0>>, fc |-> <<0, 0, 0>>, mask |-> {1, 2}, clk |-> 0]>>,main |-> [c |-> 0, pc |-> "spawn"],body |-> (0 :> <<>> @@ 1 :> <<>> @@ 2 :> <<>>),runs |-> (0 :> 0 @@ 1 :> 0 @@ 2 :> 0),mon |-> [ref |-> (0 :> <<>> @@ 1 :> <<>> @@ 2 :> <<>>), n |-> 3, seeded |-> TRUE, ph |-> "run", begun |-> (0 :> 0 @@ 1 :> 0 @@ 2 :> 0), ended |-> (0 :> 0 @@ 1 :> 0 @@ 2 :> 0), returned |-> FALSE, got |-> {}],drift |-> {}]),
    ([next |-> 0,arr |-> (0 :> <<<<0, 0, 0, 0>>>> @@ 1 :> <<<<0, 0, 0, 0>>>> @@ 2 :> <<<<0, 0, 0, 0>>>>),wk |-> <<[k |-> 0, acc |-> <<>>, pc |-> "fetch", idx |-> 0, tmp |-> 0], [k |-> 0, acc |-> <<>>, pc |-> "off", idx |-> 0, tmp |-> 0]>>,dmon |-> [cores |-> 2, last |-> <<>>, open |-> {}],viol |-> {},endorder |-> <<>>,tls |-> <<[rng |-> <<0, 0>>, fc |-> <<0, 0, 0>>, mask |-> {1, 2}, clk |-> 0], [rng |-> <<0, 0>>, fc |-> <<0, 0, 0>>, mask |-> {1, 2}, clk |-> 0]>>,main |-> [c |-> 1, pc |-> "spawn"],body |-> (0 :> <<>> @@ 1 :> <<>> @@ 2 :> <<>>),runs |-> (0 :> 0 @@ 1 :> 0 @@ 2 :> 0),mon |-> [ref |-> (0 :> <<>> @@ 1 :> <<>> @@ 2 :> <<>>), n |-> 3, seeded |-> TRUE, ph |-> "run", begun |-> (0 :> 0 @@ 1 :> 0 @@ 2 :> 0), ended |-> (0 :> 0 @@ 1 :> 0 @@ 2 :> 0), returned |-> FALSE, got |-> {}],drift |-> {}]),
    ([next |-> 0,arr |-> (0 :> <<<<0, 0, 0, 0>>>> @@ 1 :> <<<<0, 0, 0, 0>>>> @@ 2 :> <<<<0, 0, 0, 0>>>>),wk |-> <<[k |-> 0, acc |-> <<>>, pc |-> "fetch", idx |-> 0, tmp |-> 0], [k |-> 0, acc |-> <<>>, pc |-> "fetch", idx |-> 0, tmp |-> 0]>>,dmon |-> [cores |-> 2, last |-> <<>>, open |-> {}],viol |-> {},endorder |-> <<>>,tls |-> <<[rng |-> <<0, 0>>, fc |-> <<0, 0, 0>>, mask |-> {1, 2}, clk |-> 0], [rng |-> <<0, 0>>, fc |-> <<0, 0, 0>>, mask |-> {1, 2}, clk |-> 0]>>,main |-> [c |-> 0, pc |-> "join"],body |-> (0 :> <<>> @@ 1 :> <<>> @@ 2 :> <<>>),runs |-> (0 :> 0 @@ 1 :> 0 @@ 2 :> 0),mon |-> [ref |-> (0 :> <<>> @@ 1 :> <<>> @@ 2 :> <<>>), n |-> 3, seeded |-> TRUE, ph |-> "run", begun |-> (0 :> 0 @@ 1 :> 0 @@ 2 :> 0), ended |-> (0 :> 0 @@ 1 :> 0 @@ 2 :> 0), returned |-> FALSE, got |-> {}],drift |-> {}]),
    ([next |-> 0,arr |-> (0 :> <<<<0, 0, 0, 0>>>> @@ 1 :> <<<<0, 0, 0, 0>>>> @@ 2 :> <<<<0, 0, 0, 0>>>>),wk |-> <<[k |-> 0, acc |-> <<>>, pc |-> "fetch2", idx |-> 0, tmp |-> 0], [k |-> 0, acc |-> <<>>, pc |-> "fetch", idx |-> 0, tmp |-> 0]>>,dmon |-> [cores |-> 2, last |-> <<>>, open |-> {}],viol |-> {},endorder |-> <<>>,tls |-> <<[rng |-> <<0, 0>>, fc |-> <<0, 0, 0>>, mask |-> {1, 2}, clk |-> 0], [rng |-> <<0, 0>>, fc |-> <<0, 0, 0>>, mask |-> {1, 2}, clk |-> 0]>>,main |-> [c |-> 0, pc |-> "join"],body |-> (0 :> <<>> @@ 1 :> <<>> @@ 2 :> <<>>),runs |-> (0 :> 0 @@ 1 :> 0 @@ 2 :> 0),mon |-> [ref |-> (0 :> <<>> @@ 1 :> <<>> @@ 2 :> <<>>), n |-> 3, seeded |-> TRUE, ph |-> "run", begun |-> (0 :> 0 @@ 1 :> 0 @@ 2 :> 0), ended |-> (0 :> 0 @@ 1 :> 0 @@ 2 :> 0), returned |-> FALSE, got |-> {}],drift |-> {}]),
    ([next |-> 0,arr |-> (0 :> <<<<0, 0, 0, 0>>>> @@ 1 :> <<<<0, 0, 0, 0>>>> @@ 2 :> <<<<0, 0, 0, 0>>>>),wk |-> <<[k |-> 0, acc |-> <<>>, pc |-> "fetch2", idx |-> 0, tmp |-> 0], [k |-> 0, acc |-> <<>>, pc |-> "fetch2", idx |-> 0, tmp |-> 0]>>,dmon |-> [cores |-> 2, last |-> <<>>, open |-> {}],viol |-> {},endorder |-> <<>>,tls |-> <<[rng |-> <<0, 0>>, fc |-> <<0, 0, 0>>, mask |-> {1, 2}, clk |-> 0], [rng |-> <<0, 0>>, fc |-> <<0, 0, 0>>, mask |-> {1, 2}, clk |-> 0]>>,main |-> [c |-> 0, pc |-> "join"],body |-> (0 :> <<>> @@ 1 :> <<>> @@ 2 :> <<>>),runs |-> (0 :> 0 @@ 1 :> 0 @@ 2 :> 0),mon |-> [ref |-> (0 :> <<>> @@ 1 :> <<>> @@ 2 :> <<>>), n |-> 3, seeded |-> TRUE, ph |-> "run", begun |-> (0 :> 0 @@ 1 :> 0 @@ 2 :> 0), ended |-> (0 :> 0 @@ 1 :> 0 @@ 2 :> 0), returned |-> FALSE, got |-> {}],drift |-> {}]),
    ([next |-> 1,arr |-> (0 :> <<<<0, 0, 0, 0>>>> @@ 1 :> <<<<0, 0, 0, 0>>>> @@ 2 :> <<<<0, 0, 0, 0>>>>),wk |-> <<[k |-> 0, acc |-> <<>>, pc |-> "fetch2", idx |-> 0, tmp |-> 0], [k |-> 0, acc |-> <<>>, pc |-> "begin", idx |-> 0, tmp |-> 0]>>,dmon |-> [cores |-> 2, last |-> <<>>, open |-> {}],viol |-> {},endorder |-> <<>>,tls |-> <<[rng |-> <<0, 0>>, fc |-> <<0, 0, 0>>, mask |-> {1, 2}, clk |-> 0], [rng |-> <<0, 0>>, fc |-> <<0, 0, 0>>, mask |-> {1, 2}, clk |-> 0]>>,main |-> [c |-> 0, pc |-> "join"],body |-> (0 :> <<>> @@ 1 :> <<>> @@ 2 :> <<>>),runs |-> (0 :> 0 @@ 1 :> 0 @@ 2 :> 0),mon |-> [ref |-> (0 :> <<>> @@ 1 :> <<>> @@ 2 :> <<>>), n |-> 3, seeded |-> TRUE, ph |-> "run", begun |-> (0 :> 0 @@ 1 :> 0 @@ 2 :> 0), ended |-> (0 :> 0 @@ 1 :> 0 @@ 2 :> 0), returned |-> FALSE, got |-> {}],drift |-> {}]),
    ([next |-> 1,arr |-> (0 :> <<<<0, 0, 0, 0>>>> @@ 1 :> <<<<0, 0, 0, 0>>>> @@ 2 :> <<<<0, 0, 0, 0>>>>),wk |-> <<[k |-> 0, acc |-> <<>>, pc |-> "begin", idx |-> 0, tmp |-> 0], [k |-> 0, acc |-> <<>>, pc |-> "begin", idx |-> 0, tmp |-> 0]>>,dmon |-> [cores |-> 2, last |-> <<>>, open |-> {}],viol |-> {},endorder |-> <<>>,tls |-> <<[rng |-> <<0, 0>>, fc |-> <<0, 0, 0>>, mask |-> {1, 2}, clk |-> 0], [rng |-> <<0, 0>>, fc |-> <<0, 0, 0>>, mask |-> {1, 2}, clk |-> 0]>>,main |-> [c |-> 0, pc |-> "join"],body |-> (0 :> <<>> @@ 1 :> <<>> @@ 2 :> <<>>),runs |-> (0 :> 0 @@ 1 :> 0 @@ 2 :> 0),mon |-> [ref |-> (0 :> <<>> @@ 1 :> <<>> @@ 2 :> <<>>), n |-> 3, seeded |-> TRUE, ph |-> "run", begun |-> (0 :> 0 @@ 1 :> 0 @@ 2 :> 0), ended |-> (0 :> 0 @@ 1 :> 0 @@ 2 :> 0), returned |-> FALSE, got |-> {}],drift |-> {}]),
    ([next |-> 1,arr |-> (0 :> <<<<0, 0, 0, 0>>>> @@ 1 :> <<<<0, 0, 0, 0>>>> @@ 2 :> <<<<0, 0, 0, 0>>>>),wk |-> <<[k |-> 1, acc |-> <<>>, pc |-> "run", idx |-> 0, tmp |-> 0], [k |-> 0, acc |-> <<>>, pc |-> "begin", idx |-> 0, tmp |-> 0]>>,dmon |-> [cores |-> 2, last |-> <<0>>, open |-> {1}],viol |-> {},endorder |-> <<>>,tls |-> <<[rng |-> <<1, 0>>, fc |-> <<0, 0, 0>>, mask |-> {1, 2}, clk |-> 0], [rng |-> <<0, 0>>, fc |-> <<0, 0, 0>>, mask |-> {1, 2}, clk |-> 0]>>,main |-> [c |-> 0, pc |-> "join"],body |-> (0 :> <<>> @@ 1 :> <<>> @@ 2 :> <<>>),runs |-> (0 :> 1 @@ 1 :> 0 @@ 2 :> 0),mon |-> [ref |-> (0 :> <<>> @@ 1 :> <<>> @@ 2 :> <<>>), n |-> 3, seeded |-> TRUE, ph |-> "run", begun |-> (0 :> 1 @@ 1 :> 0 @@ 2 :> 0), ended |-> (0 :> 0 @@ 1 :> 0 @@ 2 :> 0), returned |-> FALSE, got |-> {}],drift |-> {}]),
    ([next |-> 1,arr |-> (0 :> <<<<0, 0, 0, 0>>>> @@ 1 :> <<<<0, 0, 0, 0>>>> @@ 2 :> <<<<0, 0, 0, 0>>>>),wk |-> <<[k |-> 1, acc |-> <<>>, pc |-> "run", idx |-> 0, tmp |-> 0], [k |-> 1, acc |-> <<>>, pc |-> "run", idx |-> 0, tmp |-> 0]>>,dmon |-> [cores |-> 2, last |-> <<0, 0>>, open |-> {1, 2}],viol |-> {"trial-executed-more-than-once"},endorder |-> <<>>,tls |-> <<[rng |-> <<1, 0>>, fc |-> <<0, 0, 0>>, mask |-> {1, 2}, clk |-> 0], [rng |-> <<1, 0>>, fc |-> <<0, 0, 0>>, mask |-> {1, 2}, clk |-> 0]>>,main |-> [c |-> 0, pc |-> "join"],body |-> (0 :> <<>> @@ 1 :> <<>> @@ 2 :> <<>>),runs |-> (0 :> 2 @@ 1 :> 0 @@ 2 :> 0),mon |-> [ref |-> (0 :> <<>> @@ 1 :> <<>> @@ 2 :> <<>>), n |-> 3, seeded |-> TRUE, ph |-> "run", begun |-> (0 :> 2 @@ 1 :> 0 @@ 2 :> 0), ended |-> (0 :> 0 @@ 1 :> 0 @@ 2 :> 0), returned |-> FALSE, got |-> {}],drift |-> {}])
    >>
----


=============================================================================

---- CONFIG _gen_ExperimentMC_dev_AtomicFetch_TTrace_1790467301 ----
CONSTANTS
    W = 2
    N = 3
    Bodies <- c_Bodies
    FlipW = 2
    AtomicFetch = FALSE
    JoinsAll = TRUE
    StrictBound = TRUE
    SeedClearsFlipCache = TRUE
    ThreadLocalState = TRUE

INVARIANT
    _inv

CHECK_DEADLOCK
    \* CHECK_DEADLOCK off because of PROPERTY or INVARIANT above.
    FALSE

INIT
    _init

NEXT
    _next

CONSTANT
    _TETrace <- _trace

ALIAS
    _expression
=============================================================================
\* Generated on Sun Sep 27 00:01:45 UTC 2026