----------------------------- MODULE KernelConf -----------------------------
(* Conformance of the kernel MODEL to the real library ("drift" detection):   *)
(* for programs that TLC exported from a configuration of Kernel.tla, the     *)
(* model is run deterministically on the program given in the trace header    *)
(* and every event it emits must be the next event the harness recorded       *)
(* (handles, times, signals, results and the snapshot fields included).       *)
(* A mismatch is NOT a property violation: it says that the code takes a path *)
(* the model does not describe.  It is printed as <<"DRIFT", line, what>> and  *)
(* counted in the evidence; validation resumes at the next program.           *)
(* The module is instantiated per configuration by a generated wrapper that   *)
(* binds the constants of Kernel.tla exactly as the model-checking run did.   *)
EXTENDS Kernel, Json, IOUtils

Tr == ndJsonDeserialize(IOEnv.TRACE)

VARIABLES l,      \* next trace line
          exp,    \* events the model has emitted and the trace still has to show
          code,   \* the program of the current trace segment (from its Prog header)
          ok      \* FALSE while skipping to the next program after a drift
cvars == <<l, exp, code, ok, k, mon, viol, script>>

Ignorable(e) == e.e \in {"Wake", "Skip", "Quiescent", "EndProg", "Crash", "Runaway"}

SeqAsSet(s) == {s[i] : i \in 1..Len(s)}
SnapMatch(a, b) ==      \* a: model, b: trace
  /\ a.t = b.t
  /\ \A p \in PIDs : /\ a.st[p] = b.st[p] /\ a.prio[p] = b.prio[p] /\ a.xv[p] = b.xv[p]
                     /\ a.pend[p] = b.pend[p] /\ a.naw[p] = b.naw[p] /\ a.nhold[p] = b.nhold[p]
                     /\ a.pool.held[p] = b.pool.held[p] /\ a.amnt[p] = b.amnt[p]
  /\ \A r \in 1..NRes : a.res[r] = b.res[r]
  /\ a.pool.inuse = b.pool.inuse
  /\ a.buf.level = b.buf.level
  /\ a.oq.len = b.oq.len /\ a.pq.len = b.pq.len
  /\ \A g \in Guards : SeqAsSet(a.gq[g]) = SeqAsSet(b.gq[g])

Match(a, b) ==
  /\ a.e = b.e
  /\ CASE a.e = "Snap" -> SnapMatch(a, b)
       [] a.e = "Exec" -> a.h = b.h /\ a.t = b.t /\ a.pr = b.pr /\ a.subj = b.subj
       [] a.e \in {"Call"} -> a.p = b.p /\ a.op = b.op /\ a.a = b.a /\ a.t = b.t
       [] a.e = "Ret" -> a.p = b.p /\ a.op = b.op /\ a.sig = b.sig /\ a.t = b.t /\ a.out[1] = b.out[1]
       [] a.e = "Do" -> a.p = b.p /\ a.op = b.op /\ a.a = b.a /\ a.t = b.t /\ a.out = b.out
       [] a.e = "Enter" -> a.p = b.p /\ a.t = b.t /\ a.naw = b.naw /\ a.nhold = b.nhold
       [] a.e \in {"GuardEnq"} -> a.g = b.g /\ a.p = b.p /\ a.pr = b.pr /\ a.t = b.t
       [] a.e \in {"GuardGrant"} -> a.g = b.g /\ a.p = b.p /\ a.all = b.all
       [] a.e \in {"GuardLeave"} -> a.g = b.g /\ a.p = b.p /\ a.sig = b.sig
       [] a.e \in {"GuardCancel", "GuardRemove"} -> a.g = b.g /\ a.p = b.p
       [] a.e = "StopCall" -> a.p = b.p /\ a.q = b.q /\ a.val = b.val
       [] a.e \in {"ExitCall", "Return"} -> a.p = b.p /\ a.val = b.val
       [] a.e = "UEvent" -> a.i = b.i
       [] a.e \in {"Pred", "Truth"} -> a.p = b.p /\ a.v = b.v
       [] a.e = "Hist" -> a.o = b.o /\ a.n = b.n /\ a.wsum_milli = b.wsum_milli
                          /\ \A i \in 1..a.n : a.xs[i] = b.xs[i] /\ a.ts[i] = b.ts[i]
       [] a.e \in {"Disp", "CSigBegin", "FwdBegin"} -> TRUE
       [] OTHER -> TRUE

(* position (0: none) of an expected predicate evaluation equal to e within the run of evaluations at the head of exp *)
PredAt(ex, e) ==
  LET run == {i \in 1..Len(ex) : \A j \in 1..i : ex[j].e = "Pred"}
      hit == {i \in run : Match(ex[i], e)}
  IN IF hit = {} THEN 0 ELSE CHOOSE i \in hit : \A j \in hit : i <= j

ProgIdx == {x \in 1..Len(Tr) : Tr[x].e = "Prog"}
NextProg(x) == LET later == {y \in ProgIdx : y > x} IN
               IF later = {} THEN Len(Tr) + 1 ELSE CHOOSE y \in later : \A z \in later : y <= z

InstrOf(c) == <<c[1], c[2], c[3], c[4]>>

(* the model's own deterministic step on the program `code` *)
ModelStep(kk) ==
  IF kk.run = 0
    THEN IF kk.evq = {} THEN [k |-> kk, ev |-> <<>>, done |-> TRUE]
         ELSE LET e == CHOOSE x \in NextEvents(kk) : TRUE
                  S1 == DispatchEv(S0(kk), e)
                  S2 == IF S1.k.run # 0 /\ S1.k.call[S1.k.run].op # "none" /\ e.kind # "start"
                          THEN Continue(S1, S1.k.run, S1.k.sigin[S1.k.run]) ELSE S1
              IN [k |-> NormH(S2.k), ev |-> S2.ev, done |-> FALSE]
    ELSE LET p == kk.run IN
         IF kk.pc[p] >= Len(code[p])
           THEN LET S == ReturnFromBody(S0(kk), p) IN [k |-> NormH(S.k), ev |-> S.ev, done |-> FALSE]
           ELSE LET in == InstrOf(code[p][kk.pc[p] + 1])
                    kpc == [kk EXCEPT !.pc[p] = @ + 1]
                    S == IF Legal(kk, p, in) THEN Exec1(S0(kpc), p, in) ELSE S0(kpc)
                IN [k |-> NormH(S.k), ev |-> S.ev, done |-> FALSE]

CInit ==
  /\ l = 1 /\ exp = <<>> /\ code = <<>> /\ ok = FALSE
  /\ Init

CNext ==
  /\ l <= Len(Tr) + 1
  /\ UNCHANGED <<mon, viol, script>>
  /\ IF l > Len(Tr)
       THEN /\ PrintT(<<"CONSUMED", Len(Tr)>>) /\ l' = Len(Tr) + 2 /\ UNCHANGED <<exp, code, ok, k>>
     ELSE LET e == Tr[l] IN
       IF e.e = "Prog"
         THEN \* a new program: the model starts afresh; its first emitted event is the initial snapshot
              /\ code' = e.code /\ ok' = TRUE /\ l' = l + 1
              /\ LET SU == LET RECURSIVE Ue(_, _)
                               Ue(S, i) == IF i > NUEv THEN S
                                           ELSE Ue(SetK(Sched(S, "uev", UEvs[i][1], UEvs[i][2], 0, i),
                                                        [Sched(S, "uev", UEvs[i][1], UEvs[i][2], 0, i).k EXCEPT !.uevh[i] = S.k.nextH]), i + 1)
                           IN Ue(S0(K0), 1)
                     S1 == LET RECURSIVE St(_, _)
                               St(S, p) == IF p > NP THEN S ELSE St(IF Auto[p] = 1 THEN Sched(S, "start", 0, Prio0[p], p, 0) ELSE S, p + 1)
                           IN St(SU, 1)
                     S2 == Snap(S1)
                 IN k' = S2.k /\ exp' = S2.ev
       ELSE IF ~ok \/ Ignorable(e) THEN l' = l + 1 /\ UNCHANGED <<exp, code, ok, k>>
       ELSE IF exp # <<>>
         THEN IF Match(Head(exp), e)
                THEN l' = l + 1 /\ exp' = Tail(exp) /\ UNCHANGED <<code, ok, k>>
              ELSE IF e.e = "Pred" /\ Head(exp).e = "Pred" /\ PredAt(exp, e) > 0
                \* one pass of predicate evaluations walks the heap array, whose order is unspecified: compared as a set
                THEN l' = l + 1 /\ exp' = [i \in 1..(Len(exp) - 1) |-> IF i < PredAt(exp, e) THEN exp[i] ELSE exp[i + 1]]
                     /\ UNCHANGED <<code, ok, k>>
                ELSE /\ PrintT(<<"DRIFT", l, Head(exp).e, e.e>>)
                     /\ PrintT(<<"EXPECTED", Head(exp)>>)
                     /\ l' = NextProg(l) /\ exp' = <<>> /\ ok' = FALSE /\ UNCHANGED <<code, k>>
       ELSE LET r == ModelStep(k) IN
            IF r.done /\ e.e \in {"Snap", "Hist"}
              THEN l' = l + 1 /\ UNCHANGED <<exp, code, ok, k>>      \* the harness's final snapshot after Quiescent
            ELSE IF r.done
              THEN /\ PrintT(<<"DRIFT", l, "model-quiescent", e.e>>)
                   /\ l' = NextProg(l) /\ exp' = <<>> /\ ok' = FALSE /\ UNCHANGED <<code, k>>
              ELSE k' = r.k /\ exp' = r.ev /\ UNCHANGED <<l, code, ok>>

CSpec == CInit /\ [][CNext]_cvars
=============================================================================
