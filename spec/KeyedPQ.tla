---------------------------- MODULE KeyedPQ ----------------------------
(* C02 property specification: what "behaves as a keyed priority queue"      *)
(* means.  The abstract state is a map from live keys to (payload, sort      *)
(* keys).  Nothing here knows about heaps, hash maps, tombstones or growth.  *)
(*                                                                           *)
(* Entries are records [k |-> key, pl |-> <<a,b,c,d>>, d |-> Int, i |-> Int] *)
(* The ordering is a parameter: Before(name, a, b) for the orderings that    *)
(* the library configures its hashheaps with.                                *)
EXTENDS Integers, Sequences, FiniteSets

ANY == -1   \* wildcard in patterns

(* The five orderings used in the library.  "a goes before b".               *)
Before(ord, a, b) ==
  CASE ord = "default" -> a.d < b.d
    [] ord = "event"   -> \/ a.d < b.d
                          \/ a.d = b.d /\ a.i > b.i
                          \/ a.d = b.d /\ a.i = b.i /\ a.k < b.k
    [] ord = "guard"   -> \/ a.i > b.i
                          \/ a.i = b.i /\ a.d < b.d
                          \/ a.i = b.i /\ a.d = b.d /\ a.k < b.k
    [] ord = "holder"  -> \/ a.i < b.i
                          \/ a.i = b.i /\ a.k > b.k
    [] ord = "pq"      -> \/ a.i > b.i
                          \/ a.i = b.i /\ a.k < b.k

Keys(m) == DOMAIN m
Entry(m, k) == [k |-> k, pl |-> m[k].pl, d |-> m[k].d, i |-> m[k].i]
Entries(m) == {Entry(m, k) : k \in Keys(m)}

(* e is a minimum of m: nothing goes strictly before it *)
IsMin(ord, m, k) == k \in Keys(m) /\ \A j \in Keys(m) : ~Before(ord, Entry(m, j), Entry(m, k))
Minima(ord, m) == {k \in Keys(m) : IsMin(ord, m, k)}

Matches(pl, pat) == \A x \in 1..4 : pat[x] = ANY \/ pat[x] = pl[x]
Matching(m, pat) == {k \in Keys(m) : Matches(m[k].pl, pat)}

Put(m, k, pl, d, i) == [j \in Keys(m) \cup {k} |-> IF j = k THEN [pl |-> pl, d |-> d, i |-> i] ELSE m[j]]
Drop(m, ks) == [j \in Keys(m) \ ks |-> m[j]]
Empty == [j \in {} |-> [pl |-> <<0,0,0,0>>, d |-> 0, i |-> 0]]

(* ---- the operations, as relations between m, arguments, result, m' ---- *)
(* enqueue with caller key k # 0 (precondition: k not live) or auto key = counter+1 *)
EnqueueOK(m, ctr, k, pl, d, i, ret, m2, ctr2) ==
  /\ ctr2 = ctr + 1
  /\ ret = IF k = 0 THEN ctr2 ELSE k
  /\ ret \notin Keys(m)
  /\ m2 = Put(m, ret, pl, d, i)

(* dequeue returns a minimum (rk = its key, rpl = its payload); 0 when empty *)
DequeueOK(ord, m, rk, rpl, m2) ==
  IF Keys(m) = {} THEN rk = 0 /\ m2 = m
  ELSE /\ rk \in Minima(ord, m)
       /\ rpl = m[rk].pl
       /\ m2 = Drop(m, {rk})

PeekOK(ord, m, rpl, rd, ri) ==
  \E k \in Minima(ord, m) : rpl = m[k].pl /\ rd = m[k].d /\ ri = m[k].i

RemoveOK(m, k, ret, m2) ==
  /\ ret = (k \in Keys(m))
  /\ m2 = Drop(m, {k})

ReprioritizeOK(m, k, d, i, m2) ==
  /\ k \in Keys(m)
  /\ m2 = Put(m, k, m[k].pl, d, i)

FindOK(m, pat, ret) ==
  IF Matching(m, pat) = {} THEN ret = 0 ELSE ret \in Matching(m, pat)

CountOK(m, pat, ret) == ret = Cardinality(Matching(m, pat))

PatternCancelOK(m, pat, ret, m2) ==
  /\ ret = Cardinality(Matching(m, pat))
  /\ m2 = Drop(m, Matching(m, pat))
=============================================================================
