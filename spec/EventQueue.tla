---------------------------- MODULE EventQueue ----------------------------
(* C01: closed model of the event queue for TLC (all histories over a bounded  *)
(* alphabet, including operations issued from inside a running action); the  *)
(* operators are in EventQueueOps.tla, shared with EventQueueTrace.tla.       *)
EXTENDS EventQueueOps

---------------------------------------------------------------------------
(* A small closed model for TLC: all histories over a bounded alphabet.      *)
CONSTANTS Times, Prios, Acts, Subjs, MaxH, MaxBody

VARIABLES now, pend, nextH, cur, inact, body, fired, gone
vars == <<now, pend, nextH, cur, inact, body, fired, gone>>

Init == /\ now = 0 /\ pend = NoEvents /\ nextH = 1 /\ cur = 0 /\ inact = FALSE /\ body = 0
        /\ fired = <<>> /\ gone = {}

(* operations that may be issued by the driver between events or by a running action *)
Schedule(t, pr, a, s) ==
  /\ t >= now /\ nextH <= MaxH
  /\ pend' = With(pend, nextH, [t |-> t, pr |-> pr, a |-> a, s |-> s, o |-> 0])
  /\ nextH' = nextH + 1
  /\ UNCHANGED <<now, cur, inact, fired, gone>>

Cancel(h) ==
  /\ pend' = Without(pend, {h})
  /\ gone' = IF h \in DOMAIN pend THEN gone \cup {h} ELSE gone
  /\ UNCHANGED <<now, nextH, cur, inact, fired>>

Reschedule(h, t) ==
  /\ h \in DOMAIN pend /\ t >= now
  /\ pend' = [pend EXCEPT ![h].t = t]
  /\ UNCHANGED <<now, nextH, cur, inact, fired, gone>>

Reprioritize(h, pr) ==
  /\ h \in DOMAIN pend
  /\ pend' = [pend EXCEPT ![h].pr = pr]
  /\ UNCHANGED <<now, nextH, cur, inact, fired, gone>>

PatternCancel(pat) ==
  /\ pend' = Without(pend, EvMatching(pend, pat))
  /\ gone' = gone \cup EvMatching(pend, pat)
  /\ UNCHANGED <<now, nextH, cur, inact, fired>>

Clear ==
  /\ pend' = NoEvents /\ gone' = gone \cup DOMAIN pend
  /\ UNCHANGED <<now, nextH, cur, inact, fired>>

Op == \/ \E t \in Times, pr \in Prios, a \in Acts, s \in Subjs : Schedule(t, pr, a, s)
      \/ \E h \in 1..(nextH - 1) : Cancel(h)
      \/ \E h \in DOMAIN pend, t \in Times : Reschedule(h, t)
      \/ \E h \in DOMAIN pend, pr \in Prios : Reprioritize(h, pr)
      \/ \E a \in Acts \cup {ANYV}, s \in Subjs \cup {ANYV} : PatternCancel(<<a, s, ANYV>>)
      \/ Clear

ExecBegin ==
  /\ ~inact /\ DOMAIN pend # {}
  /\ \E h \in DOMAIN pend :
       /\ IsNext(pend, h)
       /\ now' = pend[h].t /\ cur' = h
       /\ pend' = Without(pend, {h})
       /\ fired' = Append(fired, h)
  /\ inact' = TRUE /\ body' = 0
  /\ UNCHANGED <<nextH, gone>>

ExecEnd == inact /\ inact' = FALSE /\ UNCHANGED <<now, pend, nextH, cur, body, fired, gone>>

Next == \/ ExecBegin
        \/ ExecEnd
        \/ (~inact /\ Op /\ UNCHANGED body)
        \/ (inact /\ body < MaxBody /\ Op /\ body' = body + 1)

Spec == Init /\ [][Next]_vars

(* ---- the properties of C01, stated on the model ---- *)
ClockMonotone == [][now' >= now]_vars
OnlyExecMovesClock == [][(now' # now \/ cur' # cur) => (~inact /\ inact')]_vars
RunsOnce == \A x, y \in 1..Len(fired) : x # y => fired[x] # fired[y]
CancelledNeverRuns == \A x \in 1..Len(fired) : fired[x] \notin gone
Accounted == \A h \in 1..(nextH - 1) :
               Cardinality({x \in {1, 2, 3} :
                  \/ x = 1 /\ h \in DOMAIN pend
                  \/ x = 2 /\ h \in gone
                  \/ x = 3 /\ \E y \in 1..Len(fired) : fired[y] = h}) = 1
NeverEarly == \A h \in DOMAIN pend : pend[h].t >= now
(* the order in which any two events fire respects the order they had when the later one fired? *)
(* Stated locally: an event fires only when nothing pending goes before it (by ExecBegin's guard),  *)
(* and TLC checks the global consequence: fired times are nondecreasing.                           *)
=============================================================================
