SPECIFICATION Spec
CONSTANTS
  Weighted = TRUE
  NObj = 2
  XCodes = {0, 1, 3}
  XOff = 1
  Wts = {1, 2, 5}
  MaxTotal = 6
  Scales = {3}
  Export = FALSE
INVARIANTS TupleIsData ClosedFormsAreDefinitions Refines AccessorsExact WeightedLaws
VIEW View
CHECK_DEADLOCK FALSE
