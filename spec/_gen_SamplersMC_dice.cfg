SPECIFICATION Spec
CONSTANTS
  Model = "dice"
  Variant = "intended"
  NMax = 4
  Den = 2000
  Step = 250
  DeltaMags = {1, 2}
  MaxTrials = 10
INVARIANTS DiceInRange DiceExact
CHECK_DEADLOCK FALSE
