SPECIFICATION Spec
CONSTANTS
  Threads = {1, 2, 3}
  Seeds = {1, 2, 3}
  Shapes = {1, 2, 3}
  MaxCalls = 6
  FlipBits = 2
  InitClearsFlip = TRUE
  ThreadLocal = TRUE
  GammaKeyed = TRUE
INVARIANTS TypeOK SeedAlone RawIsStream
VIEW View
CHECK_DEADLOCK FALSE
