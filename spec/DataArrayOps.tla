---------------------------- MODULE DataArrayOps ----------------------------
(* C10, growable data arrays: the capacity discipline of cmb_dataset and     *)
(* cmb_timeseries (src/cmb_dataset.c, src/cmb_timeseries.c) as pure          *)
(* operators on object records, shared by the design model DataArray.tla     *)
(* (TLC explores all call sequences) and by the trace specification          *)
(* DataArrayTrace.tla (the same predicates judge what the real library did). *)
(*                                                                           *)
(* An object is a record                                                     *)
(*   kind    "ds" (cmb_dataset) or "ts" (cmb_timeseries)                     *)
(*   live    the cookie says initialized                                     *)
(*   count   number of samples                                               *)
(*   cursize the capacity the code BELIEVES every backing array has          *)
(*   xa, ta, wa  number of elements ALLOCATED for that array, 0 = NULL       *)
(*           (a dataset has only xa; ta = wa = 0 for ever)                   *)
(* Every operator that stands for a library call returns                     *)
(*   [o |-> the object afterwards, bad |-> the set of accesses that fell     *)
(*    outside the allocation of their array]                                 *)
(* Element values are not modelled; an access is a (array, index range).     *)
EXTENDS Integers, FiniteSets

CONSTANTS Cap0,             \* CMI_DATASET_INIT_SZ (1024 in the code, 2 for TLC)
          TsCopyByCursize   \* allocation rule of cmb_timeseries_copy for ta / wa:
                            \*   FALSE = the code as found: calloc(count) elements
                            \*   TRUE  = repaired: calloc(cursize) elements, like cmb_dataset_copy does for xa

Zeroed(kind) == [kind |-> kind, live |-> FALSE, count |-> 0, cursize |-> 0, xa |-> 0, ta |-> 0, wa |-> 0]  \* struct x = { 0 }
Fresh(kind)  == [Zeroed(kind) EXCEPT !.live = TRUE]                                                          \* after _initialize / _create
IsTs(o) == o.kind = "ts"

(* the code touches elements 0 .. n-1 of an array that has `alloc` elements (0 = NULL) *)
Acc(name, alloc, n) == IF n > alloc THEN {name} ELSE {}
Ret(o, bad) == [o |-> o, bad |-> bad]

(* ------------------------------------------------------------------ what the property demands of a state *)
Arrays(o) == IF IsTs(o) THEN {<<"xa", o.xa>>, <<"ta", o.ta>>, <<"wa", o.wa>>} ELSE {<<"xa", o.xa>>}
(* an array that exists but is shorter than the capacity the code believes in: the next add below  *)
(* cursize writes behind its end                                                                    *)
SmallArrays(o)   == {a[1] : a \in {b \in Arrays(o) : b[2] # 0 /\ b[2] < o.cursize}}
(* an array that does not exist although the code believes in a capacity: the next add writes      *)
(* through NULL (or dies in a release assert)                                                       *)
MissingArrays(o) == {a[1] : a \in {b \in Arrays(o) : b[2] = 0 /\ o.cursize > 0}}
CountOK(o) == o.count <= o.cursize
ObjOK(o) == o.live => (CountOK(o) /\ SmallArrays(o) = {} /\ MissingArrays(o) = {})

(* ------------------------------------------------------------------ life cycle *)
Initialize(o) == Ret(Fresh(o.kind), {})                      \* cmb_dataset_initialize / cmb_timeseries_initialize (nothing is freed)
(* cmb_dataset_terminate frees xa only under cursize > 0 (and leaves count alone); the time series frees ta, wa first *)
Terminate(o) == Ret([o EXCEPT !.live = FALSE, !.xa = IF o.cursize > 0 THEN 0 ELSE @, !.cursize = 0, !.ta = 0, !.wa = 0], {})
Reset(o) == Initialize(Terminate(o).o)

(* ------------------------------------------------------------------ growth *)
(* cmi_dataset_expand: first allocation of Cap0 elements, then doubling by realloc *)
DsExpand(o) == IF o.cursize = 0 THEN [o EXCEPT !.cursize = Cap0, !.xa = Cap0]
               ELSE [o EXCEPT !.cursize = 2 * o.cursize, !.xa = 2 * o.cursize]
(* timeseries_expand: the x array first; ta == NULL decides between "first chunk" (malloc of the   *)
(* CONSTANT Cap0, not of cursize) and realloc to the new cursize                                    *)
TsExpand(o) == LET d == DsExpand(o) IN
               IF o.ta = 0 THEN [d EXCEPT !.ta = Cap0, !.wa = Cap0]
               ELSE [d EXCEPT !.ta = d.cursize, !.wa = d.cursize]

(* cmb_dataset_add: expand when count = cursize, write xa[count] *)
DsAdd(o) == LET e == IF o.count = o.cursize THEN DsExpand(o) ELSE o IN
            Ret([e EXCEPT !.count = @ + 1], Acc("add:xa", e.xa, e.count + 1))
(* cmb_timeseries_add: timeseries_expand when count = cursize, then cmb_dataset_add (which finds   *)
(* room), write ta[count], wa[count], read ta[count-1], write wa[count-1]                           *)
TsAdd(o) == LET e == IF o.count = o.cursize THEN TsExpand(o) ELSE o
                d == DsAdd(e) IN
            Ret(d.o, d.bad \cup Acc("add:ta", e.ta, e.count + 1) \cup Acc("add:wa", e.wa, e.count + 1))
Add(o) == IF IsTs(o) THEN TsAdd(o) ELSE DsAdd(o)

(* closed form of k adds in a row (used by the trace specification for bursts; DataArray.tla checks *)
(* that it agrees with k single adds)                                                               *)
RECURSIVE GrowTo(_, _)
GrowTo(c, n) == IF c >= n THEN c ELSE GrowTo(IF c = 0 THEN Cap0 ELSE 2 * c, n)
AddN(o, k) == LET c2 == GrowTo(o.cursize, o.count + k) IN
              IF k = 0 \/ c2 = o.cursize THEN [o EXCEPT !.count = @ + k]
              ELSE IF IsTs(o) THEN [o EXCEPT !.count = @ + k, !.cursize = c2, !.xa = c2, !.ta = c2, !.wa = c2]
              ELSE [o EXCEPT !.count = @ + k, !.cursize = c2, !.xa = c2]

(* ------------------------------------------------------------------ copy *)
(* cmb_dataset_copy(tgt, src): count, cursize taken over; tgt->xa freed if any; if src->xa exists, *)
(* calloc(cursize) and memcpy of cursize elements                                                   *)
DsCopy(tgt, src) ==
  Ret([tgt EXCEPT !.live = TRUE, !.count = src.count, !.cursize = src.cursize,
                  !.xa = IF src.xa # 0 THEN src.cursize ELSE 0],
      IF src.xa # 0 THEN Acc("copy:src.xa", src.xa, src.cursize) ELSE {})
(* cmb_timeseries_copy: the dataset part as above; ta and wa: freed if any, then calloc(csz) and    *)
(* memcpy of count elements, where csz = count in the code as found                                 *)
TsCopy(tgt, src) ==
  LET d == DsCopy(tgt, src)
      csz == IF TsCopyByCursize THEN src.cursize ELSE src.count IN
  Ret([d.o EXCEPT !.ta = IF src.ta # 0 THEN csz ELSE 0, !.wa = IF src.wa # 0 THEN csz ELSE 0],
      d.bad \cup (IF src.ta # 0 THEN Acc("copy:src.ta", src.ta, src.count) ELSE {})
            \cup (IF src.wa # 0 THEN Acc("copy:src.wa", src.wa, src.count) ELSE {}))
Copy(tgt, src) == IF IsTs(src) THEN TsCopy(tgt, src) ELSE DsCopy(tgt, src)

(* cmb_dataset_merge(tgt, s1, s2) is declared in include/cmb_dataset.h ("the target may or may not  *)
(* be one of the two sources") but this tree does not define it.  What any definition must do for  *)
(* the invariant: room for the sum.  Modelled as the least capacity of the doubling chain.          *)
Merge(tgt, s1, s2) ==
  LET n == s1.count + s2.count
      c == IF n = 0 THEN 0 ELSE GrowTo(0, n) IN
  Ret([tgt EXCEPT !.live = TRUE, !.count = n, !.cursize = c, !.xa = c],
      Acc("merge:s1.xa", s1.xa, s1.count) \cup Acc("merge:s2.xa", s2.xa, s2.count))

(* ------------------------------------------------------------------ calls that read (or permute) count elements *)
(* cmb_dataset_sort: only when xa exists; heapsort over 0 .. count-1; with count = 0 the second    *)
(* loop would start at index 2^64 - 1                                                               *)
DsSort(o) == Ret(o, IF o.xa = 0 THEN {} ELSE IF o.count = 0 THEN {"sort:empty-array"} ELSE Acc("sort:xa", o.xa, o.count))
(* cmb_timeseries_sort_x / sort_t: guarded by xa / ta respectively, permute the three arrays together *)
TsSort(o, guard) == Ret(o, IF guard = 0 THEN {} ELSE IF o.count = 0 THEN {"sort:empty-array"}
                           ELSE Acc("sort:xa", o.xa, o.count) \cup Acc("sort:ta", o.ta, o.count) \cup Acc("sort:wa", o.wa, o.count))
TsSortX(o) == TsSort(o, o.xa)
TsSortT(o) == TsSort(o, o.ta)

(* cmb_dataset_median / cmb_dataset_fivenum_print (also applied to the dataset part of a time      *)
(* series, as the header recommends for unweighted quantiles): if xa exists, copy into a zeroed     *)
(* local, sort it, read below count, reset the local                                                *)
DsQuantiles(o) ==
  IF o.xa = 0 THEN Ret(o, {})
  ELSE LET c == DsCopy(Zeroed("ds"), [o EXCEPT !.kind = "ds", !.ta = 0, !.wa = 0])
           s == DsSort(c.o) IN
       Ret(o, c.bad \cup s.bad \cup Acc("quantiles:dup.xa", c.o.xa, c.o.count))
(* cmb_timeseries_median / _fivenum_print (precondition: wa exists): cmb_timeseries_copy into a     *)
(* zeroed local, sort_x, cumulate wa[0 .. count-1], read xa below count, reset the local            *)
TsQuantiles(o) ==
  LET c == TsCopy(Zeroed("ts"), o)
      s == TsSortX(c.o) IN
  Ret(o, c.bad \cup s.bad \cup Acc("quantiles:tmp.wa", c.o.wa, c.o.count) \cup Acc("quantiles:tmp.xa", c.o.xa, c.o.count))

(* histogram_print: dataset reads xa[0 .. count-1] when xa exists; time series (count >= 2) reads   *)
(* xa and wa below count - 1; cmb_dataset_summarize / ACF read xa below count;                      *)
(* cmb_timeseries_summarize (precondition: ta exists) reads xa, wa below count - 1                  *)
DsScan(o) == Ret(o, IF o.count = 0 THEN {} ELSE Acc("scan:xa", o.xa, o.count))
TsScan(o) == Ret(o, IF o.count < 2 THEN {} ELSE Acc("scan:xa", o.xa, o.count - 1) \cup Acc("scan:wa", o.wa, o.count - 1))
(* cmb_timeseries_finalize (count >= 1): read xa[count-1], ta[count-1], then add *)
TsFinalize(o) == LET a == TsAdd(o) IN Ret(a.o, a.bad \cup Acc("finalize:xa", o.xa, o.count) \cup Acc("finalize:ta", o.ta, o.count))
=============================================================================
