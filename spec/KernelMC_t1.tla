---- MODULE KernelMC_t1 ----
EXTENDS Kernel
c_Prio0 == <<0, 0>>
c_Auto == <<1, 1>>
c_Alphabet == {<<"hold", 0, 0, 0>>, <<"hold", 1, 0, 0>>, <<"acq", 1, 0, 0>>, <<"rel", 1, 0, 0>>}
====
