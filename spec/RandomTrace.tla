---------------------------- MODULE RandomTrace ----------------------------
(* Trace validation for C15.  harness/rng15_replay runs histories of seeding *)
(* and sampling calls on real threads of the real library and records, per   *)
(* call, the thread, the function, the index of its parameter set and the    *)
(* bit pattern of the returned value (four 16-bit limbs, least significant   *)
(* first).  The file is named by env TRACE.  One history = the lines from a  *)
(* "begin" up to the next "begin"; it contains threads with arbitrary prior  *)
(* use of the generator and fresh threads that make only the calls of one    *)
(* seeding (canonical twins); this spec does not need to know which is       *)
(* which.                                                                    *)
(*                                                                           *)
(* What is demanded (and nothing else):                                      *)
(*  R1 raw-word-is-not-the-next-word-of-the-documented-stream                *)
(*       cmb_random_sfc64 called right after seeding with s returns          *)
(*       Stream(s)[0] of Sfc64.tla, and called right after another           *)
(*       cmb_random_sfc64 call on the same thread returns the next word.     *)
(*  R2 raw-word-is-not-in-the-documented-stream                              *)
(*       after other sampling calls (each may consume any number of words    *)
(*       up to WindowPerCall - how many is not part of the property) it      *)
(*       returns a word of Stream(s) at or after the current position.       *)
(*  R3 result-depends-on-more-than-seed-and-calls                            *)
(*       within a history, two threads that seeded with the same seed and    *)
(*       then made the same sequence of calls (function + parameters) got    *)
(*       the same bit pattern from the last of these calls: the first        *)
(*       occurrence of (seed, call sequence) defines the value, every later  *)
(*       one must agree - whatever the threads did before seeding, whatever  *)
(*       other threads do meanwhile.  (seed, call sequence) pairs are kept   *)
(*       as the nodes of a tree so that the state stays small.)              *)
(* Not demanded: how many words a sampler consumes, the order in which coin  *)
(* flips use the bits of a word, how a sample is computed from the words.    *)
(* Rules named harness-... mean the recording is not a valid use of the      *)
(* library (machinery error, not a verdict about the library).               *)
EXTENDS Integers, Sequences, FiniteSets, TLC, Json, IOUtils, Sfc64

Tr == ndJsonDeserialize(IOEnv.TRACE)

WindowPerCall == 64      \* words one non-raw call may consume before the next raw probe
MaxThreads == 16

(* generator state right after seeding, once per distinct seed of the file *)
SeedLines == {j \in 1..Len(Tr) : Tr[j].op = "seed"}
SeedWords == {Tr[j].s : j \in SeedLines}
SeedTab == [s \in SeedWords |-> Seeded(s)]

VARIABLES l,      \* next line
          th,     \* per thread: seeded?, generator state at the earliest possible position, slack (how many
                  \*   further words may have been consumed), node (the (seed, calls since seeding) reached, as a
                  \*   node of the tree below), n (number of calls since seeding)
          roots,  \* seed -> node: the empty call sequence after seeding with that seed
          tree,   \* <<node, function, parameter set>> -> [id: the node of the extended call sequence,
                  \*                                        r: bit pattern first returned by that call]
          next,   \* next unused node id
          h       \* id of the current history
vars == <<l, th, roots, tree, next, h>>

Idle == [on |-> FALSE, g |-> <<Zero64, Zero64, Zero64, Zero64>>, slack |-> 0, node |-> 0, n |-> 0]
NoThreads == [t \in 1..MaxThreads |-> Idle]
Init == l = 1 /\ th = NoThreads /\ roots = <<>> /\ tree = <<>> /\ next = 1 /\ h = 0

BeginIdx == {x \in 1..Len(Tr) : Tr[x].op = "begin"}
Resync(x) == LET later == {y \in BeginIdx : y > x} IN
             IF later = {} THEN Len(Tr) + 1 ELSE CHOOSE y \in later : \A z \in later : y <= z

WellFormedWord(w) == Len(w) = 4 /\ \A i \in 1..4 : w[i] \in 0..65535

(* the calls that lead to node x, oldest first (diagnosis only) *)
RECURSIVE PathTo(_)
PathTo(x) == IF \E k \in DOMAIN tree : tree[k].id = x
               THEN LET k == CHOOSE kk \in DOMAIN tree : tree[kk].id = x IN Append(PathTo(k[1]), <<k[2], k[3]>>)
               ELSE <<>>
RECURSIVE SeedOf(_)
SeedOf(x) == IF \E k \in DOMAIN tree : tree[k].id = x
               THEN LET k == CHOOSE kk \in DOMAIN tree : tree[kk].id = x IN SeedOf(k[1])
               ELSE CHOOSE s \in DOMAIN roots : roots[s] = x

(* consume one "call" line: verdict and new state *)
CallStep(e) ==
  LET t == e.t
      s == th[t]
      key == <<s.node, e.f, e.a>>
      sk == IF e.f = "raw" THEN Seek(s.g, e.r, s.slack) ELSE [found |-> TRUE, g |-> s.g, skipped |-> 0]
      known == key \in DOMAIN tree
      bad == IF ~(t \in 1..MaxThreads) \/ ~WellFormedWord(e.r) THEN "harness-malformed-line"
             ELSE IF ~s.on THEN "harness-call-before-seeding"
             ELSE IF ~sk.found THEN (IF s.slack = 0 THEN "raw-word-is-not-the-next-word-of-the-documented-stream"
                                                    ELSE "raw-word-is-not-in-the-documented-stream")
             ELSE IF known /\ tree[key].r # e.r THEN "result-depends-on-more-than-seed-and-calls"
             ELSE ""
  IN [bad |-> bad,
      th |-> [th EXCEPT ![t] = [on |-> TRUE, g |-> sk.g,
                                 slack |-> IF e.f = "raw" THEN 0 ELSE s.slack + WindowPerCall,
                                 node |-> IF known THEN tree[key].id ELSE next, n |-> s.n + 1]],
      tree |-> IF known THEN tree ELSE tree @@ (key :> [id |-> next, r |-> e.r]),
      next |-> IF known THEN next ELSE next + 1]

(* diagnosis of a rejected call line (evaluated only for rejected lines): a short record, then a long one *)
DiagShort(e) ==
  LET s == th[e.t]  path == PathTo(s.node) IN
  [op |-> e.f, hist |-> h, thread |-> e.t, params |-> e.a, ncall |-> s.n + 1, slack |-> s.slack,
   ctx |-> IF e.f \in {"flip", "flip32"} \/ \E i \in 1..Len(path) : path[i][1] \in {"flip", "flip32"}
           THEN "flip-since-seeding" ELSE "no-flip-since-seeding"]
DiagLong(e) ==
  LET s == th[e.t]  key == <<s.node, e.f, e.a>> IN
  [got |-> e.r, first |-> IF key \in DOMAIN tree THEN tree[key].r ELSE <<>>,
   seed |-> IF s.on THEN SeedOf(s.node) ELSE <<>>, earlier |-> PathTo(s.node)]

Next ==
  /\ l <= Len(Tr)
  /\ LET e == Tr[l] IN
     CASE e.op = "begin" ->
            /\ l' = l + 1 /\ th' = NoThreads /\ roots' = <<>> /\ tree' = <<>> /\ next' = 1 /\ h' = e.h
       [] e.op = "seed" ->
            IF ~(e.t \in 1..MaxThreads) \/ ~WellFormedWord(e.s)
              THEN /\ PrintT(<<"REJECT", l, "harness-malformed-line", [op |-> "seed", hist |-> h]>>)
                   /\ l' = Resync(l) /\ UNCHANGED <<th, roots, tree, next, h>>
              ELSE LET known == e.s \in DOMAIN roots
                       nd == IF known THEN roots[e.s] ELSE next IN
                   /\ l' = l + 1 /\ UNCHANGED <<tree, h>>
                   /\ roots' = IF known THEN roots ELSE roots @@ (e.s :> next)
                   /\ next' = IF known THEN next ELSE next + 1
                   /\ th' = [th EXCEPT ![e.t] = [on |-> TRUE, g |-> SeedTab[e.s], slack |-> 0, node |-> nd, n |-> 0]]
       [] e.op = "term" ->
            /\ l' = l + 1 /\ UNCHANGED <<roots, tree, next, h>>
            /\ th' = [th EXCEPT ![e.t] = Idle]
       [] e.op = "call" ->
            LET c == CallStep(e) IN
            IF c.bad # "" THEN /\ PrintT(<<"REJECT", l, c.bad, DiagShort(e), DiagLong(e)>>)
                               /\ l' = Resync(l) /\ UNCHANGED <<th, roots, tree, next, h>>
            ELSE /\ l' = l + 1 /\ th' = c.th /\ tree' = c.tree /\ next' = c.next /\ UNCHANGED <<roots, h>>
       [] e.op = "crash" ->
            /\ l' = Resync(l) /\ UNCHANGED <<th, roots, tree, next, h>>
       [] OTHER -> /\ l' = l + 1 /\ UNCHANGED <<th, roots, tree, next, h>>
  /\ (l' = Len(Tr) + 1) => PrintT(<<"CONSUMED", Len(Tr)>>)

Spec == Init /\ [][Next]_vars
=============================================================================
