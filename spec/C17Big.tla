------------------------------- MODULE C17Big -------------------------------
(* Exact arithmetic for property C17 (TLC integers are 32 bit; the power sums *)
(* and cross-multiplied comparisons of the summary specifications are not).   *)
(*                                                                            *)
(*   N...  naturals: little-endian sequences of limbs in 0..4095 (base 2^12), *)
(*         no high zero limb; zero is << >>                                   *)
(*   Z...  integers: [s |-> -1 | 0 | 1, m |-> natural]                        *)
(*   Q...  rationals: [n |-> integer, d |-> natural > 0], not necessarily in  *)
(*         lowest terms; compared by cross-multiplication                     *)
(* Every intermediate stays below 2^31: a column of a product sums at most    *)
(* 127 limb products < 2^24 (operands of up to 1524 bits).                    *)
EXTENDS Integers, Sequences
LOCAL INSTANCE SequencesExt
LOCAL INSTANCE Functions

LOCAL B == 4096

(* ------------------------------ naturals -------------------------------- *)
RECURSIVE NTrim(_)
NTrim(a) == IF a = <<>> THEN a
            ELSE IF a[Len(a)] = 0 THEN NTrim(SubSeq(a, 1, Len(a) - 1)) ELSE a

NFromInt(i) ==   \* 0 <= i < 2^31
  IF i = 0 THEN <<>>
  ELSE IF i < B THEN <<i>>
  ELSE IF i < B * B THEN <<i % B, i \div B>>
  ELSE <<i % B, (i \div B) % B, i \div (B * B)>>

LOCAL Limb(a, i) == IF i <= Len(a) THEN a[i] ELSE 0
LOCAL BMax(x, y) == IF x >= y THEN x ELSE y
LOCAL BMin(x, y) == IF x <= y THEN x ELSE y

(* propagate carries through columns of non-negative integers < 2^31 - 2^19 *)
LOCAL CarryStep(acc, v) == LET s == v + acc[1] IN <<s \div B, Append(acc[2], s % B)>>
NCarry(cols) ==
  LET r == FoldLeft(CarryStep, <<0, <<>>>>, cols)
      c == r[1]
  IN IF c = 0 THEN r[2]
     ELSE IF c < B THEN Append(r[2], c)
     ELSE r[2] \o <<c % B, c \div B>>

NAdd(a, b) == IF a = <<>> THEN b ELSE IF b = <<>> THEN a
              ELSE NCarry([i \in 1..BMax(Len(a), Len(b)) |-> Limb(a, i) + Limb(b, i)])

RECURSIVE NCmpR(_, _, _)
NCmpR(a, b, i) == IF i = 0 THEN 0
                  ELSE IF a[i] < b[i] THEN -1 ELSE IF a[i] > b[i] THEN 1 ELSE NCmpR(a, b, i - 1)
NCmp(a, b) == IF Len(a) < Len(b) THEN -1 ELSE IF Len(a) > Len(b) THEN 1 ELSE NCmpR(a, b, Len(a))

LOCAL BorrowStep(acc, v) == LET s == v - acc[1] IN IF s < 0 THEN <<1, Append(acc[2], s + B)>> ELSE <<0, Append(acc[2], s)>>
NSub(a, b) ==    \* a >= b
  IF b = <<>> THEN a
  ELSE NTrim(FoldLeft(BorrowStep, <<0, <<>>>>, [i \in 1..Len(a) |-> a[i] - Limb(b, i)])[2])

NMulSmall(a, m) ==    \* 0 <= m < 2^19
  IF m = 0 \/ a = <<>> THEN <<>> ELSE IF m = 1 THEN a ELSE NCarry([i \in 1..Len(a) |-> a[i] * m])

NShift(a, k) == IF a = <<>> \/ k = 0 THEN a ELSE [i \in 1..k |-> 0] \o a      \* a * 4096^k

LOCAL Plus(x, y) == x + y
NMul(a, b) ==    \* min(Len(a), Len(b)) <= 127
  IF a = <<>> \/ b = <<>> THEN <<>>
  ELSE LET la == Len(a)  lb == Len(b)
       IN NCarry([k \in 1..(la + lb - 1) |->
                   FoldFunction(Plus, 0, [i \in BMax(1, k + 1 - lb)..BMin(la, k) |-> a[i] * b[k + 1 - i]])])

(* short division by 1 <= m < 2^19: <<quotient, remainder>> *)
NDivSmall(a, m) ==
  LET step(v, acc) == LET s == acc[1] * B + v IN <<s % m, <<s \div m>> \o acc[2]>>
      r == FoldRight(step, a, <<0, <<>>>>)
  IN <<NTrim(r[2]), r[1]>>
NModSmall(a, m) == LET step(v, r) == (r * B + v) % m IN FoldRight(step, a, 0)

NPow2(e) == NShift(<<2 ^ (e % 12)>>, e \div 12)     \* 2^e, e >= 0

(* ------------------------------ integers -------------------------------- *)
ZZero == [s |-> 0, m |-> <<>>]
ZMk(s, m) == IF m = <<>> THEN ZZero ELSE [s |-> s, m |-> m]
ZFromNat(m) == ZMk(1, m)
ZFromInt(i) ==   \* -2^31 < i < 2^31
  IF i = 0 THEN ZZero ELSE IF i > 0 THEN [s |-> 1, m |-> NFromInt(i)] ELSE [s |-> -1, m |-> NFromInt(-i)]
ZNeg(a) == [s |-> -a.s, m |-> a.m]
ZAdd(a, b) ==
  IF a.s = 0 THEN b ELSE IF b.s = 0 THEN a
  ELSE IF a.s = b.s THEN [s |-> a.s, m |-> NAdd(a.m, b.m)]
  ELSE LET c == NCmp(a.m, b.m)
       IN IF c = 0 THEN ZZero
          ELSE IF c > 0 THEN [s |-> a.s, m |-> NSub(a.m, b.m)]
          ELSE [s |-> b.s, m |-> NSub(b.m, a.m)]
ZSub(a, b) == ZAdd(a, ZNeg(b))
ZMul(a, b) == IF a.s = 0 \/ b.s = 0 THEN ZZero ELSE [s |-> a.s * b.s, m |-> NMul(a.m, b.m)]
ZMulNat(a, n) == IF a.s = 0 \/ n = <<>> THEN ZZero ELSE [s |-> a.s, m |-> NMul(a.m, n)]
ZMulInt(a, i) == ZMul(a, ZFromInt(i))
ZCmp(a, b) ==
  IF a.s # b.s THEN (IF a.s < b.s THEN -1 ELSE 1)
  ELSE IF a.s = 0 THEN 0 ELSE a.s * NCmp(a.m, b.m)
ZSq(a) == ZMul(a, a)

(* ------------------------------ rationals ------------------------------- *)
QMk(n, d) == [n |-> n, d |-> d]
QFromInt(i) == [n |-> ZFromInt(i), d |-> <<1>>]
QFromZ(z) == [n |-> z, d |-> <<1>>]
QZero == QFromInt(0)
QAdd(a, b) == IF a.d = b.d THEN [n |-> ZAdd(a.n, b.n), d |-> a.d]
              ELSE [n |-> ZAdd(ZMulNat(a.n, b.d), ZMulNat(b.n, a.d)), d |-> NMul(a.d, b.d)]
QNeg(a) == [n |-> ZNeg(a.n), d |-> a.d]
QSub(a, b) == QAdd(a, QNeg(b))
QMul(a, b) == [n |-> ZMul(a.n, b.n), d |-> NMul(a.d, b.d)]
QMulInt(a, i) == [n |-> ZMulInt(a.n, i), d |-> a.d]
QDivNat(a, n) == [n |-> a.n, d |-> NMul(a.d, n)]               \* n > 0
QDiv(a, b) == [n |-> ZMk(a.n.s * b.n.s, NMul(a.n.m, b.d)), d |-> NMul(a.d, b.n.m)]   \* b # 0
QEq(a, b) == ZCmp(ZMulNat(a.n, b.d), ZMulNat(b.n, a.d)) = 0
QCmp(a, b) == ZCmp(ZMulNat(a.n, b.d), ZMulNat(b.n, a.d))
QSign(a) == a.n.s

(* cancel the common factors p of numerator and denominator for the primes p given;  *)
(* a canonical form whenever the denominator has no other prime factors               *)
RECURSIVE QCancel1(_, _, _)
QCancel1(nm, d, p) ==
  IF nm # <<>> /\ NModSmall(d, p) = 0 /\ NModSmall(nm, p) = 0
  THEN QCancel1(NDivSmall(nm, p)[1], NDivSmall(d, p)[1], p) ELSE <<nm, d>>
RECURSIVE QCancelR(_, _, _)
QCancelR(nm, d, ps) ==
  IF ps = <<>> \/ d = <<1>> THEN <<nm, d>>
  ELSE LET r == QCancel1(nm, d, Head(ps)) IN QCancelR(r[1], r[2], Tail(ps))
QCancel(a, ps) ==
  IF a.n.s = 0 THEN QZero
  ELSE LET r == QCancelR(a.n.m, a.d, ps) IN [n |-> [s |-> a.n.s, m |-> r[1]], d |-> r[2]]
=============================================================================
