---------------------------- MODULE EventQueueOps ----------------------------
(* C01: the event queue as the user sees it.  Abstract state: the clock, the *)
(* set of pending events (handle -> time, priority, action, subject, object) *)
(* the handle counter, the current event, whether an action is running.      *)
(* Times and priorities are integer codes: the replay harness maps codes to  *)
(* doubles / int64 monotonically, so order and equality are preserved.       *)
EXTENDS Integers, Sequences, FiniteSets

ANYV == -1

NoEvents == [h \in {} |-> [t |-> 0, pr |-> 0, a |-> 0, s |-> 0, o |-> 0]]

(* e1 runs before e2: time ascending, priority descending, handle ascending *)
EvBefore(pend, h1, h2) ==
  \/ pend[h1].t < pend[h2].t
  \/ pend[h1].t = pend[h2].t /\ pend[h1].pr > pend[h2].pr
  \/ pend[h1].t = pend[h2].t /\ pend[h1].pr = pend[h2].pr /\ h1 < h2

IsNext(pend, h) == h \in DOMAIN pend /\ \A j \in DOMAIN pend : ~EvBefore(pend, j, h)

EvMatches(e, pat) == /\ pat[1] = ANYV \/ pat[1] = e.a
                     /\ pat[2] = ANYV \/ pat[2] = e.s
                     /\ pat[3] = ANYV \/ pat[3] = e.o
EvMatching(pend, pat) == {h \in DOMAIN pend : EvMatches(pend[h], pat)}

With(pend, h, e) == [j \in DOMAIN pend \cup {h} |-> IF j = h THEN e ELSE pend[j]]
Without(pend, hs) == [j \in DOMAIN pend \ hs |-> pend[j]]

=============================================================================
