------------------------------- MODULE Random -------------------------------
(* Design model for property C15: seeding and sampling state of              *)
(* src/cmb_random.c at the grain "one public call = one action", for         *)
(* several threads that interleave freely.                                   *)
(*                                                                           *)
(* The random stream is abstract here: word k of the stream of seed s is the *)
(* token <<s, k>> (its concrete value is fixed by Sfc64.tla and checked on   *)
(* the real library by RandomTrace.tla).  What the model keeps faithfully is *)
(* WHERE sampling state lives and WHEN it is reset:                          *)
(*   gen[t]    the generator of thread t: seed and position in its stream    *)
(*   cache[t]  function-level caches of thread t: the coin-flip word and the *)
(*             number of unread bits in it (fw, fn), the shape for which the *)
(*             gamma constants were computed (gc)                            *)
(* Results are tokens that name everything the returned value is computed    *)
(* from, so two results are equal iff they were computed from the same       *)
(* stream words, parameters and cached constants.                            *)
(*                                                                           *)
(* The property (invariant SeedAlone): on every thread, the results of the   *)
(* calls made since the last seeding equal what a fresh thread, alone in the *)
(* program, returns for seeding with the same seed followed by the same      *)
(* calls.  RawIsStream: raw words are the words of the stream of the seed,   *)
(* in order, the first one being word 0.                                     *)
(*                                                                           *)
(* The constants InitClearsFlip, ThreadLocal, GammaKeyed select the intended *)
(* design (all TRUE).  Setting one of them FALSE gives a defective design;   *)
(* TLC must then find a violating history (used as negative control and as   *)
(* replay input for the real library).                                       *)
EXTENDS Integers, Sequences, FiniteSets, TLC

CONSTANTS Threads,         \* thread identities, e.g. {1, 2}
          Seeds,           \* abstract seeds, positive integers, e.g. {1, 2}
          Shapes,          \* gamma shape parameters, positive integers, e.g. {1, 2}
          MaxCalls,        \* bound on the number of calls in a history
          FlipBits,        \* coin flips served from one cached word (64 in the library)
          InitClearsFlip,  \* seeding empties the coin-flip cache        (intended: TRUE)
          ThreadLocal,     \* generator state is private to the thread   (intended: TRUE)
          GammaKeyed       \* gamma constants are recomputed when the shape changes (intended: TRUE)

VARIABLES gen, cache, seg, hist, n
vars == <<gen, cache, seg, hist, n>>

(* call codes, shared with tools/checks/c15.py *)
cInit == 1   \* <<1, s>>   cmb_random_initialize(seed s)
cRaw  == 2   \* <<2, 0>>   cmb_random_sfc64
cFlip == 3   \* <<3, 0>>   coin flips from the bit cache
cVar  == 4   \* <<4, 0>>   a sampler that consumes a data dependent number of words (exponential, normal, ...)
cFix  == 5   \* <<5, 0>>   a sampler that consumes exactly one word (uniform, dice, ...)
cGam  == 6   \* <<6, a>>   gamma with shape a (cached shape constants)
cGeo  == 7   \* <<7, 0>>   geometric (cached denominator, recomputed on every call)

Calls == {<<cInit, s>> : s \in Seeds} \cup {<<cRaw, 0>>, <<cFlip, 0>>, <<cVar, 0>>, <<cFix, 0>>, <<cGeo, 0>>}
           \cup {<<cGam, a>> : a \in Shapes}

FreshGen   == [seed |-> 0, pos |-> 0]
FreshCache == [fw |-> <<>>, fn |-> 0, gc |-> 0]

(* number of words a variable-consumption sampler takes: a function of the first word it draws *)
Need(w) == 1 + ((w[1] + w[2]) % 2)

(* One call on a thread whose generator is g and whose caches are c.         *)
(* Returns the new generator, the new caches and the result token.           *)
Apply(g, c, call) ==
  LET w0 == <<g.seed, g.pos>>
      w1 == <<g.seed, g.pos + 1>>
      adv(k) == [g EXCEPT !.pos = g.pos + k]
  IN
  CASE call[1] = cInit ->
         [g |-> [seed |-> call[2], pos |-> 0],
          c |-> IF InitClearsFlip THEN [c EXCEPT !.fw = <<>>, !.fn = 0] ELSE c,
          r |-> <<"seeded">>]
    [] call[1] = cRaw -> [g |-> adv(1), c |-> c, r |-> <<"w", w0>>]
    [] call[1] = cFlip ->
         IF c.fn = 0
           THEN [g |-> adv(1), c |-> [c EXCEPT !.fw = w0, !.fn = FlipBits - 1], r |-> <<"bit", w0, 1>>]
           ELSE [g |-> g, c |-> [c EXCEPT !.fn = c.fn - 1], r |-> <<"bit", c.fw, FlipBits - c.fn + 1>>]
    [] call[1] = cVar ->
         IF Need(w0) = 1 THEN [g |-> adv(1), c |-> c, r |-> <<"var", w0>>]
                         ELSE [g |-> adv(2), c |-> c, r |-> <<"var", w0, w1>>]
    [] call[1] = cFix -> [g |-> adv(1), c |-> c, r |-> <<"fix", w0>>]
    [] call[1] = cGam ->
         LET consts == IF GammaKeyed \/ c.gc = 0 THEN call[2] ELSE c.gc IN
         [g |-> adv(2), c |-> [c EXCEPT !.gc = consts], r |-> <<"gam", call[2], consts, w0, w1>>]
    [] call[1] = cGeo -> [g |-> adv(1), c |-> c, r |-> <<"geo", w0>>]

(* results a fresh thread, alone, returns for seeding with s and then making the calls cs *)
RECURSIVE CanonFrom(_, _, _, _)
CanonFrom(g, c, cs, acc) ==
  IF cs = <<>> THEN acc
  ELSE LET a == Apply(g, c, Head(cs)) IN CanonFrom(a.g, a.c, Tail(cs), Append(acc, a.r))
Canon(s, cs) == LET a == Apply(FreshGen, FreshCache, <<cInit, s>>) IN CanonFrom(a.g, a.c, cs, <<>>)

Init ==
  /\ gen = [t \in Threads |-> FreshGen]
  /\ cache = [t \in Threads |-> FreshCache]
  /\ seg = [t \in Threads |-> [seed |-> 0, calls |-> <<>>, res |-> <<>>]]
  /\ hist = <<>>
  /\ n = 0

Do(t, call) ==
  LET a == Apply(gen[t], cache[t], call) IN
  /\ gen' = IF ThreadLocal THEN [gen EXCEPT ![t] = a.g] ELSE [u \in Threads |-> a.g]
  /\ cache' = [cache EXCEPT ![t] = a.c]
  /\ seg' = [seg EXCEPT ![t] = IF call[1] = cInit
                                 THEN [seed |-> call[2], calls |-> <<>>, res |-> <<>>]
                                 ELSE [seed |-> @.seed, calls |-> Append(@.calls, call), res |-> Append(@.res, a.r)]]
  /\ hist' = Append(hist, <<t, call[1], call[2]>>)
  /\ n' = n + 1

(* a thread seeds before it draws (as the documentation asks) *)
Next == /\ n < MaxCalls
        /\ \E t \in Threads, call \in Calls :
             /\ (call[1] # cInit) => seg[t].seed # 0
             /\ Do(t, call)

Spec == Init /\ [][Next]_vars

(* ---- the property ---- *)
SeedAlone == \A t \in Threads : seg[t].seed # 0 => seg[t].res = Canon(seg[t].seed, seg[t].calls)

RawPositions(t) == LET s == seg[t] IN {i \in 1..Len(s.calls) : s.calls[i][1] = cRaw}
RawIsStream ==
  \A t \in Threads : seg[t].seed # 0 =>
    LET s == seg[t]  P == RawPositions(t) IN
    /\ \A i \in P : s.res[i][1] = "w" /\ s.res[i][2][1] = s.seed           \* a word of the stream of the seed
    /\ (1 \in P) => s.res[1][2][2] = 0                                      \* the first one is word 0
    /\ \A i, j \in P : i < j => s.res[i][2][2] < s.res[j][2][2]             \* in stream order
    /\ \A i \in P : (i + 1) \in P => s.res[i + 1][2][2] = s.res[i][2][2] + 1  \* consecutive calls, consecutive words

TypeOK == /\ n \in 0..MaxCalls
          /\ \A t \in Threads : cache[t].fn \in 0..(FlipBits - 1) /\ gen[t].pos \in 0..(2 * MaxCalls)

(* side-effect invariant: print one history per distinct final state *)
ExportHist == (n = MaxCalls) => PrintT(<<"H", hist>>)
View == <<gen, cache, seg, n>>
=============================================================================
