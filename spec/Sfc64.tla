------------------------------- MODULE Sfc64 -------------------------------
(* The documented random generator of cimba, as an executable definition     *)
(* (property C15, second sentence):                                          *)
(*                                                                           *)
(*   - splitmix64 (Steele, Lea & Flood / Vigna): 64-bit state, increment     *)
(*     0x9e3779b97f4a7c15, output mix with the multipliers                   *)
(*     0xbf58476d1ce4e5b9 and 0x94d049bb133111eb and shifts 30, 27, 31;      *)
(*   - sfc64 (Doty-Humphrey, PractRand): state a, b, c and counter d,        *)
(*         out = a + b + d;  d' = d + 1;  a' = b xor (b >> 11);              *)
(*         b' = c + (c << 3);  c' = rotl(c, 24) + out;                       *)
(*   - seeding: the splitmix64 state is set to the seed, its first four      *)
(*     outputs become a, b, c, d in this order, then 20 sfc64 outputs are    *)
(*     discarded.                                                            *)
(*                                                                           *)
(* Written from the published algorithms, not from src/cmb_random.c; the     *)
(* ASSUME at the end ties splitmix64 to its published test vector.           *)
(* A generator state is a tuple <<a, b, c, d>> of W64 words.                 *)
EXTENDS W64

SmIncrement == <<\h7c15, \h7f4a, \h79b9, \h9e37>>      \* 0x9e3779b97f4a7c15
SmMul1      == <<\he5b9, \h1ce4, \h476d, \hbf58>>      \* 0xbf58476d1ce4e5b9
SmMul2      == <<\h11eb, \h1331, \h49bb, \h94d0>>      \* 0x94d049bb133111eb

(* output function of splitmix64 applied to the already incremented state *)
SmMix(s) ==
  LET z1 == Mul64(Xor64(s, Shr64(s, 30)), SmMul1)
      z2 == Mul64(Xor64(z1, Shr64(z1, 27)), SmMul2)
  IN  Xor64(z2, Shr64(z2, 31))

(* k-th output (k >= 1) of splitmix64 started with state seed *)
RECURSIVE SmState(_, _)
SmState(seed, k) == IF k = 0 THEN seed ELSE Add64(SmState(seed, k - 1), SmIncrement)
SplitMix(seed, k) == SmMix(SmState(seed, k))

(* one sfc64 step: the output word and the next state *)
SfcOut(g)  == Add64(Add64(g[1], g[2]), g[4])
SfcNext(g) == LET c == g[3] IN
              << Xor64(g[2], Shr64(g[2], 11)),
                 Add64(c, Shl64(c, 3)),
                 Add64(Rotl64(c, 24), SfcOut(g)),
                 Add64(g[4], One64) >>

RECURSIVE SfcSkip(_, _)
SfcSkip(g, n) == IF n = 0 THEN g ELSE SfcSkip(SfcNext(g), n - 1)

Discards == 20

(* generator state right after seeding with the 64-bit word seed *)
Seeded(seed) ==
  LET s1 == Add64(seed, SmIncrement)
      s2 == Add64(s1, SmIncrement)
      s3 == Add64(s2, SmIncrement)
      s4 == Add64(s3, SmIncrement)
  IN  SfcSkip(<<SmMix(s1), SmMix(s2), SmMix(s3), SmMix(s4)>>, Discards)

(* Stream(seed)[k], k >= 0: the k-th 64-bit value returned after seeding *)
Stream(seed, k) == SfcOut(SfcSkip(Seeded(seed), k))

(* Seek: starting at state g, find the first of the next (n + 1) outputs     *)
(* that equals w.  Result: [found, g (state after the last output looked     *)
(* at), skipped (outputs passed over before the match)].  Done in blocks of  *)
(* 32 so that the evaluation depth stays small for large n.                  *)
RECURSIVE SeekFrom(_, _, _, _)
SeekFrom(g, w, n, k) ==
  IF SfcOut(g) = w THEN [found |-> TRUE, g |-> SfcNext(g), skipped |-> k]
  ELSE IF n = 0 THEN [found |-> FALSE, g |-> SfcNext(g), skipped |-> k + 1]
  ELSE SeekFrom(SfcNext(g), w, n - 1, k + 1)
RECURSIVE SeekBlocks(_, _, _, _)
SeekBlocks(g, w, n, k) ==
  IF n < 32 THEN SeekFrom(g, w, n, k)
  ELSE LET r == SeekFrom(g, w, 31, k) IN
       IF r.found THEN r ELSE SeekBlocks(r.g, w, n - 32, k + 32)
Seek(g, w, n) == SeekBlocks(g, w, n, 0)

(* published splitmix64 test vector: seed 1234567 gives 6457827717110365317, *)
(* 3203168211198807973, 9817491932198370423, 4593380528125082431,            *)
(* 16408922859458223821                                                      *)
ASSUME LET sd == <<\hd687, \h0012, 0, 0>> IN
       /\ SplitMix(sd, 1) = <<\hfc85, \hfb08, \hd017, \h599e>>
       /\ SplitMix(sd, 2) = <<\h0fa5, \h5854, \hf084, \h2c73>>
       /\ SplitMix(sd, 3) = <<\h7c77, \ha3f2, \hbce5, \h883e>>
       /\ SplitMix(sd, 4) = <<\h7b3f, \he917, \hf740, \h3fbe>>
       /\ SplitMix(sd, 5) = <<\h5ecd, \h08cb, \h3467, \he3b8>>
=============================================================================
