SPECIFICATION Spec
CONSTANTS
  Ord = "event"
  HashMode = "mod"
  Exp0 = 1
  MaxExp = 3
  CallerKeys = {}
  AutoKeys = TRUE
  DVals = {0, 1, 2}
  IVals = {0}
  PVals = {0}
  MaxOps = 1000
  MaxCtr = 6
INVARIANTS WellFormed QueriesAgree ExportHist
PROPERTY Refinement
CONSTRAINT Constr
VIEW View
CHECK_DEADLOCK FALSE
