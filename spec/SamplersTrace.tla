--------------------------- MODULE SamplersTrace ---------------------------
(* Trace validation for C16.  harness/smp_replay draws from the real samplers *)
(* of cmb_random.h and logs counts and single results; this module decides.   *)
(*                                                                             *)
(* Lines (ndjson, file named by env TRACE):                                    *)
(*  fit   - N draws of fit case FitCases[case]: cls = how many variates fell   *)
(*          in each class relative to the support bounds of Samplers!Support   *)
(*          (NaN, -inf, below, =lo, inside, =hi, above, +inf), cnt = how many  *)
(*          fell in each bin (continuous: the bins cut by the case's quantile  *)
(*          edges, bin i of probability pw[i]/pd; discrete: the bins of        *)
(*          Samplers!DiscBins, plus a last counter for in-bounds values that   *)
(*          belong to no bin)                                                  *)
(*  atab  - the look-up table cmb_random_alias_create built for an alias case  *)
(*  rule  - one draw whose uniform variate was steered into a cell chosen by   *)
(*          the design model (prefix of the consumed raw words, result)         *)
(*  crash - the sampler did not return (signal / library abort)                *)
(*  skip  - a target cell was not met in the stream (nothing to judge)         *)
(*                                                                             *)
(* REJECT rules are statements of the property.  DRIFT rules compare with the  *)
(* design model of SamplersMC (inversion for loaded dice, floor for dice, ...):*)
(* a sampler may be re-implemented differently without breaking C16, so drift  *)
(* is reported but is not a violation.  Rules named harness-... mean that the  *)
(* trace itself is malformed.                                                  *)
EXTENDS Integers, Sequences, FiniteSets, TLC, Json, IOUtils, Samplers, SamplersFit

Tr == ndJsonDeserialize(IOEnv.TRACE)
VARIABLES l
vars == <<l>>
Init == l = 1

PrefixSums(s) == [j \in 1..Len(s) |-> SumRange(s, 1, j)]

RECURSIVE Log2(_)
Log2(b) == IF b <= 1 THEN 0 ELSE 1 + Log2(b \div 2)

Good == [ok |-> TRUE, rule |-> "", diag |-> <<>>]
Bad(r, d) == [ok |-> FALSE, rule |-> r, diag |-> d]

OutsideSupport(cls) == cls[1] + cls[2] + cls[3] + cls[7] + cls[8]

(* ------------------------------------------------------------ continuous fit *)
(* bin i has probability c.pw[i]/c.pd.  Judged: every bin, every union of 2^lev adjacent bins  *)
(* (aligned), and the empirical distribution function at every edge.                            *)
FitCont(e, c) ==
  LET nb == Len(c.pw)
      n == e.n
      d == c.pd
      ps == PrefixSums(e.cnt)
      aw == PrefixSums(c.pw)
      P(j) == IF j = 0 THEN 0 ELSE ps[j]
      A(j) == IF j = 0 THEN 0 ELSE aw[j]
      levels == 0..Log2(nb)
      G(lev) == Pow(2, lev)
      First(lev, j) == (j - 1) * G(lev)
      Last(lev, j) == Min2(nb, j * G(lev))
      UCnt(lev, j) == P(Last(lev, j)) - P(First(lev, j))
      UPr(lev, j) == A(Last(lev, j)) - A(First(lev, j))
      BinFails == {x \in UNION {{<<lev, j>> : j \in 1..((nb + G(lev) - 1) \div G(lev))} : lev \in levels} :
                     ~FreqOK(UCnt(x[1], x[2]), n, UPr(x[1], x[2]), UPr(x[1], x[2]), d)}
      EdfFails == {j \in 1..(nb - 1) : ~FreqOK(P(j), n, A(j), A(j), d)}
  IN
  IF Len(e.cnt) # nb \/ Len(e.cls) # 8 \/ Len(c.edges) # nb - 1 THEN Bad("harness-bin-count", <<nb, Len(e.cnt)>>)
  ELSE IF SumSeq(e.cls) # n \/ SumSeq(e.cnt) # n - e.cls[1] - e.cls[2] - e.cls[8] THEN Bad("harness-counts-do-not-add-up", <<n>>)
  ELSE IF OutsideSupport(e.cls) > 0
    THEN Bad("sample-outside-support", [case |-> c.id, sampler |-> c.s, par |-> c.par, draws |-> n, nan |-> e.cls[1], neginf |-> e.cls[2],
                                        below |-> e.cls[3], above |-> e.cls[7], posinf |-> e.cls[8]])
  ELSE IF ~c.fitted THEN Good      \* the parameters do not fix the distribution exactly: support only
  ELSE IF BinFails # {}
    THEN LET x == CHOOSE y \in BinFails : \A z \in BinFails : y[1] > z[1] \/ (y[1] = z[1] /\ y[2] <= z[2])
             pr == UPr(x[1], x[2])
         IN Bad("bin-frequency-off-the-stated-distribution",
                [case |-> c.id, sampler |-> c.s, par |-> c.par, draws |-> n, bins |-> <<First(x[1], x[2]) + 1, Last(x[1], x[2])>>, of |-> nb,
                 probability |-> <<pr, d>>, count |-> UCnt(x[1], x[2]), allowed |-> <<FreqLo(n, pr, pr, d), FreqHi(n, pr, pr, d)>>,
                 failing_unions |-> Cardinality(BinFails)])
  ELSE IF EdfFails # {}
    THEN LET j == CHOOSE y \in EdfFails : \A z \in EdfFails : y <= z
         IN Bad("empirical-distribution-function-off-the-stated-distribution",
                [case |-> c.id, sampler |-> c.s, par |-> c.par, draws |-> n, at_probability |-> <<A(j), d>>, count_below |-> P(j),
                 allowed |-> <<FreqLo(n, A(j), A(j), d), FreqHi(n, A(j), A(j), d)>>, failing_points |-> Cardinality(EdfFails)])
  ELSE Good

(* ------------------------------------------------------------ discrete fit *)
FitDisc(e, c) ==
  LET db == DiscBins(c)
      nb == Len(db.bins)
      n == e.n
      d == db.d
      ps == PrefixSums(e.cnt)
      lo == PrefixSums([i \in 1..nb |-> db.bins[i][3]])
      hi == PrefixSums([i \in 1..nb |-> db.bins[i][4]])
      Zeros == {i \in 1..nb : db.bins[i][4] = 0 /\ e.cnt[i] > 0}
      BinFails == {i \in 1..nb : ~FreqOK(e.cnt[i], n, db.bins[i][3], db.bins[i][4], d)}
      EdfFails == {i \in 1..(nb - 1) : ~FreqOK(ps[i], n, Min2(d, lo[i]), Min2(d, hi[i]), d)}
  IN
  IF Len(e.cnt) # nb + 1 \/ Len(e.cls) # 8 THEN Bad("harness-bin-count", <<nb, Len(e.cnt)>>)
  ELSE IF SumSeq(e.cls) # n \/ SumSeq(e.cnt) # e.cls[5] THEN Bad("harness-counts-do-not-add-up", <<n>>)
  ELSE IF ~PmfWellFormed(c) THEN Bad("harness-pmf-not-representable", <<c.id>>)
  ELSE IF OutsideSupport(e.cls) > 0
    THEN Bad("sample-outside-support", [case |-> c.id, sampler |-> c.s, par |-> c.par, v |-> c.v2, draws |-> n, below |-> e.cls[3], above |-> e.cls[7]])
  ELSE IF e.cnt[nb + 1] > 0 THEN Bad("harness-value-in-no-bin", <<c.id, e.cnt[nb + 1]>>)
  ELSE IF Zeros # {}
    THEN LET i == CHOOSE y \in Zeros : \A z \in Zeros : y <= z
         IN Bad("sample-outside-support", [case |-> c.id, sampler |-> c.s, par |-> c.par, v |-> c.v2, draws |-> n,
                                           zero_probability_values |-> <<db.bins[i][1], db.bins[i][2]>>, count |-> e.cnt[i]])
  ELSE IF BinFails # {}
    THEN LET i == CHOOSE y \in BinFails : \A z \in BinFails : y <= z
         IN Bad("bin-frequency-off-the-stated-distribution",
                [case |-> c.id, sampler |-> c.s, par |-> c.par, v |-> c.v2, draws |-> n, values |-> <<db.bins[i][1], db.bins[i][2]>>,
                 probability |-> <<db.bins[i][3], db.bins[i][4], d>>, count |-> e.cnt[i],
                 allowed |-> <<FreqLo(n, db.bins[i][3], db.bins[i][4], d), FreqHi(n, db.bins[i][3], db.bins[i][4], d)>>])
  ELSE IF EdfFails # {}
    THEN LET i == CHOOSE y \in EdfFails : \A z \in EdfFails : y <= z
         IN Bad("empirical-distribution-function-off-the-stated-distribution",
                [case |-> c.id, sampler |-> c.s, par |-> c.par, v |-> c.v2, draws |-> n, up_to_value |-> db.bins[i][2], count |-> ps[i],
                 allowed |-> <<FreqLo(n, Min2(d, lo[i]), Min2(d, hi[i]), d), FreqHi(n, Min2(d, lo[i]), Min2(d, hi[i]), d)>>])
  ELSE Good

(* ------------------------------------------------------------ alias table *)
QD(qb) == Pow(2, qb)
AliasTab(e, c) ==
  LET db == DiscBins(c)
      n == Len(c.v2)
      qd == QD(e.qb)
      q == [i \in 1..Len(e.q) |-> IF e.full[i] THEN qd ELSE e.q[i]]
  IN
  IF c.s # "alias" \/ e.qb < 4 \/ e.qb > 24 \/ 2 * (n + 1) * db.d * qd >= 1073741824 THEN Bad("harness-alias-scale", <<e.qb, n, db.d>>)
  ELSE IF e.n # n \/ Len(e.q) # n \/ Len(e.al) # n \/ Len(e.full) # n
    THEN Bad("alias-table-does-not-encode-the-stated-probabilities", [case |-> c.id, sampler |-> "alias", v |-> c.v2, columns |-> e.n])
  ELSE IF ~AliasTableOK(q, e.al, qd, db.bins, db.d, n + 1)
    THEN Bad("alias-table-does-not-encode-the-stated-probabilities",
             [case |-> c.id, sampler |-> "alias", v |-> c.v2, keep |-> q, of |-> qd, alias |-> e.al,
              encoded |-> [i \in 1..n |-> AliasEncoded(q, e.al, qd, i)]])
  ELSE Good

(* ------------------------------------------------------------ single steered draws *)
RuleProp(e) ==
  LET ud == Pow(2, e.ub) IN
  CASE e.s \in {"loaded_dice", "alias"} ->
         IF ~e.huge /\ IndexInSupport(e.k, e.d, e.res) THEN Good
         ELSE Bad("sample-outside-support", [sampler |-> e.s, k |-> e.k, over |-> e.d, u_cell |-> <<e.u, ud>>, result |-> e.res])
    [] e.s = "dice" ->
         IF ~e.huge /\ e.res >= e.a /\ e.res <= e.b THEN Good
         ELSE Bad("sample-outside-support", [sampler |-> e.s, a |-> e.a, b |-> e.b, u_cell |-> <<e.u, ud>>, result |-> e.res])
    [] e.s = "bernoulli" ->
         IF ~e.huge /\ e.res \in {0, 1} /\ (e.p[1] = 0 => e.res = 0) /\ (e.p[1] = e.p[2] => e.res = 1) THEN Good
         ELSE Bad("sample-outside-support", [sampler |-> e.s, p |-> e.p, u_cell |-> <<e.u, ud>>, result |-> e.res])
    [] OTHER -> Bad("harness-unknown-rule-sampler", <<e.s>>)

(* the variate lies in [u/ud, (u+1)/ud); the cell is widened by one unit on either side to absorb *)
(* the rounding of the thresholds to doubles                                                    *)
RuleDesign(e) ==
  LET ud == Pow(2, e.ub)  ulo == e.u - 1  uhi == e.u + 2 IN
  CASE e.s = "loaded_dice" ->
         IF e.used # 1 THEN Bad("design-loaded-dice-consumes-one-word", <<e.used>>)
         ELSE IF e.res \in LoadedDiceDesign(e.k, e.d, ulo, uhi, ud) THEN Good
         ELSE Bad("design-loaded-dice-is-inversion", [k |-> e.k, over |-> e.d, u_cell |-> <<e.u, ud>>, result |-> e.res,
                                                       design |-> LoadedDiceDesign(e.k, e.d, ulo, uhi, ud)])
    [] e.s = "alias" ->
         LET n == Len(e.k)
             cols == Max2(0, (n * ulo) \div ud)..Min2(n - 1, (n * uhi) \div ud)
             Out(col) == IF e.w2 < e.q[col + 1] THEN {col} ELSE IF e.w2 > e.q[col + 1] THEN {e.al[col + 1]} ELSE {col, e.al[col + 1]}
         IN IF e.used # 2 THEN Bad("design-alias-consumes-two-words", <<e.used>>)
            ELSE IF e.res \in UNION {Out(col) : col \in cols} THEN Good
            ELSE Bad("design-alias-column-then-keep-or-alias", [k |-> e.k, u_cell |-> <<e.u, ud>>, w2 |-> e.w2, keep |-> e.q, alias |-> e.al, result |-> e.res])
    [] e.s = "dice" ->
         IF e.res \in DiceDesign(e.a, e.b, ulo, uhi, ud) THEN Good
         ELSE Bad("design-dice-is-floor", [a |-> e.a, b |-> e.b, u_cell |-> <<e.u, ud>>, result |-> e.res])
    [] e.s = "bernoulli" ->
         IF e.res \in BernoulliDesign(e.p, ulo, uhi, ud) THEN Good
         ELSE Bad("design-bernoulli-is-threshold", [p |-> e.p, u_cell |-> <<e.u, ud>>, result |-> e.res])
    [] OTHER -> Good

(* ------------------------------------------------------------ verdicts *)
CaseOK(e) == e.case >= 1 /\ e.case <= Len(FitCases) /\ FitCases[e.case].id = e.id

Verdict(e) ==
  CASE e.op = "fit" ->
         IF ~CaseOK(e) THEN Bad("harness-unknown-case", <<e.case>>)
         ELSE IF FitCases[e.case].kind = "cont" THEN FitCont(e, FitCases[e.case]) ELSE FitDisc(e, FitCases[e.case])
    [] e.op = "atab" -> IF ~CaseOK(e) THEN Bad("harness-unknown-case", <<e.case>>) ELSE AliasTab(e, FitCases[e.case])
    [] e.op = "rule" -> IF e.ub < 4 \/ e.ub > 16 THEN Bad("harness-prefix-width", <<e.ub>>) ELSE RuleProp(e)
    [] e.op = "crash" -> Bad("sampler-aborted-on-admissible-parameters", [case |-> e.id, sampler |-> e.s, signal |-> e.sig])
    [] e.op = "skip" -> Good
    [] OTHER -> Bad("harness-unknown-line", <<e.op>>)

Drift(e) == IF e.op = "rule" /\ e.ub >= 4 /\ e.ub <= 16 /\ RuleProp(e).ok THEN RuleDesign(e) ELSE Good

Next ==
  /\ l <= Len(Tr)
  /\ LET e == Tr[l]  v == Verdict(e)  dr == Drift(e) IN
     /\ IF v.ok THEN TRUE ELSE PrintT(<<"REJECT", l, v.rule, v.diag>>)
     /\ IF dr.ok THEN TRUE ELSE PrintT(<<"DRIFT", l, dr.rule, dr.diag>>)
  /\ l' = l + 1
  /\ (l' = Len(Tr) + 1) => PrintT(<<"CONSUMED", Len(Tr)>>)
Spec == Init /\ [][Next]_vars
=============================================================================
