------------------------------ MODULE Experiment ------------------------------
(* Design model of cimba_run_experiment (src/cimba.c) for property C19.        *)
(*                                                                             *)
(* One main thread creates W worker threads one after another (workers start   *)
(* to run while the others are still being created), every worker repeatedly   *)
(* takes the next index from a shared dispenser and calls the trial function   *)
(* on that array element, leaves when the dispenser is exhausted and frees its *)
(* thread-local pools; main joins the workers in order and returns.            *)
(*                                                                             *)
(* A trial is a small program over the THREAD-LOCAL engine state of its worker *)
(* (generator state, coin-flip bit cache, logger mask, simulation clock).  All *)
(* trials belong to the class the property speaks about: they initialise what  *)
(* they use from their own parameters (seed, logger flags, start time); the    *)
(* rest is an arbitrary body from the constant Bodies.  Observations made by   *)
(* the body are the trial's result.  The generator is deterministic, so a draw *)
(* is identified by <<seed, position>> and a coin flip by <<seed, position of  *)
(* the cached word, bit>>.                                                     *)
(*                                                                             *)
(* Every step emits the events of spec/ExperimentMon.tla; the property monitor *)
(* MStep and the design-conformance monitor DStep are folded over them, so the *)
(* same operators that judge traces of the real library are model-checked here *)
(* over ALL interleavings and ALL assignments of bodies to trials:             *)
(*   NoViolation / NoDrift.   Independent formulations over the model state    *)
(* (ExactlyOnce, AllFinished, OwnElement, Sequential) cross-check the monitor. *)
(*                                                                             *)
(* The BOOLEAN constants are the design decisions the property rests on; all   *)
(* TRUE is the intended design.  Setting one to FALSE gives the deviation the  *)
(* property forbids, and TLC must then report a violation (the check runs      *)
(* these as a sensitivity test of the monitor):                                *)
(*   AtomicFetch          dispenser is one atomic fetch-and-add                *)
(*   JoinsAll             main joins every worker (FALSE: only the first)      *)
(*   StrictBound          a worker stops at idx >= N (FALSE: idx > N)          *)
(*   SeedClearsFlipCache  seeding discards cached coin-flip bits               *)
(*   ThreadLocalState     engine state is per thread (FALSE: one shared copy)  *)
EXTENDS Integers, Sequences, FiniteSets, TLC, ExperimentMon

CONSTANTS W, N, Bodies, FlipW,
          AtomicFetch, JoinsAll, StrictBound, SeedClearsFlipCache, ThreadLocalState

Workers == 1..W
Trials == 0..(N - 1)
AllFlags == {1, 2}
MaskSet(k) == {f \in AllFlags : (k \div f) % 2 = 1}

(* ---------------- thread-local engine state and trial operations ---------- *)
FreshTLS == [rng |-> <<0, 0>>, fc |-> <<0, 0, 0>>, mask |-> AllFlags, clk |-> 0]
Obs(k, a, b, c) == << <<k, a, b, c>> >>
Unfilled == << <<0, 0, 0, 0>> >>

Exec(t, op) ==
  CASE op[1] = "seed"  -> [t |-> [t EXCEPT !.rng = <<op[2], 0>>,
                                           !.fc = IF SeedClearsFlipCache THEN <<0, 0, 0>> ELSE @], o |-> <<>>]
    [] op[1] = "rterm" -> [t |-> [t EXCEPT !.rng = <<0, 0>>], o |-> <<>>]
    [] op[1] = "draw"  -> [t |-> [t EXCEPT !.rng[2] = @ + 1], o |-> Obs(1, t.rng[1], t.rng[2], 0)]
    [] op[1] = "flip"  -> IF t.fc[3] = 0
                            THEN [t |-> [t EXCEPT !.rng[2] = @ + 1, !.fc = <<t.rng[1], t.rng[2], FlipW - 1>>],
                                  o |-> Obs(2, t.rng[1], t.rng[2], FlipW)]
                            ELSE [t |-> [t EXCEPT !.fc[3] = @ - 1], o |-> Obs(2, t.fc[1], t.fc[2], t.fc[3])]
    [] op[1] = "mask"  -> [t |-> [t EXCEPT !.mask = MaskSet(op[2])], o |-> <<>>]
    [] op[1] = "off"   -> [t |-> [t EXCEPT !.mask = @ \ {op[2]}], o |-> <<>>]
    [] op[1] = "log"   -> [t |-> t, o |-> Obs(3, op[2], IF op[2] \in t.mask THEN 1 ELSE 0, 0)]
    [] op[1] = "qinit" -> [t |-> [t EXCEPT !.clk = op[2]], o |-> <<>>]
    [] op[1] = "hold"  -> [t |-> [t EXCEPT !.clk = @ + op[2]], o |-> Obs(4, t.clk + op[2], 0, 0)]
    [] op[1] = "qterm" -> [t |-> [t EXCEPT !.clk = 0], o |-> <<>>]

RunProg(t0, prog) ==
  LET RECURSIVE R(_, _, _)
      R(t, acc, k) == IF k > Len(prog) THEN [t |-> t, acc |-> acc]
                      ELSE LET x == Exec(t, prog[k]) IN R(x.t, acc \o x.o, k + 1)
  IN R(t0, <<>>, 1)

(* what every trial of the class does first, from its own parameters *)
Prelude(i) == << <<"seed", i + 1>>, <<"mask", 3>>, <<"qinit", 0>> >>

(* the reference: the same trials one after another, in array order, in one fresh thread *)
SeqRes(b) ==
  LET RECURSIVE S(_, _, _)
      S(t, i, res) == IF i = N THEN res
                      ELSE LET x == RunProg(t, Prelude(i) \o b[i]) IN S(x.t, i + 1, (i :> x.acc) @@ res)
  IN S(FreshTLS, 0, NoRef)

(* ------------------------------- state ------------------------------------ *)
VARIABLES main,     \* [pc: spawn | join | returned, c: workers created / joined]
          next,     \* the dispenser
          wk,       \* per worker [pc, idx, k, acc, tmp]
          tls,      \* per worker thread-local engine state
          arr,      \* result field of every array element
          body,     \* the body of every trial (chosen at Init)
          runs,     \* history: calls begun per element
          endorder, \* history: elements in the order their calls ended
          mon, dmon, viol, drift
vars == <<main, next, wk, tls, arr, body, runs, endorder, mon, dmon, viol, drift>>

T(w) == IF ThreadLocalState THEN w ELSE 1
Beyond(i) == IF StrictBound THEN i >= N ELSE i > N

Fold(m0, d0, evs) ==
  LET RECURSIVE F(_, _, _, _, _)
      F(m, d, vb, db, i) == IF i > Len(evs) THEN [m |-> m, d |-> d, vb |-> vb, db |-> db]
                            ELSE LET r == MStep(m, evs[i])
                                     q == DStep(d, evs[i])
                                 IN IF r.bad = {} /\ q.bad = {}      \* (evaluated first: keeps TLC from nesting lazy values)
                                      THEN F(r.m, q.d, vb, db, i + 1)
                                      ELSE F(r.m, q.d, vb \cup r.bad, db \cup q.bad, i + 1)
  IN F(m0, d0, {}, {}, 1)
Emit(evs) == LET r == Fold(mon, dmon, evs) IN
             /\ mon' = r.m /\ dmon' = r.d /\ viol' = viol \cup r.vb /\ drift' = drift \cup r.db
Quiet == UNCHANGED <<mon, dmon, viol, drift>>

HeaderEvents(b) ==
  LET ref == SeqRes(b) IN
  << [e |-> "Group", n |-> N, seeded |-> TRUE] >>
  \o [i \in 1..N |-> [e |-> "Ref", slot |-> i - 1, r |-> ref[i - 1]]]
  \o << [e |-> "Run", cores |-> W] >>

Init ==
  /\ main = [pc |-> "spawn", c |-> 0]
  /\ next = 0
  /\ wk = [w \in Workers |-> [pc |-> "off", idx |-> 0, k |-> 0, acc |-> <<>>, tmp |-> 0]]
  /\ tls = [w \in Workers |-> FreshTLS]
  /\ arr = [i \in Trials |-> Unfilled]
  /\ body \in [Trials -> Bodies]
  /\ runs = [i \in Trials |-> 0]
  /\ endorder = <<>>
  /\ LET r == Fold(MInit, DInit, HeaderEvents(body)) IN
     mon = r.m /\ dmon = r.d /\ viol = r.vb /\ drift = r.db

(* ------------------------------ main thread -------------------------------- *)
Spawn ==
  /\ main.pc = "spawn"
  /\ LET w == main.c + 1 IN
     /\ wk' = [wk EXCEPT ![w].pc = "fetch"]
     /\ main' = IF w = W THEN [pc |-> "join", c |-> 0] ELSE [main EXCEPT !.c = w]
  /\ UNCHANGED <<next, tls, arr, body, runs, endorder>> /\ Quiet

Join ==
  /\ main.pc = "join"
  /\ main.c < (IF JoinsAll THEN W ELSE 1)
  /\ wk[main.c + 1].pc = "done"
  /\ main' = [main EXCEPT !.c = @ + 1]
  /\ UNCHANGED <<next, wk, tls, arr, body, runs, endorder>> /\ Quiet

Return ==
  /\ main.pc = "join"
  /\ main.c = (IF JoinsAll THEN W ELSE 1)
  /\ main' = [main EXCEPT !.pc = "returned"]
  /\ Emit(<< [e |-> "Return"] >>
          \o [i \in 1..N |-> [e |-> "Result", slot |-> i - 1, r |-> arr[i - 1]]]
          \o << [e |-> "RunEnd"] >>)
  /\ UNCHANGED <<next, wk, tls, arr, body, runs, endorder>>

(* -------------------------------- workers ---------------------------------- *)
AfterFetch(w, i) == [wk EXCEPT ![w].idx = i, ![w].pc = IF Beyond(i) THEN "exit" ELSE "begin"]

Fetch(w) ==
  /\ AtomicFetch /\ wk[w].pc = "fetch"
  /\ next' = next + 1
  /\ wk' = AfterFetch(w, next)
  /\ UNCHANGED <<main, tls, arr, body, runs, endorder>> /\ Quiet

FetchRead(w) ==
  /\ ~AtomicFetch /\ wk[w].pc = "fetch"
  /\ wk' = [wk EXCEPT ![w].tmp = next, ![w].pc = "fetch2"]
  /\ UNCHANGED <<main, next, tls, arr, body, runs, endorder>> /\ Quiet

FetchWrite(w) ==
  /\ wk[w].pc = "fetch2"
  /\ next' = wk[w].tmp + 1
  /\ wk' = AfterFetch(w, wk[w].tmp)
  /\ UNCHANGED <<main, tls, arr, body, runs, endorder>> /\ Quiet

Begin(w) ==
  /\ wk[w].pc = "begin"
  /\ LET i == wk[w].idx IN
     /\ Emit(<< [e |-> "Begin", w |-> w, slot |-> i, rem |-> 0, inarr |-> i < N] >>)
     /\ IF i < N
          THEN /\ tls' = [tls EXCEPT ![T(w)] = RunProg(@, Prelude(i)).t]
               /\ wk' = [wk EXCEPT ![w].pc = "run", ![w].k = 1, ![w].acc = <<>>]
               /\ runs' = [runs EXCEPT ![i] = @ + 1]
          ELSE /\ wk' = [wk EXCEPT ![w].pc = "fetch"]      \* a call on something that is no element
               /\ UNCHANGED <<tls, runs>>
  /\ UNCHANGED <<main, next, arr, body, endorder>>

TrialStep(w) ==
  /\ wk[w].pc = "run" /\ wk[w].k <= Len(body[wk[w].idx])
  /\ LET x == Exec(tls[T(w)], body[wk[w].idx][wk[w].k]) IN
     /\ tls' = [tls EXCEPT ![T(w)] = x.t]
     /\ wk' = [wk EXCEPT ![w].k = @ + 1, ![w].acc = @ \o x.o]
  /\ UNCHANGED <<main, next, arr, body, runs, endorder>> /\ Quiet

Finish(w) ==
  /\ wk[w].pc = "run" /\ wk[w].k > Len(body[wk[w].idx])
  /\ arr' = [arr EXCEPT ![wk[w].idx] = wk[w].acc]
  /\ endorder' = Append(endorder, wk[w].idx)
  /\ Emit(<< [e |-> "End", w |-> w, slot |-> wk[w].idx] >>)
  /\ wk' = [wk EXCEPT ![w].pc = "fetch"]
  /\ UNCHANGED <<main, next, tls, body, runs>>

Exit(w) ==
  /\ wk[w].pc = "exit"
  /\ wk' = [wk EXCEPT ![w].pc = "done"]
  /\ UNCHANGED <<main, next, tls, arr, body, runs, endorder>> /\ Quiet

Next == \/ Spawn \/ Join \/ Return
        \/ \E w \in Workers : Fetch(w) \/ FetchRead(w) \/ FetchWrite(w) \/ Begin(w) \/ TrialStep(w) \/ Finish(w) \/ Exit(w)

Spec == Init /\ [][Next]_vars /\ WF_vars(Next)

(* ------------------------------ properties --------------------------------- *)
TypeOK ==
  /\ main.pc \in {"spawn", "join", "returned"} /\ main.c \in 0..W
  /\ next \in 0..(N + 2 * W + 1)
  /\ \A w \in Workers : wk[w].pc \in {"off", "fetch", "fetch2", "begin", "run", "exit", "done"}

(* the monitors, over every interleaving *)
NoViolation == viol = {}
NoDrift == drift = {}
NoEarlyReturn == "returned-before-all-trial-calls-finished" \notin viol      \* (used by the sensitivity run JoinsAll = FALSE)

(* the same statement, directly over the model state *)
Returned == main.pc = "returned"
ExactlyOnce == Returned => \A i \in Trials : runs[i] = 1
AllFinished == Returned => \A w \in Workers : wk[w].pc = "done"
OwnElement == \A w \in Workers : wk[w].pc \in {"begin", "run"} => wk[w].idx \in Trials
NoTwoOnOneElement == \A v, w \in Workers : (v # w /\ wk[v].pc = "run" /\ wk[w].pc = "run") => wk[v].idx # wk[w].idx
Sequential == Returned => \A i \in Trials : arr[i] = SeqRes(body)[i]
MonitorSawReturn == Returned => mon.ph = "idle"
Terminates == <>Returned

(* simulation mode: print the completion order of every finished behaviour, to be forced on the real runner *)
ExportPlan == Returned => PrintT(<<"PLAN", endorder>>)
================================================================================
