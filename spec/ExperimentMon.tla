---------------------------- MODULE ExperimentMon ----------------------------
(* Property C19 as a monitor: "an experiment runs every trial exactly once,    *)
(* isolated and schedule-independent".  A total step function over the event   *)
(* vocabulary shared by the design model (spec/Experiment.tla, where TLC folds *)
(* it over every interleaving) and by harness/exp_replay.c (where              *)
(* spec/ExperimentTrace.tla folds it over traces of the real                   *)
(* cimba_run_experiment).                                                      *)
(*                                                                             *)
(*   MInit          -> monitor state                                           *)
(*   MStep(m, e)    -> [m |-> new state, bad |-> set of rule names]            *)
(*                                                                             *)
(* Events (field e names the kind; slots are 0-based array indices):           *)
(*   Group{n, seeded}      a new experiment description: n trials; seeded =    *)
(*                         every trial seeds the generator from its own        *)
(*                         parameters (only then does the property speak about *)
(*                         results)                                            *)
(*   Ref{slot, r}          result of trial `slot` when the same trials run one *)
(*                         after another, in array order, in one fresh thread  *)
(*   Run{cores}            cimba_run_experiment is about to be called          *)
(*   Begin{w, slot, rem, inarr}  a call of the trial function has begun on     *)
(*                         thread w; its argument is array base + slot*size +  *)
(*                         rem (inarr: the argument lies inside the array)     *)
(*   End{w, slot}          that call is about to return                        *)
(*   Return                cimba_run_experiment has returned                   *)
(*   Result{slot, r}       result fields of element `slot`, read from the      *)
(*                         caller's array after the return                     *)
(*   RunEnd                nothing more will be reported for this run          *)
(* Begin, End and Return appear in the order of a global atomic stamp, i.e.    *)
(* the trace is a linearisation of what happened.                              *)
(*                                                                             *)
(* Every rule is tied to a clause of the statement:                            *)
(*   call-argument-is-not-an-element-of-the-trial-array   "passing each call   *)
(*        its own element"                                                     *)
(*   trial-executed-more-than-once      "exactly once for every element"       *)
(*   trial-never-executed               "exactly once for every element"       *)
(*   returned-before-all-trial-calls-finished   "returns only after all calls  *)
(*        have finished" (a call still open at the return, or any Begin/End    *)
(*        after it)                                                            *)
(*   result-differs-from-sequential-run "bit-identical to running the same     *)
(*        trials one after another in a single thread" (seeded groups only;    *)
(*        judged only for a trial that ran exactly once, so that the root      *)
(*        cause is reported, not its echo)                                     *)
(* Left open on purpose (the statement does not speak about it): which thread  *)
(* runs which trial, how many threads there are, the order of begins and ends, *)
(* whether a thread runs its trials in array order.  Those are facts of the    *)
(* design; they are in DStep below and are reported as DRIFT, never as a       *)
(* violation.  Rules named harness-... mean the recording itself is malformed. *)
EXTENDS Integers, Sequences, FiniteSets, TLC

Slots(m) == 0..(m.n - 1)
Zero(n) == [s \in 0..(n - 1) |-> 0]
NoRef == [s \in {} |-> <<>>]

MInit == [ph |-> "none", n |-> 0, seeded |-> FALSE, ref |-> NoRef,
          begun |-> Zero(0), ended |-> Zero(0), returned |-> FALSE, got |-> {}]

ValidArg(m, e) == e.inarr /\ e.rem = 0 /\ e.slot \in Slots(m)

MStep(m, e) ==
  CASE e.e = "Group" ->
         [m |-> [ph |-> "group", n |-> e.n, seeded |-> e.seeded, ref |-> NoRef,
                 begun |-> Zero(e.n), ended |-> Zero(e.n), returned |-> FALSE, got |-> {}],
          bad |-> IF e.n >= 1 THEN {} ELSE {"harness-empty-experiment"}]
    [] e.e = "Ref" ->
         IF m.ph # "group" \/ e.slot \notin Slots(m) \/ e.slot \in DOMAIN m.ref
           THEN [m |-> m, bad |-> {"harness-misplaced-reference"}]
           ELSE [m |-> [m EXCEPT !.ref = (e.slot :> e.r) @@ @], bad |-> {}]
    [] e.e = "Run" ->
         [m |-> [m EXCEPT !.ph = "run", !.begun = Zero(m.n), !.ended = Zero(m.n),
                          !.returned = FALSE, !.got = {}],
          bad |-> IF m.ph \in {"group", "idle"} THEN {} ELSE {"harness-run-outside-group"}]
    [] e.e = "Begin" ->
         IF m.ph # "run" THEN [m |-> m, bad |-> {"harness-call-outside-run"}]
         ELSE LET late == IF m.returned THEN {"returned-before-all-trial-calls-finished"} ELSE {} IN
              IF ~ValidArg(m, e)
                THEN [m |-> m, bad |-> late \cup {"call-argument-is-not-an-element-of-the-trial-array"}]
                ELSE [m |-> [m EXCEPT !.begun[e.slot] = @ + 1],
                      bad |-> late \cup (IF m.begun[e.slot] >= 1 THEN {"trial-executed-more-than-once"} ELSE {})]
    [] e.e = "End" ->
         IF m.ph # "run" \/ e.slot \notin Slots(m) THEN [m |-> m, bad |-> {"harness-call-outside-run"}]
         ELSE IF m.ended[e.slot] >= m.begun[e.slot] THEN [m |-> m, bad |-> {"harness-end-without-begin"}]
         ELSE [m |-> [m EXCEPT !.ended[e.slot] = @ + 1],
               bad |-> IF m.returned THEN {"returned-before-all-trial-calls-finished"} ELSE {}]
    [] e.e = "Return" ->
         IF m.ph # "run" \/ m.returned THEN [m |-> m, bad |-> {"harness-misplaced-return"}]
         ELSE [m |-> [m EXCEPT !.returned = TRUE],
               bad |-> (IF \E s \in Slots(m) : m.begun[s] = 0 THEN {"trial-never-executed"} ELSE {})
                       \cup (IF \E s \in Slots(m) : m.begun[s] > m.ended[s]
                               THEN {"returned-before-all-trial-calls-finished"} ELSE {})]
    [] e.e = "Result" ->
         IF m.ph # "run" \/ ~m.returned \/ e.slot \notin Slots(m) \/ e.slot \in m.got
           THEN [m |-> m, bad |-> {"harness-misplaced-result"}]
         ELSE IF m.seeded /\ e.slot \notin DOMAIN m.ref
           THEN [m |-> m, bad |-> {"harness-reference-missing"}]
         ELSE [m |-> [m EXCEPT !.got = @ \cup {e.slot}],
               bad |-> IF m.seeded /\ m.begun[e.slot] = 1 /\ m.ended[e.slot] = 1 /\ e.r # m.ref[e.slot]
                         THEN {"result-differs-from-sequential-run"} ELSE {}]
    [] e.e = "RunEnd" ->
         [m |-> [m EXCEPT !.ph = "idle"],
          bad |-> IF m.ph = "run" /\ m.returned /\ m.got = Slots(m) THEN {} ELSE {"harness-incomplete-run"}]
    [] OTHER -> [m |-> m, bad |-> {}]

(* ------------------------------------------------------------------------- *)
(* Design conformance (DRIFT, not part of the property): facts of the design  *)
(* model that a different, still correct, runner need not share.  TLC checks  *)
(* in Experiment.tla that the intended design has them.                       *)
(*   worker-does-not-take-trials-in-array-order  (the dispenser only counts up)*)
(*   worker-runs-two-calls-at-once                                            *)
(*   more-worker-threads-than-cores                                           *)
DInit == [cores |-> 0, last |-> [w \in {} |-> 0], open |-> {}]

DStep(d, e) ==
  CASE e.e = "Run" -> [d |-> [cores |-> e.cores, last |-> [w \in {} |-> 0], open |-> {}], bad |-> {}]
    [] e.e = "Begin" ->
         LET known == e.w \in DOMAIN d.last
             valid == e.inarr /\ e.rem = 0            \* (a call on something that is no element has no End; the property monitor reports it)
         IN
         [d |-> IF valid THEN [d EXCEPT !.last = (e.w :> e.slot) @@ @, !.open = @ \cup {e.w}] ELSE d,
          bad |-> (IF valid /\ known /\ e.slot <= d.last[e.w] THEN {"worker-does-not-take-trials-in-array-order"} ELSE {})
                  \cup (IF valid /\ e.w \in d.open THEN {"worker-runs-two-calls-at-once"} ELSE {})
                  \cup (IF valid /\ ~known /\ Cardinality(DOMAIN d.last) >= d.cores THEN {"more-worker-threads-than-cores"} ELSE {})]
    [] e.e = "End" -> [d |-> [d EXCEPT !.open = @ \ {e.w}], bad |-> {}]
    [] OTHER -> [d |-> d, bad |-> {}]
=============================================================================
