----------------------------- MODULE CtxMachine -----------------------------
(* Property C03, register / stack contract: an abstract x86-64 machine      *)
(* interprets the ACTUAL instructions of cmi_coroutine_context_switch and   *)
(* cmi_coroutine_trampoline (disassembly of the object assembled from the   *)
(* tree under test, env C03_PROG) starting from the ACTUAL initial frame    *)
(* that cmi_coroutine_context_init builds (dump taken by coro_probe, env    *)
(* C03_FRAME), over symbolic register contents.                             *)
(*                                                                          *)
(* Values are 4-tuples <<tag, a, b, c>>:                                    *)
(*   <<"u",c,e,r>>   content of callee-saved register r of context c in its *)
(*                   e-th stretch of user code (arbitrary, distinct)        *)
(*   <<"mx",c,e,0>>  its MXCSR      <<"fl",c,e,0>> its rflags               *)
(*   <<"msg",c,e,0>> the message it hands over   <<"rv",c,0,0>> the value   *)
(*                   its function returns                                   *)
(*   <<"stk",c,o,0>> address base(c)+o on the stack of c (o <= 0)           *)
(*   <<"slot",c,0,0>> address of the stack_pointer field of c               *)
(*   <<"ret",c,e,0>> return address into user code of c                     *)
(*   <<"code",i,0,0>> address of instruction i of the object                *)
(*   <<"FUNC",c,0,0>> <<"SELF",c,0,0>> <<"CTX",c,0,0>> <<"EXITFN",c,0,0>>   *)
(*   <<"TRAMPOLINE",0,0,0>>   <<"num",lo,hi,0>>   <<"junk",0,0,0>>          *)
(* Memory: per stack, 4-byte cells [v, h]: h = 0 / 1 low / high half of the *)
(* 8-byte value v, h = 2 a 4-byte datum.                                    *)
(* Context 1 starts as running user code (the main stack); the others start *)
(* with the dumped initial frame.                                           *)
EXTENDS Integers, Sequences, FiniteSets, TLC, Json, IOUtils

CONSTANTS NCtx, MaxSw, Depths

Dis == JsonDeserialize(IOEnv.C03_PROG)     \* [ins: seq of [op,r1,r2,off,imm,text], switch, trampoline]
Frm == JsonDeserialize(IOEnv.C03_FRAME)    \* [frames: seq of [name, spoff, basemod, cells]]
Ins == Dis.ins

Ctx == 1..NCtx
Regs == {"rax", "rbx", "rcx", "rdx", "rsi", "rdi", "rbp", "rsp", "r8", "r9", "r10", "r11", "r12", "r13", "r14", "r15"}
CalleeSaved == <<"rbx", "rbp", "r12", "r13", "r14", "r15">>
CS == {CalleeSaved[x] : x \in 1..6}
CSIdx(r) == CHOOSE x \in 1..6 : CalleeSaved[x] = r

V(t, a, b, c) == <<t, a, b, c>>
Junk == V("junk", 0, 0, 0)
JunkCell == [v |-> Junk, h |-> 2]
MaxCell == 48
Offs == {-4 * x : x \in 1..MaxCell}
UserBase == -16             \* rsp of user code before it calls the switch (16-byte aligned)

FrameOf(c) == Frm.frames[((c - 2) % Len(Frm.frames)) + 1]
BaseMod(c) == IF c = 1 THEN 0 ELSE FrameOf(c).basemod
CellOf(c, x) ==
  CASE x.k = "sym" -> [v |-> V(x.s, IF x.s = "TRAMPOLINE" THEN 0 ELSE c, 0, 0), h |-> x.h]
    [] x.k = "stk" -> [v |-> V("stk", c, x.v, 0), h |-> x.h]
    [] x.k = "num" -> [v |-> V("num", x.v, 0, 0), h |-> 2]
    [] OTHER -> JunkCell
FrameMem(c) ==
  LET f == FrameOf(c) IN
  [o \in Offs |-> LET j == (o + f.spoff) \div 4 IN
                  IF o >= -f.spoff /\ j + 1 \in 1..Len(f.cells) THEN CellOf(c, f.cells[j + 1]) ELSE JunkCell]

VARIABLES mode,     \* "user": user code of ctx `run` decides; "exec": the machine runs; "stop": an error was recorded
          run, pc, reg, mxcsr, flags, mem, slot,
          phase,    \* per ctx: "fresh" | "susp" | "run" | "dead"
          infunc,   \* per ctx: entered its function through the trampoline and has not returned from it
          exiting,  \* per ctx: its exit function has been reached
          ep,       \* per ctx: number of switch calls made
          saved,    \* per ctx: what user code had when it called the switch
          entry,    \* per ctx: callee-saved registers and rsp at entry of its function
          live,     \* per ctx: lowest offset that belongs to suspended / calling user code
          inflight, \* message handed over by the last switch call
          target,   \* ctx the last switch call names
          nsw,
          chk,      \* result of the last arrival: record of booleans
          prop,     \* "" or the name of a violated clause of the property
          mach      \* "" or a limitation of this machine (not a verdict about the code)
vars == <<mode, run, pc, reg, mxcsr, flags, mem, slot, phase, infunc, exiting, ep, saved, entry, live, inflight, target, nsw, chk, prop, mach>>

NoChk == [kind |-> "none"]
NoSaved == [regs |-> [r \in CS |-> Junk], rsp |-> Junk, mx |-> Junk]

Init ==
  /\ mode = "user" /\ run = 1 /\ pc = 0
  /\ reg = [r \in Regs |-> Junk] /\ mxcsr = Junk /\ flags = Junk
  /\ mem = [c \in Ctx |-> IF c = 1 THEN [o \in Offs |-> JunkCell] ELSE FrameMem(c)]
  /\ slot = [c \in Ctx |-> IF c = 1 THEN Junk ELSE V("stk", c, -FrameOf(c).spoff, 0)]
  /\ phase = [c \in Ctx |-> IF c = 1 THEN "run" ELSE "fresh"]
  /\ infunc = [c \in Ctx |-> FALSE] /\ exiting = [c \in Ctx |-> FALSE]
  /\ ep = [c \in Ctx |-> 0]
  /\ saved = [c \in Ctx |-> NoSaved]
  /\ entry = [c \in Ctx |-> NoSaved]
  /\ live = [c \in Ctx |-> 0]
  /\ inflight = Junk /\ target = 0 /\ nsw = 0
  /\ chk = NoChk /\ prop = "" /\ mach = ""

----------------------------------------------------------------------------
(* memory *)
IsStk(v) == v[1] = "stk"
Rd64(c, o) ==
  IF o \notin Offs \/ o + 4 \notin Offs THEN Junk
  ELSE LET a == mem[c][o]  b == mem[c][o + 4] IN
       IF a.h = 0 /\ b.h = 1 /\ a.v = b.v THEN a.v
       ELSE IF a.h = 2 /\ b.h = 2 /\ a.v[1] = "num" /\ b.v[1] = "num" THEN V("num", a.v[2], b.v[2], 0)
       ELSE Junk
Rd32(c, o) == IF o \notin Offs THEN Junk ELSE IF mem[c][o].h = 2 THEN mem[c][o].v ELSE Junk
Wr64(m, c, o, v) == [m EXCEPT ![c] = [@ EXCEPT ![o] = [v |-> v, h |-> 0], ![o + 4] = [v |-> v, h |-> 1]]]
Wr32(m, c, o, v) == [m EXCEPT ![c] = [@ EXCEPT ![o] = [v |-> v, h |-> 2]]]
InRange(o, size) == o \in Offs /\ (o + size - 4) \in Offs
(* a store of `size` bytes at offset o of stack c touches memory that belongs to user code *)
Clobbers(c, o, size) == o + size > live[c]

Halt(p, m) == /\ mode' = "stop" /\ prop' = p /\ mach' = m
              /\ UNCHANGED <<run, pc, reg, mxcsr, flags, mem, slot, phase, infunc, exiting, ep, saved, entry, live, inflight, target, nsw, chk>>
PropErr(p) == Halt(p, "")
MachErr(m) == Halt("", m)

----------------------------------------------------------------------------
(* user code of the running context calls cmi_coroutine_context_switch(&sp[c], &sp[d], msg) *)
CallSwitch(d, dep) ==
  LET c == run
      e == ep[c] + 1
      r0 == UserBase - 16 * dep
      ur == [r \in CS |-> V("u", c, e, CSIdx(r))] IN
  /\ mode = "user" /\ nsw < MaxSw /\ d # c /\ phase[d] \in {"fresh", "susp"} /\ phase[c] = "run"
  /\ ep' = [ep EXCEPT ![c] = e]
  /\ reg' = [r \in Regs |-> IF r \in CS THEN ur[r]
                            ELSE IF r = "rsp" THEN V("stk", c, r0 - 8, 0)
                            ELSE IF r = "rdi" THEN V("slot", c, 0, 0)
                            ELSE IF r = "rsi" THEN V("slot", d, 0, 0)
                            ELSE IF r = "rdx" THEN V("msg", c, e, 0)
                            ELSE Junk]
  /\ mxcsr' = V("mx", c, e, 0) /\ flags' = V("fl", c, e, 0)
  /\ mem' = Wr64(mem, c, r0 - 8, V("ret", c, e, 0))
  /\ saved' = [saved EXCEPT ![c] = [regs |-> ur, rsp |-> V("stk", c, r0, 0), mx |-> V("mx", c, e, 0)]]
  /\ live' = [live EXCEPT ![c] = r0 - 8]
  /\ inflight' = V("msg", c, e, 0) /\ target' = d
  /\ phase' = [phase EXCEPT ![c] = IF exiting[c] THEN "dead" ELSE "susp"]
  /\ pc' = Dis.switch + 1 /\ mode' = "exec" /\ nsw' = nsw + 1 /\ chk' = NoChk
  /\ UNCHANGED <<run, slot, infunc, exiting, entry, prop, mach>>

(* the function of the running context returns to the trampoline (ABI: callee-saved registers *)
(* and rsp as at entry, value in rax, everything else arbitrary)                              *)
FuncReturn ==
  LET c == run
      sp == entry[c].rsp
      ra == Rd64(c, sp[3]) IN
  /\ mode = "user" /\ infunc[c] /\ ~exiting[c] /\ phase[c] = "run"
  /\ IF ra[1] # "code" THEN PropErr("return-address-of-the-coroutine-function-lost")
     ELSE /\ reg' = [r \in Regs |-> IF r \in CS THEN entry[c].regs[r]
                                    ELSE IF r = "rsp" THEN V("stk", c, sp[3] + 8, 0)
                                    ELSE IF r = "rax" THEN V("rv", c, 0, 0)
                                    ELSE Junk]
          /\ mxcsr' = V("mx", c, 99, 0) /\ flags' = V("fl", c, 99, 0)
          /\ live' = [live EXCEPT ![c] = sp[3] + 8]
          /\ infunc' = [infunc EXCEPT ![c] = FALSE]
          /\ pc' = ra[2] /\ mode' = "exec" /\ chk' = NoChk
          /\ UNCHANGED <<run, mem, slot, phase, exiting, ep, saved, entry, inflight, target, nsw, prop, mach>>

----------------------------------------------------------------------------
(* one machine instruction *)
Sp == reg["rsp"]
Next1 == pc' = pc + 1
Keep(vs) == UNCHANGED vs
CtlVars == <<run, phase, infunc, exiting, ep, saved, entry, live, inflight, target, nsw, chk, prop, mach, mode>>

Push(v) ==
  LET c == Sp[2]  o == Sp[3] - 8 IN
  IF ~InRange(o, 8) THEN MachErr("stack-deeper-than-the-model")
  ELSE IF Clobbers(c, o, 8) THEN PropErr("switch-overwrites-live-stack")
  ELSE /\ mem' = Wr64(mem, c, o, v) /\ reg' = [reg EXCEPT !["rsp"] = V("stk", c, o, 0)]
       /\ Next1 /\ Keep(<<mxcsr, flags, slot>>) /\ Keep(CtlVars)

(* arrival in user code of context c by a RET *)
ArriveUser(c, e, newsp) ==
  /\ chk' = [kind |-> "resume", c |-> c,
             who |-> (c = target /\ e = ep[c] /\ phase[c] = "susp"),
             regs |-> (\A r \in CS : reg[r] = saved[c].regs[r]),
             mx |-> (mxcsr = saved[c].mx),
             sp |-> (newsp = saved[c].rsp),
             msg |-> (reg["rax"] = inflight)]
  /\ mode' = "user" /\ run' = c /\ phase' = [phase EXCEPT ![c] = "run"]
  /\ reg' = [reg EXCEPT !["rsp"] = newsp]
  /\ Keep(<<pc, mxcsr, flags, mem, slot, infunc, exiting, ep, saved, entry, live, inflight, target, nsw, prop, mach>>)

Exec ==
  /\ mode = "exec"
  /\ IF pc \notin 1..Len(Ins) THEN MachErr("execution-left-the-object")
     ELSE LET i == Ins[pc] IN
     IF ~IsStk(Sp) THEN PropErr("stack-pointer-is-not-a-stack-address")
     ELSE
     CASE i.op = "push" -> IF i.r1 \in Regs THEN Push(reg[i.r1]) ELSE MachErr("unknown-register")
       [] i.op = "pushf" -> Push(flags)
       [] i.op = "pop" ->
            LET c == Sp[2]  o == Sp[3] IN
            IF i.r1 \notin Regs \/ i.r1 = "rsp" THEN MachErr("unknown-register")
            ELSE IF ~InRange(o, 8) THEN PropErr("pop-beyond-the-stack-base")
            ELSE /\ reg' = [reg EXCEPT ![i.r1] = Rd64(c, o), !["rsp"] = V("stk", c, o + 8, 0)]
                 /\ Next1 /\ Keep(<<mxcsr, flags, mem, slot>>) /\ Keep(CtlVars)
       [] i.op = "popf" ->
            LET c == Sp[2]  o == Sp[3] IN
            IF ~InRange(o, 8) THEN PropErr("pop-beyond-the-stack-base")
            ELSE /\ flags' = Rd64(c, o) /\ reg' = [reg EXCEPT !["rsp"] = V("stk", c, o + 8, 0)]
                 /\ Next1 /\ Keep(<<mxcsr, mem, slot>>) /\ Keep(CtlVars)
       [] i.op \in {"sub", "add"} ->
            IF i.r1 # "rsp" THEN MachErr("arithmetic-on-other-than-rsp")
            ELSE LET o == IF i.op = "sub" THEN Sp[3] - i.imm ELSE Sp[3] + i.imm IN
                 /\ reg' = [reg EXCEPT !["rsp"] = V("stk", Sp[2], o, 0)]
                 /\ Next1 /\ Keep(<<mxcsr, flags, mem, slot>>) /\ Keep(CtlVars)
       [] i.op = "stmxcsr" ->
            IF i.r1 \notin Regs THEN MachErr("unknown-register")
            ELSE LET a == reg[i.r1] IN
            IF ~IsStk(a) THEN PropErr("store-to-unknown-address")
            ELSE IF ~InRange(a[3] + i.off, 4) THEN MachErr("stack-deeper-than-the-model")
            ELSE IF Clobbers(a[2], a[3] + i.off, 4) THEN PropErr("switch-overwrites-live-stack")
            ELSE /\ mem' = Wr32(mem, a[2], a[3] + i.off, mxcsr)
                 /\ Next1 /\ Keep(<<reg, mxcsr, flags, slot>>) /\ Keep(CtlVars)
       [] i.op = "ldmxcsr" ->
            IF i.r1 \notin Regs THEN MachErr("unknown-register")
            ELSE LET a == reg[i.r1] IN
            IF ~IsStk(a) THEN PropErr("load-from-unknown-address")
            ELSE LET v == Rd32(a[2], a[3] + i.off) IN
                 IF v[1] = "num" /\ v[2] >= 65536 THEN PropErr("mxcsr-loaded-with-reserved-bits-set")
                 ELSE /\ mxcsr' = v
                      /\ Next1 /\ Keep(<<reg, flags, mem, slot>>) /\ Keep(CtlVars)
       [] i.op = "store" ->      \* mov [r1+off], r2
            IF i.r1 \notin Regs \/ i.r2 \notin Regs THEN MachErr("unknown-register")
            ELSE LET a == reg[i.r1] IN
            IF a[1] = "slot" /\ i.off = 0
              THEN /\ slot' = [slot EXCEPT ![a[2]] = reg[i.r2]]
                   /\ Next1 /\ Keep(<<reg, mxcsr, flags, mem>>) /\ Keep(CtlVars)
            ELSE IF IsStk(a)
              THEN IF ~InRange(a[3] + i.off, 8) THEN MachErr("stack-deeper-than-the-model")
                   ELSE IF Clobbers(a[2], a[3] + i.off, 8) THEN PropErr("switch-overwrites-live-stack")
                   ELSE /\ mem' = Wr64(mem, a[2], a[3] + i.off, reg[i.r2])
                        /\ Next1 /\ Keep(<<reg, mxcsr, flags, slot>>) /\ Keep(CtlVars)
            ELSE PropErr("store-to-unknown-address")
       [] i.op = "load" ->       \* mov r1, [r2+off]
            IF i.r1 \notin Regs \/ i.r2 \notin Regs THEN MachErr("unknown-register")
            ELSE LET a == reg[i.r2]
                     v == IF a[1] = "slot" /\ i.off = 0 THEN slot[a[2]]
                          ELSE IF IsStk(a) THEN Rd64(a[2], a[3] + i.off) ELSE Junk IN
                 /\ reg' = [reg EXCEPT ![i.r1] = v]
                 /\ Next1 /\ Keep(<<mxcsr, flags, mem, slot>>) /\ Keep(CtlVars)
       [] i.op = "mov" ->
            IF i.r1 \notin Regs \/ i.r2 \notin Regs THEN MachErr("unknown-register")
            ELSE /\ reg' = [reg EXCEPT ![i.r1] = reg[i.r2]]
                 /\ Next1 /\ Keep(<<mxcsr, flags, mem, slot>>) /\ Keep(CtlVars)
       [] i.op = "xor" ->
            IF i.r1 \notin Regs \/ i.r2 \notin Regs THEN MachErr("unknown-register")
            ELSE /\ reg' = [reg EXCEPT ![i.r1] = IF i.r1 = i.r2 THEN V("num", 0, 0, 0) ELSE Junk]
                 /\ flags' = Junk
                 /\ Next1 /\ Keep(<<mxcsr, mem, slot>>) /\ Keep(CtlVars)
       [] i.op = "nop" -> Next1 /\ Keep(<<reg, mxcsr, flags, mem, slot>>) /\ Keep(CtlVars)
       [] i.op = "ret" ->
            LET c == Sp[2]  o == Sp[3]  v == Rd64(c, o)  nsp == V("stk", c, o + 8, 0) IN
            IF ~InRange(o, 8) THEN PropErr("pop-beyond-the-stack-base")
            ELSE IF v[1] = "ret" THEN ArriveUser(v[2], v[3], nsp)
            ELSE IF v[1] = "TRAMPOLINE"
              THEN /\ pc' = Dis.trampoline + 1 /\ reg' = [reg EXCEPT !["rsp"] = nsp]
                   /\ Keep(<<mxcsr, flags, mem, slot>>) /\ Keep(CtlVars)
            ELSE IF v[1] = "code"
              THEN /\ pc' = v[2] /\ reg' = [reg EXCEPT !["rsp"] = nsp]
                   /\ Keep(<<mxcsr, flags, mem, slot>>) /\ Keep(CtlVars)
            ELSE PropErr("switch-returns-to-something-that-is-not-code")
       [] i.op = "callr" ->
            IF i.r1 \notin Regs THEN MachErr("unknown-register")
            ELSE LET t == reg[i.r1]  c == Sp[2]  o == Sp[3] - 8 IN
            IF t[1] = "EXITFN"      \* the exit function entered by a call instead of a jump: it sees the stack one return address deeper
              THEN IF ~InRange(o, 8) THEN MachErr("stack-deeper-than-the-model")
                   ELSE /\ chk' = [kind |-> "exit", c |-> t[2],
                                   who |-> (t[2] = run /\ c = run),
                                   arg |-> (reg["rdi"] = V("rv", run, 0, 0)),
                                   align |-> (((BaseMod(c) + o + 1600) % 16) = 8)]
                        /\ mem' = Wr64(mem, c, o, V("code", pc + 1, 0, 0))
                        /\ reg' = [reg EXCEPT !["rsp"] = V("stk", c, o, 0)]
                        /\ exiting' = [exiting EXCEPT ![run] = TRUE]
                        /\ live' = [live EXCEPT ![run] = o]
                        /\ mode' = "user"
                        /\ Keep(<<run, pc, mxcsr, flags, slot, phase, infunc, ep, saved, entry, inflight, target, nsw, prop, mach>>)
            ELSE IF t[1] # "FUNC" THEN PropErr("trampoline-calls-something-that-is-neither-the-coroutine-function-nor-the-exit-function")
            ELSE IF ~InRange(o, 8) THEN MachErr("stack-deeper-than-the-model")
            ELSE /\ mem' = Wr64(mem, c, o, V("code", pc + 1, 0, 0))
                 /\ reg' = [reg EXCEPT !["rsp"] = V("stk", c, o, 0)]
                 /\ chk' = [kind |-> "entry", c |-> t[2],
                            who |-> (t[2] = target /\ c = t[2] /\ phase[t[2]] = "fresh"),
                            self |-> (reg["rdi"] = V("SELF", t[2], 0, 0)),
                            ctx |-> (reg["rsi"] = V("CTX", t[2], 0, 0)),
                            align |-> (((BaseMod(c) + o + 1600) % 16) = 8)]
                 /\ entry' = [entry EXCEPT ![t[2]] = [regs |-> [r \in CS |-> reg[r]], rsp |-> V("stk", c, o, 0), mx |-> mxcsr]]
                 /\ live' = [live EXCEPT ![t[2]] = o]
                 /\ mode' = "user" /\ run' = t[2]
                 /\ phase' = [phase EXCEPT ![t[2]] = "run"] /\ infunc' = [infunc EXCEPT ![t[2]] = TRUE]
                 /\ Keep(<<pc, mxcsr, flags, slot, exiting, ep, saved, inflight, target, nsw, prop, mach>>)
       [] i.op = "jmpr" ->
            IF i.r1 \notin Regs THEN MachErr("unknown-register")
            ELSE LET t == reg[i.r1]  c == Sp[2] IN
            IF t[1] # "EXITFN" THEN PropErr("trampoline-jumps-to-something-that-is-not-the-exit-function")
            ELSE /\ chk' = [kind |-> "exit", c |-> t[2],
                            who |-> (t[2] = run /\ c = run),
                            arg |-> (reg["rdi"] = V("rv", run, 0, 0)),
                            align |-> (((BaseMod(c) + Sp[3] + 1600) % 16) = 8)]
                 /\ exiting' = [exiting EXCEPT ![run] = TRUE]
                 /\ live' = [live EXCEPT ![run] = Sp[3]]
                 /\ mode' = "user"
                 /\ Keep(<<run, pc, reg, mxcsr, flags, mem, slot, phase, infunc, ep, saved, entry, inflight, target, nsw, prop, mach>>)
       [] OTHER -> MachErr("unknown-instruction")

Next == \/ \E d \in Ctx, dep \in Depths : CallSwitch(d, dep)
        \/ FuncReturn
        \/ Exec
Spec == Init /\ [][Next]_vars

----------------------------------------------------------------------------
(* the machine could interpret everything it met (otherwise: extend the machine) *)
Decodable == mach = ""
(* no step of the switch / trampoline did something the property excludes outright *)
NoFault == prop = ""
(* a context that continues after a switch finds ... *)
ControlArrivesAtTarget == chk.kind # "none" => chk.who
CalleeSavedPreserved == chk.kind = "resume" => chk.regs
MxcsrPreserved == chk.kind = "resume" => chk.mx
StackPointerRestored == chk.kind = "resume" => chk.sp
MessageDelivered == chk.kind = "resume" => chk.msg
(* a new coroutine's function is entered with (self, context) on an ABI-aligned stack *)
EntryGetsHandle == chk.kind = "entry" => chk.self
EntryGetsContext == chk.kind = "entry" => chk.ctx
EntryAligned == chk.kind = "entry" => chk.align
(* when the function returns v, the exit function is entered with v on an ABI-aligned stack *)
ExitGetsReturnValue == chk.kind = "exit" => chk.arg
ExitAligned == chk.kind = "exit" => chk.align
(* vacuity guards, checked by the driver as "must be violated" in a separate run *)
NeverResumes == chk.kind # "resume"
NeverEnters == chk.kind # "entry"
NeverExits == chk.kind # "exit"
=============================================================================
