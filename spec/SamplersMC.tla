----------------------------- MODULE SamplersMC -----------------------------
(* Design models for property C16, model-checked by TLC.  One module, several  *)
(* small machines selected by the constant Model:                              *)
(*                                                                             *)
(*  "loaded" - loaded dice by inversion over every probability vector of the   *)
(*             family Vectors (grid vectors summing to one, and vectors whose  *)
(*             sum is off by up to the accepted tolerance) and every cell of   *)
(*             the unit interval: the index is valid, has positive probability *)
(*             and - for exact vectors - index i is hit by exactly p_i of the  *)
(*             unit interval.  Variant "fallthrough" is the design WITHOUT a   *)
(*             rule for u beyond the total; TLC must refute it (negative       *)
(*             control, and the counterexample is a replay target).            *)
(*  "vose"   - construction of an alias table (Vose) with every pairing order:  *)
(*             the finished table encodes exactly p_i / sum(p).                *)
(*  "aliaspos" - an alias table followed by a position inside the chosen       *)
(*             region (the shape of both ziggurat fall-backs): the position is  *)
(*             uniform only if it comes from a fresh variate; the variant that   *)
(*             reuses the keep-or-alias variate must be refuted.                 *)
(*  "dice"   - floor(a + (b-a+1) u): in range, every face the same measure.    *)
(*  "trials" - geometric / binomial / negative binomial as Bernoulli trial     *)
(*             processes: range of the result, also for p = 1.                 *)
(*  "cases"  - well-formedness of the fit cases (admissible parameters, exact  *)
(*             probability mass functions sum to one, bin weights sum to one),  *)
(*             conservativeness of the frequency law's integer arithmetic, and  *)
(*             export of the cases and of the steered-draw targets as JSON.     *)
EXTENDS Samplers, SamplersFit, Json, IOUtils

CONSTANTS Model, Variant,
          NMax,       \* longest probability vector
          Den,        \* probabilities are multiples of 1/Den ...
          Step,       \* ... the grid vectors use multiples of Step/Den
          DeltaMags,  \* perturbations (+ and -, units of 1/Den) applied to one entry: sum = 1 +- delta/Den
          MaxTrials   \* bound on the trial processes

VARIABLE st
Deltas == DeltaMags \cup {-x : x \in DeltaMags}

(* ------------------------------------------------------------ probability vectors *)
GridVecs(n) == {v \in [1..n -> {x * Step : x \in 0..(Den \div Step)}] : SumSeq(v) = Den}
Perturbed(v) == {[v EXCEPT ![i] = v[i] + dl] : i \in 1..Len(v), dl \in Deltas} \cap [1..Len(v) -> 0..(2 * Den)]
Vectors == UNION {GridVecs(n) \cup UNION {Perturbed(v) : v \in GridVecs(n)} : n \in 1..NMax}
WithinTol(v) == Abs(SumSeq(v) - Den) * TolDen <= TolNum * Den
ASSUME \A v \in Vectors : WithinTol(v)

(* ------------------------------------------------------------ "loaded" *)
(* cells are (c/Den, (c+1)/Den), c = 0..Den-1: aligned with every cumulative boundary *)
LDChoices(k, c) ==
  LET S == SumSeq(k) IN
  IF Variant = "fallthrough" /\ c >= S THEN {Len(k)}          \* the loop runs off the end: index n
  ELSE LoadedDiceDesign(k, Den, c, c + 1, Den)

LoadedInit == st \in {[k |-> v, c |-> 0, last |-> -1, hist |-> [i \in 1..Len(v) |-> 0]] : v \in Vectors}
LoadedNext ==
  /\ st.c < Den
  /\ \E r \in LDChoices(st.k, st.c) :
       st' = [st EXCEPT !.c = @ + 1, !.last = r,
                        !.hist = IF r < Len(st.k) THEN [@ EXCEPT ![r + 1] = @ + 1] ELSE @]
LoadedInSupport == st.last = -1 \/ IndexInSupport(st.k, Den, st.last)          \* what C16 demands of every draw
LoadedPositive == (st.last >= 0 /\ st.last < Len(st.k)) => st.k[st.last + 1] > 0   \* the design never picks a zero entry
LoadedExact == (st.c = Den /\ SumSeq(st.k) = Den) => \A i \in 1..Len(st.k) : st.hist[i] = st.k[i]

(* ------------------------------------------------------------ "vose" *)
(* work is kept in units of 1/S (S = sum of the vector): work[i] = k[i] * n, "one" = S *)
VoseStart(v) ==
  LET n == Len(v)  S == SumSeq(v)  w == [i \in 1..n |-> v[i] * n] IN
  [k |-> v, S |-> S, work |-> w,
   small |-> {i \in 1..n : w[i] < S}, large |-> {i \in 1..n : w[i] >= S},
   q |-> [i \in 1..n |-> -1], al |-> [i \in 1..n |-> 0], paired |-> {}]
VoseInit == st \in {VoseStart(v) : v \in Vectors}
PairStep(s, sm, g) ==
  LET wg == s.work[g] + s.work[sm] - s.S IN
  [s EXCEPT !.q[sm] = s.work[sm], !.al[sm] = g - 1, !.paired = @ \cup {sm},
            !.work[g] = wg,
            !.small = (@ \ {sm}) \cup (IF wg < s.S THEN {g} ELSE {}),
            !.large = IF wg < s.S THEN @ \ {g} ELSE @]
DrainStep(s, i) == [s EXCEPT !.q[i] = s.S, !.small = @ \ {i}, !.large = @ \ {i}]
VosePair == \E sm \in st.small, g \in st.large : st' = PairStep(st, sm, g)
VoseDrainLarge ==
  /\ st.small = {} /\ st.large # {}
  /\ \E g \in st.large : st' = DrainStep(st, g)
VoseDrainSmall ==                      \* only reachable through rounding in floating point; kept for fidelity
  /\ st.large = {} /\ st.small # {}
  /\ \E sm \in st.small : st' = DrainStep(st, sm)
VoseNext == VosePair \/ VoseDrainLarge \/ VoseDrainSmall
VoseDone == st.small = {} /\ st.large = {}
VoseConserved ==      \* the columns still to be filled hold exactly one unit each
  SumSeq([i \in 1..Len(st.k) |-> IF i \in st.small \cup st.large THEN st.work[i] ELSE 0])
    = Cardinality(st.small \cup st.large) * st.S
VoseNoSmallLeft == ~(st.large = {} /\ st.small # {})
VoseTableOK ==
  VoseDone =>
    /\ \A i \in 1..Len(st.k) : st.q[i] >= 0 /\ st.q[i] <= st.S /\ st.al[i] >= 0 /\ st.al[i] < Len(st.k)
    /\ \A i \in 1..Len(st.k) : AliasEncoded(st.q, st.al, st.S, i) = st.k[i] * Len(st.k)   \* = n S p_i/sum(p)
    /\ \A i \in 1..Len(st.k) : st.k[i] = 0 => (st.q[i] = 0 /\ \A j \in 1..Len(st.k) : (st.al[j] = i - 1 => st.q[j] = st.S))

(* ------------------------------------------------------------ "aliaspos" *)
(* A two-stage draw: an alias table picks a region, then a position inside the region.  Both   *)
(* ziggurat fall-backs work like this (alias table over the overhangs of the density, then a    *)
(* point of the chosen overhang).  Demanded: the position is uniform whatever region was picked, *)
(* i.e. every (region, position) cell receives the same share of the region's probability.       *)
(* Variant "intended" takes the position from a fresh variate.  Variant "reuse" takes it from    *)
(* the variate that decided between the column and its alias; TLC must refute it (negative       *)
(* control: a keep-decision "v < q" leaves v uniform on [0,q) only).                              *)
MinOf(S) == CHOOSE x \in S : \A y \in S : x <= y
RECURSIVE VoseRun(_)
VoseRun(s) == IF s.small # {} /\ s.large # {} THEN VoseRun(PairStep(s, MinOf(s.small), MinOf(s.large)))
              ELSE IF s.small \cup s.large # {} THEN VoseRun(DrainStep(s, MinOf(s.small \cup s.large)))
              ELSE s
ExactVectors == {v \in Vectors : SumSeq(v) = Den}
(* cells of the decision variate and of the position: 0..Den-1 (aligned with every q, which is a multiple of 1/Den) *)
APInit == st \in {[k |-> v, t |-> VoseRun(VoseStart(v)), c |-> 1, v |-> 0, w |-> 0, done |-> FALSE,
                    joint |-> [j \in 1..Len(v) |-> [pos \in 0..(Den - 1) |-> 0]]] : v \in ExactVectors}
APNext ==
  /\ ~st.done
  /\ LET n == Len(st.k)
         \* q is in units of 1/S with S = Den for exact vectors: keep iff the decision cell lies below q
         region == IF st.v < st.t.q[st.c] THEN st.c ELSE st.t.al[st.c] + 1
         pos == IF Variant = "reuse" THEN st.v ELSE st.w
         lastw == Variant = "reuse" \/ st.w = Den - 1
         lastv == st.v = Den - 1
     IN st' = [st EXCEPT !.joint[region][pos] = @ + 1,
                         !.w = IF lastw THEN 0 ELSE @ + 1,
                         !.v = IF lastw THEN (IF lastv THEN 0 ELSE @ + 1) ELSE @,
                         !.c = IF lastw /\ lastv THEN (IF st.c = n THEN 1 ELSE @ + 1) ELSE @,
                         !.done = lastw /\ lastv /\ st.c = n]
APUniform == st.done => \A j \in 1..Len(st.k) : \A p1, p2 \in 0..(Den - 1) : st.joint[j][p1] = st.joint[j][p2]
APMarginal == st.done => \A j \in 1..Len(st.k) :      \* and the regions keep their probabilities
                SumSeq([p \in 1..Den |-> st.joint[j][p - 1]]) * Den = st.k[j] * Len(st.k) * Den * (IF Variant = "reuse" THEN 1 ELSE Den)

(* ------------------------------------------------------------ "dice" *)
DiceUD == 60
DiceInit == st \in {[a |-> a, b |-> b, c |-> 0, last |-> a, hist |-> [f \in a..b |-> 0]] : a \in -3..2, b \in -2..7} /\ st.a < st.b /\ st.b - st.a <= 5
DiceNext ==
  /\ st.c < DiceUD
  /\ \E r \in DiceDesign(st.a, st.b, st.c, st.c + 1, DiceUD) :
       st' = [st EXCEPT !.c = @ + 1, !.last = r, !.hist = IF r \in DOMAIN @ THEN [@ EXCEPT ![r] = @ + 1] ELSE @]
DiceInRange == st.last >= st.a /\ st.last <= st.b
DiceExact == (st.c = DiceUD /\ DiceUD % (st.b - st.a + 1) = 0) => \A f \in st.a..st.b : st.hist[f] * (st.b - st.a + 1) = DiceUD

(* ------------------------------------------------------------ "trials" *)
(* pone: success probability is one; otherwise 0 < p < 1 and either outcome can happen *)
TrialsInit == st \in {[kind |-> kd, pone |-> po, m |-> m, trials |-> 0, succ |-> 0, fail |-> 0, done |-> FALSE, res |-> -1] :
                        kd \in {"geometric", "binomial", "negative_binomial"}, po \in BOOLEAN, m \in 1..3}
TrialsNext ==
  /\ ~st.done
  /\ st.trials < MaxTrials
  /\ \E success \in (IF st.pone THEN {TRUE} ELSE BOOLEAN) :
       LET t == st.trials + 1
           sc == st.succ + (IF success THEN 1 ELSE 0)
           fl == st.fail + (IF success THEN 0 ELSE 1)
           fin == CASE st.kind = "geometric" -> success
                    [] st.kind = "binomial" -> t = st.m
                    [] st.kind = "negative_binomial" -> sc = st.m
           r == CASE st.kind = "geometric" -> t            \* trials up to and including the first success
                  [] st.kind = "binomial" -> sc             \* successes in m trials
                  [] st.kind = "negative_binomial" -> fl    \* failures before the m-th success
       IN st' = [st EXCEPT !.trials = t, !.succ = sc, !.fail = fl, !.done = fin, !.res = IF fin THEN r ELSE -1]
TrialsRange ==
  st.done =>
    CASE st.kind = "geometric" -> st.res >= 1 /\ (st.pone => st.res = 1)
      [] st.kind = "binomial" -> st.res >= 0 /\ st.res <= st.m /\ (st.pone => st.res = st.m)
      [] st.kind = "negative_binomial" -> st.res >= 0 /\ (st.pone => st.res = 0)
(* the stated probability mass functions agree with the trial processes at p = 1 *)
TrialsPmfAtOne ==
  st.done =>
  /\ \A M \in 1..4 : LET db == DiscBins([s |-> "geometric", par |-> <<One>>, maxv |-> M, v2 |-> <<>>]) IN
       db.bins[1][3] = db.d /\ \A i \in 2..Len(db.bins) : db.bins[i][4] = 0
  /\ \A n \in 1..4 : LET db == DiscBins([s |-> "binomial", par |-> <<<<n, 1>>, One>>, maxv |-> n, v2 |-> <<>>]) IN
       db.bins[n + 1][3] = db.d /\ \A i \in 1..n : db.bins[i][4] = 0
  /\ \A m \in 1..4 : LET db == DiscBins([s |-> "negative_binomial", par |-> <<<<m, 1>>, One>>, maxv |-> 2, v2 |-> <<>>]) IN
       db.bins[1][3] = db.d /\ \A i \in 2..Len(db.bins) : db.bins[i][4] = 0

(* ------------------------------------------------------------ "cases" *)
CaseWellFormed(c) ==
  /\ c.s \in AllSamplers
  /\ Admissible(c.s, c.par, c.v1, c.v2)
  /\ (c.kind = "cont") = (c.s \in Continuous)
  /\ c.kind = "cont" => (Len(c.pw) = Len(c.edges) + 1 /\ SumSeq(c.pw) = c.pd /\ c.pd <= 46340 /\ \A i \in 1..Len(c.pw) : c.pw[i] >= 1)
  /\ c.kind = "disc" => PmfWellFormed(c)
CasesWellFormed == st = "cases" => \A i \in 1..Len(FitCases) : CaseWellFormed(FitCases[i])
CaseIdsDistinct == st = "cases" => \A i, j \in 1..Len(FitCases) : i # j => FitCases[i].id # FitCases[j].id
EverySamplerHasACase == st = "cases" => \A s \in AllSamplers : \E i \in 1..Len(FitCases) : FitCases[i].s = s

(* the 32-bit-safe arithmetic of the frequency law is conservative: compared with direct evaluation on *)
(* numbers small enough for direct evaluation                                                          *)
FreqLawSane ==
  st = "cases" =>
    \A n \in {1, 7, 64, 1000, 4096}, d \in {1, 2, 3, 8, 64} : \A a \in 0..d :
      LET W == FreqBound(n, a, a, d)
          v == (n * a * (d - a)) \div (d * d)
          r == W - (KSigma * KSigma) \div 3 - 1
      IN /\ (a = 0 => FreqLo(n, a, a, d) = 0 /\ FreqHi(n, a, a, d) = 0)
         /\ (a = d => FreqLo(n, a, a, d) = n /\ FreqHi(n, a, a, d) = n)
         /\ (0 < a /\ a < d) => /\ FreqLo(n, a, a, d) <= (n * a) \div d - r
                                /\ FreqHi(n, a, a, d) >= (n * a + d - 1) \div d + r
                                /\ r * r >= KSigma * KSigma * v
                                /\ FreqOK((n * a) \div d, n, a, a, d)

(* how many top bits of a 64-bit keep-probability the harness reports, so that the table check stays in 32 bits *)
QBits(n, d) == CHOOSE qb \in 4..20 : /\ 2 * (n + 1) * d * Pow(2, qb) < 1073741824
                                     /\ (qb = 20 \/ 2 * (n + 1) * d * Pow(2, qb + 1) >= 1073741824)

FitExport(cases) ==        \* (operators with a parameter are not pre-evaluated by TLC at start-up)
  [i \in 1..Len(cases) |->
     LET c == cases[i]  sp == Support(c.s, c.par, c.v2) IN
     [idx |-> i, id |-> c.id, s |-> c.s, kind |-> c.kind, big |-> c.big, par |-> c.par, v1 |-> c.v1, v2 |-> c.v2,
      lo |-> sp.lo, hi |-> sp.hi, org |-> c.org, edges |-> c.edges, nbins |-> Len(c.pw),
      bins |-> IF c.kind = "disc" THEN [j \in 1..Len(DiscBins(c).bins) |-> <<DiscBins(c).bins[j][1], DiscBins(c).bins[j][2]>>] ELSE <<>>,
      qb |-> IF c.s = "alias" THEN QBits(Len(c.v2), DiscBins(c).d) ELSE 0]]

(* targets of the steered draws: cells of width 1/(Den*Fine) next to every decision boundary,   *)
(* plus the first and the last cell of the unit interval                                         *)
Fine == 8
UDT == Den * Fine
Ends == {0, UDT - 1}
RECURSIVE Cums(_, _, _)
Cums(k, i, acc) == IF i > Len(k) THEN {} ELSE {acc + k[i]} \cup Cums(k, i + 1, acc + k[i])
NearFrac(num, den) == {x \in {(num * UDT) \div den - 1, (num * UDT) \div den} : x >= 0 /\ x < UDT}   \* cells next to num/den
ReplayVectors(V) == {v \in V : Abs(SumSeq(v) - Den) * TolDen * 2 <= TolNum * Den}  \* clear of the rounding of the tolerance test
VecCells(v) == Ends \cup UNION {NearFrac(b, Den) : b \in Cums(v, 1, 0)}
ColCells(n) == Ends \cup UNION {NearFrac(j, n) : j \in 1..(n - 1)}
DicePairs == {<<1, 6>>, <<0, 1>>, <<-3, 4>>, <<10, 12>>, <<-7, -3>>}
BernPs == {<<0, 1>>, <<1, 1>>, <<1, 2>>, <<3, 10>>, <<1, 1000>>, <<999, 1000>>}
Target(s, k, a, b, p, x) == [s |-> s, k |-> k, d |-> Den, a |-> a, b |-> b, p |-> p, tlo |-> x, thi |-> x + 1, ud |-> UDT]
RuleTargets(V) ==
  UNION {{Target("loaded_dice", v, 0, 0, Zero, x) : x \in VecCells(v)} : v \in ReplayVectors(V)}
  \cup UNION {{Target("alias", v, 0, 0, Zero, x) : x \in ColCells(Len(v))} : v \in ReplayVectors(V)}
  \cup UNION {{Target("dice", <<>>, ab[1], ab[2], Zero, x) : x \in ColCells(ab[2] - ab[1] + 1)} : ab \in DicePairs}
  \cup UNION {{Target("bernoulli", <<>>, 0, 0, p, x) : x \in Ends \cup NearFrac(p[1], p[2])} : p \in BernPs}

ExportDone(m) ==
  IF m = "cases" /\ "C16EXPORT" \in DOMAIN IOEnv
  THEN JsonSerialize(IOEnv.C16EXPORT, [fit |-> FitExport(FitCases), rules |-> RuleTargets(Vectors), den |-> Den, udt |-> UDT])
  ELSE TRUE

(* ------------------------------------------------------------ dispatch *)
Init == CASE Model = "loaded" -> LoadedInit
          [] Model = "vose" -> VoseInit
          [] Model = "aliaspos" -> APInit
          [] Model = "dice" -> DiceInit
          [] Model = "trials" -> TrialsInit
          [] Model = "cases" -> st = "cases" /\ ExportDone(Model)
Next == CASE Model = "loaded" -> LoadedNext
          [] Model = "vose" -> VoseNext
          [] Model = "aliaspos" -> APNext
          [] Model = "dice" -> DiceNext
          [] Model = "trials" -> TrialsNext
          [] Model = "cases" -> FALSE
Spec == Init /\ [][Next]_st
=============================================================================
