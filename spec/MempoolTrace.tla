---------------------------- MODULE MempoolTrace ----------------------------
(* Trace validation for C20: allocation histories recorded by               *)
(* harness/mp_replay from the real cmi_mempool.  The abstract state is the   *)
(* set of live objects <<chunk, slot>>.  (The field listok - the pool's own   *)
(* chunk list still names its chunks - is diagnostic: a damaged chunk list    *)
(* is a memory error, property C10, not a statement of C20.)                  *)
EXTENDS Integers, Sequences, FiniteSets, TLC, Json, IOUtils

Tr == ndJsonDeserialize(IOEnv.TRACE)
VARIABLES l, live, h
vars == <<l, live, h>>
Init == l = 1 /\ live = {} /\ h = 0

Verdict(e) ==
  CASE e.op = "alloc" ->
         IF e.chunk = 0 THEN "object-outside-every-chunk-of-its-pool"
         ELSE IF ~e.inb THEN "object-does-not-fit-inside-its-chunk"
         ELSE IF e.al # 0 THEN "object-not-8-byte-aligned"
         ELSE IF e.chunk > e.nchunks \/ e.slot < 0 \/ e.slot >= e.k THEN "object-beyond-the-pool-geometry"
         ELSE IF <<e.chunk, e.slot>> \in live THEN "object-handed-out-while-still-allocated"
         ELSE ""
    [] e.op = "free" ->
         IF <<e.chunk, e.slot>> \notin live THEN "harness-free-of-unknown-object"
         ELSE IF ~e.intact THEN "object-contents-changed-while-allocated"
         ELSE ""
    [] OTHER -> ""

InitIdx == {x \in 1..Len(Tr) : Tr[x].op = "init"}
Resync(x) == LET later == {y \in InitIdx : y > x} IN
             IF later = {} THEN Len(Tr) + 1 ELSE CHOOSE y \in later : \A z \in later : y <= z

Next ==
  /\ l <= Len(Tr)
  /\ LET e == Tr[l]  bad == Verdict(e) IN
     IF bad # "" THEN /\ PrintT(<<"REJECT", l, bad, e>>)
                      /\ l' = Resync(l) /\ live' = {} /\ h' = h
     ELSE /\ l' = l + 1
          /\ live' = CASE e.op = "alloc" -> live \cup {<<e.chunk, e.slot>>}
                       [] e.op = "free" -> live \ {<<e.chunk, e.slot>>}
                       [] e.op = "init" -> {}
                       [] OTHER -> live
          /\ h' = IF e.op = "init" THEN e.h ELSE h
  /\ (l' = Len(Tr) + 1) => PrintT(<<"CONSUMED", Len(Tr)>>)
Spec == Init /\ [][Next]_vars
=============================================================================
