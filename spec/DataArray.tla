------------------------------ MODULE DataArray ------------------------------
(* C10, design model of the growable data arrays: every sequence of valid     *)
(* calls over NDs datasets and NTs time series, with the operators of          *)
(* DataArrayOps.tla (one per stretch of library code).  Invariants:            *)
(*   CapOK   every array that exists has at least cursize elements, no array   *)
(*           is missing under a believed capacity, count <= cursize            *)
(*   NoOOB   no call touched an index at or behind the allocated size          *)
(* TsCopyByCursize = FALSE is cmb_timeseries_copy as found in the tree (ta, wa *)
(* of the copy get count elements while cursize is taken from the source): TLC *)
(* shows copy; add as a counterexample.  TRUE is the repaired rule.            *)
EXTENDS DataArrayOps, TLC

CONSTANTS NDs, NTs,      \* objects 1..NDs are datasets, NDs+1..NDs+NTs time series
          MaxCount       \* bound on the population of one object

VARIABLES obj, bad
vars == <<obj, bad>>

Ids == 1 .. (NDs + NTs)
Kind(i) == IF i <= NDs THEN "ds" ELSE "ts"
Live == {i \in Ids : obj[i].live}

Init == obj = [i \in Ids |-> Fresh(Kind(i))] /\ bad = {}

(* a call on object i with result r *)
Upd(i, r) == obj' = [obj EXCEPT ![i] = r.o] /\ bad' = bad \cup r.bad

AddA(i)   == i \in Live /\ obj[i].count < MaxCount /\ Upd(i, Add(obj[i]))
(* copy into another object of the same class: fresh or used target alike *)
CopyA(i, j) == i \in Live /\ j \in Live /\ i # j /\ Kind(i) = Kind(j) /\ Upd(i, Copy(obj[i], obj[j]))
MergeA(i, j, k) == /\ {i, j, k} \subseteq Live /\ Kind(i) = "ds" /\ Kind(j) = "ds" /\ Kind(k) = "ds"
                   /\ obj[j].count + obj[k].count <= MaxCount
                   /\ Upd(i, Merge(obj[i], obj[j], obj[k]))
ResetA(i) == i \in Live /\ Upd(i, Reset(obj[i]))
TermA(i)  == i \in Live /\ Upd(i, Terminate(obj[i]))
InitA(i)  == i \in Ids \ Live /\ Upd(i, Initialize(obj[i]))
SortA(i)  == i \in Live /\ \/ Kind(i) = "ds" /\ Upd(i, DsSort(obj[i]))
                           \/ Kind(i) = "ts" /\ (Upd(i, TsSortX(obj[i])) \/ Upd(i, TsSortT(obj[i])))
(* median and five-number report; the dataset versions also on the dataset part of a time series *)
QuantA(i) == i \in Live /\ \/ Upd(i, DsQuantiles(obj[i]))
                           \/ Kind(i) = "ts" /\ obj[i].wa # 0 /\ Upd(i, TsQuantiles(obj[i]))
(* histogram, print, summarize, ACF *)
ScanA(i)  == i \in Live /\ \/ Upd(i, DsScan(obj[i]))
                           \/ Kind(i) = "ts" /\ obj[i].ta # 0 /\ Upd(i, TsScan(obj[i]))
FinalA(i) == i \in Live /\ Kind(i) = "ts" /\ obj[i].count >= 1 /\ obj[i].count < MaxCount /\ Upd(i, TsFinalize(obj[i]))

Next == \E i \in Ids : \/ AddA(i) \/ ResetA(i) \/ TermA(i) \/ InitA(i) \/ SortA(i) \/ QuantA(i) \/ ScanA(i) \/ FinalA(i)
                       \/ \E j \in Ids : CopyA(i, j) \/ \E k \in Ids : MergeA(i, j, k)
Spec == Init /\ [][Next]_vars

(* ---- C10 on the model ---- *)
CapOK == \A i \in Ids : ObjOK(obj[i])
NoOOB == bad = {}
(* a dataset never grows time arrays; the arrays of a time series exist together *)
Shape == \A i \in Live : /\ (Kind(i) = "ds" => obj[i].ta = 0 /\ obj[i].wa = 0)
                         /\ (Kind(i) = "ts" => ((obj[i].xa = 0) = (obj[i].ta = 0)) /\ ((obj[i].ta = 0) = (obj[i].wa = 0)))
                         /\ ((obj[i].xa = 0) = (obj[i].count = 0))
(* the closed form the trace specification uses for bursts is k single adds *)
RECURSIVE AddK(_, _)
AddK(o, k) == IF k = 0 THEN o ELSE AddK(Add(o).o, k - 1)
BurstLemma == \A i \in Live : \A k \in 0 .. 5 : ObjOK(obj[i]) => AddN(obj[i], k) = AddK(obj[i], k)
=============================================================================
