----------------------------- MODULE DataSetMC -----------------------------
(* Model checking instance for property C18.                                  *)
(*                                                                            *)
(* Every input (a time series of 1..N samples with values from K ladder        *)
(* positions and durations from WSet, time stamp = sum of the earlier           *)
(* durations; the same samples read as a dataset with unit weights) is reached  *)
(* by growing it sample by sample.  From it the in-place heapsort over the      *)
(* parallel arrays runs one sift-down per step.  TLC checks                     *)
(*   * the sorting law at the end and the heap/permutation invariants on the    *)
(*     way (design model of cmb_dataset_sort / cmb_timeseries_sort_x/_t);       *)
(*   * on every input, that the reference designs of DataSet.tla satisfy the    *)
(*     laws (a true weighted median exists, lies in the data range, the         *)
(*     quartile construction is ordered, the dataset's middle-element design    *)
(*     and half-medians satisfy the laws for all sizes from one, value-dictated *)
(*     binning rendered as bars is accepted by the law for printed histograms,  *)
(*     exact autocovariance ratios do not change under x -> a*x + b, a > 0);    *)
(*   * that the laws have teeth on the model level: a value outside the data    *)
(*     range is never a median of positive total weight, a bin content off by   *)
(*     one sample is never accepted.                                            *)
EXTENDS DataSet, TLC

CONSTANTS K,        \* ladder size: sample positions are 2, 4, .., 2K
          N,        \* largest number of samples
          WSet,     \* durations
          HistN     \* histogram laws are evaluated for inputs of at most HistN samples

VARIABLES inp,      \* the input collection [kind, x, t, w] (kind "ts")
          arr,      \* the arrays being sorted: sequence of [k |-> key, id |-> original index]
          phase,    \* "build" | "extract" | "done"
          j         \* loop variable of the current phase (root, resp. end of the heap)
vars == <<inp, arr, phase, j>>

Positions == {2 * r : r \in 1..K}

(* inputs are grown sample by sample (so that TLC spreads them over its workers) *)
Init == /\ inp = [kind |-> "ts", x |-> <<>>, t |-> <<>>, w |-> <<>>]
        /\ arr = <<>> /\ phase = "grow" /\ j = 0
Grow == /\ phase = "grow" /\ Len(inp.x) < N
        /\ \E p \in Positions : \E d \in WSet :
             inp' = [kind |-> "ts", x |-> Append(inp.x, p), w |-> Append(inp.w, d),
                     t |-> Append(inp.t, SeqSum(inp.w, Len(inp.w)))]
        /\ UNCHANGED <<arr, phase, j>>
Start == /\ phase = "grow" /\ Len(inp.x) >= 1
         /\ arr' = [i \in 1..Len(inp.x) |-> [k |-> inp.x[i], id |-> i]]
         /\ phase' = "build" /\ j' = (Len(inp.x) \div 2) - 1
         /\ UNCHANGED inp

Next ==
  LET n == Len(arr) IN
  \/ Grow
  \/ Start
  \/ /\ phase = "build" /\ j >= 0
     /\ arr' = Sift(arr, n, j) /\ j' = j - 1 /\ UNCHANGED <<inp, phase>>
  \/ /\ phase = "build" /\ j < 0
     /\ phase' = "extract" /\ j' = n - 1 /\ UNCHANGED <<inp, arr>>
  \/ /\ phase = "extract" /\ j > 0
     /\ arr' = Sift(Swap(arr, 0, j), j, 0) /\ j' = j - 1 /\ UNCHANGED <<inp, phase>>
  \/ /\ phase = "extract" /\ j <= 0
     /\ phase' = "done" /\ UNCHANGED <<inp, arr, j>>
Spec == Init /\ [][Next]_vars

(* ---- the sort design against the sorting law ---- *)
OutOf(a) == [kind |-> "ts", x |-> [i \in 1..Len(a) |-> a[i].k],
             t |-> [i \in 1..Len(a) |-> inp.t[a[i].id]], w |-> [i \in 1..Len(a) |-> inp.w[a[i].id]]]
SrcOf(a) == [i \in 1..Len(a) |-> a[i].id]
PermInv == phase # "grow" => IsPermutation(OutOf(arr), inp, SrcOf(arr))
HeapInv ==
  LET n == Len(arr) IN
  /\ phase = "build" => IsMaxHeapFrom(arr, n, j + 1)
  /\ phase = "extract" =>
        /\ IsMaxHeapFrom(arr, j + 1, 0)
        /\ \A i \in (j + 1)..(n - 1) : /\ i + 1 <= n - 1 => At(arr, i).k <= At(arr, i + 1).k
                                       /\ \A h \in 0..j : At(arr, h).k <= At(arr, i).k
SortLaw == phase = "done" => Ascending(OutOf(arr).x) /\ PermInv

(* ---- the reference designs against the laws, once per input ---- *)
Fresh == phase = "build" /\ j = (Len(arr) \div 2) - 1 /\ arr = [i \in 1..Len(arr) |-> [k |-> inp.x[i], id |-> i]]
AsDs == [kind |-> "ds", x |-> inp.x, t |-> <<>>, w |-> <<>>]

(* laws that read the samples as a dataset (unit weights) or use the values only do not   *)
(* depend on the durations: they are evaluated for one duration pattern per value sequence *)
WMin == CHOOSE d \in WSet : \A e \in WSet : d <= e
FirstW == \A i \in 1..Len(inp.w) : inp.w[i] = WMin

MedianLaws ==
  Fresh =>
    /\ IsMedian(inp, RefMedian(inp)) /\ InRange(inp, RefMedian(inp))
    /\ FiveOrdered(RefFive(inp)) /\ FiveInRange(inp, RefFive(inp)) /\ IsMedian(inp, RefFive(inp)[3])
    /\ LET M == {m \in 1..(2 * K + 1) : IsMedian(inp, m)} IN
         \* the medians form an interval of positions
         /\ \A m \in 1..(2 * K + 1) : (\E a \in M : a <= m) /\ (\E b \in M : m <= b) => m \in M
         \* teeth: with positive total weight no point outside the data range is a median
         /\ Total(inp) > 0 => \A m \in M : InRange(inp, m)
DsLaws ==
  (Fresh /\ FirstW) =>
    /\ IsMedian(AsDs, DsMedian(AsDs)) /\ InRange(AsDs, DsMedian(AsDs))
    /\ FiveOrdered(DsFive(AsDs)) /\ FiveInRange(AsDs, DsFive(AsDs)) /\ IsMedian(AsDs, DsFive(AsDs)[3])
    /\ \A m \in 1..(2 * K + 1) : IsMedian(AsDs, m) => InRange(AsDs, m)

EdgeSeqs == UNION { {e \in [1..nb -> 1..(2 * K + 1)] : \A i \in 1..(nb - 1) : e[i] <= e[i + 1]} : nb \in 1..3 }
HistLawsFor(S) ==
    \A e \in EdgeSeqs :
      LET c == RefCont(S, e) IN
      /\ HistExactOK(S, e, c)
      /\ SumOver(1..NBins(e), c) = Total(S)               \* every sample (its full weight) exactly once
      /\ \A wd \in {7, 50} : HistTextOK(S, e, RefBars(c, wd), RefMarks(c, wd))
      \* teeth: a bin that lost one unit of weight is not exact
      /\ \A b \in 1..NBins(e) : c[b] > 0 => ~HistExactOK(S, e, [c EXCEPT ![b] = c[b] - 1])
HistLaws ==
  (Fresh /\ Len(inp.x) <= HistN) => /\ HistLawsFor(inp)
                                    /\ FirstW => HistLawsFor(AsDs)

AcfLaws ==
  (Fresh /\ FirstW /\ Len(inp.x) >= 2) =>
    LET xs == [i \in 1..Len(inp.x) |-> inp.x[i] \div 2] IN
    \A a \in {1, 2, 3} : \A b \in {-1, 0, 2} : \A k \in 0..(Len(xs) - 1) :
       CovSum(Affine(xs, a, b), k) = a * a * CovSum(xs, k)
=============================================================================
