SPECIFICATION Spec
CONSTANTS
  Times = {0, 1, 2}
  Prios = {0, 1}
  Acts = {0}
  Subjs = {0, 1}
  MaxH = 4
  MaxBody = 2
INVARIANTS RunsOnce CancelledNeverRuns Accounted NeverEarly
PROPERTIES ClockMonotone OnlyExecMovesClock
CHECK_DEADLOCK FALSE
