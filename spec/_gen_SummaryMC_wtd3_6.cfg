SPECIFICATION Spec
CONSTANTS
  Weighted = TRUE
  NObj = 3
  XCodes = {0, 1, 3}
  XOff = 1
  Wts = {0, 1, 3}
  MaxTotal = 6
  Scales = {2, 5}
  Export = FALSE
INVARIANTS TupleIsData ClosedFormsAreDefinitions Refines AccessorsExact WeightedLaws
VIEW View
CHECK_DEADLOCK FALSE
