-------------------------- MODULE CoroutineTrace --------------------------
(* Trace validation for C03: traces recorded by harness/coro_probe from    *)
(* the real coroutine layer (env TRACE, ndjson).                            *)
(*                                                                          *)
(* The control-transfer oracle is CoroutineCore (the same state function   *)
(* TLC explores in Coroutine.tla).  Every rule is tied to a sentence of     *)
(* the property statement:                                                  *)
(*  "continues exactly where it last gave up control"                       *)
(*        did-not-continue-where-it-gave-up-control,                        *)
(*        control-passed-to-wrong-coroutine, crashed-in-a-valid-program     *)
(*  "with its stack contents ..."        stack-contents-not-preserved       *)
(*  "all callee-saved registers ..."     callee-saved-register-not-preserved*)
(*  "SSE control word (rounding mode, exception masks)"                     *)
(*        mxcsr-control-word-not-preserved (status flags 0..5 are ignored)  *)
(*  "the value handed over on a resume or transfer appears as the return    *)
(*   value of the matching yield and vice versa"   message-not-delivered    *)
(*  "a newly started process receives its own handle and its context        *)
(*   argument on a correctly aligned stack"   started-coroutine-did-not-    *)
(*        enter-its-function, new-coroutine-did-not-receive-its-own-handle, *)
(*        new-coroutine-did-not-receive-its-context,                        *)
(*        entry-stack-not-16-byte-aligned                                   *)
(*  "when its function returns, the returned value becomes its exit value   *)
(*   and control goes back to the coroutine that started it"                *)
(*        returned-value-is-not-the-exit-value, returned-value-not-handed-  *)
(*        to-exit-function, exit-function-stack-not-16-byte-aligned,        *)
(*        control-passed-to-wrong-coroutine                                 *)
(*  "the context of the dispatcher (main stack) is preserved in the same    *)
(*   way"   the same rules with c = 0                                       *)
(* Left open on purpose: the message seen by the starter when the started   *)
(* one exits; the start message (never visible to the body); exit values    *)
(* set by stop; rflags; the x87 control word; which of the two documented   *)
(* readings of "caller" a yield follows (either is accepted).               *)
(* Rules named harness-... say that the harness or the script was invalid.  *)
EXTENDS Integers, Sequences, FiniteSets, TLC, Json, IOUtils, CoroutineCore

Tr == ndJsonDeserialize(IOEnv.TRACE)
VARIABLES l, h
vars == <<l, h>>

NoSave == [i |-> -1, tok |-> -1, mx |-> 0, hs |-> -1, dp |-> -1]
NoPend == [t |-> "none", op |-> [k |-> "none", d |-> NONE, m |-> 0], by |-> NONE]
H0 == [n |-> 0, mode |-> "none", ctx |-> <<>>, cx |-> <<>>, s |-> S0(0),
       sv |-> [c \in {0} |-> NoSave], pend |-> NoPend, retv |-> [c \in {0} |-> -1]]
Init == l = 1 /\ h = H0

R(ok, rule, h2) == [ok |-> ok, rule |-> rule, h |-> h2]
Fail(rule) == R(FALSE, rule, h)

SnapshotRule(e) ==
  IF \A c \in 1..h.n : h.retv[c] # -1 => (e.st[c] = 2 /\ e.xv[c] = h.retv[c])
  THEN "" ELSE "returned-value-is-not-the-exit-value"

(* what the coroutine c must find when it continues after its last switch-out *)
PreservationRule(e, c) ==
  LET sv == h.sv[c] IN
  IF sv.i < 0 THEN "harness-arrival-without-departure"
  ELSE IF e.i # sv.i THEN "did-not-continue-where-it-gave-up-control"
  ELSE IF ~(\A r \in 1..6 : e.rr[r] = r - 1 /\ e.rt[r] = sv.tok) THEN "callee-saved-register-not-preserved"
  ELSE IF (e.mx \div 64) # (sv.mx \div 64) THEN "mxcsr-control-word-not-preserved"
  ELSE IF ~(Len(e.can) = sv.dp + 1 /\ \A x \in 1..Len(e.can) : e.can[x] = sv.tok) THEN "stack-contents-not-preserved"
  ELSE IF e.hs # sv.hs THEN "stack-contents-not-preserved"
  ELSE ""

Saved(e) == [i |-> e.i, tok |-> e.tok, mx |-> e.mx, hs |-> e.hs, dp |-> e.dp]

(* ---------------------------------------------------------------- coroutine mode *)
OpCo(e) ==
  LET opr == [k |-> e.k, d |-> e.d, m |-> e.m] IN
  IF h.pend.t # "none" THEN Fail("harness-op-while-switch-pending")
  ELSE IF e.by # h.s.cur THEN Fail("harness-op-by-non-current")
  ELSE IF e.k \notin Kinds THEN Fail("harness-unknown-op")
  ELSE IF ~Enabled(h.s, opr) THEN Fail("harness-op-not-enabled")
  ELSE IF e.k \in Switching THEN
         R(TRUE, "", [h EXCEPT !.sv[e.by] = Saved(e),
                               !.pend = [t |-> "arrive", op |-> opr, by |-> e.by],
                               !.retv = IF e.k = "start" THEN [h.retv EXCEPT ![e.d] = -1]
                                        ELSE IF e.k = "return" THEN [h.retv EXCEPT ![e.by] = e.m]
                                        ELSE h.retv])
  ELSE R(TRUE, "", [h EXCEPT !.s = Step(h.s, opr),
                             !.pend = [t |-> "done", op |-> opr, by |-> e.by],
                             !.retv = IF e.k = "reset" THEN [h.retv EXCEPT ![e.d] = -1] ELSE h.retv])

(* the states the switch may lead to: the model's, and for a yield also the one *)
(* under the other documented reading of "caller"                              *)
Candidates ==
  LET op == h.pend.op  a == AltYieldDest(h.s) IN
  {Step(h.s, op)} \cup
  (IF op.k = "yield" /\ a # NONE /\ a # h.s.cur /\ IsRunning(h.s, a) THEN {StepYieldAlt(h.s)} ELSE {})

EntryCo(e) ==
  LET op == h.pend.op  d == Dest(h.s, op) IN
  IF h.pend.t # "arrive" THEN Fail("harness-unexpected-arrival")
  ELSE IF ~ArrivesByEntry(op) THEN Fail("did-not-continue-where-it-gave-up-control")
  ELSE IF e.self # d THEN Fail("new-coroutine-did-not-receive-its-own-handle")
  ELSE IF e.ctx # h.ctx[d] THEN Fail("new-coroutine-did-not-receive-its-context")
  ELSE IF e.rsp # 8 THEN Fail("entry-stack-not-16-byte-aligned")
  ELSE IF SnapshotRule(e) # "" THEN Fail(SnapshotRule(e))
  ELSE R(TRUE, "", [h EXCEPT !.s = Step(h.s, op), !.pend = NoPend])

InCo(e) ==
  LET op == h.pend.op
      match == {x \in Candidates : x.cur = e.c} IN
  IF h.pend.t # "arrive" THEN Fail("harness-unexpected-arrival")
  ELSE IF match = {} THEN Fail("control-passed-to-wrong-coroutine")
  ELSE IF ArrivesByEntry(op) THEN Fail("started-coroutine-did-not-enter-its-function")
  ELSE IF PreservationRule(e, e.c) # "" THEN Fail(PreservationRule(e, e.c))
  ELSE IF op.k \in {"resume", "transfer", "yield"} /\ e.ret # op.m THEN Fail("message-not-delivered")
  ELSE IF SnapshotRule(e) # "" THEN Fail(SnapshotRule(e))
  ELSE IF Step(h.s, op) \in match THEN R(TRUE, "", [h EXCEPT !.s = Step(h.s, op), !.pend = NoPend])
  ELSE (* the yield followed the other documented reading: the rest of this script was planned *)
       (* for a different current coroutine and is not judged                                  *)
       R(TRUE, "", [h EXCEPT !.mode = "skip", !.pend = NoPend])

ExitFn(e) ==
  IF h.mode = "co" /\ ~(h.pend.t = "arrive" /\ h.pend.op.k = "return") THEN Fail("harness-unexpected-exitfn")
  ELSE IF h.mode = "co" /\ e.arg # h.pend.op.m THEN Fail("returned-value-not-handed-to-exit-function")
  ELSE IF e.rsp # 8 THEN Fail("exit-function-stack-not-16-byte-aligned")
  ELSE R(TRUE, "", h)

DoneCo(e) ==
  IF h.pend.t # "done" THEN Fail("harness-unexpected-done")
  ELSE IF SnapshotRule(e) # "" THEN Fail(SnapshotRule(e))
  ELSE R(TRUE, "", [h EXCEPT !.pend = NoPend])

(* ---------------------------------------------------------------- process mode *)
(* cmb_process_hold from processes, cmb_event_queue_execute from the dispatcher:  *)
(* who runs next is the business of C01/C04, here only what each one finds when   *)
(* it continues                                                                   *)
OpProc(e) ==
  IF e.by \notin 0..h.n THEN Fail("harness-op-by-unknown")
  ELSE IF e.k \in {"hold", "run"} THEN R(TRUE, "", [h EXCEPT !.sv[e.by] = Saved(e)])
  ELSE IF e.k = "return" THEN R(TRUE, "", [h EXCEPT !.retv[e.by] = e.m, !.sv[e.by] = NoSave])
  ELSE Fail("harness-unknown-op")

EntryProc(e) ==
  IF e.self \notin 1..h.n THEN Fail("new-coroutine-did-not-receive-its-own-handle")
  ELSE IF e.ctx # h.ctx[e.self] THEN Fail("new-coroutine-did-not-receive-its-context")
  ELSE IF e.rsp # 8 THEN Fail("entry-stack-not-16-byte-aligned")
  ELSE IF SnapshotRule(e) # "" THEN Fail(SnapshotRule(e))
  ELSE R(TRUE, "", h)

InProc(e) ==
  IF e.c \notin 0..h.n THEN Fail("harness-arrival-of-unknown")
  ELSE IF PreservationRule(e, e.c) # "" THEN Fail(PreservationRule(e, e.c))
  ELSE IF SnapshotRule(e) # "" THEN Fail(SnapshotRule(e))
  ELSE R(TRUE, "", [h EXCEPT !.sv[e.c] = NoSave])

----------------------------------------------------------------------------
Verdict(e) ==
  IF e.e = "init" THEN
     R(TRUE, "", [n |-> e.n, mode |-> e.mode, ctx |-> e.ctx, cx |-> e.cx, s |-> S0(e.n),
                  sv |-> [c \in 0..e.n |-> NoSave], pend |-> NoPend, retv |-> [c \in 0..e.n |-> -1]])
  ELSE IF h.mode = "skip" THEN R(TRUE, "", h)
  ELSE IF h.mode \notin {"co", "proc"} THEN Fail("harness-no-init")
  ELSE
  CASE e.e = "op"     -> IF h.mode = "co" THEN OpCo(e) ELSE OpProc(e)
    [] e.e = "entry"  -> IF h.mode = "co" THEN EntryCo(e) ELSE EntryProc(e)
    [] e.e = "in"     -> IF h.mode = "co" THEN InCo(e) ELSE InProc(e)
    [] e.e = "exitfn" -> ExitFn(e)
    [] e.e = "done"   -> IF h.mode = "co" THEN DoneCo(e) ELSE Fail("harness-unexpected-done")
    [] e.e = "end"    -> IF h.mode = "co" /\ h.pend.t # "none" THEN Fail("harness-end-while-switch-pending") ELSE R(TRUE, "", h)
    [] e.e = "crash"  -> Fail("crashed-in-a-valid-program")
    [] OTHER -> Fail("harness-unknown-event")

InitIdx == {x \in 1..Len(Tr) : Tr[x].e = "init"}
Resync(x) == LET later == {y \in InitIdx : y > x} IN
             IF later = {} THEN Len(Tr) + 1 ELSE CHOOSE y \in later : \A z \in later : y <= z

Next ==
  /\ l <= Len(Tr)
  /\ LET e == Tr[l]  v == Verdict(e) IN
     IF ~v.ok THEN /\ PrintT(<<"REJECT", l, v.rule, e, "pending", h.pend>>)
                   /\ l' = Resync(l) /\ h' = H0
     ELSE /\ l' = l + 1 /\ h' = v.h
  /\ (l' = Len(Tr) + 1) => PrintT(<<"CONSUMED", Len(Tr)>>)
Spec == Init /\ [][Next]_vars
=============================================================================
