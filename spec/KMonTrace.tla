---------------------------- MODULE KMonTrace ----------------------------
(* Folds the kernel property monitors (KMon.tla) over an ndjson trace that   *)
(* harness/kernel_replay recorded from the real library (env TRACE).         *)
(* One program = the lines from a "Prog" header to the next one.  For every  *)
(* program that breaks a rule the verdict is printed once per (property,     *)
(* rule): <<"REJECT", line, "Cxx:rule", program id>>; validation continues.   *)
EXTENDS Integers, Sequences, FiniteSets, TLC, Json, IOUtils, KMon

Tr == ndJsonDeserialize(IOEnv.TRACE)

VARIABLES l, m, seen, pid
vars == <<l, m, seen, pid>>

Header0 == [np |-> 1, nres |-> 1, poolcap |-> 1, bufcap |-> 1, oqcap |-> 1, pqcap |-> 1, prio |-> <<0>>]
Init == l = 1 /\ m = MInit(Header0) /\ seen = {} /\ pid = 0

RECURSIVE PrintAll(_, _, _)
PrintAll(S, line, prog) ==
  IF S = {} THEN TRUE
  ELSE LET x == CHOOSE y \in S : TRUE IN
       PrintT(<<"REJECT", line, x[1] \o ":" \o x[2], prog>>) /\ PrintAll(S \ {x}, line, prog)

Next ==
  /\ l <= Len(Tr)
  /\ LET e == Tr[l] IN
     IF e.e = "Prog"
       THEN m' = MInit(e) /\ seen' = {} /\ pid' = e.id
       ELSE LET r == MStep(m, e)
                new == r.bad \ seen
            IN /\ m' = r.m
               /\ seen' = seen \cup r.bad
               /\ pid' = pid
               /\ PrintAll(new, l, pid)
  /\ l' = l + 1
  /\ (l' = Len(Tr) + 1) => PrintT(<<"CONSUMED", Len(Tr)>>)

Spec == Init /\ [][Next]_vars
=============================================================================
