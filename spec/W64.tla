-------------------------------- MODULE W64 --------------------------------
(* 64-bit machine words for TLC.  TLC integers are 32-bit and overflow is    *)
(* an error, so a word is a tuple of four 16-bit limbs, least significant    *)
(* first:  <<w1, w2, w3, w4>>  stands for  w1 + 2^16 w2 + 2^32 w3 + 2^48 w4. *)
(* Every intermediate value below stays under 2^31.  All operators are       *)
(* total on words and written without recursion where speed matters          *)
(* (addition, xor, shifts, rotation: the sfc64 step); multiplication is      *)
(* schoolbook on byte limbs and only needed by splitmix64.                   *)
(* Used by Sfc64.tla (property C15).                                         *)
EXTENDS Integers, Sequences, Bitwise

B16 == 65536

IsW64(w) == /\ Len(w) = 4
            /\ \A i \in 1..4 : w[i] \in 0..(B16 - 1)

Zero64 == <<0, 0, 0, 0>>
One64  == <<1, 0, 0, 0>>

(* x + y mod 2^64 *)
Add64(x, y) ==
  LET s1 == x[1] + y[1]
      s2 == x[2] + y[2] + (s1 \div B16)
      s3 == x[3] + y[3] + (s2 \div B16)
      s4 == x[4] + y[4] + (s3 \div B16)
  IN  <<s1 % B16, s2 % B16, s3 % B16, s4 % B16>>

(* bitwise exclusive or *)
Xor64(x, y) == <<x[1] ^^ y[1], x[2] ^^ y[2], x[3] ^^ y[3], x[4] ^^ y[4]>>

(* bitwise or *)
Or64(x, y) == <<x[1] | y[1], x[2] | y[2], x[3] | y[3], x[4] | y[4]>>

(* limb j of x, zero outside 1..4 *)
Limb(x, j) == IF j \in 1..4 THEN x[j] ELSE 0

(* logical shift right by n \in 0..63 *)
Shr64(x, n) ==
  LET q == n \div 16
      r == n % 16
      lo == 2 ^ r
      hi == 2 ^ (16 - r)
      L(i) == (Limb(x, i + q) \div lo) + ((Limb(x, i + q + 1) % lo) * hi)
  IN  <<L(1), L(2), L(3), L(4)>>

(* shift left by n \in 0..63, mod 2^64 *)
Shl64(x, n) ==
  LET q == n \div 16
      r == n % 16
      lo == 2 ^ r
      hi == 2 ^ (16 - r)
      L(i) == ((Limb(x, i - q) % hi) * lo) + (Limb(x, i - q - 1) \div hi)
  IN  <<L(1), L(2), L(3), L(4)>>

(* rotate left by n \in 1..63 *)
Rotl64(x, n) == Or64(Shl64(x, n), Shr64(x, 64 - n))

(* ---- multiplication mod 2^64, schoolbook over 8 byte limbs ---- *)
Bytes(x) == <<x[1] % 256, x[1] \div 256, x[2] % 256, x[2] \div 256,
              x[3] % 256, x[3] \div 256, x[4] % 256, x[4] \div 256>>

RECURSIVE ColSum(_, _, _, _)
(* sum over i = 1..k of a[i] * b[k + 1 - i]; at most 8 products < 2^16 *)
ColSum(a, b, k, i) == IF i > k THEN 0 ELSE a[i] * b[k + 1 - i] + ColSum(a, b, k, i + 1)

Mul64(x, y) ==
  LET a == Bytes(x)
      b == Bytes(y)
      c1 == ColSum(a, b, 1, 1)
      c2 == ColSum(a, b, 2, 1) + (c1 \div 256)
      c3 == ColSum(a, b, 3, 1) + (c2 \div 256)
      c4 == ColSum(a, b, 4, 1) + (c3 \div 256)
      c5 == ColSum(a, b, 5, 1) + (c4 \div 256)
      c6 == ColSum(a, b, 6, 1) + (c5 \div 256)
      c7 == ColSum(a, b, 7, 1) + (c6 \div 256)
      c8 == ColSum(a, b, 8, 1) + (c7 \div 256)
  IN  <<(c1 % 256) + 256 * (c2 % 256), (c3 % 256) + 256 * (c4 % 256),
        (c5 % 256) + 256 * (c6 % 256), (c7 % 256) + 256 * (c8 % 256)>>

(* bit k (0 = least significant) of x *)
Bit64(x, k) == (x[(k \div 16) + 1] \div (2 ^ (k % 16))) % 2

(* self-checks, evaluated once when the module is loaded *)
ASSUME Add64(<<65535, 65535, 65535, 65535>>, One64) = Zero64
ASSUME Shl64(<<1, 0, 0, 0>>, 63) = <<0, 0, 0, 32768>>
ASSUME Shr64(<<0, 0, 0, 32768>>, 63) = One64
ASSUME Shr64(<<\h1234, \h5678, \h9abc, \hdef0>>, 20) = <<\hc567, \h09ab, \hdef, 0>>
ASSUME Shl64(<<\h1234, \h5678, \h9abc, \hdef0>>, 20) = <<0, \h2340, \h6781, \habc5>>
ASSUME Rotl64(<<\h1234, \h5678, \h9abc, \hdef0>>, 24) = <<\hf09a, \h34de, \h7812, \hbc56>>
ASSUME Mul64(<<65535, 65535, 65535, 65535>>, <<65535, 65535, 65535, 65535>>) = One64
ASSUME Mul64(<<\h1234, \h5678, \h9abc, \hdef0>>, <<\h1111, \h2222, \h3333, \h4444>>)
         = <<\ha974, \h0a16, \h32f9, \h241c>>
=============================================================================
