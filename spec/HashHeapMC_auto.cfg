SPECIFICATION Spec
CONSTANTS
  Ord = "event"
  HashMode = "mod"
  Exp0 = 1
  MaxExp = 2
  CallerKeys = {}
  AutoKeys = TRUE
  DVals = {0, 1}
  IVals = {0, 1}
  PVals = {0, 1}
  MaxOps = 1000
  MaxCtr = 5
INVARIANTS WellFormed QueriesAgree
PROPERTY Refinement
CONSTRAINT Constr
VIEW View
CHECK_DEADLOCK FALSE
