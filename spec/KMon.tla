------------------------------- MODULE KMon -------------------------------
(* Property monitors for the process kernel (C04 - C09, C11 - C14), written  *)
(* as total step functions over the event vocabulary shared by the kernel    *)
(* model (spec/Kernel.tla) and the replay harness (harness/kernel_replay.c). *)
(*                                                                           *)
(*   MInit(progHeader)  -> monitor state                                     *)
(*   MStep(m, e)        -> [m |-> new state, bad |-> set of <<prop, rule>>]  *)
(*                                                                           *)
(* A rule fires only for an event that cannot happen in any behaviour that   *)
(* satisfies the property as stated; freedom the properties leave (order of  *)
(* a batch of waiter wake-ups, ties on priority and waiting time, whether a  *)
(* preempted process keeps its timers) is left open.                         *)
EXTENDS Integers, Sequences, FiniteSets, TLC

SUCCESS == 0
PREEMPTED == -1
INTERRUPTED == -2
STOPPED == -3
CANCELLED == -4
TIMEOUT == -5

(* guard numbering of the harness: 1..2 resources, then the others *)
GPOOL == 3  GBUFF == 4  GBUFR == 5  GOQF == 6  GOQR == 7  GPQF == 8  GPQR == 9  GCOND == 10
Guards == 1..10

NoCall == [op |-> "none", a |-> <<0, 0, 0>>, t0 |-> 0, held0 |-> 0]
Min2(a, b) == IF a < b THEN a ELSE b
SeqSum(s) == LET RECURSIVE Sm(_)
                 Sm(i) == IF i = 0 THEN 0 ELSE s[i] + Sm(i - 1)
             IN Sm(Len(s))
SetSum(f, S) == LET RECURSIVE Sm(_)
                    Sm(T) == IF T = {} THEN 0 ELSE LET x == CHOOSE y \in T : TRUE IN f[x] + Sm(T \ {x})
                IN Sm(S)

MInit(h) ==
  LET Procs == 1..h.np IN
  [ np      |-> h.np,
    nres    |-> h.nres,
    poolcap |-> h.poolcap, bufcap |-> h.bufcap, oqcap |-> h.oqcap, pqcap |-> h.pqcap,
    now     |-> 0,
    prio    |-> [p \in Procs |-> h.prio[p]],
    st      |-> [p \in Procs |-> "created"],          \* created / alive / done
    blk     |-> [p \in Procs |-> NoCall],              \* blocking call in progress
    timers  |-> [p \in Procs |-> {}],                  \* armed: [k, due, sig]
    maybe   |-> [p \in Procs |-> {}],                  \* timers that may or may not still fire
    ntim    |-> [p \in Procs |-> 0],
    causes  |-> [p \in Procs |-> {}],                  \* undelivered notifications [kind, sig, t]
    endinfo |-> [p \in Procs |-> [how |-> "none", t |-> 0, val |-> 0]],
    endchk  |-> {},                                    \* processes whose end has not been checked against a snapshot yet
    uev     |-> [x \in 1..4 |-> [st |-> "pending", t |-> 0]],
    holder  |-> [r \in 1..2 |-> 0],
    pheld   |-> [p \in Procs |-> 0],
    gq      |-> [g \in Guards |-> {}],                 \* entries [p, pr, since]
    level   |-> 0,                                     \* completed buffer transfers only
    oqc     |-> <<>>,                                  \* object queue content
    pqc     |-> {},                                    \* priority queue content [h, obj, pr]
    truths  |-> {},                                    \* [p, v]: harness-evaluated predicate truth of the waiters at the current signal
    sigq    |-> {},                                    \* who was in the condition's list when the current signal began
    preds   |-> {},                                    \* predicate evaluations of the current condition-signal batch [p, v]
    cgrants |-> {},                                    \* processes granted in the current batch
    cburst  |-> {},                                    \* [p, pr, since]: waiters resumed by the latest evaluation pass of the condition, not back yet
    cseen   |-> {},                                    \* waiters whose predicate that pass has evaluated
    cfresh  |-> TRUE,                                  \* the next predicate evaluation starts a new pass
    csub    |-> [g \in Guards |-> 0],                  \* how many times the condition is registered as an observer of guard g
    rec     |-> [o \in Guards |-> [on |-> FALSE, t0 |-> 0, traj |-> <<>>, phase |-> "idle"]],   \* idle -> on -> stopped -> closed
    gone    |-> {},                                    \* <<guard, process>> taken out of the condition's list since the last operation
    actor   |-> [p |-> 0, op |-> "none"],                \* who performed the step that the next snapshot closes
    snap    |-> [t |-> -1] ]

Procs(m) == 1..m.np
Bad(prop, rule) == {<<prop, rule>>}

(* ---------------------------------------------------------------------- *)
(* helpers                                                                *)
(* ---------------------------------------------------------------------- *)
(* causes form a bag: identical notifications issued twice are two causes (n = how many) *)
CauseAdd(S, kind, sig, t) ==
  IF \E c \in S : c.kind = kind /\ c.sig = sig /\ c.t = t
    THEN {IF c.kind = kind /\ c.sig = sig /\ c.t = t THEN [c EXCEPT !.n = @ + 1] ELSE c : c \in S}
    ELSE S \cup {[kind |-> kind, sig |-> sig, t |-> t, n |-> 1]}
CauseDel(S, c) == IF c.n > 1 THEN (S \ {c}) \cup {[c EXCEPT !.n = @ - 1]} ELSE S \ {c}
AddCause(m, p, kind, sig, t) == [m EXCEPT !.causes[p] = CauseAdd(@, kind, sig, t)]
CausesAt(m, p, sig, t) == {c \in m.causes[p] : c.sig = sig /\ c.t = t}
TimersAt(S, sig, t) == {x \in S : x.sig = sig /\ x.due = t}

(* p's end: drop everything the monitors associate with p *)
EndProc(m, q, how, val, t) ==
  LET waiters == {p \in Procs(m) : m.blk[p].op = "wproc" /\ m.blk[p].a[1] = q}
      sig == IF how = "stop" THEN STOPPED ELSE SUCCESS
      m1 == [m EXCEPT !.st[q] = "done",
                      !.endinfo[q] = [how |-> how, t |-> t, val |-> val],
                      !.endchk = @ \cup {q},
                      !.blk[q] = NoCall,
                      !.timers[q] = {}, !.maybe[q] = {}, !.causes[q] = {},
                      !.holder = [r \in 1..2 |-> IF @[r] = q THEN 0 ELSE @[r]],
                      !.pheld[q] = 0,
                      \* a buffer call cut short by the end of its process keeps what it had transferred so far
                      !.level = IF m.blk[q].op = "bput" /\ m.snap.t >= 0 THEN @ + (m.blk[q].a[1] - m.snap.amnt[q])
                                ELSE IF m.blk[q].op = "bget" /\ m.snap.t >= 0 THEN @ - m.snap.amnt[q] ELSE @,
                      !.cburst = {x \in @ : x.p # q},
                      !.gq = [g \in Guards |-> {x \in @[g] : x.p # q}]]
  IN [m1 EXCEPT !.causes = [p \in Procs(m) |-> IF p \in waiters
                                THEN CauseAdd(m1.causes[p], "procend", sig, t)
                                ELSE m1.causes[p]]]

(* the first waiter of a guard under the priority / waiting time order is not unique in a tie: p is *a* best entry *)
IsBest(S, x) == \A y \in S : ~(y.pr > x.pr \/ (y.pr = x.pr /\ y.since < x.since))

(* ---------------------------------------------------------------------- *)
(* end of an instant (the clock is about to advance, or nothing is left)  *)
(* ---------------------------------------------------------------------- *)
GuardDemand(m, g) ==      \* is the (process independent) demand of guard g true in the last snapshot?
  LET s == m.snap IN
  IF s.t < 0 THEN FALSE
  ELSE CASE g \in 1..2 -> g <= m.nres /\ s.res[g].avail > 0
         [] g = GPOOL -> s.pool.avail > 0
         [] g = GBUFF -> s.buf.level > 0
         [] g = GBUFR -> s.buf.space > 0
         [] g = GOQF  -> s.oq.len > 0
         [] g = GOQR  -> s.oq.space > 0
         [] g = GPQF  -> s.pq.len > 0
         [] g = GPQR  -> s.pq.space > 0
         [] OTHER -> FALSE

(* tnext = the time the clock is about to jump to (anything due strictly before it has been skipped) *)
EndOfInstant(m, quiescent, tnext) ==
  LET t == m.now
      alive == {p \in Procs(m) : m.st[p] = "alive"}
      lostTimer == \E p \in alive : \E x \in m.timers[p] : quiescent \/ x.due < tnext
      stuckHold == \E p \in alive : m.blk[p].op = "hold" /\ (quiescent \/ m.blk[p].t0 + m.blk[p].a[1] < tnext)
      stuckProc == \E p \in alive : m.blk[p].op = "wproc" /\ m.st[m.blk[p].a[1]] = "done"
      stuckEv   == \E p \in alive : m.blk[p].op = "wevent" /\ m.uev[m.blk[p].a[1]].st # "pending"
      unnotified == \E p \in alive : \E c \in m.causes[p] : c.kind = "preempt" /\ c.t <= t
      overtaken == \E p \in alive : \E c \in m.causes[p] : c.kind = "preempt-overtaken" /\ c.t <= t
      waiterUntold == \E p \in alive : \E c \in m.causes[p] : c.kind = "procend" /\ c.t <= t
      lost == {g \in Guards \ {GCOND} : m.snap.t >= 0 /\ m.snap.gq[g] # <<>> /\ GuardDemand(m, g)}
  IN (IF lostTimer THEN Bad("C04", "armed-timer-never-fired") ELSE {})
     \cup (IF stuckHold THEN Bad("C04", "hold-not-resumed-at-its-time") ELSE {})
     \cup (IF stuckProc THEN Bad("C04", "still-waiting-for-ended-process") ELSE {})
     \cup (IF stuckEv THEN Bad("C04", "still-waiting-for-finished-event") ELSE {})
     \cup (IF unnotified THEN Bad("C07", "preempted-process-not-notified") ELSE {})
     \cup (IF overtaken THEN Bad("C07", "preemption-notice-cancelled-by-an-overtaking-interrupt") ELSE {})
     \cup (IF waiterUntold THEN Bad("C09", "waiter-not-resumed-when-process-ended") ELSE {})
     \cup (IF lost # {} THEN Bad("C08", "waiter-blocked-while-demand-can-be-met") ELSE {})

(* time moves to t2: close the old instant first; stale same-instant causes become void *)
Advance(m, t2) ==
  IF t2 <= m.now THEN [m |-> m, bad |-> {}]
  ELSE [m |-> [m EXCEPT !.now = t2,
                        !.causes = [p \in Procs(m) |-> {c \in @[p] : c.kind \notin {"intr", "resume", "preempt", "preempt-overtaken", "rpreempt", "procend", "evdone", "evcancel", "ccancel"}}]],
        bad |-> EndOfInstant(m, FALSE, t2)]

(* ---------------------------------------------------------------------- *)
(* return of a blocking call                                              *)
(* ---------------------------------------------------------------------- *)
OnRet(m, e) ==
  LET p == e.p
      c == m.blk[p]
      t == e.t
      sig == e.sig
      tim == TimersAt(m.timers[p], sig, t)
      mtim == TimersAt(m.maybe[p], sig, t)
      cs == CausesAt(m, p, sig, t)
      (* -------- C04: why did it return? *)
      useTimer == sig # SUCCESS /\ tim # {}
      useMaybe == sig # SUCCESS /\ tim = {} /\ cs = {} /\ mtim # {}
      useCause == ~useTimer /\ cs # {}
      chosen == IF useCause THEN CHOOSE x \in cs : TRUE ELSE [kind |-> "none", sig |-> 0, t |-> 0, n |-> 1]
      needCause ==   \* calls whose SUCCESS is a notification rather than a state-based grant
        \/ sig # SUCCESS
        \/ c.op \in {"wproc", "wevent", "yield"}
      immediate == c.op = "wproc" /\ sig = SUCCESS /\ t = c.t0 /\ m.endinfo[c.a[1]].how # "none" /\ m.endinfo[c.a[1]].t <= c.t0
                   /\ m.st[c.a[1]] = "done"
      badCause == needCause /\ ~immediate /\ ~useTimer /\ ~useMaybe /\ ~useCause
      badHold == c.op = "hold" /\ sig = SUCCESS /\ t # c.t0 + c.a[1] /\ ~(\E x \in cs : x.kind = "resume")
      badKind == \/ c.op = "wproc" /\ useCause /\ sig \in {SUCCESS, STOPPED} /\ chosen.kind # "procend"
                 \/ c.op = "wevent" /\ useCause /\ sig = SUCCESS /\ chosen.kind # "evdone"
      (* an interrupt clears the target's timers; the property lets a preemption do either *)
      interrupted == useCause /\ chosen.kind = "intr"
      preempted == useCause /\ chosen.kind \in {"preempt", "preempt-overtaken", "rpreempt"}
      timers2 == IF interrupted \/ preempted THEN {} ELSE IF useTimer THEN m.timers[p] \ {CHOOSE x \in tim : TRUE} ELSE m.timers[p]
      maybe2 == IF interrupted \/ preempted THEN m.maybe[p] \cup m.timers[p]
                ELSE IF useMaybe THEN m.maybe[p] \ {CHOOSE x \in mtim : TRUE} ELSE m.maybe[p]
      \* notifications that belonged to the call that now returned are void with it
      causes2 == {x \in (IF useCause THEN CauseDel(m.causes[p], chosen) ELSE m.causes[p]) :
                    x.kind \notin {"procend", "evdone", "evcancel", "ccancel"}}
      \* a preemption notice still undelivered when an interrupt is delivered: the interrupt overtook it
      causes3 == IF interrupted THEN {IF x.kind = "preempt" THEN [x EXCEPT !.kind = "preempt-overtaken"] ELSE x : x \in causes2} ELSE causes2
      m1 == [m EXCEPT !.blk[p] = NoCall, !.timers[p] = timers2, !.maybe[p] = maybe2, !.causes[p] = causes3]
      (* -------- C05 *)
      isRes == c.op \in {"acq", "pre"}
      r == IF isRes THEN c.a[1] ELSE 1
      victim == m.holder[r]
      badMutex == isRes /\ sig = SUCCESS /\ c.op = "acq" /\ victim # 0
      m2 == IF isRes /\ sig = SUCCESS
              THEN IF c.op = "pre" /\ victim # 0 /\ victim # p
                     THEN AddCause([m1 EXCEPT !.holder[r] = p], victim, "rpreempt", PREEMPTED, t)
                     ELSE [m1 EXCEPT !.holder[r] = p]
              ELSE m1
      (* -------- C07 *)
      isPool == c.op \in {"pacq", "ppre"}
      heldNow == e.out[1]
      \* (held0 has been reset to 0 if the process was robbed of its units during the call)
      badPool == isPool /\ \/ sig = SUCCESS /\ heldNow # c.held0 + c.a[1]
                           \/ sig # SUCCESS /\ heldNow # c.held0
      m3 == IF isPool THEN [m2 EXCEPT !.pheld[p] = heldNow] ELSE m2
      (* -------- C11 *)
      isBuf == c.op \in {"bput", "bget"}
      moved == IF c.op = "bput" THEN c.a[1] - e.out[1] ELSE e.out[1]
      badBuf == isBuf /\ (moved < 0 \/ moved > c.a[1] \/ (sig = SUCCESS /\ moved # c.a[1]))
      m4 == IF isBuf THEN [m3 EXCEPT !.level = IF c.op = "bput" THEN @ + moved ELSE @ - moved] ELSE m3
      (* -------- C12 *)
      badOq == \/ c.op = "qget" /\ sig = SUCCESS /\ (m.oqc = <<>> \/ e.out[1] # Head(m.oqc))
               \/ c.op = "qget" /\ sig # SUCCESS /\ e.out[1] # 0
      m5 == IF c.op = "qput" /\ sig = SUCCESS THEN [m4 EXCEPT !.oqc = Append(@, c.a[1])]
            ELSE IF c.op = "qget" /\ sig = SUCCESS /\ m.oqc # <<>> THEN [m4 EXCEPT !.oqc = Tail(@)]
            ELSE m4
      pqBest == {x \in m.pqc : \A y \in m.pqc : ~(y.pr > x.pr \/ (y.pr = x.pr /\ y.h < x.h))}
      badPq == \/ c.op = "pqget" /\ sig = SUCCESS /\ ~(\E x \in pqBest : x.obj = e.out[1])
               \/ c.op = "pqget" /\ sig # SUCCESS /\ e.out[1] # 0
               \/ c.op = "pqput" /\ sig = SUCCESS /\ (\E x \in m.pqc : x.h = e.out[1])
      m6 == IF c.op = "pqput" /\ sig = SUCCESS THEN [m5 EXCEPT !.pqc = @ \cup {[h |-> e.out[1], obj |-> c.a[1], pr |-> c.a[2]]}]
            ELSE IF c.op = "pqget" /\ sig = SUCCESS /\ (\E x \in pqBest : x.obj = e.out[1])
              THEN [m5 EXCEPT !.pqc = @ \ {CHOOSE x \in pqBest : x.obj = e.out[1]}]
            ELSE m5
      (* -------- C13: a condition wait returns success only if granted by a signal in this instant *)
      badCond == c.op = "cwait" /\ sig = SUCCESS /\ p \notin m.cgrants
      (* -------- C06 for a condition: of the waiters that one evaluation pass resumed together, none that is still on  *)
      (* its way back has a higher priority, or the same priority and a longer wait, than the one returning now          *)
      mine == {x \in m.cburst : x.p = p}
      badCOrd == c.op = "cwait" /\ sig = SUCCESS /\
                 \E x \in mine : \E y \in m.cburst :
                    /\ y.p # p /\ m.st[y.p] = "alive" /\ m.blk[y.p].op = "cwait"
                    \* by the priorities when they were resumed and also by the priorities now (a priority changed in
                    \* between may or may not move the pending wake-up: either is accepted)
                    /\ (y.pr > x.pr \/ (y.pr = x.pr /\ y.since < x.since))
                    /\ (m.prio[y.p] > m.prio[p] \/ (m.prio[y.p] = m.prio[p] /\ y.since < x.since))
      m7 == IF c.op = "cwait" THEN [m6 EXCEPT !.cgrants = @ \ {p}, !.cburst = @ \ mine] ELSE m6
  IN
  IF c.op = "none" THEN [m |-> m, bad |-> Bad("C09", "return-from-a-call-that-was-not-pending")]
  ELSE [m |-> m7,
        bad |-> (IF badCause THEN Bad("C04", "return-without-a-due-undelivered-cause") ELSE {})
           \cup (IF badHold THEN Bad("C04", "hold-returned-success-at-wrong-time") ELSE {})
           \cup (IF badKind THEN Bad("C04", "return-explained-only-by-a-stale-cause") ELSE {})
           \cup (IF badMutex THEN Bad("C05", "acquire-succeeded-while-held-by-another") ELSE {})
           \cup (IF badPool THEN Bad("C07", "holding-after-call-not-as-specified") ELSE {})
           \cup (IF badBuf THEN Bad("C11", "reported-amount-inconsistent") ELSE {})
           \cup (IF badOq THEN Bad("C12", "object-queue-delivery-wrong") ELSE {})
           \cup (IF badPq THEN Bad("C12", "priority-queue-delivery-wrong") ELSE {})
           \cup (IF badCond THEN Bad("C13", "condition-wait-succeeded-without-true-predicate-at-signal") ELSE {})
           \cup (IF badCOrd THEN Bad("C06", "condition-waiter-resumed-ahead-of-higher-priority-or-earlier-waiter") ELSE {})]

(* ---------------------------------------------------------------------- *)
(* non-blocking operations                                                *)
(* ---------------------------------------------------------------------- *)
OnDo(m, e) ==
  LET p == e.p  t == e.t  a == e.a IN
  CASE e.op = "tadd" ->
         [m |-> [m EXCEPT !.timers[p] = @ \cup {[k |-> e.out[2], due |-> t + a[1], sig |-> a[2]]}, !.ntim[p] = e.out[2]], bad |-> {}]
    [] e.op = "taddo" ->      \* a timer armed for process a[1] by another process: it is a[1]'s timer from now on
         [m |-> [m EXCEPT !.timers[a[1]] = @ \cup {[k |-> e.out[2], due |-> t + a[2], sig |-> a[3]]}, !.ntim[a[1]] = e.out[2]], bad |-> {}]
    [] e.op = "tcancel" ->
         LET x == {y \in m.timers[p] \cup m.maybe[p] : y.k = a[1]} IN
         [m |-> [m EXCEPT !.timers[p] = @ \ x, !.maybe[p] = @ \ x],
          bad |-> IF (e.out[1] = 1) # (\E y \in m.timers[p] : y.k = a[1]) /\ ~(\E y \in m.maybe[p] : y.k = a[1])
                    THEN Bad("C04", "timer-cancel-result-disagrees-with-armed-timers") ELSE {}]
    [] e.op = "tclear" -> [m |-> [m EXCEPT !.timers[p] = {}, !.maybe[p] = {}], bad |-> {}]
    [] e.op = "resume" -> [m |-> AddCause(m, a[1], "resume", a[2], t), bad |-> {}]
    [] e.op = "intr" -> [m |-> AddCause(m, a[1], "intr", a[2], t), bad |-> {}]
    [] e.op = "prio" ->
         [m |-> [m EXCEPT !.prio[a[1]] = a[2],
                          !.gq = [g \in Guards |-> {IF x.p = a[1] THEN [x EXCEPT !.pr = a[2]] ELSE x : x \in @[g]}]], bad |-> {}]
    [] e.op = "rel" ->
         \* a release signals the resource's guard; a condition subscribed to it must have evaluated all its waiters
         LET evald == {x.p : x \in m.preds}
             trues == {x.p : x \in {y \in m.preds : y.v}}
             fwdMissing == m.csub[a[1]] > 0 /\ \E x \in m.gq[GCOND] : x.p \notin evald
             due == {x.p : x \in {y \in m.truths : y.v}} \cap m.sigq
             fwdLost == m.csub[a[1]] > 0 /\ (trues \ m.cgrants # {} \/ due \ m.cgrants # {})
         IN [m |-> [m EXCEPT !.holder[a[1]] = 0],
             bad |-> (IF m.holder[a[1]] # p THEN Bad("C05", "release-by-process-that-is-not-the-holder-of-record") ELSE {})
                \cup (IF fwdMissing THEN Bad("C13", "observed-guard-signalled-but-condition-waiter-not-evaluated") ELSE {})
                \cup (IF fwdLost THEN Bad("C13", "satisfied-waiter-not-resumed-by-forwarded-signal") ELSE {})]
    [] e.op = "prel" ->
         [m |-> [m EXCEPT !.pheld[p] = e.out[1]], bad |-> IF e.out[1] # m.pheld[p] - a[1] THEN Bad("C07", "release-did-not-lower-holding-by-n") ELSE {}]
    [] e.op = "pqcancel" ->
         LET x == {y \in m.pqc : y.h = e.out[2]} IN
         [m |-> [m EXCEPT !.pqc = @ \ x], bad |-> IF (e.out[1] = 1) # (x # {}) THEN Bad("C12", "priority-queue-cancel-result-wrong") ELSE {}]
    [] e.op = "pqreprio" ->
         [m |-> [m EXCEPT !.pqc = {IF y.h = e.out[2] THEN [y EXCEPT !.pr = a[2]] ELSE y : y \in @}], bad |-> {}]
    [] e.op = "csig" ->     \* end of an explicit signal batch
         LET waiting == {x.p : x \in m.gq[GCOND]} \cup m.cgrants
             trues == {x.p : x \in {y \in m.preds : y.v}}
             evald == {x.p : x \in m.preds}
             \* what the harness itself saw: waiters (in the list when the signal began) whose predicate was true
             due == {x.p : x \in {y \in m.truths : y.v}} \cap m.sigq
             notdue == {x.p : x \in {y \in m.truths : ~y.v}} \cap m.sigq
         IN [m |-> [m EXCEPT !.preds = {}, !.truths = {}, !.sigq = {}],
             bad |-> (IF trues \ m.cgrants # {} \/ due \ m.cgrants # {} THEN Bad("C13", "satisfied-waiter-not-resumed-by-signal") ELSE {})
                \cup (IF \E w \in notdue : w \notin {x.p : x \in m.gq[GCOND]} THEN Bad("C13", "waiter-with-false-predicate-taken-off-the-list") ELSE {})]
    [] e.op \in {"ccancel", "cremove"} ->
         \* m.gone = who left which waiting list during this call (guard hooks)
         LET was == (\E x \in m.gq[GCOND] : x.p = a[1]) \/ <<GCOND, a[1]>> \in m.gone
             exact == m.gone \subseteq {<<GCOND, a[1]>>}
             m1 == [m EXCEPT !.gq[GCOND] = {x \in @ : x.p # a[1]}, !.gone = {}]
         IN [m |-> IF e.op = "ccancel" /\ e.out[1] = 1 THEN AddCause(m1, a[1], "ccancel", CANCELLED, t) ELSE m1,
             bad |-> (IF (e.out[1] = 1) # was THEN Bad("C13", "cancel-or-remove-result-disagrees-with-queue") ELSE {})
                \cup (IF ~exact THEN Bad("C13", "cancel-or-remove-took-out-another-process") ELSE {})]
    [] e.op = "csub" -> [m |-> [m EXCEPT !.csub[IF a[1] = 0 THEN 1 ELSE GBUFF] = @ + 1], bad |-> {}]
    [] e.op = "cunsub" ->    \* the library's own answer decides whether a registration went away (the property is silent on it)
         [m |-> [m EXCEPT !.csub[IF a[1] = 0 THEN 1 ELSE GBUFF] = IF e.out[1] = 1 /\ @ > 0 THEN @ - 1 ELSE @], bad |-> {}]
    [] e.op = "evcancel" ->
         IF e.out[1] = 1
           THEN LET ws == {q \in Procs(m) : m.blk[q].op = "wevent" /\ m.blk[q].a[1] = a[1]}
                    m1 == [m EXCEPT !.uev[a[1]] = [st |-> "cancelled", t |-> t]]
                IN [m |-> [m1 EXCEPT !.causes = [q \in Procs(m) |-> IF q \in ws THEN CauseAdd(@[q], "evcancel", CANCELLED, t) ELSE @[q]]],
                    bad |-> IF m.uev[a[1]].st # "pending" THEN Bad("C01", "cancelled-an-event-that-was-not-pending") ELSE {}]
           ELSE [m |-> m, bad |-> {}]
    [] e.op = "rec" ->
         \* the property speaks of one recording interval: the first start .. the first stop after it
         IF a[2] = 1
           THEN IF m.rec[a[1]].phase = "idle"
                  THEN [m |-> [m EXCEPT !.rec[a[1]] = [on |-> TRUE, t0 |-> t, traj |-> <<>>, phase |-> "on"]], bad |-> {}]
                  ELSE [m |-> m, bad |-> {}]
           ELSE IF m.rec[a[1]].phase = "on"
                  THEN [m |-> [m EXCEPT !.rec[a[1]].on = FALSE, !.rec[a[1]].phase = "stopped"], bad |-> {}]
                  ELSE [m |-> m, bad |-> {}]
    [] OTHER -> [m |-> m, bad |-> {}]

(* ---------------------------------------------------------------------- *)
(* snapshots: the public queries after every call return and every event  *)
(* ---------------------------------------------------------------------- *)
ObjValue(s, o) ==
  CASE o \in 1..2 -> IF o <= Len(s.res) THEN s.res[o].inuse ELSE 0
    [] o = GPOOL -> s.pool.inuse
    [] o = GBUFF -> s.buf.level
    [] o = GOQF -> s.oq.len
    [] o = GPQF -> s.pq.len
    [] OTHER -> 0

OnSnap(m, e) ==
  LET P == Procs(m)
      (* pool units that vanished from a holder without its own doing: a preemption *)
      robbed == IF m.snap.t < 0 THEN {}
                ELSE {v \in P : v # m.actor.p /\ m.snap.pool.held[v] > 0 /\ e.pool.held[v] = 0 /\ m.st[v] = "alive"}
      badRob == \E v \in robbed : ~(m.actor.op = "ppre" /\ m.actor.p \in P /\ m.prio[m.actor.p] > m.prio[v])
      m1 == [m EXCEPT !.pheld = [p \in P |-> IF p \in robbed THEN 0 ELSE @[p]],
                      !.blk = [p \in P |-> IF p \in robbed THEN [@[p] EXCEPT !.held0 = 0] ELSE @[p]],
                      !.causes = [p \in P |-> IF p \in robbed THEN CauseAdd(@[p], "preempt", PREEMPTED, e.t) ELSE @[p]]]
      (* a blocked pool call may already have grabbed part of what it asked for *)
      poolOk == /\ e.pool.inuse = SeqSum(e.pool.held)
                /\ e.pool.inuse <= m.poolcap
                /\ e.pool.avail = m.poolcap - e.pool.inuse
                /\ \A p \in P : \/ /\ m1.blk[p].op \in {"pacq", "ppre"}
                                   /\ e.pool.held[p] >= m1.blk[p].held0 /\ e.pool.held[p] <= m1.blk[p].held0 + m1.blk[p].a[1]
                                \/ e.pool.held[p] = m1.pheld[p]
      resOk == \A r \in 1..m.nres : /\ e.res[r].holder = m.holder[r]
                                    /\ e.res[r].inuse = (IF m.holder[r] = 0 THEN 0 ELSE 1)
                                    /\ e.res[r].avail = 1 - e.res[r].inuse
      (* buffer: completed transfers plus the progress of the calls still blocked *)
      pendPut == {p \in P : m.blk[p].op = "bput"}
      pendGet == {p \in P : m.blk[p].op = "bget"}
      expLevel == m.level + SetSum([p \in P |-> m.blk[p].a[1] - e.amnt[p]], pendPut) - SetSum([p \in P |-> e.amnt[p]], pendGet)
      bufOk == /\ e.buf.exact
               /\ e.buf.level = expLevel
               /\ e.buf.level >= 0
               /\ (m.bufcap >= 0 => e.buf.level <= m.bufcap /\ e.buf.space = m.bufcap - e.buf.level)
      oqOk == /\ e.oq.len = Len(m.oqc)
              /\ (m.oqcap >= 0 => e.oq.len <= m.oqcap /\ e.oq.space = m.oqcap - e.oq.len)
              /\ \A o \in 1..Len(e.oq.pos) :
                    e.oq.pos[o] = (IF \E i \in 1..Len(m.oqc) : m.oqc[i] = o
                                     THEN CHOOSE i \in 1..Len(m.oqc) : m.oqc[i] = o /\ \A j \in 1..(i - 1) : m.oqc[j] # o
                                     ELSE 0)
      PqAhead(x) == Cardinality({y \in m.pqc : y.pr > x.pr \/ (y.pr = x.pr /\ y.h < x.h)})
      pqOk == /\ e.pq.len = Cardinality(m.pqc)
              /\ (m.pqcap >= 0 => e.pq.len <= m.pqcap /\ e.pq.space = m.pqcap - e.pq.len)
              /\ \A i \in 1..Len(e.pq.pos) :
                    LET h == e.pq.pos[i][1]  ps == e.pq.pos[i][2] IN
                    IF \E x \in m.pqc : x.h = h THEN ps = 1 + PqAhead(CHOOSE x \in m.pqc : x.h = h) ELSE ps = 0
      (* C09: the first snapshot after a process ended *)
      endBad(q) == \/ e.st[q] # 2
                   \/ e.xv[q] # m.endinfo[q].val
                   \/ e.nhold[q] # 0
                   \/ e.pend[q] # 0
                   \/ e.pool.held[q] # 0
                   \/ \E r \in 1..m.nres : e.res[r].holder = q
                   \/ \E g \in Guards : \E i \in 1..Len(e.gq[g]) : e.gq[g][i] = q
      endViol == {q \in m.endchk : endBad(q)}
      (* C14: the true trajectory while recording *)
      rec2 == [o \in Guards |-> IF m.rec[o].on THEN [m.rec[o] EXCEPT !.traj = Append(@, <<ObjValue(e, o), e.t>>)] ELSE m.rec[o]]
      m2 == [m1 EXCEPT !.endchk = {}, !.rec = rec2, !.snap = e]
  IN [m |-> m2,
      bad |-> (IF ~resOk THEN Bad("C05", "holder-queries-disagree-with-acquire-release-history") ELSE {})
         \cup (IF ~poolOk THEN Bad("C07", "pool-accounting-broken") ELSE {})
         \cup (IF badRob THEN Bad("C07", "units-taken-from-process-without-higher-priority-preemptor") ELSE {})
         \cup (IF ~bufOk THEN Bad("C11", "level-not-conserved-or-out-of-range") ELSE {})
         \cup (IF ~oqOk THEN Bad("C12", "object-queue-length-capacity-or-position-wrong") ELSE {})
         \cup (IF ~pqOk THEN Bad("C12", "priority-queue-length-capacity-or-position-wrong") ELSE {})
         \cup (IF endViol # {} THEN Bad("C09", "ended-process-still-holds-waits-or-has-pending-events") ELSE {})]

(* ---------------------------------------------------------------------- *)
(* recorded history against the true trajectory                           *)
(* ---------------------------------------------------------------------- *)
(* value of a step function given as a sequence of <<v, t>> with nondecreasing t, at time t (last sample with time <= t) *)
StepVal(seq, t) ==
  LET idx == {i \in 1..Len(seq) : seq[i][2] <= t} IN
  IF idx = {} THEN -1 ELSE seq[CHOOSE i \in idx : \A j \in idx : j <= i][1]
Area(seq, tend) ==
  LET RECURSIVE A(_)
      A(i) == IF i > Len(seq) THEN 0
              ELSE seq[i][1] * ((IF i = Len(seq) THEN tend ELSE seq[i + 1][2]) - seq[i][2]) + A(i + 1)
  IN A(1)

(* the step function a sequence of <<v, t>> samples defines, in normal form: per distinct time the  *)
(* last value, and no entry that repeats the value of the entry before it (linear in Len(seq))     *)
NormalForm(seq) ==
  LET RECURSIVE N(_, _)
      N(i, acc) ==
        IF i > Len(seq) THEN acc
        ELSE LET s == seq[i]
                 lastOfTime == i = Len(seq) \/ seq[i + 1][2] # s[2]
             IN IF ~lastOfTime THEN N(i + 1, acc)
                ELSE IF acc # <<>> /\ acc[Len(acc)][1] = s[1] THEN N(i + 1, acc)
                ELSE N(i + 1, Append(acc, s))
  IN N(1, <<>>)

OnHist(m, e) ==
  LET o == e.o
      tr == m.rec[o].traj
      hs == [i \in 1..Len(e.xs) |-> <<e.xs[i], e.ts[i]>>]
      tend == IF Len(hs) = 0 THEN 0 ELSE hs[Len(hs)][2]
      mono == \A i \in 1..(Len(hs) - 1) : hs[i][2] <= hs[i + 1][2]
      same == NormalForm(hs) = NormalForm(tr)
      starts == Len(hs) > 0 /\ hs[1][2] = m.rec[o].t0
      avgOk == LET exact == Area(tr, tend) * 1000 IN e.wsum_milli - exact \in -2..2
      m2 == [m EXCEPT !.rec[o].phase = "closed", !.rec[o].on = FALSE, !.rec[o].traj = <<>>]
  IN IF m.rec[o].phase \notin {"on", "stopped"} THEN [m |-> m, bad |-> {}]
     ELSE IF e.n > 5000 \/ Len(tr) = 0 THEN [m |-> m2, bad |-> {}]
     ELSE [m |-> m2,
           bad |-> (IF ~mono THEN Bad("C14", "history-times-decrease") ELSE {})
              \cup (IF ~starts THEN Bad("C14", "history-does-not-start-at-recording-start") ELSE {})
              \cup (IF mono /\ starts /\ ~same THEN Bad("C14", "history-differs-from-true-trajectory") ELSE {})
              \cup (IF mono /\ same /\ starts /\ ~avgOk THEN Bad("C14", "time-average-not-exact") ELSE {})]

(* ---------------------------------------------------------------------- *)
(* the step function                                                      *)
(* ---------------------------------------------------------------------- *)
Core(m, e) ==
  CASE e.e = "Enter" ->
         [m |-> [m EXCEPT !.st[e.p] = "alive", !.blk[e.p] = NoCall, !.ntim[e.p] = 0],
          bad |-> (IF ~e.self_ok THEN Bad("C03", "process-did-not-receive-its-own-handle") ELSE {})
             \cup (IF e.naw # 0 \/ e.nhold # 0 THEN Bad("C09", "started-process-already-awaits-or-holds-something") ELSE {})
             \cup (IF m.st[e.p] = "alive" THEN Bad("C09", "process-entered-while-alive") ELSE {})]
    [] e.e = "Call" ->
         [m |-> [m EXCEPT !.blk[e.p] = [op |-> e.op, a |-> e.a, t0 |-> e.t, held0 |-> m.pheld[e.p]]],
          bad |-> IF m.st[e.p] # "alive" THEN Bad("C09", "process-ran-after-its-end") ELSE {}]
    [] e.e = "Ret" -> IF m.st[e.p] # "alive" THEN [m |-> m, bad |-> Bad("C09", "process-ran-after-its-end")] ELSE OnRet(m, e)
    [] e.e = "Do" -> IF e.p # 0 /\ m.st[e.p] # "alive" THEN [m |-> m, bad |-> Bad("C09", "process-ran-after-its-end")] ELSE OnDo(m, e)
    [] e.e = "StopCall" -> [m |-> EndProc(m, e.q, "stop", e.val, e.t), bad |-> {}]
    [] e.e = "ExitCall" -> [m |-> EndProc(m, e.p, "exit", e.val, e.t), bad |-> {}]
    [] e.e = "Return" -> [m |-> EndProc(m, e.p, "return", e.val, e.t), bad |-> {}]
    [] e.e = "UEvent" ->
         LET ws == {q \in Procs(m) : m.blk[q].op = "wevent" /\ m.blk[q].a[1] = e.i} IN
         [m |-> [m EXCEPT !.uev[e.i] = [st |-> "done", t |-> e.t],
                          !.causes = [q \in Procs(m) |-> IF q \in ws THEN CauseAdd(@[q], "evdone", SUCCESS, e.t) ELSE @[q]]],
          bad |-> IF m.uev[e.i].st # "pending" THEN Bad("C01", "cancelled-or-finished-event-executed") ELSE {}]
    [] e.e = "GuardEnq" ->
         [m |-> [m EXCEPT !.gq[e.g] = {x \in @ : x.p # e.p} \cup {[p |-> e.p, pr |-> e.pr, since |-> e.t]}], bad |-> {}]
    [] e.e = "GuardGrant" ->
         LET S == m.gq[e.g]
             me == {x \in S : x.p = e.p}
         IN IF e.all = 1
              THEN [m |-> [m EXCEPT !.gq[e.g] = S \ me, !.cgrants = @ \cup {e.p},
                                    !.cburst = @ \cup {[p |-> x.p, pr |-> x.pr, since |-> x.since] : x \in me}],
                    bad |-> IF [p |-> e.p, v |-> TRUE] \notin m.preds THEN Bad("C13", "waiter-with-false-predicate-resumed") ELSE {}]
              ELSE [m |-> [m EXCEPT !.gq[e.g] = S \ me, !.cgrants = IF e.g = GCOND THEN @ \cup {e.p} ELSE @,
                                    !.cburst = IF e.g = GCOND THEN {} ELSE @, !.cseen = IF e.g = GCOND THEN {} ELSE @],
                    bad |-> IF me # {} /\ ~IsBest(S, CHOOSE x \in me : TRUE)
                              THEN Bad("C06", "waiter-served-ahead-of-higher-priority-or-earlier-waiter") ELSE {}]
    [] e.e \in {"GuardCancel", "GuardRemove"} ->
         [m |-> [m EXCEPT !.gq[e.g] = {x \in @ : x.p # e.p}, !.gone = IF e.g = GCOND THEN @ \cup {<<e.g, e.p>>} ELSE @,
                          !.cburst = IF e.g = GCOND THEN {x \in @ : x.p # e.p} ELSE @], bad |-> {}]
    [] e.e = "GuardLeave" -> [m |-> [m EXCEPT !.gq[e.g] = {x \in @ : x.p # e.p}], bad |-> {}]
    [] e.e = "Pred" ->
         LET newpass == m.cfresh \/ e.p \in m.cseen IN      \* one pass evaluates each waiter once
         [m |-> [m EXCEPT !.preds = @ \cup {[p |-> e.p, v |-> e.v]},
                          !.cburst = IF newpass THEN {} ELSE @, !.cseen = IF newpass THEN {e.p} ELSE @ \cup {e.p}, !.cfresh = FALSE],
          bad |-> {}]
    [] e.e \in {"CSigBegin", "FwdBegin"} ->
         [m |-> [m EXCEPT !.preds = {}, !.truths = {}, !.sigq = {x.p : x \in m.gq[GCOND]}, !.cfresh = TRUE], bad |-> {}]
    [] e.e = "Truth" -> [m |-> [m EXCEPT !.truths = @ \cup {[p |-> e.p, v |-> e.v]}], bad |-> {}]
    [] e.e = "Snap" -> OnSnap(m, e)
    [] e.e = "Hist" -> OnHist(m, e)
    [] e.e = "Quiescent" -> [m |-> m, bad |-> EndOfInstant(m, TRUE, m.now)]
    [] e.e = "Missing" -> [m |-> m, bad |-> Bad("C13", "documented-entry-point-missing")]

    [] e.e = "Wake" ->
         \* the library's own wake-up events name their kind: one that belongs to a kind of wait may only reach a process
         \* that is in such a wait (a left wait cancels its pending wake-up; an ended process has none)
         LET op == IF e.p \in Procs(m) THEN m.blk[e.p].op ELSE "none"
             dead == e.p \in Procs(m) /\ m.st[e.p] = "done"
         IN [m |-> m,
             bad |-> IF e.k \in {"process", "event", "resource", "condition"} /\ dead
                       THEN Bad("C09", "pending-wake-up-fired-for-an-ended-process")
                     ELSE IF e.k = "process" /\ op # "wproc"
                       THEN Bad("C09", "end-notice-reached-a-process-no-longer-waiting-for-it")
                     ELSE IF e.k = "event" /\ op # "wevent"
                       THEN Bad("C04", "stale-event-wake-up-reached-a-process-not-waiting-for-an-event")
                     ELSE IF e.k = "condition" /\ op # "cwait"
                       THEN Bad("C04", "stale-condition-wake-up-reached-a-process-not-waiting-on-the-condition")
                     ELSE IF e.k = "resource" /\ op \notin {"acq", "pre", "pacq", "ppre", "bput", "bget", "qput", "qget", "pqput", "pqget", "cwait"}
                       THEN Bad("C04", "stale-grant-wake-up-reached-a-process-not-waiting-on-a-guard")
                     ELSE {}]
    [] OTHER -> [m |-> m, bad |-> {}]      \* Exec, Disp, Skip, EndProg, Crash: diagnostics only

MStep(m, e) ==
  LET adv == IF "t" \in DOMAIN e /\ e.e # "Prog"
               THEN IF e.t < m.now THEN [m |-> m, bad |-> Bad("C01", "clock-went-backwards")] ELSE Advance(m, e.t)
               ELSE [m |-> m, bad |-> {}]
      r == Core(adv.m, e)
      act == IF e.e \in {"Call", "Ret", "Do"} THEN [p |-> e.p, op |-> e.op]
             ELSE IF e.e \in {"Enter", "Return", "ExitCall", "StopCall"} THEN [p |-> e.p, op |-> e.e]
             ELSE IF e.e = "UEvent" THEN [p |-> 0, op |-> "UEvent"]
             ELSE IF e.e = "GuardLeave" THEN [p |-> e.p, op |-> adv.m.blk[e.p].op]   \* a blocked call carries on
             ELSE r.m.actor
      boundary == e.e \in {"Call", "Ret", "Do", "Disp"}
  IN [m |-> [r.m EXCEPT !.actor = act, !.gone = IF boundary THEN {} ELSE @, !.preds = IF boundary THEN {} ELSE @,
                        !.cfresh = IF boundary THEN TRUE ELSE @,
                        !.truths = IF boundary THEN {} ELSE @],
      bad |-> adv.bad \cup r.bad]
=============================================================================
