SPECIFICATION Spec
CONSTANTS
  NP = 2
  Prio0 <- c_Prio0
  Auto <- c_Auto
  NRes = 1
  PoolCap = 2
  Alphabet <- c_Alphabet
  MaxLen = 3
  MaxTime = 6
INVARIANTS NoViolation QuiescentOK
CONSTRAINT Constr
VIEW View
CHECK_DEADLOCK FALSE
