------------------------------ MODULE EventExec ------------------------------
(* C10, pointer discipline of the dispatcher: cmb_event_execute_next dequeues  *)
(* the next event into a scratch slot of the heap array, wakes the processes   *)
(* waiting for that event (one cmb_event_schedule each) and then calls the     *)
(* event's action.  Every schedule may find the queue full and move the array  *)
(* (epoch + 1).  A pointer taken before a move must not be dereferenced after  *)
(* it.  CopyFirst = TRUE is the code as it stands (the event is copied to a    *)
(* local before anything is scheduled); CopyFirst = FALSE is the deviation the *)
(* property forbids, kept to show which populations expose it.                 *)
EXTENDS Integers, FiniteSets

CONSTANTS Cap0, MaxCap, MaxWaiters, CopyFirst

VARIABLES cap, cnt, epoch, phase, ptr, waiters, derefs
vars == <<cap, cnt, epoch, phase, ptr, waiters, derefs>>

Init == cap = Cap0 /\ cnt = 0 /\ epoch = 0 /\ phase = "idle" /\ ptr = -1 /\ waiters = 0 /\ derefs = 0

(* cmi_hashheap_enqueue *)
Enq == /\ cnt' = cnt + 1
       /\ IF cnt = cap THEN cap' = 2 * cap /\ epoch' = epoch + 1 ELSE UNCHANGED <<cap, epoch>>

(* user code schedules an event between dispatches *)
Schedule == phase = "idle" /\ Enq /\ UNCHANGED <<phase, ptr, waiters, derefs>>

(* some process registers as a waiter of the event that will be dispatched next *)
AddWaiter == phase = "idle" /\ cnt > 0 /\ waiters < MaxWaiters /\ waiters' = waiters + 1
             /\ UNCHANGED <<cap, cnt, epoch, phase, ptr, derefs>>

(* dequeue: the event now lives in scratch slot 0 of the current array *)
Dequeue == /\ phase = "idle" /\ cnt > 0
           /\ cnt' = cnt - 1
           /\ ptr' = IF CopyFirst THEN -2 ELSE epoch       \* -2: a private copy, valid for ever
           /\ phase' = IF waiters > 0 THEN "waking" ELSE "dispatch"
           /\ UNCHANGED <<cap, epoch, waiters, derefs>>

Valid == ptr = -2 \/ ptr = epoch

(* wake_event_waiters: read the list head through the pointer, schedule one wakeup *)
WakeOne == /\ phase = "waking" /\ waiters > 0
           /\ derefs' = derefs + 1
           /\ Enq
           /\ waiters' = waiters - 1
           /\ phase' = IF waiters = 1 THEN "dispatch" ELSE "waking"
           /\ UNCHANGED ptr

(* call the action through the pointer; the action may schedule events itself *)
Dispatch == /\ phase = "dispatch"
            /\ derefs' = derefs + 1
            /\ phase' = "idle" /\ ptr' = -1
            /\ UNCHANGED <<cap, cnt, epoch, waiters>>

Next == Schedule \/ AddWaiter \/ Dequeue \/ WakeOne \/ Dispatch
Spec == Init /\ [][Next]_vars

(* no dereference of a pointer into an array that has been moved since *)
NoStaleDeref == (phase \in {"waking", "dispatch"}) => Valid
Constr == cap <= MaxCap /\ derefs <= 6
=============================================================================
