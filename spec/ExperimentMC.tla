---- MODULE ExperimentMC ----
(* A model-checking instance of Experiment.tla (the check generates others).  *)
EXTENDS Experiment
c_Bodies == { <<>>,
              << <<"flip", 0>>, <<"draw", 0>> >>,
              << <<"off", 1>>, <<"log", 1>>, <<"log", 2>> >>,
              << <<"hold", 2>>, <<"qterm", 0>>, <<"rterm", 0>> >> }
====
