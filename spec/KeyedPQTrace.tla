---------------------------- MODULE KeyedPQTrace ----------------------------
(* Trace validation for C02: a trace recorded by harness/hh_replay from the  *)
(* real cmi_hashheap (file given by env TRACE) must be a behaviour of the    *)
(* abstract keyed priority queue of KeyedPQ.tla, and after every operation   *)
(* the public queries (count, is_enqueued, item, dkey, ikey for every key of *)
(* the history) must agree with the abstract map.                            *)
EXTENDS Integers, Sequences, FiniteSets, TLC, Json, IOUtils, KeyedPQ

Tr == ndJsonDeserialize(IOEnv.TRACE)

VARIABLES l,      \* next trace line to consume
          m,      \* abstract map
          ctr,    \* issue counter
          ord     \* ordering of the current history
vars == <<l, m, ctr, ord>>

(* the abstract map as the harness dumps it *)
DumpToMap(dump) ==
  LET ks == {dump[x].k : x \in 1..Len(dump)} IN
  [k \in ks |-> LET x == CHOOSE y \in 1..Len(dump) : dump[y].k = k
                IN [pl |-> dump[x].pl, d |-> dump[x].d, i |-> dump[x].i]]
NoDupKeys(dump) == \A x, y \in 1..Len(dump) : x # y => dump[x].k # dump[y].k

Init ==
  /\ l = 1 /\ m = Empty /\ ctr = 0 /\ ord = "default"

(* result of consuming line e in abstract state (m, ctr): new state + verdict *)
Step(e) ==
  LET dumped == IF "dump" \in DOMAIN e THEN DumpToMap(e.dump) ELSE m IN
  CASE e.op = "meta" ->
         [m |-> m, ctr |-> ctr, ord |-> ord, ok |-> TRUE, why |-> "meta"]
    [] e.op = "init" ->
         [m |-> Empty, ctr |-> 0, ord |-> e.ord, ok |-> e.cnt = 0 /\ e.dump = <<>>, why |-> "init-not-empty"]
    [] e.op = "enq" ->
         LET k2 == IF e.key = 0 THEN ctr + 1 ELSE e.key
             m2 == Put(m, k2, e.pl, e.d, e.i)
         IN [m |-> m2, ctr |-> ctr + 1, ord |-> ord,
             ok |-> EnqueueOK(m, ctr, e.key, e.pl, e.d, e.i, e.ret, m2, ctr + 1), why |-> "enqueue-result"]
    [] e.op = "deq" ->
         IF Keys(m) = {} THEN [m |-> m, ctr |-> ctr, ord |-> ord, ok |-> e.ret = 0, why |-> "dequeue-from-empty"]
         ELSE LET m2 == Drop(m, {e.ret})
              IN [m |-> m2, ctr |-> ctr, ord |-> ord,
                  ok |-> DequeueOK(ord, m, e.ret, e.pl, m2), why |-> "dequeue-not-minimum-or-wrong-payload"]
    [] e.op = "peek" ->
         [m |-> m, ctr |-> ctr, ord |-> ord,
          ok |-> IF Keys(m) = {} THEN e.empty ELSE ~e.empty /\ PeekOK(ord, m, e.pl, e.d, e.i),
          why |-> "peek-not-minimum"]
    [] e.op = "rem" ->
         LET m2 == Drop(m, {e.key})
         IN [m |-> m2, ctr |-> ctr, ord |-> ord, ok |-> RemoveOK(m, e.key, e.ret, m2), why |-> "remove-result"]
    [] e.op = "repri" ->
         IF e.key \in Keys(m)
           THEN [m |-> Put(m, e.key, m[e.key].pl, e.d, e.i), ctr |-> ctr, ord |-> ord, ok |-> TRUE, why |-> "repri"]
           ELSE [m |-> m, ctr |-> ctr, ord |-> ord, ok |-> FALSE, why |-> "harness-invalid-reprioritize"]
    [] e.op = "find" ->
         [m |-> m, ctr |-> ctr, ord |-> ord, ok |-> FindOK(m, e.pat, e.ret), why |-> "pattern-find"]
    [] e.op = "count" ->
         [m |-> m, ctr |-> ctr, ord |-> ord, ok |-> CountOK(m, e.pat, e.ret), why |-> "pattern-count"]
    [] e.op = "pcancel" ->
         LET m2 == Drop(m, Matching(m, e.pat))
         IN [m |-> m2, ctr |-> ctr, ord |-> ord, ok |-> PatternCancelOK(m, e.pat, e.ret, m2), why |-> "pattern-cancel"]
    [] e.op \in {"clear", "reset"} ->
         [m |-> Empty, ctr |-> ctr, ord |-> ord, ok |-> TRUE, why |-> "clear"]
    [] e.op = "crash" ->
         [m |-> m, ctr |-> ctr, ord |-> ord, ok |-> FALSE, why |-> "crash"]
    [] OTHER -> [m |-> m, ctr |-> ctr, ord |-> ord, ok |-> FALSE, why |-> "unknown-op"]

(* after the operation, the queries must describe exactly the abstract map *)
QueriesOK(e, m2) ==
  \/ "dump" \notin DOMAIN e
  \/ /\ NoDupKeys(e.dump)
     /\ DumpToMap(e.dump) = m2
     /\ e.cnt = Cardinality(Keys(m2))

(* On a rejection the verdict is printed (line, rule, offending record) and   *)
(* validation resumes at the next history, so one defect does not hide the   *)
(* rest of the trace.                                                        *)
InitIdx == {x \in 1..Len(Tr) : Tr[x].op = "init"}
Resync(x) == LET later == {y \in InitIdx : y > x} IN
             IF later = {} THEN Len(Tr) + 1 ELSE CHOOSE y \in later : \A z \in later : y <= z

Next ==
  /\ l <= Len(Tr)
  /\ LET e == Tr[l]  r == Step(e)
         bad == IF ~r.ok THEN r.why
                ELSE IF ~QueriesOK(e, r.m) THEN "queries-disagree-with-contents" ELSE "" IN
     IF bad # ""
       THEN /\ PrintT(<<"REJECT", l, bad, ord, e>>)
            /\ l' = Resync(l) /\ m' = Empty /\ ctr' = 0 /\ ord' = ord
       ELSE /\ m' = r.m /\ ctr' = r.ctr /\ ord' = r.ord
            /\ l' = l + 1
  /\ (l' = Len(Tr) + 1) => PrintT(<<"CONSUMED", Len(Tr)>>)

Spec == Init /\ [][Next]_vars

=============================================================================
