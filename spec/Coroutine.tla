----------------------------- MODULE Coroutine -----------------------------
(* Design model for property C03, control-transfer part: every valid       *)
(* interleaving of start / yield / resume / transfer / exit / return /     *)
(* stop / restart (start of a finished one) / reset among N coroutines and *)
(* the main stack (all ghosts are finite, only hist is hidden by the VIEW).  The state function is CoroutineCore; this module adds  *)
(* ghost variables that say what the property demands independently of    *)
(* the caller / parent links, and exports one shortest history per         *)
(* distinct (state, last op) for replay on the real library.               *)
EXTENDS Integers, Sequences, FiniteSets, TLC, CoroutineCore

CONSTANTS N,        \* coroutines 1..N besides main (0)
          Vals,     \* exit / stop values
          MaxOps    \* bound on the length of exported histories (CONSTRAINT)

VARIABLES s,        \* CoroutineCore state
          last,     \* last op <<kind, target, value>>
          starter,  \* ghost: who executed the latest start of c
          left,     \* ghost: token of the place where c last gave up control (0 = never; 1, 2 alternate)
          cont,     \* ghost: the token of the place where the coroutine that just got control continues (0 = entry)
          destok,   \* ghost: the destination of the last switch was running when control was passed
          hist
vars == <<s, last, starter, left, cont, destok, hist>>

AllIds == 0..N
Ops == [k : {"resume", "transfer"}, d : AllIds, m : {0}]
       \cup [k : {"start"}, d : 1..N, m : {0}]
       \cup [k : {"yield"}, d : {NONE}, m : {0}]
       \cup [k : Ending, d : {NONE}, m : Vals]
       \cup [k : {"stop"}, d : 1..N, m : Vals]
       \cup [k : {"reset"}, d : 1..N, m : {0}]

Init == /\ s = S0(N)
        /\ last = <<"none", NONE, 0>>
        /\ starter = [c \in AllIds |-> NONE]
        /\ left = [c \in AllIds |-> 0]
        /\ cont = 0
        /\ destok = TRUE
        /\ hist = <<>>

Do(op) ==
  /\ Enabled(s, op)
  /\ s' = Step(s, op)
  /\ last' = <<op.k, op.d, op.m>>
  /\ hist' = Append(hist, <<op.k, op.d, op.m>>)
  /\ starter' = IF op.k = "start" THEN [starter EXCEPT ![op.d] = s.cur] ELSE starter
  /\ IF op.k \in Switching
       THEN /\ left' = [left EXCEPT ![s.cur] = IF left[s.cur] = 1 THEN 2 ELSE 1]
            /\ cont' = IF ArrivesByEntry(op) THEN 0 ELSE left[Dest(s, op)]
            /\ destok' = (s.st[Dest(s, op)] = "R" \/ op.k = "start")
       ELSE UNCHANGED <<left, cont, destok>>

Next == \E op \in Ops : Do(op)
Spec == Init /\ [][Next]_vars

----------------------------------------------------------------------------
CallKinds == {"start", "resume", "transfer", "yield"}
TypeOK ==
  /\ s.cur \in AllIds
  /\ \A c \in AllIds : s.st[c] \in {"C", "R", "F"} /\ s.caller[c] \in AllIds \cup {NONE}
                      /\ s.parent[c] \in AllIds \cup {NONE} /\ s.susp[c] \in CallKinds \cup {"none", "dead"}
(* the coroutine that has the CPU has been started and has not ended; main never ends *)
CurrentIsRunning == s.st[s.cur] = "R" /\ s.st[0] = "R"
(* control is only ever passed to a started, unfinished coroutine (no release assert of *)
(* cmi_coroutine_transfer can fire in a valid program)                                 *)
DestinationWasRunning == destok
(* every started coroutine other than the current one is suspended inside a switching   *)
(* call, the current one is not, finished ones have no continuation                     *)
SuspConsistent ==
  \A c \in AllIds :
     /\ (c = s.cur) => s.susp[c] = "none"
     /\ (c # s.cur /\ s.st[c] = "R") => s.susp[c] \in CallKinds
     /\ (s.st[c] = "F") => s.susp[c] = "dead"
(* exit and return go back to the coroutine that started it *)
ParentIsStarter == \A c \in 1..N : s.st[c] = "R" => (s.parent[c] = starter[c] /\ starter[c] # NONE /\ starter[c] # c)
NoSelfLinks == \A c \in AllIds : s.caller[c] # c /\ s.parent[c] # c
(* a coroutine that gets control by a return from a call continues at the very op where *)
(* it gave up control, and no one else's continuation is touched by a switch            *)
ContinuesWhereItLeft ==
  [][/\ (last'[1] \in Switching /\ last'[1] # "start") => (cont' = left[s'.cur] /\ cont' > 0)
     /\ \A c \in AllIds : (c # s.cur) => left'[c] = left[c]]_vars
EndingReachesStarter ==
  [][(last'[1] \in Ending) => (s'.cur = starter[s.cur] /\ s'.st[s.cur] = "F" /\ s'.xv[s.cur] = last'[3])]_vars

Constr == Len(hist) <= MaxOps
ExportHist == PrintT(<<"H", hist>>)
(* simulation mode: print a behaviour when it has reached the length bound *)
ExportEnd == (Len(hist) = MaxOps) => PrintT(<<"H", hist>>)
View == <<s, last, starter, left, cont, destok>>
(* export: one shortest history per (core state, last op) *)
ViewX == <<s, last>>
=============================================================================
