/*
 * smp_replay - drive the real cimba samplers (cmb_random.h) for property C16 and
 * record an ndjson trace for spec/SamplersTrace.tla.
 *
 *   smp_replay fit   <plan.txt> <out.ndjson> <seed>
 *   smp_replay rules <plan.txt> <out.ndjson> <seed>
 *
 * The plan is produced from what TLC exports from spec/Samplers*.tla (cases, parameters,
 * support bounds, bin edges, target cells); this program only draws, counts and logs.
 * It NEVER decides whether a result is acceptable.
 *
 * fit:   for each case, N seeded draws are classified against the support bounds given in
 *        the plan (nan, -inf, below, =lo, inside, =hi, above, +inf) and tallied into the
 *        bins given in the plan; the counts are logged.  For alias cases the look-up table
 *        built by cmb_random_alias_create is logged as well (top bits of uprob, alias).
 * rules: for each case the generator stream is positioned (twin seeding: the harness learns
 *        the upcoming raw words by drawing them after an identical seeding) so that the next
 *        uniform variate falls strictly inside a target cell chosen by the specification;
 *        the sampler is called once and (prefix of the consumed words, result) is logged.
 *
 * Every case runs in a forked child; a crash / library abort becomes a {"op":"crash"} line.
 */
#include <stdio.h>
#include <stdlib.h>
#include <string.h>
#include <stdint.h>
#include <stdbool.h>
#include <math.h>
#include <signal.h>
#include <unistd.h>
#include <pthread.h>
#include <sys/wait.h>

#include "cimba.h"

#define MAXP 8
#define MAXV 80
#define MAXE 1100

struct cas {
    int idx;
    char id[64], s[32], kind[8];
    long n;
    int threads;
    int np; double p[MAXP];
    int n1; double v1[MAXV];
    int n2; double v2[MAXV];
    bool haslo, hashi; double lo, hi;
    int ne; double edges[MAXE];            /* continuous: interior edges, ascending */
    int nb; long long blo[MAXE], bhi[MAXE]; /* discrete: value ranges, bhi < blo: open */
    int qb;                                /* alias: number of top bits of uprob to log */
    /* rules */
    int ub; long tlo, thi, ud;
    long ia, ib;                           /* dice arguments */
    int nk; long kk[MAXV]; long kd;        /* the probability vector as the specification wrote it: kk[i] / kd (echoed) */
    long pn, pd;                           /* Bernoulli p as the specification wrote it (echoed) */
};

struct tally {
    long cls[8];                           /* nan, -inf, below, =lo, inside, =hi, above, +inf */
    long cnt[MAXE + 1];
};

static const char *g_out;
static uint64_t g_seed;

/* ------------------------------------------------------------------ plan parsing */
static char *tok(char **sp)
{
    char *s = *sp;
    while (*s == ' ' || *s == '\t') s++;
    if (*s == '\0' || *s == '\n') return NULL;
    char *b = s;
    while (*s != '\0' && *s != ' ' && *s != '\t' && *s != '\n') s++;
    if (*s != '\0') { *s = '\0'; s++; }
    *sp = s;
    return b;
}

static long long tokll(char **sp)
{
    char *t = tok(sp);
    if (t == NULL) { fprintf(stderr, "smp_replay: plan line truncated\n"); exit(2); }
    return strtoll(t, NULL, 10);
}

static double tokrat(char **sp)
{
    const long long a = tokll(sp);
    const long long b = tokll(sp);
    return (double)a / (double)b;
}

/* m * 10^-e as the nearest double (10^k is exact up to k = 22; beyond that pow() is within an ulp or two,
 * far below the nine digits the edges carry) */
static double dec(long long m, int e)
{
    if (e >= 0) return (e <= 22) ? (double)m / pow(10.0, e) : (double)m / pow(10.0, 22) / pow(10.0, e - 22);
    return (double)m * pow(10.0, -e);
}

static bool parse_case(char *line, struct cas *c)
{
    memset(c, 0, sizeof *c);
    char *sp = line;
    char *t = tok(&sp);
    if (t == NULL || (strcmp(t, "case") != 0 && strcmp(t, "rule") != 0)) return false;
    c->idx = (int)tokll(&sp);
    snprintf(c->id, sizeof c->id, "%s", tok(&sp));
    snprintf(c->s, sizeof c->s, "%s", tok(&sp));
    c->threads = 1;
    while ((t = tok(&sp)) != NULL) {
        if (strcmp(t, "kind") == 0) snprintf(c->kind, sizeof c->kind, "%s", tok(&sp));
        else if (strcmp(t, "N") == 0) c->n = (long)tokll(&sp);
        else if (strcmp(t, "threads") == 0) c->threads = (int)tokll(&sp);
        else if (strcmp(t, "par") == 0) { c->np = (int)tokll(&sp); for (int i = 0; i < c->np; i++) c->p[i] = tokrat(&sp); }
        else if (strcmp(t, "v1") == 0) { c->n1 = (int)tokll(&sp); for (int i = 0; i < c->n1; i++) c->v1[i] = tokrat(&sp); }
        else if (strcmp(t, "v2") == 0) { c->n2 = (int)tokll(&sp); for (int i = 0; i < c->n2; i++) c->v2[i] = tokrat(&sp); }
        else if (strcmp(t, "lo") == 0) { c->haslo = tokll(&sp) != 0; c->lo = tokrat(&sp); }
        else if (strcmp(t, "hi") == 0) { c->hashi = tokll(&sp) != 0; c->hi = tokrat(&sp); }
        else if (strcmp(t, "edges") == 0) {
            const long long org = tokll(&sp);
            c->ne = (int)tokll(&sp);
            if (c->ne > MAXE) { fprintf(stderr, "too many edges\n"); exit(2); }
            for (int i = 0; i < c->ne; i++) {
                /* ref 0: org + m 10^-e; ref 1: lower support bound + m 10^-e; ref 2: upper support bound - m 10^-e
                 * (the bounds are the doubles that are also passed to the sampler; "lo"/"hi" precede "edges" in the plan) */
                const int ref = (int)tokll(&sp); const long long m = tokll(&sp); const int e = (int)tokll(&sp);
                c->edges[i] = (ref == 1) ? c->lo + dec(m, e) : (ref == 2) ? c->hi - dec(m, e) : (double)org + dec(m, e);
                if ((ref == 1 && !c->haslo) || (ref == 2 && !c->hashi) || (i > 0 && !(c->edges[i] > c->edges[i - 1]))) {
                    fprintf(stderr, "smp_replay: bad edge %d of case %s\n", i, c->id); exit(2);
                }
            }
        }
        else if (strcmp(t, "bins") == 0) {
            c->nb = (int)tokll(&sp);
            if (c->nb > MAXE) { fprintf(stderr, "too many bins\n"); exit(2); }
            for (int i = 0; i < c->nb; i++) { c->blo[i] = tokll(&sp); c->bhi[i] = tokll(&sp); }
        }
        else if (strcmp(t, "qb") == 0) c->qb = (int)tokll(&sp);
        else if (strcmp(t, "ub") == 0) c->ub = (int)tokll(&sp);
        else if (strcmp(t, "target") == 0) { c->tlo = (long)tokll(&sp); c->thi = (long)tokll(&sp); c->ud = (long)tokll(&sp); }
        else if (strcmp(t, "ab") == 0) { c->ia = (long)tokll(&sp); c->ib = (long)tokll(&sp); }
        else if (strcmp(t, "kk") == 0) { c->nk = (int)tokll(&sp); for (int i = 0; i < c->nk; i++) c->kk[i] = (long)tokll(&sp); }
        else if (strcmp(t, "kd") == 0) c->kd = (long)tokll(&sp);
        else if (strcmp(t, "pq") == 0) { c->pn = (long)tokll(&sp); c->pd = (long)tokll(&sp); }
        else { fprintf(stderr, "smp_replay: unknown plan token '%s'\n", t); exit(2); }
    }
    return true;
}

/* ------------------------------------------------------------------ tallies */
static inline void tally_c(const struct cas *c, struct tally *t, const double x)
{
    if (isnan(x)) { t->cls[0]++; return; }
    if (isinf(x)) { t->cls[x < 0 ? 1 : 7]++; return; }
    if (c->haslo && x < c->lo) t->cls[2]++;
    else if (c->haslo && x == c->lo) t->cls[3]++;
    else if (c->hashi && x > c->hi) t->cls[6]++;
    else if (c->hashi && x == c->hi) t->cls[5]++;
    else t->cls[4]++;
    /* bin = number of edges <= x */
    int lo = 0, hi = c->ne;
    while (lo < hi) { const int m = (lo + hi) >> 1; if (c->edges[m] <= x) lo = m + 1; else hi = m; }
    t->cnt[lo]++;
}

static inline void tally_d(const struct cas *c, struct tally *t, const long long v)
{
    if (c->haslo && (double)v < c->lo) { t->cls[2]++; return; }
    if (c->hashi && (double)v > c->hi) { t->cls[6]++; return; }
    t->cls[4]++;
    for (int i = 0; i < c->nb; i++) {
        if (v >= c->blo[i] && (c->bhi[i] < c->blo[i] || v <= c->bhi[i])) { t->cnt[i]++; return; }
    }
    t->cnt[c->nb]++;        /* inside the support bounds but in no bin of the plan */
}

/* In the second half of a case every measured draw is preceded by a call of ANOTHER sampler (rotating: gamma shapes around the
 * measured one, geometric with two parameters, a coin flip): the thread-local parameter and bit caches of the library see
 * misses and hits in between, which must not change the distribution of the measured sampler. */
static void disturb(const struct cas *c, long i)
{
    switch (i % 6) {
    case 0: (void)cmb_random_std_gamma(1.5); break;
    case 1: (void)cmb_random_geometric(0.3); break;
    case 2: (void)cmb_random_std_gamma(0.5 + (double)((i / 6) % 3)); break;
    case 3: (void)cmb_random_flip(); break;
    case 4: (void)cmb_random_geometric(1.0); break;
    default: if (c->np >= 1 && c->p[0] > 0.0 && c->p[0] < 50.0) (void)cmb_random_std_gamma(c->p[0] + 1.0); break;
    }
}
#define RUNC(expr) do { for (long i_ = 0; i_ < n; i_++) { if (i_ >= n / 2) disturb(c, i_); const double x_ = (expr); tally_c(c, t, x_); } return true; } while (0)
#define RUND(expr) do { for (long i_ = 0; i_ < n; i_++) { if (i_ >= n / 2) disturb(c, i_); const long long v_ = (long long)(expr); tally_d(c, t, v_); } return true; } while (0)
#define IS(name) (strcmp(c->s, name) == 0)

static bool draw_many(const struct cas *c, struct tally *t, const long n, const struct cmb_random_alias *ap)
{
    const double *p = c->p;
    if (IS("random")) RUNC(cmb_random());
    if (IS("uniform")) RUNC(cmb_random_uniform(p[0], p[1]));
    if (IS("triangular")) RUNC(cmb_random_triangular(p[0], p[1], p[2]));
    if (IS("std_normal")) RUNC(cmb_random_std_normal());
    if (IS("normal")) RUNC(cmb_random_normal(p[0], p[1]));
    if (IS("lognormal")) RUNC(cmb_random_lognormal(p[0], p[1]));
    if (IS("logistic")) RUNC(cmb_random_logistic(p[0], p[1]));
    if (IS("cauchy")) RUNC(cmb_random_cauchy(p[0], p[1]));
    if (IS("std_exponential")) RUNC(cmb_random_std_exponential());
    if (IS("exponential")) RUNC(cmb_random_exponential(p[0]));
    if (IS("erlang")) RUNC(cmb_random_erlang((unsigned)p[0], p[1]));
    if (IS("hypoexponential")) RUNC(cmb_random_hypoexponential((unsigned)c->n1, c->v1));
    if (IS("hyperexponential")) RUNC(cmb_random_hyperexponential((unsigned)c->n1, c->v1, c->v2));
    if (IS("std_gamma")) RUNC(cmb_random_std_gamma(p[0]));
    if (IS("gamma")) RUNC(cmb_random_gamma(p[0], p[1]));
    if (IS("std_beta")) RUNC(cmb_random_std_beta(p[0], p[1]));
    if (IS("beta")) RUNC(cmb_random_beta(p[0], p[1], p[2], p[3]));
    if (IS("PERT")) RUNC(cmb_random_PERT(p[0], p[1], p[2]));
    if (IS("PERT_mod")) RUNC(cmb_random_PERT_mod(p[0], p[1], p[2], p[3]));
    if (IS("weibull")) RUNC(cmb_random_weibull(p[0], p[1]));
    if (IS("pareto")) RUNC(cmb_random_pareto(p[0], p[1]));
    if (IS("chisquared")) RUNC(cmb_random_chisquared(p[0]));
    if (IS("F_dist")) RUNC(cmb_random_F_dist(p[0], p[1]));
    if (IS("std_t_dist")) RUNC(cmb_random_std_t_dist(p[0]));
    if (IS("t_dist")) RUNC(cmb_random_t_dist(p[0], p[1], p[2]));
    if (IS("rayleigh")) RUNC(cmb_random_rayleigh(p[0]));
    if (IS("flip")) RUND(cmb_random_flip());
    if (IS("bernoulli")) RUND(cmb_random_bernoulli(p[0]));
    if (IS("geometric")) RUND(cmb_random_geometric(p[0]));
    if (IS("binomial")) RUND(cmb_random_binomial((unsigned)p[0], p[1]));
    if (IS("negative_binomial")) RUND(cmb_random_negative_binomial((unsigned)p[0], p[1]));
    if (IS("pascal")) RUND(cmb_random_pascal((unsigned)p[0], p[1]));
    if (IS("poisson")) RUND(cmb_random_poisson(p[0]));
    if (IS("dice")) RUND(cmb_random_dice((long)p[0], (long)p[1]));
    if (IS("loaded_dice")) RUND(cmb_random_loaded_dice((unsigned)c->n2, c->v2));
    if (IS("alias")) RUND(cmb_random_alias_sample(ap));
    return false;
}

struct targ { const struct cas *c; struct tally t; long n; uint64_t seed; const struct cmb_random_alias *ap; bool ok; };

static void *worker(void *vp)
{
    struct targ *a = vp;
    cmb_random_initialize(a->seed);
    a->ok = draw_many(a->c, &a->t, a->n, a->ap);
    return NULL;
}

static uint64_t mix(uint64_t x)
{
    x += 0x9e3779b97f4a7c15ull; x = (x ^ (x >> 30)) * 0xbf58476d1ce4e5b9ull; x = (x ^ (x >> 27)) * 0x94d049bb133111ebull;
    return x ^ (x >> 31);
}

static void print_longs(FILE *f, const long *a, int n)
{
    fputc('[', f);
    for (int i = 0; i < n; i++) fprintf(f, "%s%ld", i ? "," : "", a[i]);
    fputc(']', f);
}

static int fit_case(const struct cas *c)
{
    FILE *out = fopen(g_out, "a");
    if (out == NULL) return 2;
    struct cmb_random_alias *ap = NULL;
    if (IS("alias")) {
        ap = cmb_random_alias_create((unsigned)c->n2, c->v2);
        fprintf(out, "{\"op\":\"atab\",\"case\":%d,\"id\":\"%s\",\"s\":\"alias\",\"n\":%u,\"qb\":%d,\"q\":[", c->idx, c->id, ap->n, c->qb);
        for (unsigned i = 0; i < ap->n; i++) fprintf(out, "%s%llu", i ? "," : "", (unsigned long long)(ap->uprob[i] >> (64 - c->qb)));
        fprintf(out, "],\"full\":[");
        for (unsigned i = 0; i < ap->n; i++) fprintf(out, "%s%s", i ? "," : "", ap->uprob[i] == UINT64_MAX ? "true" : "false");
        fprintf(out, "],\"al\":[");
        for (unsigned i = 0; i < ap->n; i++) fprintf(out, "%s%ld", i ? "," : "", ap->alias[i] > 1000000u ? 1000000L : (long)ap->alias[i]);
        fprintf(out, "]}\n");
        fflush(out);
    }
    int nt = c->threads < 1 ? 1 : (c->threads > 64 ? 64 : c->threads);
    struct targ *ta = calloc((size_t)nt, sizeof *ta);
    pthread_t th[64];
    for (int i = 0; i < nt; i++) {
        ta[i].c = c; ta[i].ap = ap;
        ta[i].n = c->n / nt + (i < c->n % nt ? 1 : 0);
        ta[i].seed = mix(g_seed ^ mix((uint64_t)c->idx * 1000003ull + (uint64_t)i));
        if (nt > 1) pthread_create(&th[i], NULL, worker, &ta[i]);
        else worker(&ta[i]);
    }
    struct tally sum; memset(&sum, 0, sizeof sum);
    bool ok = true;
    for (int i = 0; i < nt; i++) {
        if (nt > 1) pthread_join(th[i], NULL);
        ok = ok && ta[i].ok;
        for (int k = 0; k < 8; k++) sum.cls[k] += ta[i].t.cls[k];
        for (int k = 0; k <= MAXE; k++) sum.cnt[k] += ta[i].t.cnt[k];
    }
    if (!ok) { fprintf(stderr, "smp_replay: unknown sampler '%s'\n", c->s); fclose(out); return 2; }
    const int nbins = (strcmp(c->kind, "cont") == 0) ? c->ne + 1 : c->nb + 1;
    fprintf(out, "{\"op\":\"fit\",\"case\":%d,\"id\":\"%s\",\"s\":\"%s\",\"kind\":\"%s\",\"n\":%ld,\"cls\":", c->idx, c->id, c->s, c->kind, c->n);
    print_longs(out, sum.cls, 8);
    fprintf(out, ",\"cnt\":");
    print_longs(out, sum.cnt, nbins);
    fprintf(out, "}\n");
    fclose(out);
    if (ap != NULL) cmb_random_alias_destroy(ap);
    free(ta);
    return 0;
}

/* ------------------------------------------------------------------ rule cases */
static inline double u_of(uint64_t w) { return ldexp((double)(w >> 11), -53); }

static int rule_case(const struct cas *c)
{
    FILE *out = fopen(g_out, "a");
    if (out == NULL) return 2;
    struct cmb_random_alias *ap = NULL;
    if (IS("alias")) ap = cmb_random_alias_create((unsigned)c->n2, c->v2);
    const uint64_t seed = mix(g_seed ^ mix(0xC16ull * 65536ull + (uint64_t)c->idx));
    const double clo = (double)c->tlo / (double)c->ud, chi = (double)c->thi / (double)c->ud;
    /* pass 1: learn the stream, find the first word whose variate lies strictly inside the cell */
    cmb_random_initialize(seed);
    long j = -1; uint64_t w1 = 0, w2 = 0;
    for (long i = 0; i < 40000000L; i++) {
        const uint64_t w = cmb_random_sfc64();
        const double u = u_of(w);
        if (u > clo && u < chi) { j = i; w1 = w; w2 = cmb_random_sfc64(); break; }
    }
    if (j < 0) {
        fprintf(out, "{\"op\":\"skip\",\"case\":%d,\"why\":\"no variate in the target cell within 4e7 words\"}\n", c->idx);
        fclose(out); return 0;
    }
    /* pass 2: identical seeding, skip to the word, call the sampler once */
    cmb_random_initialize(seed);
    for (long i = 0; i < j; i++) (void)cmb_random_sfc64();
    long long res;
    if (IS("loaded_dice")) res = (long long)cmb_random_loaded_dice((unsigned)c->n2, c->v2);
    else if (IS("alias")) res = (long long)cmb_random_alias_sample(ap);
    else if (IS("dice")) res = (long long)cmb_random_dice(c->ia, c->ib);
    else if (IS("bernoulli")) res = (long long)cmb_random_bernoulli(c->p[0]);
    else { fprintf(stderr, "smp_replay: no rule driver for '%s'\n", c->s); fclose(out); return 2; }
    const uint64_t after = cmb_random_sfc64();       /* which word comes next: how many were consumed */
    cmb_random_initialize(seed);
    for (long i = 0; i <= j; i++) (void)cmb_random_sfc64();
    int used = -1;
    for (int k = 1; k <= 8; k++) { if (cmb_random_sfc64() == after) { used = k; break; } }
    fprintf(out, "{\"op\":\"rule\",\"case\":%d,\"id\":\"%s\",\"s\":\"%s\",\"ub\":%d,\"u\":%llu,\"w2\":%llu,\"used\":%d,\"res\":%lld,\"huge\":%s",
            c->idx, c->id, c->s, c->ub, (unsigned long long)(w1 >> (64 - c->ub)), (unsigned long long)(w2 >> (64 - c->ub)), used,
            (res > 2000000000LL || res < -2000000000LL) ? 2000000000LL : res, (res > 2000000000LL || res < -2000000000LL) ? "true" : "false");
    fprintf(out, ",\"k\":");
    print_longs(out, c->kk, c->nk);
    fprintf(out, ",\"d\":%ld,\"a\":%ld,\"b\":%ld,\"p\":[%ld,%ld]", c->kd, c->ia, c->ib, c->pn, c->pd);
    if (ap != NULL) {
        fprintf(out, ",\"q\":[");
        for (unsigned i = 0; i < ap->n; i++) fprintf(out, "%s%llu", i ? "," : "", (unsigned long long)(ap->uprob[i] >> (64 - c->ub)));
        fprintf(out, "],\"al\":[");
        for (unsigned i = 0; i < ap->n; i++) fprintf(out, "%s%ld", i ? "," : "", ap->alias[i] > 1000000u ? 1000000L : (long)ap->alias[i]);
        fprintf(out, "]");
        cmb_random_alias_destroy(ap);
    }
    fprintf(out, "}\n");
    fclose(out);
    return 0;
}

/* ------------------------------------------------------------------ main */
int main(int argc, char **argv)
{
    if (argc != 5 || (strcmp(argv[1], "fit") != 0 && strcmp(argv[1], "rules") != 0)) {
        fprintf(stderr, "usage: smp_replay fit|rules <plan> <out.ndjson> <seed>\n");
        return 2;
    }
    const bool rules = strcmp(argv[1], "rules") == 0;
    FILE *pf = fopen(argv[2], "r");
    if (pf == NULL) { perror(argv[2]); return 2; }
    g_out = argv[3];
    g_seed = strtoull(argv[4], NULL, 10);
    FILE *f = fopen(g_out, "w"); if (f == NULL) { perror(g_out); return 2; } fclose(f);
    size_t cap = 1 << 20; char *line = malloc(cap);
    struct cas *c = malloc(sizeof *c);
    int crashes = 0;
    while (getline(&line, &cap, pf) > 0) {
        if (line[0] == '#' || line[0] == '\n') continue;
        if (!parse_case(line, c)) { fprintf(stderr, "smp_replay: bad plan line\n"); return 2; }
        fflush(NULL);
        const pid_t pid = fork();
        if (pid == 0) {
            const int rc = rules ? rule_case(c) : fit_case(c);
            fflush(NULL);
            _exit(rc);
        }
        int st = 0; waitpid(pid, &st, 0);
        if (WIFSIGNALED(st) || (WIFEXITED(st) && WEXITSTATUS(st) != 0 && WEXITSTATUS(st) != 2)) {
            FILE *o = fopen(g_out, "a");
            fprintf(o, "{\"op\":\"crash\",\"case\":%d,\"id\":\"%s\",\"s\":\"%s\",\"sig\":%d}\n", c->idx, c->id, c->s,
                    WIFSIGNALED(st) ? WTERMSIG(st) : -WEXITSTATUS(st));
            fclose(o);
            crashes++;
        }
        else if (WIFEXITED(st) && WEXITSTATUS(st) == 2) return 2;
    }
    fclose(pf);
    return crashes ? 3 : 0;
}
