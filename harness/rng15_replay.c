/*
 * rng15_replay - run histories of seeding and sampling calls on real threads
 * of the real library and record an ndjson trace for spec/RandomTrace.tla
 * (property C15).  The harness only executes and records; it never compares
 * values.
 *
 *   rng15_replay <script> <out.ndjson>
 *
 * Script (text, written by tools/checks/c15.py):
 *   H <id> <seq|par> <nthreads> [<npar>]
 *                                  start of a history; threads are 1..nthreads,
 *                                  every one a newly created pthread
 *   S <t> <seed as 16 hex digits>  cmb_random_initialize(seed) on thread t
 *   C <t> <function> <a>           one call of <function> with parameter set a
 *   X <t>                          cmb_random_terminate() on thread t
 *   E                              end of the history
 * Lines are in global order.  Mode seq: the calls are made in exactly this
 * order (threads hand over to each other).  Mode par: all threads are released
 * together and every thread makes its own calls as fast as it can (true
 * concurrency); lines are then recorded in the order in which the calls
 * started.  With <npar> only threads 1..npar run like that; the threads above
 * npar start when those have finished and make their calls one after the other
 * in script order (a thread that is alone in the program while it draws).
 *
 * Trace: {"op":"begin","h":id,"nt":n,"mode":"seq"}, {"op":"seed","t":t,"s":[4 limbs]},
 * {"op":"call","t":t,"f":name,"a":a,"r":[4 limbs]}, {"op":"term","t":t}, {"op":"end","h":id};
 * a value is logged as the 64-bit pattern of what the function returned, in
 * four 16-bit limbs, least significant first.
 * Histories run in forked children (a batch per child).
 */
#include <stdio.h>
#include <stdlib.h>
#include <string.h>
#include <stdint.h>
#include <stdbool.h>
#include <stdatomic.h>
#include <signal.h>
#include <unistd.h>
#include <pthread.h>
#include <sched.h>
#include <sys/wait.h>

#include "cimba.h"

#define MAXT 16
#define MAXOPS 4096
#define BATCH 200

enum { K_SEED, K_CALL, K_TERM };

static uint64_t dbits(double d) { uint64_t u; memcpy(&u, &d, sizeof u); return u; }

/* ---- parameter sets (all satisfy the documented preconditions) ---- */
static const double hyper_m[3] = { 1.0, 2.0, 3.0 };
static const double hyper_p[3] = { 0.5, 0.25, 0.25 };
static const double hypo_m[3] = { 1.0, 0.5, 2.0 };
static const double ld8[8] = { 0.125, 0.125, 0.125, 0.125, 0.125, 0.125, 0.125, 0.125 };
static const double ld1[1] = { 1.0 };
static struct cmb_random_alias *alias_tab[3];

typedef uint64_t (*rfun)(int a);

static uint64_t f_raw(int a) { (void)a; return cmb_random_sfc64(); }
static uint64_t f_flip(int a) { (void)a; return (uint64_t)cmb_random_flip(); }
static uint64_t f_flip32(int a) { (void)a; uint64_t v = 0; for (int i = 0; i < 32; i++) v = (v << 1) | (uint64_t)(cmb_random_flip() & 1); return v; }
static uint64_t f_u01(int a) { (void)a; return dbits(cmb_random()); }
static uint64_t f_uniform(int a) { static const double p[3][2] = { { 0.0, 1.0 }, { -5.0, 5.0 }, { 1e3, 1e6 } }; return dbits(cmb_random_uniform(p[a][0], p[a][1])); }
static uint64_t f_triangular(int a) { static const double p[3][3] = { { 0, 1, 2 }, { -2, 0, 5 }, { 10, 10.5, 11 } }; return dbits(cmb_random_triangular(p[a][0], p[a][1], p[a][2])); }
static uint64_t f_std_normal(int a) { (void)a; return dbits(cmb_random_std_normal()); }
static uint64_t f_normal(int a) { static const double p[3][2] = { { 0, 1 }, { 10, 0.5 }, { -3, 100 } }; return dbits(cmb_random_normal(p[a][0], p[a][1])); }
static uint64_t f_lognormal(int a) { static const double p[3][2] = { { 0, 1 }, { 1, 0.25 }, { -1, 2 } }; return dbits(cmb_random_lognormal(p[a][0], p[a][1])); }
static uint64_t f_logistic(int a) { static const double p[3][2] = { { 0, 1 }, { 5, 0.5 }, { -2, 3 } }; return dbits(cmb_random_logistic(p[a][0], p[a][1])); }
static uint64_t f_cauchy(int a) { static const double p[3][2] = { { 0, 1 }, { 1, 2 }, { -3, 0.1 } }; return dbits(cmb_random_cauchy(p[a][0], p[a][1])); }
static uint64_t f_std_exp(int a) { (void)a; return dbits(cmb_random_std_exponential()); }
static uint64_t f_exponential(int a) { static const double p[3] = { 1.0, 0.25, 40.0 }; return dbits(cmb_random_exponential(p[a])); }
static uint64_t f_erlang(int a) { static const unsigned k[3] = { 1, 4, 8 }; static const double m[3] = { 1.0, 0.5, 2.0 }; return dbits(cmb_random_erlang(k[a], m[a])); }
static uint64_t f_hypoexp(int a) { return dbits(cmb_random_hypoexponential((unsigned)(a + 1), hypo_m)); }
static uint64_t f_hyperexp(int a) { (void)a; return dbits(cmb_random_hyperexponential(3, hyper_m, hyper_p)); }
static uint64_t f_std_gamma(int a) { static const double p[6] = { 2.5, 0.7, 11.0, 1.7, 0.5, 1.5 }; return dbits(cmb_random_std_gamma(p[a])); }
static uint64_t f_gamma(int a) { static const double p[5][2] = { { 0.5, 2.0 }, { 3.0, 1.5 }, { 1.0, 1.0 }, { 1.5, 2.0 }, { 2.0, 1.0 } }; return dbits(cmb_random_gamma(p[a][0], p[a][1])); }
static uint64_t f_std_beta(int a) { static const double p[5][2] = { { 2, 3 }, { 0.5, 0.5 }, { 5, 1 }, { 1.5, 0.5 }, { 0.5, 1.5 } }; return dbits(cmb_random_std_beta(p[a][0], p[a][1])); }
static uint64_t f_beta(int a) { static const double p[3][4] = { { 2, 3, 0, 10 }, { 0.5, 0.5, -1, 1 }, { 5, 1, 100, 101 } }; return dbits(cmb_random_beta(p[a][0], p[a][1], p[a][2], p[a][3])); }
static uint64_t f_pert_mod(int a) { static const double p[3][4] = { { 0, 1, 4, 4 }, { -1, 0.5, 2, 2 }, { 10, 11, 20, 6 } }; return dbits(cmb_random_PERT_mod(p[a][0], p[a][1], p[a][2], p[a][3])); }
static uint64_t f_pert(int a) { static const double p[3][3] = { { 0, 1, 4 }, { -1, 0.5, 2 }, { 10, 11, 20 } }; return dbits(cmb_random_PERT(p[a][0], p[a][1], p[a][2])); }
static uint64_t f_weibull(int a) { static const double p[3][2] = { { 1, 1 }, { 2, 10 }, { 0.5, 3 } }; return dbits(cmb_random_weibull(p[a][0], p[a][1])); }
static uint64_t f_pareto(int a) { static const double p[3][2] = { { 1.16, 1 }, { 3, 2 }, { 0.5, 10 } }; return dbits(cmb_random_pareto(p[a][0], p[a][1])); }
static uint64_t f_chisq(int a) { static const double p[4] = { 1.0, 2.0, 7.5, 3.0 }; return dbits(cmb_random_chisquared(p[a])); }
static uint64_t f_fdist(int a) { static const double p[5][2] = { { 2, 3 }, { 5, 5 }, { 1, 10 }, { 3, 1 }, { 1, 3 } }; return dbits(cmb_random_F_dist(p[a][0], p[a][1])); }
static uint64_t f_std_t(int a) { static const double p[3] = { 1.0, 2.5, 30.0 }; return dbits(cmb_random_std_t_dist(p[a])); }
static uint64_t f_tdist(int a) { static const double p[3][3] = { { 0, 1, 3 }, { 1, 2, 1 }, { -1, 0.5, 10 } }; return dbits(cmb_random_t_dist(p[a][0], p[a][1], p[a][2])); }
static uint64_t f_rayleigh(int a) { static const double p[3] = { 1.0, 0.5, 10.0 }; return dbits(cmb_random_rayleigh(p[a])); }
static uint64_t f_bernoulli(int a) { static const double p[3] = { 0.5, 0.0, 1.0 }; return (uint64_t)cmb_random_bernoulli(p[a]); }
static uint64_t f_geometric(int a) { static const double p[4] = { 0.5, 0.1, 0.9, 1.0 }; return (uint64_t)cmb_random_geometric(p[a]); }
static uint64_t f_binomial(int a) { static const unsigned n[3] = { 5, 16, 1 }; static const double p[3] = { 0.5, 0.1, 0.9 }; return (uint64_t)cmb_random_binomial(n[a], p[a]); }
static uint64_t f_negbin(int a) { static const unsigned m[4] = { 3, 1, 8, 2 }; static const double p[4] = { 0.5, 0.25, 0.9, 1.0 }; return (uint64_t)cmb_random_negative_binomial(m[a], p[a]); }
static uint64_t f_pascal(int a) { static const unsigned m[4] = { 2, 5, 1, 3 }; static const double p[4] = { 0.5, 0.75, 0.1, 1.0 }; return (uint64_t)cmb_random_pascal(m[a], p[a]); }
static uint64_t f_poisson(int a) { static const double p[3] = { 0.5, 2.0, 4.0 }; return (uint64_t)cmb_random_poisson(p[a]); }
static uint64_t f_dice(int a) { static const long p[3][2] = { { 1, 6 }, { -5, 5 }, { 0, 1 } }; return (uint64_t)cmb_random_dice(p[a][0], p[a][1]); }
static uint64_t f_loaded_dice(int a) { return (uint64_t)(a == 0 ? cmb_random_loaded_dice(3, hyper_p) : a == 1 ? cmb_random_loaded_dice(8, ld8) : cmb_random_loaded_dice(1, ld1)); }
static uint64_t f_alias(int a) { return (uint64_t)cmb_random_alias_sample(alias_tab[a]); }

static const struct { const char *name; rfun fn; } ftab[] = {
    { "raw", f_raw }, { "flip", f_flip }, { "flip32", f_flip32 }, { "u01", f_u01 }, { "uniform", f_uniform },
    { "triangular", f_triangular }, { "std_normal", f_std_normal }, { "normal", f_normal }, { "lognormal", f_lognormal },
    { "logistic", f_logistic }, { "cauchy", f_cauchy }, { "std_exponential", f_std_exp }, { "exponential", f_exponential },
    { "erlang", f_erlang }, { "hypoexponential", f_hypoexp }, { "hyperexponential", f_hyperexp },
    { "std_gamma", f_std_gamma }, { "gamma", f_gamma }, { "std_beta", f_std_beta }, { "beta", f_beta },
    { "PERT_mod", f_pert_mod }, { "PERT", f_pert }, { "weibull", f_weibull }, { "pareto", f_pareto },
    { "chisquared", f_chisq }, { "F_dist", f_fdist }, { "std_t_dist", f_std_t }, { "t_dist", f_tdist },
    { "rayleigh", f_rayleigh }, { "bernoulli", f_bernoulli }, { "geometric", f_geometric }, { "binomial", f_binomial },
    { "negative_binomial", f_negbin }, { "pascal", f_pascal }, { "poisson", f_poisson }, { "dice", f_dice },
    { "loaded_dice", f_loaded_dice }, { "alias_sample", f_alias },
};
#define NF ((int)(sizeof ftab / sizeof ftab[0]))

struct op { int t, kind, f, a, gi; uint64_t seed; };
struct rec { uint64_t ticket, val; };
struct hist { int id, nt, nops, npar; bool par; struct op ops[MAXOPS]; };

static struct hist H;
static struct rec recs[MAXOPS];
static atomic_int turn, par_done;
static atomic_ullong ticket;
static pthread_barrier_t bar;
static FILE *out;

static void crash_handler(int sig)
{
    if (out != NULL) { fprintf(out, "{\"op\":\"crash\",\"sig\":%d,\"h\":%d}\n", sig, H.id); fflush(out); }
    _exit(3);
}

static void *worker(void *arg)
{
    const int me = (int)(intptr_t)arg;
    const bool free_run = H.par && me <= H.npar;
    if (free_run) pthread_barrier_wait(&bar);
    else if (H.par) {
        /* a late thread: wait until the concurrent part is over */
        unsigned spins = 0;
        while (atomic_load_explicit(&par_done, memory_order_acquire) != H.npar) { if (++spins > 200u) sched_yield(); }
    }
    for (int i = 0; i < H.nops; i++) {
        const struct op *o = &H.ops[i];
        if (o->t != me) continue;
        if (free_run) recs[i].ticket = atomic_fetch_add(&ticket, 1);
        else {
            unsigned spins = 0;
            while (atomic_load_explicit(&turn, memory_order_acquire) != o->gi) { if (++spins > 200u) sched_yield(); }
            recs[i].ticket = (uint64_t)MAXOPS + (uint64_t)o->gi;
        }
        switch (o->kind) {
        case K_SEED: cmb_random_initialize(o->seed); recs[i].val = o->seed; break;
        case K_TERM: cmb_random_terminate(); recs[i].val = 0; break;
        default: recs[i].val = ftab[o->f].fn(o->a); break;
        }
        if (!free_run) atomic_store_explicit(&turn, o->gi + 1, memory_order_release);
    }
    if (free_run) atomic_fetch_add_explicit(&par_done, 1, memory_order_release);
    return NULL;
}

static int cmp_rec(const void *x, const void *y)
{
    const uint64_t a = recs[*(const int *)x].ticket, b = recs[*(const int *)y].ticket;
    return (a > b) - (a < b);
}

static void limbs(char *buf, uint64_t v)
{
    sprintf(buf, "[%u,%u,%u,%u]", (unsigned)(v & 0xffffu), (unsigned)((v >> 16) & 0xffffu),
            (unsigned)((v >> 32) & 0xffffu), (unsigned)((v >> 48) & 0xffffu));
}

static void run_history(void)
{
    pthread_t th[MAXT + 1];
    atomic_store(&turn, 0); atomic_store(&ticket, 0); atomic_store(&par_done, 0);
    if (H.par) {
        /* the ordered calls (threads above npar) are numbered among themselves */
        int k = 0;
        for (int i = 0; i < H.nops; i++) if (H.ops[i].t > H.npar) H.ops[i].gi = k++;
        pthread_barrier_init(&bar, NULL, (unsigned)H.npar);
    }
    for (int t = 1; t <= H.nt; t++) {
        if (pthread_create(&th[t], NULL, worker, (void *)(intptr_t)t) != 0) { fprintf(stderr, "pthread_create failed\n"); _exit(2); }
    }
    for (int t = 1; t <= H.nt; t++) pthread_join(th[t], NULL);
    if (H.par) pthread_barrier_destroy(&bar);
    static int order[MAXOPS];
    for (int i = 0; i < H.nops; i++) order[i] = i;
    qsort(order, (size_t)H.nops, sizeof order[0], cmp_rec);
    fprintf(out, "{\"op\":\"begin\",\"h\":%d,\"nt\":%d,\"mode\":\"%s\"}\n", H.id, H.nt, H.par ? "par" : "seq");
    char b[64];
    for (int k = 0; k < H.nops; k++) {
        const struct op *o = &H.ops[order[k]];
        limbs(b, recs[order[k]].val);
        if (o->kind == K_SEED) fprintf(out, "{\"op\":\"seed\",\"t\":%d,\"s\":%s}\n", o->t, b);
        else if (o->kind == K_TERM) fprintf(out, "{\"op\":\"term\",\"t\":%d}\n", o->t);
        else fprintf(out, "{\"op\":\"call\",\"t\":%d,\"f\":\"%s\",\"a\":%d,\"r\":%s}\n", o->t, ftab[o->f].name, o->a, b);
    }
    fprintf(out, "{\"op\":\"end\",\"h\":%d}\n", H.id);
}

static void bad_script(long ln, const char *why) { fprintf(stderr, "rng15_replay: script line %ld: %s\n", ln, why); exit(2); }

int main(int argc, char **argv)
{
    if (argc != 3) { fprintf(stderr, "usage: rng15_replay <script> <out.ndjson>\n"); return 2; }
    FILE *in = fopen(argv[1], "r");
    if (in == NULL) { perror(argv[1]); return 2; }
    FILE *f = fopen(argv[2], "w"); if (f == NULL) { perror(argv[2]); return 2; } fclose(f);
    char line[256];
    long ln = 0;
    int crashes = 0;
    bool more = true;
    while (more) {
        /* one forked child runs up to BATCH histories, the parent skips over them */
        fflush(NULL);
        const long pos = ftell(in);
        const long ln0 = ln;
        pid_t pid = fork();
        if (pid < 0) { perror("fork"); return 2; }
        const bool child = (pid == 0);
        if (child) {
            out = fopen(argv[2], "a");
            if (out == NULL) _exit(2);
            signal(SIGABRT, crash_handler); signal(SIGSEGV, crash_handler); signal(SIGBUS, crash_handler); signal(SIGFPE, crash_handler);
            signal(SIGALRM, crash_handler); alarm(300);
            alias_tab[0] = cmb_random_alias_create(3, hyper_p);
            alias_tab[1] = cmb_random_alias_create(8, ld8);
            alias_tab[2] = cmb_random_alias_create(1, ld1);
        }
        if (child) { in = fopen(argv[1], "r"); if (in == NULL) _exit(2); }   /* own file offset */
        fseek(in, pos, SEEK_SET); ln = ln0;
        int nh = 0;
        bool inh = false;
        more = false;
        while (fgets(line, sizeof line, in) != NULL) {
            ln++;
            char c = line[0];
            if (c == '#' || c == '\n') continue;
            if (c == 'H') {
                char mode[16];
                H.npar = -1;
                if (inh || sscanf(line + 1, "%d %15s %d %d", &H.id, mode, &H.nt, &H.npar) < 3) bad_script(ln, "bad H line");
                if (H.nt < 1 || H.nt > MAXT) bad_script(ln, "thread count");
                if (H.npar < 0 || H.npar > H.nt) H.npar = H.nt;
                H.par = (strcmp(mode, "par") == 0);
                if (!H.par && strcmp(mode, "seq") != 0) bad_script(ln, "mode");
                H.nops = 0; inh = true;
            }
            else if (c == 'E') {
                if (!inh) bad_script(ln, "E outside history");
                inh = false;
                if (child) run_history();
                if (++nh >= BATCH) { more = true; break; }
            }
            else {
                if (!inh) bad_script(ln, "operation outside history");
                if (H.nops >= MAXOPS) bad_script(ln, "history too long");
                struct op *o = &H.ops[H.nops];
                o->gi = H.nops; o->f = 0; o->a = 0; o->seed = 0;
                char name[64]; unsigned long long sd;
                if (c == 'S' && sscanf(line + 1, "%d %llx", &o->t, &sd) == 2) { o->kind = K_SEED; o->seed = (uint64_t)sd; }
                else if (c == 'X' && sscanf(line + 1, "%d", &o->t) == 1) o->kind = K_TERM;
                else if (c == 'C' && sscanf(line + 1, "%d %63s %d", &o->t, name, &o->a) == 3) {
                    o->kind = K_CALL; o->f = -1;
                    for (int i = 0; i < NF; i++) if (strcmp(ftab[i].name, name) == 0) o->f = i;
                    if (o->f < 0) bad_script(ln, "unknown function");
                    if (o->a < 0 || o->a > 5) bad_script(ln, "parameter set");
                }
                else bad_script(ln, "unreadable line");
                if (o->t < 1 || o->t > H.nt) bad_script(ln, "thread id");
                H.nops++;
            }
        }
        if (inh) bad_script(ln, "unterminated history");
        if (child) { fclose(out); _exit(0); }
        int st = 0; waitpid(pid, &st, 0);
        if (WIFEXITED(st) && WEXITSTATUS(st) == 2) return 2;
        if (st != 0) crashes++;
    }
    fclose(in);
    return crashes ? 3 : 0;
}
