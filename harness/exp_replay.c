/*
 * exp_replay - drive the real cimba_run_experiment() and record an ndjson trace
 * for spec/ExperimentTrace.tla (property C19).  The harness only logs; the TLA+
 * monitor (spec/ExperimentMon.tla) decides.
 *
 *   exp_replay config <seed> <ngroups> [first]          print the group descriptions (json lines)
 *   exp_replay gen <seed> <ngroups> <runs> <out.ndjson> [planfile] [first]
 *
 * A group = one experiment description: number of trials N (1, fewer than
 * cores, cores-1, cores, cores+1, many more), trial struct size (8, 24, 4104,
 * ...), content profile of the trial bodies (random streams of every sampler
 * family, coin flips, a process/resource/buffer/object-queue simulation, logger
 * settings) and whether the trials seed the generator from their own parameters.
 * Everything a trial does is a function of the parameter word stored in its
 * array element (and of the group description), never of the schedule.
 *
 * For every group the trace holds
 *   Group{g,n,sz,cores,seeded,profile}
 *   Ref{slot,r,d}        results of the same trial function called for element
 *                        0..N-1 one after another in ONE fresh thread
 *   and for every run    Run{run,cores,shape,cpus,plan}
 *                        Begin{w,slot,rem,inarr} / End{w,slot} / Return in the
 *                        order of one global atomic stamp, then
 *                        Result{slot,r,d} read from the caller's array after
 *                        the return (and after a grace period in which late
 *                        calls would still be recorded), RunEnd{...}.
 * r = the 64-bit result word of the element as four 16-bit limbs; d = the
 * per-section digests (rng, flips, simulation, logging) for diagnosis only.
 *
 * Runs differ in what shapes the schedule, none of which a result may depend
 * on: wall-clock durations of the trials (none, long first, long last,
 * alternating, random, sleeping), the cpus the process may use (all, 1, 2) and,
 * when a plan file is given, a completion order taken from a behaviour of
 * spec/Experiment.tla (TLC simulation, W = cores): every call then waits before
 * it ends until all calls that precede it in the plan have ended, which forces
 * that behaviour's assignment of trials to workers on the real runner.
 *
 * Each group runs in a forked child (a crash or hang costs that group only).
 */
#define _GNU_SOURCE
#include <sched.h>
#include <stdio.h>
#include <stdlib.h>
#include <string.h>
#include <stdint.h>
#include <stdbool.h>
#include <stdatomic.h>
#include <signal.h>
#include <time.h>
#include <unistd.h>
#include <pthread.h>
#include <sys/wait.h>

#include "cimba.h"

#include "cmi_verif.h"
extern uint32_t cmi_cpu_cores(void);

/* under ASan the library's fiber annotations (hook H4) want to be told when a new coroutine is entered */
#ifdef CMI_VERIF_ASAN
extern void cmi_verif_fiber_entered(void);
#define FIBER_ENTERED() cmi_verif_fiber_entered()
#else
#define FIBER_ENTERED() ((void)0)
#endif

/* ------------------------------------------------------------------ hashing */
static uint64_t mix64(uint64_t z)
{
    z += 0x9e3779b97f4a7c15ull;
    z = (z ^ (z >> 30)) * 0xbf58476d1ce4e5b9ull;
    z = (z ^ (z >> 27)) * 0x94d049bb133111ebull;
    return z ^ (z >> 31);
}
struct dg { uint64_t h; };
static void dg_u(struct dg *d, uint64_t v) { d->h = mix64(d->h ^ mix64(v)); }
static void dg_f(struct dg *d, double x) { uint64_t u; memcpy(&u, &x, sizeof u); dg_u(d, u); }

/* ------------------------------------------------------------------ group / run description */
#define PF_RNG 1
#define PF_FLIP 2
#define PF_SIM 4
#define PF_LOG 8
enum { SH_NONE, SH_LONGFIRST, SH_LONGLAST, SH_ALT, SH_RANDOM, SH_SLEEP, SH_RENDEZVOUS, SH_COUNT };
static const char *shape_name[] = { "none", "long-first", "long-last", "alternating", "random", "sleeping", "rendezvous" };
static atomic_int rdv_arrived;

static struct {
    int g; uint64_t gseed; long n; size_t sz; int profile; bool seeded; bool sameparams; long cores;
} G;
static struct { int run; int shape; int cpus; bool is_ref; bool planned; } R;

static unsigned char *base;             /* the array the current calls must point into */
static uint64_t (*side)[4];             /* per-slot section digests written by the trial (diagnosis) */

/* ------------------------------------------------------------------ event log (global atomic stamp) */
enum { EV_BEGIN = 1, EV_END, EV_RETURN };
struct ev { int kind, w, inarr; long slot, rem; };
static struct ev *evs;
static long evcap;
static atomic_long nev;
static atomic_int nwid;
static _Thread_local int wid;

static long log_ev(int kind, int w, long slot, long rem, int inarr)
{
    const long k = atomic_fetch_add(&nev, 1);
    if (k < evcap) { evs[k].kind = kind; evs[k].w = w; evs[k].slot = slot; evs[k].rem = rem; evs[k].inarr = inarr; }
    return k;
}

/* ------------------------------------------------------------------ forced completion order */
static long *endpos;                    /* slot -> position in the plan */
static atomic_long ended_cnt;
static atomic_int plan_abandoned;

static double now_s(void) { struct timespec ts; clock_gettime(CLOCK_MONOTONIC, &ts); return (double)ts.tv_sec + 1e-9 * (double)ts.tv_nsec; }
static void spin_us(long us) { const double t1 = now_s() + 1e-6 * (double)us; while (now_s() < t1) { } }
static void sleep_us(long us) { struct timespec ts = { us / 1000000, (us % 1000000) * 1000 }; nanosleep(&ts, NULL); }

static void gate_before_end(long slot)
{
    if (!R.planned || R.is_ref) return;
    const double t0 = now_s();
    while (!atomic_load(&plan_abandoned) && atomic_load(&ended_cnt) != endpos[slot]) {
        sleep_us(20);
        if (now_s() - t0 > 5.0) atomic_store(&plan_abandoned, 1);
    }
}

/* ------------------------------------------------------------------ trial content */
#define UF1 0x00000001u
#define UF2 0x00000002u
#define UF8 0x00000008u

struct sim {
    struct cmb_buffer *buf; struct cmb_resource *res; struct cmb_objectqueue *oq;
    struct cmb_process *arr, *srv[2], *con;
    uint64_t P; bool flips; struct dg *d; FILE *lf; uint64_t served, made, eaten;
};

static void *arrival_proc(struct cmb_process *me, void *v)
{
    (void)me; struct sim *s = v;
    FIBER_ENTERED();
    for (;;) {
        (void)cmb_process_hold(cmb_random_exponential(1.0));
        uint64_t n = 1u + (uint64_t)cmb_random_dice(0, 2);
        (void)cmb_buffer_put(s->buf, &n);
        const bool also = s->flips ? (cmb_random_flip() == 1) : (cmb_random_bernoulli(0.5) == 1u);
        if (also) { s->made++; (void)cmb_objectqueue_put(s->oq, (void *)(uintptr_t)s->made); }
        cmb_logger_user(s->lf, UF1, "arrival %llu", (unsigned long long)s->made);
    }
    return NULL;
}
static void *server_proc(struct cmb_process *me, void *v)
{
    struct sim *s = v;
    FIBER_ENTERED();
    for (;;) {
        uint64_t n = 1u;
        (void)cmb_buffer_get(s->buf, &n);
        (void)cmb_resource_acquire(s->res);
        (void)cmb_process_hold(cmb_random_gamma(2.0 + (double)((s->P >> 40) & 3u), 0.3));
        cmb_resource_release(s->res);
        s->served++;
        dg_f(s->d, cmb_time()); dg_u(s->d, (uint64_t)cmb_process_priority(me));
        cmb_logger_user(s->lf, UF2, "served %llu", (unsigned long long)s->served);
    }
    return NULL;
}
static void *consumer_proc(struct cmb_process *me, void *v)
{
    (void)me; struct sim *s = v;
    FIBER_ENTERED();
    for (;;) {
        void *obj = NULL;
        (void)cmb_objectqueue_get(s->oq, &obj);
        s->eaten++;
        dg_u(s->d, (uint64_t)(uintptr_t)obj); dg_f(s->d, cmb_time());
        (void)cmb_process_hold(cmb_random_uniform(0.1, 1.5));
    }
    return NULL;
}
static void end_evt(void *subject, void *object)
{
    (void)object; struct sim *s = subject;
    cmb_buffer_recording_stop(s->buf);
    cmb_process_stop(s->arr, NULL); cmb_process_stop(s->srv[0], NULL); cmb_process_stop(s->srv[1], NULL); cmb_process_stop(s->con, NULL);
    cmb_event_queue_clear();
}

static void section_sim(uint64_t P, bool flips, struct dg *d, FILE *lf)
{
    struct sim s; memset(&s, 0, sizeof s);
    s.P = P; s.flips = flips; s.d = d; s.lf = lf;
    const double t0 = (double)((P >> 44) & 7u);
    cmb_event_queue_initialize(t0);
    s.buf = cmb_buffer_create(); cmb_buffer_initialize(s.buf, "buf", 5u + ((P >> 47) & 7u));
    s.res = cmb_resource_create(); cmb_resource_initialize(s.res, "res");
    s.oq = cmb_objectqueue_create(); cmb_objectqueue_initialize(s.oq, "oq", 3u);
    s.arr = cmb_process_create(); cmb_process_initialize(s.arr, "arr", arrival_proc, &s, 0);
    s.srv[0] = cmb_process_create(); cmb_process_initialize(s.srv[0], "srv0", server_proc, &s, (int64_t)((P >> 50) & 3u));
    s.srv[1] = cmb_process_create(); cmb_process_initialize(s.srv[1], "srv1", server_proc, &s, (int64_t)((P >> 52) & 3u));
    s.con = cmb_process_create(); cmb_process_initialize(s.con, "con", consumer_proc, &s, 1);
    (void)cmb_event_schedule(end_evt, &s, NULL, t0 + 20.0 + (double)((P >> 54) & 63u), 0);
    cmb_buffer_recording_start(s.buf);
    cmb_process_start(s.arr); cmb_process_start(s.srv[0]); cmb_process_start(s.srv[1]); cmb_process_start(s.con);
    cmb_event_queue_execute();
    dg_f(d, cmb_time()); dg_u(d, s.served); dg_u(d, s.made); dg_u(d, s.eaten);
    dg_u(d, cmb_buffer_level(s.buf)); dg_u(d, cmb_objectqueue_length(s.oq));
    struct cmb_wtdsummary ws; cmb_wtdsummary_initialize(&ws);
    const uint64_t cnt = cmb_timeseries_summarize(cmb_buffer_history(s.buf), &ws);
    dg_u(d, cnt); dg_f(d, cmb_wtdsummary_mean(&ws));
    cmb_event_queue_terminate();
    dg_f(d, cmb_time());
    cmb_process_terminate(s.arr); cmb_process_destroy(s.arr);
    cmb_process_terminate(s.srv[0]); cmb_process_destroy(s.srv[0]);
    cmb_process_terminate(s.srv[1]); cmb_process_destroy(s.srv[1]);
    cmb_process_terminate(s.con); cmb_process_destroy(s.con);
    cmb_buffer_destroy(s.buf); cmb_resource_destroy(s.res); cmb_objectqueue_destroy(s.oq);
}

static void section_rng(uint64_t P, struct dg *d)
{
    static const double shapes[] = { 0.5, 2.0, 3.75 };
    static const double dicep[] = { 0.2, 0.5, 0.3 };
    const int rounds = 2 + (int)((P >> 12) & 3u);
    for (int r = 0; r < rounds; r++) {
        dg_u(d, cmb_random_sfc64());
        dg_f(d, cmb_random());
        dg_f(d, cmb_random_std_exponential());
        dg_f(d, cmb_random_std_normal());
        dg_f(d, cmb_random_gamma(shapes[((P >> 16) + (uint64_t)r) % 3u], 2.0));
        dg_u(d, cmb_random_geometric(0.3 + 0.1 * (double)((P >> 18) & 3u)));
        dg_u(d, (uint64_t)cmb_random_dice(1, 6));
        dg_u(d, cmb_random_poisson(2.5));
        dg_f(d, cmb_random_beta(2.0, 3.0, 0.0, 1.0));
        dg_f(d, cmb_random_triangular(0.0, 1.0, 3.0));
        dg_u(d, cmb_random_bernoulli(0.4));
        dg_f(d, cmb_random_weibull(1.5, 2.0));
        dg_f(d, cmb_random_lognormal(0.0, 0.5));
        dg_f(d, cmb_random_erlang(3u, 1.0));
        dg_u(d, cmb_random_binomial(5u, 0.3));
        dg_u(d, cmb_random_loaded_dice(3u, dicep));
        dg_f(d, cmb_random_chisquared(3.0));
    }
}

static void section_flip(uint64_t P, struct dg *d)
{
    int nf = 1 + (int)((P >> 24) % 150u);
    if (nf % 64 == 0) nf++;
    uint64_t acc = 0;
    for (int i = 0; i < nf; i++) { acc = (acc << 1) | (uint64_t)cmb_random_flip(); if (i % 60 == 59) { dg_u(d, acc); acc = 0; } }
    dg_u(d, acc); dg_u(d, (uint64_t)nf);
}

static bool probe(FILE *lf, char **bufp, size_t *lenp, uint32_t flag)
{
    (void)bufp;
    fflush(lf); const size_t before = *lenp;
    cmb_logger_user(lf, flag, "probe %u", (unsigned)flag);
    fflush(lf);
    return *lenp > before;
}

static void section_log(uint64_t P, struct dg *d, FILE *lf, char **bufp, size_t *lenp, bool may_info)
{
    /* observe the settings made in the prelude, change them, observe again; what is left behind is
       this trial's own choice and is of no concern to the next trial on this thread */
    dg_u(d, probe(lf, bufp, lenp, UF1)); dg_u(d, probe(lf, bufp, lenp, UF2)); dg_u(d, probe(lf, bufp, lenp, UF8));
    if (may_info) dg_u(d, probe(lf, bufp, lenp, CMB_LOGGER_INFO));
    dg_u(d, probe(lf, bufp, lenp, CMB_LOGGER_WARNING));
    const uint32_t off2 = (uint32_t)((P >> 32) & 0xBu);
    if (off2 != 0u) cmb_logger_flags_off(off2);
    if ((P >> 36) & 1u) cmb_logger_flags_off(CMB_LOGGER_WARNING);
    if (((P >> 37) & 1u) && may_info) cmb_logger_flags_off(CMB_LOGGER_INFO);
    if ((P >> 38) & 1u) cmb_logger_flags_on(UF8);
    dg_u(d, probe(lf, bufp, lenp, UF1)); dg_u(d, probe(lf, bufp, lenp, UF2)); dg_u(d, probe(lf, bufp, lenp, UF8));
    if (may_info) dg_u(d, probe(lf, bufp, lenp, CMB_LOGGER_INFO));
    dg_u(d, probe(lf, bufp, lenp, CMB_LOGGER_WARNING));
}

static uint64_t seed_of(uint64_t P) { return mix64(P ^ 0x5eedull) | 1u; }

static uint64_t pad_byte(uint64_t P, size_t i) { return (mix64(P + i / 8u) >> (8u * (i % 8u))) & 0xffu; }

/* what one trial does; everything is a function of P and the group description */
static uint64_t trial_body(uint64_t P, uint64_t dsec[4])
{
    struct dg d[4] = { { 1 }, { 2 }, { 3 }, { 4 } };
    const int pf = G.profile;
    const bool do_rng = (pf & PF_RNG) && ((P & 3u) != 0u);
    const bool do_flip = (pf & PF_FLIP) && (((P >> 2) & 3u) != 0u);
    const bool do_sim = (pf & PF_SIM) && (((P >> 4) & 3u) != 0u);
    const bool do_log = (pf & PF_LOG) && (((P >> 6) & 3u) != 0u);

    /* prelude: the trial establishes, from its own parameters, every setting it relies on */
    if (G.seeded) cmb_random_initialize(seed_of(P));
    cmb_logger_flags_on(0xFFFFFFFFu);
    const bool info_on = !do_sim && (pf & PF_LOG) && ((P >> 8) & 1u);       /* the library itself logs INFO to stdout */
    uint32_t off = (uint32_t)((P >> 9) & 0xBu);
    if (!info_on) off |= CMB_LOGGER_INFO;
    if (off != 0u) cmb_logger_flags_off(off);

    char *lbuf = NULL; size_t llen = 0; FILE *lf = open_memstream(&lbuf, &llen);

    const bool flip_first = (P >> 20) & 1u;
    if (do_flip && flip_first) section_flip(P, &d[1]);
    if (do_rng) section_rng(P, &d[0]);
    if (do_sim) section_sim(P, (pf & PF_FLIP) != 0, &d[2], lf);
    if (do_flip && !flip_first) section_flip(P ^ 0x77, &d[1]);
    if (do_log) section_log(P, &d[3], lf, &lbuf, &llen, !do_sim);
    if (do_rng && ((P >> 21) & 1u)) { dg_f(&d[0], cmb_random_std_normal()); dg_u(&d[0], cmb_random_sfc64()); }
    if (G.seeded) dg_u(&d[0], cmb_random_curseed());

    fflush(lf);
    uint64_t lines = 0; for (size_t i = 0; i < llen; i++) if (lbuf[i] == '\n') lines++;
    dg_u(&d[3], lines);
    fclose(lf); free(lbuf);
    if ((P >> 22) & 1u) cmb_random_terminate();

    uint64_t D = 0x19;
    for (int k = 0; k < 4; k++) { dsec[k] = d[k].h; D = mix64(D ^ d[k].h); }
    return D;
}

static void shape_delay(long slot)
{
    if (R.is_ref) return;
    const uint64_t h = mix64(G.gseed ^ ((uint64_t)R.run << 32) ^ (uint64_t)slot);
    switch (R.shape) {
    case SH_LONGFIRST: if (slot == 0) spin_us(15000); break;
    case SH_LONGLAST: if (slot == G.n - 1) spin_us(15000); else if (slot % 7 == 0) spin_us(200); break;
    case SH_ALT: spin_us((slot % 2 == 0) ? 600 : 20); break;
    case SH_RANDOM: spin_us((long)(h % 1500u)); break;
    case SH_SLEEP: sleep_us((long)(h % 800u)); break;
    default: break;
    }
}

/* ------------------------------------------------------------------ the trial function given to the runner */
static void trial(void *p)
{
    if (wid == 0) wid = atomic_fetch_add(&nwid, 1) + 1;
    unsigned char *q = p;
    const bool inarr = (q >= base) && (q < base + (size_t)G.n * G.sz);
    const long slot = inarr ? (long)((size_t)(q - base) / G.sz) : -1;
    const long rem = inarr ? (long)((size_t)(q - base) % G.sz) : 0;
    if (!R.is_ref) log_ev(EV_BEGIN, wid, slot, rem, inarr);
    if (!inarr || rem != 0) return;                   /* nothing that could be read safely */

    uint64_t P; memcpy(&P, q, sizeof P);
    uint64_t padbad = 0;
    for (size_t i = 16; i < G.sz; i++) if (q[i] != (unsigned char)pad_byte(P, i)) padbad++;
    shape_delay(slot);
    uint64_t dsec[4];
    uint64_t D = trial_body(P, dsec);
    D = mix64(D ^ padbad);
    memcpy(q + (G.sz >= 16u ? 8u : 0u), &D, sizeof D);
    memcpy(side[slot], dsec, sizeof dsec);
    gate_before_end(slot);
    if (!R.is_ref && R.shape == SH_RENDEZVOUS && !R.planned) {
        /* the trials just before the last one end together: all workers come back for work at the same
         * moment with a single trial left */
        const long lo = (G.n - 1 - G.cores > 0) ? G.n - 1 - G.cores : 0;
        const long k = (G.n - 1) - lo;
        if (slot >= lo && slot < G.n - 1 && k > 1) {
            atomic_fetch_add(&rdv_arrived, 1);
            const double t0 = now_s();
            while (atomic_load(&rdv_arrived) < k && now_s() - t0 < 0.05) { /* spin */ }
        }
    }
    if (!R.is_ref) { log_ev(EV_END, wid, slot, 0, 1); atomic_fetch_add(&ended_cnt, 1); }
}

static void warm_trial(void *p) { (void)p; }

/* ------------------------------------------------------------------ driving */
static void fill_array(unsigned char *a)
{
    for (long i = 0; i < G.n; i++) {
        unsigned char *e = a + (size_t)i * G.sz;
        const uint64_t P = mix64(G.gseed ^ (G.sameparams ? 7u : (uint64_t)i * 0x100000001b3ull));
        memset(e, 0, G.sz);
        memcpy(e, &P, sizeof P);
        for (size_t k = 16; k < G.sz; k++) e[k] = (unsigned char)pad_byte(P, k);
    }
}

static void limbs(FILE *f, uint64_t v) { fprintf(f, "%u,%u,%u,%u", (unsigned)(v & 0xffffu), (unsigned)((v >> 16) & 0xffffu), (unsigned)((v >> 32) & 0xffffu), (unsigned)((v >> 48) & 0xffffu)); }
static void result_line(FILE *f, const char *kind, const unsigned char *a, long i)
{
    uint64_t D; memcpy(&D, a + (size_t)i * G.sz + (G.sz >= 16u ? 8u : 0u), sizeof D);
    fprintf(f, "{\"e\":\"%s\",\"slot\":%ld,\"r\":[", kind, i); limbs(f, D);
    fprintf(f, "],\"d\":[");
    for (int k = 0; k < 4; k++) { if (k) fputc(',', f); limbs(f, side[i][k]); }
    fprintf(f, "]}\n");
}

static void *ref_thread(void *arg)
{
    unsigned char *a = arg;
    for (long i = 0; i < G.n; i++) trial(a + (size_t)i * G.sz);
    return NULL;
}

static void set_cpus(int ncpu)
{
    cpu_set_t set; CPU_ZERO(&set);
    const long all = sysconf(_SC_NPROCESSORS_ONLN);
    for (long c = 0; c < all; c++) if (ncpu <= 0 || c < ncpu) CPU_SET((int)c, &set);
    (void)sched_setaffinity(0, sizeof set, &set);
}

static void group_config(uint64_t seed, int g)
{
    static const size_t sizes[] = { 8u, 24u, 4104u, 16u, 40u, 1000u };
    static const int profiles[] = { PF_RNG | PF_SIM | PF_LOG, PF_RNG | PF_FLIP | PF_SIM | PF_LOG, PF_SIM, PF_RNG, PF_LOG | PF_RNG,
                                    PF_FLIP | PF_RNG, PF_SIM | PF_LOG, PF_SIM | PF_FLIP };
    memset(&G, 0, sizeof G);
    G.g = g; G.gseed = mix64(seed * 1000003u + (uint64_t)g);
    G.cores = (long)cmi_cpu_cores();
    const long c = G.cores;
    const uint64_t h = G.gseed;
    switch (g % 7) {
    case 0: G.n = 1; break;
    case 1: G.n = (c >= 3) ? c / 3 + 1 : 1; break;
    case 2: G.n = (c >= 2) ? c - 1 : 1; break;
    case 3: G.n = c; break;
    case 4: G.n = c + 1; break;
    case 5: G.n = 200; break;
    default: G.n = 2 + (long)(h % (uint64_t)(6 * c)); break;
    }
    G.sz = sizes[(g / 7 + g) % 6];
    G.profile = profiles[(g / 3 + g) % 8];
    G.seeded = (g % 11) != 10;
    G.sameparams = (g % 13) == 12;
}

static void config_line(FILE *f)
{
    fprintf(f, "{\"e\":\"Group\",\"g\":%d,\"n\":%ld,\"sz\":%lu,\"cores\":%ld,\"seeded\":%s,\"profile\":%d,\"sameparams\":%s}\n",
            G.g, G.n, (unsigned long)G.sz, G.cores, G.seeded ? "true" : "false", G.profile, G.sameparams ? "true" : "false");
}

/* plans: lines "<n> s1 s2 ... sn" (completion order of the slots) */
static long *plans[64]; static int nplans;
static void load_plans(const char *path)
{
    nplans = 0;
    if (path == NULL || strcmp(path, "-") == 0) return;
    FILE *f = fopen(path, "r"); if (f == NULL) return;
    long n;
    while (nplans < 64 && fscanf(f, "%ld", &n) == 1) {
        long *pl = malloc(sizeof(long) * (size_t)(n + 1)); bool ok = true;
        for (long i = 0; i < n; i++) if (fscanf(f, "%ld", &pl[i]) != 1) ok = false;
        if (!ok) { free(pl); break; }
        if (n == G.n) plans[nplans++] = pl; else free(pl);
    }
    fclose(f);
}

static void crash_handler(int sig) { char m[64]; int k = snprintf(m, sizeof m, "#CRASH sig %d\n", sig); if (write(2, m, (size_t)k) < 0) { } _exit(3); }

static void run_group(uint64_t seed, int g, int runs, const char *outpath, const char *planpath)
{
    group_config(seed, g);
    load_plans(planpath);
    FILE *out = fopen(outpath, "a"); if (out == NULL) _exit(2);
    const size_t bytes = (size_t)G.n * G.sz;
    unsigned char *refarr = malloc(bytes), *arr = malloc(bytes + 64);
    side = calloc((size_t)G.n, sizeof *side);
    evcap = 4 * G.n + 4096; evs = calloc((size_t)evcap, sizeof *evs);
    endpos = calloc((size_t)G.n, sizeof *endpos);

    /* a first call of the runner, so that the reference thread below is created with the same
       floating-point control word as the runner's threads (cimba_run_experiment sets MXCSR) */
    { uint64_t dummy = 0; cimba_run_experiment(&dummy, 1, sizeof dummy, warm_trial); }

    config_line(out);
    /* sequential reference: one fresh thread, array order */
    fill_array(refarr); base = refarr; R.is_ref = true; R.run = -1; R.planned = false;
    pthread_t th; pthread_create(&th, NULL, ref_thread, refarr); pthread_join(th, NULL);
    for (long i = 0; i < G.n; i++) result_line(out, "Ref", refarr, i);
    fflush(out);

    for (int r = 0; r < runs; r++) {
        R.run = r; R.is_ref = false;
        R.shape = (g + r) % SH_COUNT;
        R.cpus = (r % 5 == 3) ? 1 : (r % 5 == 4) ? 2 : 0;
        R.planned = (nplans > 0) && (r % 2 == 1);
        int plan_ix = -1;
        if (R.planned) { plan_ix = (r / 2) % nplans; for (long i = 0; i < G.n; i++) endpos[plans[plan_ix][i]] = i; R.shape = SH_NONE; }
        fill_array(arr); base = arr;
        memset(side, 0, sizeof(*side) * (size_t)G.n);
        atomic_store(&nev, 0); atomic_store(&nwid, 0); atomic_store(&ended_cnt, 0); atomic_store(&plan_abandoned, 0); atomic_store(&rdv_arrived, 0);
        set_cpus(R.cpus);
        fprintf(out, "{\"e\":\"Run\",\"run\":%d,\"cores\":%ld,\"shape\":\"%s\",\"cpus\":%d,\"plan\":%d}\n", r, G.cores, shape_name[R.shape], R.cpus, plan_ix);
        cimba_run_experiment(arr, (uint64_t)G.n, G.sz, trial);
        log_ev(EV_RETURN, 0, 0, 0, 0);
        set_cpus(0);
        sleep_us(r == 0 ? 60000 : 15000);             /* grace: calls still running would show up after the Return line */
        const long ne = atomic_load(&nev);
        if (ne > evcap) { fprintf(stderr, "#OVERFLOW event log\n"); _exit(2); }
        int maxw = 0;
        for (long k = 0; k < ne; k++) {
            const struct ev *e = &evs[k];
            if (e->w > maxw) maxw = e->w;
            if (e->kind == EV_BEGIN) fprintf(out, "{\"e\":\"Begin\",\"w\":%d,\"slot\":%ld,\"rem\":%ld,\"inarr\":%s}\n", e->w, e->slot, e->rem, e->inarr ? "true" : "false");
            else if (e->kind == EV_END) fprintf(out, "{\"e\":\"End\",\"w\":%d,\"slot\":%ld}\n", e->w, e->slot);
            else fprintf(out, "{\"e\":\"Return\"}\n");
        }
        for (long i = 0; i < G.n; i++) result_line(out, "Result", arr, i);
        fprintf(out, "{\"e\":\"RunEnd\",\"workers\":%d,\"plan_abandoned\":%s}\n", maxw, atomic_load(&plan_abandoned) ? "true" : "false");
        fflush(out);
    }
    fclose(out);
}

int main(int argc, char **argv)
{
    if (argc >= 4 && strcmp(argv[1], "config") == 0) {
        const uint64_t seed = strtoull(argv[2], NULL, 10); const int ng = atoi(argv[3]); const int first = argc > 4 ? atoi(argv[4]) : 0;
        for (int g = first; g < first + ng; g++) { group_config(seed, g); config_line(stdout); }
        return 0;
    }
    if (argc < 6 || strcmp(argv[1], "gen") != 0) { fprintf(stderr, "usage: exp_replay gen <seed> <ngroups> <runs> <out> [planfile] [first] | config <seed> <ngroups> [first]\n"); return 2; }
    const uint64_t seed = strtoull(argv[2], NULL, 10);
    const int ng = atoi(argv[3]), runs = atoi(argv[4]);
    const char *planpath = argc > 6 ? argv[6] : NULL;
    const int first = argc > 7 ? atoi(argv[7]) : 0;
    FILE *f = fopen(argv[5], "w"); if (f == NULL) return 2; fclose(f);
    int bad = 0;
    for (int g = first; g < first + ng; g++) {
        fflush(NULL);
        const pid_t pid = fork();
        if (pid == 0) {
            signal(SIGABRT, crash_handler); signal(SIGSEGV, crash_handler); signal(SIGBUS, crash_handler); signal(SIGFPE, crash_handler);
            alarm(120);
            fprintf(stderr, "#GROUP %d\n", g); fflush(stderr);
            run_group(seed, g, runs, argv[5], planpath);
            _exit(0);
        }
        int st = 0; waitpid(pid, &st, 0);
        if (st != 0) { bad++; fprintf(stderr, "#GROUPFAIL %d status %d\n", g, st); }
    }
    return bad ? 3 : 0;
}
