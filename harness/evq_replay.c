/*
 * evq_replay - drive the real cmb_event_* API through operation histories,
 * including operations issued from inside running event actions, and record
 * an ndjson trace for spec/EventQueueTrace.tla (property C01).
 *
 *   evq_replay gen <seed> <nhist> <maxops> <out.ndjson>
 *   evq_replay script <history.ndjson> <out.ndjson>     (re-run a recorded history)
 *
 * Times and priorities are logged as integer codes; the real values are
 * monotone images of the codes (per-history "scale mode"), so the spec sees
 * exactly the order/equality structure the library sees.
 * Each history runs in a forked child so a library abort ends one history only.
 */
#include <stdio.h>
#include <stdlib.h>
#include <string.h>
#include <stdint.h>
#include <stdbool.h>
#include <signal.h>
#include <unistd.h>
#include <sys/wait.h>

#include "cimba.h"
#include "cmi_verif.h"

static FILE *out;

static void crash_handler(int sig)
{
    if (out != NULL) {
        fprintf(out, "{\"op\":\"crash\",\"sig\":%d}\n", sig);
        fflush(out);
    }
    _exit(3);
}

/* ---------- code <-> value maps */
static int tmode, pmode;
#define TCODES 12
static double tval(long c)
{
    switch (tmode) {
    case 1: return ((double)c - 4.0) * 1e100;
    case 2: return 1e6 + (double)c * 9.5367431640625e-07;   /* steps of 2^-20 */
    case 3: return ((double)c - 3.0) * 0.1;
    default: return (double)c;
    }
}
static int64_t pval(long c)
{
    static const int64_t ext[7] = { INT64_MIN, INT64_MIN + 1, -1, 0, 1, INT64_MAX - 1, INT64_MAX };
    if (pmode == 1) return ext[c + 3];
    return (int64_t)c;
}
static long tcode(double v) { for (long c = -1; c < TCODES + 2; c++) if (tval(c) == v) return c; return -99; }
static long pcode(int64_t v) { for (long c = -3; c <= 3; c++) if (pval(c) == v) return c; return -99; }

/* ---------- shadow (validity of generated ops only, from return values) */
#define MAXEV 400
struct sh { bool pending; long a, s, o; };
static struct sh shadow[MAXEV + 1];
static uint64_t issued;          /* highest handle seen */
static uint64_t exec_handle;     /* handle of the event being dispatched (hook H1) */
static long exec_t;              /* its time code */
static bool in_action;

static void act0(void *s, void *o);
static void act1(void *s, void *o);
static cmb_event_func *acts[2] = { act0, act1 };
static cmb_event_func *afun(long a) { return a < 0 ? CMB_ANY_ACTION : acts[a]; }
static void *pany(long v) { return v < 0 ? CMB_ANY_SUBJECT : (void *)(intptr_t)v; }

static void post(void)
{
    fprintf(out, ",\"ctx\":%llu,\"now\":%ld,\"cur\":%llu,\"cnt\":%llu,\"empty\":%s,\"dump\":[",
            (unsigned long long)(in_action ? exec_handle : 0u), tcode(cmb_time()),
            (unsigned long long)cmb_event_current(), (unsigned long long)cmb_event_queue_count(),
            cmb_event_queue_is_empty() ? "true" : "false");
    bool first = true;
    for (uint64_t h = 1; h <= issued && h <= MAXEV; h++) {
        if (cmb_event_is_scheduled(h)) {
            fprintf(out, "%s{\"h\":%llu,\"t\":%ld,\"pr\":%ld}", first ? "" : ",", (unsigned long long)h,
                    tcode(cmb_event_time(h)), pcode(cmb_event_priority(h)));
            first = false;
        }
    }
    fprintf(out, "]}\n");
    fflush(out);
}

static void op_sched(long a, long s, long o, long t, long pr)
{
    const uint64_t h = cmb_event_schedule(acts[a], (void *)(intptr_t)s, (void *)(intptr_t)o, tval(t), pval(pr));
    if (h > issued) issued = h;
    if (h <= MAXEV) { shadow[h].pending = true; shadow[h].a = a; shadow[h].s = s; shadow[h].o = o; }
    fprintf(out, "{\"op\":\"sched\",\"a\":%ld,\"s\":%ld,\"o\":%ld,\"t\":%ld,\"pr\":%ld,\"ret\":%llu", a, s, o, t, pr,
            (unsigned long long)h);
    post();
}
static void op_cancel(uint64_t h)
{
    const bool r = cmb_event_cancel(h);
    if (h <= MAXEV) shadow[h].pending = false;
    fprintf(out, "{\"op\":\"cancel\",\"h\":%llu,\"ret\":%s", (unsigned long long)h, r ? "true" : "false");
    post();
}
static void op_resched(uint64_t h, long t)
{
    cmb_event_reschedule(h, tval(t));
    fprintf(out, "{\"op\":\"resched\",\"h\":%llu,\"t\":%ld", (unsigned long long)h, t);
    post();
}
static void op_reprio(uint64_t h, long pr)
{
    cmb_event_reprioritize(h, pval(pr));
    fprintf(out, "{\"op\":\"reprio\",\"h\":%llu,\"pr\":%ld", (unsigned long long)h, pr);
    post();
}
static void op_pattern(const char *w, long a, long s, long o)
{
    uint64_t r;
    if (w[1] == 'f') r = cmb_event_pattern_find(afun(a), pany(s), pany(o));
    else if (w[1] == 'c' && w[2] == 'o') r = cmb_event_pattern_count(afun(a), pany(s), pany(o));
    else {
        r = cmb_event_pattern_cancel(afun(a), pany(s), pany(o));
        for (uint64_t h = 1; h <= issued && h <= MAXEV; h++)
            if (shadow[h].pending && (a < 0 || a == shadow[h].a) && (s < 0 || s == shadow[h].s)
                && (o < 0 || o == shadow[h].o)) shadow[h].pending = false;
    }
    fprintf(out, "{\"op\":\"%s\",\"pat\":[%ld,%ld,%ld],\"ret\":%llu", w, a, s, o, (unsigned long long)r);
    post();
}
static void op_clear(void)
{
    cmb_event_queue_clear();
    for (uint64_t h = 1; h <= MAXEV; h++) shadow[h].pending = false;
    fprintf(out, "{\"op\":\"clear\"");
    post();
}

/* ---------- generator */
static uint64_t rs;
static uint64_t rnd(void) { rs ^= rs << 13; rs ^= rs >> 7; rs ^= rs << 17; return rs; }
static long ri(long lo, long hi) { return lo + (long)(rnd() % (uint64_t)(hi - lo + 1)); }
static int body_budget;
static int want_pending;   /* push the population towards this size (growth thresholds) */

static long now_code(void) { return in_action ? exec_t : tcode(cmb_time()); }

static uint64_t pick_pending(void)
{
    if (issued == 0) return 0;
    for (int tries = 0; tries < 40; tries++) {
        uint64_t h = (uint64_t)ri(1, (long)(issued > MAXEV ? MAXEV : issued));
        if (shadow[h].pending) return h;
    }
    return 0;
}

static void random_op(void)
{
    long c = ri(0, 99);
    const long nowc = now_code();
    uint64_t npend = cmb_event_queue_count();
    if (want_pending && (long)npend < want_pending) c = ri(0, 45);
    if (c < 40 || issued == 0) {
        if (issued >= MAXEV - 1) return;
        long t = ri(nowc, nowc + 3 < TCODES ? nowc + 3 : TCODES);
        if (ri(0, 3) == 0) t = nowc;                               /* zero increment */
        op_sched(ri(0, 1), ri(0, 1), ri(0, 1), t, ri(0, 4) == 0 ? ri(-3, 3) : ri(-1, 1));
    }
    else if (c < 55) { op_cancel((uint64_t)ri(1, (long)issued + 1)); }   /* pending, gone, or never issued */
    else if (c < 68) { uint64_t h = pick_pending(); if (h) op_resched(h, ri(nowc, nowc + 3 < TCODES ? nowc + 3 : TCODES)); }
    else if (c < 81) { uint64_t h = pick_pending(); if (h) op_reprio(h, ri(-3, 3)); }
    else if (c < 96) {
        long w = ri(0, 2);
        op_pattern(w == 0 ? "pfind" : (w == 1 ? "pcount" : "pcancel"), ri(-1, 1), ri(-1, 1), ri(-1, 1));
    }
    else if (c < 98) op_clear();
    else op_cancel((uint64_t)ri(1, (long)issued + 1));
}

/* ---------- replay script (a recorded history) */
#define MAXL 4000
static char *script[MAXL];
static int nscript, spos;

static long jl(const char *line, const char *key)
{
    char pat[40];
    snprintf(pat, sizeof pat, "\"%s\":", key);
    const char *p = strstr(line, pat);
    if (p == NULL) return 0;
    p += strlen(pat);
    if (*p == '[') p++;
    return strtol(p, NULL, 10);
}
static void jpat(const char *line, long v[3])
{
    const char *p = strstr(line, "\"pat\":[");
    v[0] = v[1] = v[2] = -1;
    if (p != NULL) sscanf(p + 7, "%ld,%ld,%ld", &v[0], &v[1], &v[2]);
}
static bool is_op(const char *line, const char *op)
{
    char pat[40];
    snprintf(pat, sizeof pat, "{\"op\":\"%s\"", op);
    return strncmp(line, pat, strlen(pat)) == 0;
}

static void do_script_op(const char *l)
{
    long v[3];
    if (is_op(l, "sched")) op_sched(jl(l, "a"), jl(l, "s"), jl(l, "o"), jl(l, "t"), jl(l, "pr"));
    else if (is_op(l, "cancel")) op_cancel((uint64_t)jl(l, "h"));
    else if (is_op(l, "resched")) op_resched((uint64_t)jl(l, "h"), jl(l, "t"));
    else if (is_op(l, "reprio")) op_reprio((uint64_t)jl(l, "h"), jl(l, "pr"));
    else if (is_op(l, "pfind")) { jpat(l, v); op_pattern("pfind", v[0], v[1], v[2]); }
    else if (is_op(l, "pcount")) { jpat(l, v); op_pattern("pcount", v[0], v[1], v[2]); }
    else if (is_op(l, "pcancel")) { jpat(l, v); op_pattern("pcancel", v[0], v[1], v[2]); }
    else if (is_op(l, "clear")) op_clear();
}

/* ---------- event actions */
static void action_body(int which, void *s, void *o)
{
    in_action = true;
    fprintf(out, "{\"op\":\"enter\",\"a\":%d,\"s\":%ld,\"o\":%ld", which, (long)(intptr_t)s, (long)(intptr_t)o);
    post();
    if (nscript > 0) {
        /* replay: perform the recorded operations of this context */
        while (spos < nscript && !is_op(script[spos], "ret") && !is_op(script[spos], "crash")) {
            if (!is_op(script[spos], "enter")) do_script_op(script[spos]);
            spos++;
        }
    }
    else {
        int n = (int)ri(0, body_budget);
        for (int k = 0; k < n; k++) random_op();
    }
    in_action = false;
}
static void act0(void *s, void *o) { action_body(0, s, o); }
static void act1(void *s, void *o) { action_body(1, s, o); }

/* hook H1: the event being dispatched */
static void sink(const char *ev, uint64_t u, const void *p, const void *q, int64_t i, double d)
{
    (void)q;
    if (strcmp(ev, "Exec") == 0) {
        exec_handle = u;
        exec_t = tcode(d);
        if (u <= MAXEV) shadow[u].pending = false;
        fprintf(out, "{\"op\":\"exec\",\"h\":%llu,\"t\":%ld,\"pr\":%ld,\"a\":%d}\n", (unsigned long long)u, tcode(d),
                pcode(i), p == (const void *)act0 ? 0 : (p == (const void *)act1 ? 1 : -9));
    }
}

static void op_exec(void)
{
    const bool r = cmb_event_execute_next();
    fprintf(out, "{\"op\":\"%s\"", r ? "ret" : "execfail");
    post();
}

static void start_history(int tm, int pm, long t0)
{
    tmode = tm; pmode = pm;
    memset(shadow, 0, sizeof shadow);
    issued = 0; exec_handle = 0; in_action = false;
    cmb_event_queue_initialize(tval(t0));
    cmi_verif_sink = sink;
    fprintf(out, "{\"op\":\"init\",\"t0\":%ld,\"tmode\":%d,\"pmode\":%d", t0, tm, pm);
    post();
}

static void gen_history(int idx, int maxops)
{
    start_history(idx % 4, (idx / 4) % 2, (idx % 7 == 3) ? -1 : 0);
    body_budget = (idx % 3 == 0) ? 0 : 3;
    want_pending = (idx % 6 == 5) ? (int)ri(9, 70) : 0;
    const int n = want_pending ? maxops * 4 : maxops;
    for (int k = 0; k < n; k++) {
        if (ri(0, 99) < (want_pending && (long)cmb_event_queue_count() < want_pending ? 8 : 35)) op_exec();
        else random_op();
    }
    /* drain */
    want_pending = 0;
    int guard = 0;
    while (!cmb_event_queue_is_empty() && guard++ < 3000) op_exec();
    op_exec();
    fprintf(out, "{\"op\":\"end\"}\n");
    cmb_event_queue_terminate();
}

static void run_script(void)
{
    spos = 0;
    const char *l0 = script[0];
    start_history((int)jl(l0, "tmode"), (int)jl(l0, "pmode"), jl(l0, "t0"));
    spos = 1;
    while (spos < nscript) {
        const char *l = script[spos];
        if (is_op(l, "exec")) {
            spos++;               /* the action consumes lines up to "ret" */
            op_exec();
            if (spos < nscript && is_op(script[spos], "ret")) spos++;
        }
        else if (is_op(l, "execfail")) { op_exec(); spos++; }
        else if (is_op(l, "end") || is_op(l, "crash")) break;
        else { do_script_op(l); spos++; }
    }
    fprintf(out, "{\"op\":\"end\"}\n");
}

static int in_child(void (*fn)(int, int), int a, int b, const char *outpath)
{
    fflush(NULL);
    pid_t pid = fork();
    if (pid == 0) {
        out = fopen(outpath, "a");
        if (out == NULL) _exit(2);
        signal(SIGABRT, crash_handler); signal(SIGSEGV, crash_handler);
        signal(SIGFPE, crash_handler);  signal(SIGBUS, crash_handler);
        signal(SIGALRM, crash_handler); alarm(60);      /* a history that does not end hangs inside the library: recorded as a crash */
        fn(a, b);
        fclose(out);
        _exit(0);
    }
    int st = 0;
    waitpid(pid, &st, 0);
    return st;
}

static void child_gen(int idx, int maxops) { fprintf(stderr, "#HIST %d\n", idx); fflush(stderr); rs = rs * 6364136223846793005ull + (uint64_t)idx * 1442695040888963407ull + 1u; rnd(); gen_history(idx, maxops); }
static void child_script(int a, int b) { (void)a; (void)b; run_script(); }

int main(int argc, char **argv)
{
    cmb_logger_flags_off(CMB_LOGGER_INFO);
    if (argc == 6 && strcmp(argv[1], "gen") == 0) {
        rs = strtoull(argv[2], NULL, 10) * 2654435761u + 88172645463325252ull;
        const int nhist = atoi(argv[3]), maxops = atoi(argv[4]);
        FILE *f = fopen(argv[5], "w"); if (f == NULL) return 2; fclose(f);
        int crashes = 0;
        for (int h = 0; h < nhist; h++) if (in_child(child_gen, h, maxops, argv[5]) != 0) crashes++;
        return crashes ? 3 : 0;
    }
    if (argc == 4 && strcmp(argv[1], "script") == 0) {
        FILE *in = fopen(argv[2], "r"); if (in == NULL) return 2;
        char buf[65536];
        while (nscript < MAXL && fgets(buf, sizeof buf, in) != NULL) script[nscript++] = strdup(buf);
        fclose(in);
        if (nscript == 0) return 2;
        FILE *f = fopen(argv[3], "w"); if (f == NULL) return 2; fclose(f);
        return in_child(child_script, 0, 0, argv[3]) != 0 ? 3 : 0;
    }
    fprintf(stderr, "usage: evq_replay gen <seed> <nhist> <maxops> <out> | script <history> <out>\n");
    return 2;
}
