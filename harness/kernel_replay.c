/*
 * kernel_replay - run process programs against the real cimba process kernel
 * (processes, timers, waits, interrupts, stop/exit, resources, pools, buffers,
 * object queues, priority queues, conditions, recording) and record an ndjson
 * trace in the event vocabulary of spec/KMon.tla (properties C04-C09, C11-C14,
 * and C10 through the crash records).
 *
 *   kernel_replay run <programs.txt> <out.ndjson>
 *
 * Program text (one or more programs per file):
 *   prog <id>
 *   cap res=<n> pool=<c> buf=<c> oq=<c> pq=<c>
 *   proc <pid> <prio> <autostart> : <instr> ; <instr> ; ...
 *   uev <idx> <time> <prio> : <instr>
 *   end
 *
 * The harness never judges. It keeps only the bookkeeping any user program
 * would keep (what it holds, which handles it got) to skip instructions whose
 * documented precondition is not met (logged as Skip).
 * Every program runs in a forked child: a library abort ends one program only.
 */
#include <stdio.h>
#include <stdlib.h>
#include <string.h>
#include <stdint.h>
#include <stdbool.h>
#include <math.h>
#include <signal.h>
#include <unistd.h>
#include <sys/wait.h>

#include "cimba.h"
#include "cmb_priorityqueue.h"
#include "cmi_hashheap.h"
#include "cmi_slist.h"
#include "cmi_verif.h"

#define MAXP 12
#define MAXI 12
#define MAXR 2
#define MAXUEV 4
#define MAXT 8
#define MAXOBJ 16
#define NFLAG 2

#ifdef CMI_VERIF_ASAN
extern void cmi_verif_fiber_entered(void);
#define FIBER_ENTERED() cmi_verif_fiber_entered()
#else
#define FIBER_ENTERED() ((void)0)
#endif

struct instr { char op[12]; long a[3]; int na; };
struct pdef { int prio, autostart, n; struct instr code[MAXI]; };
struct uevdef { long t, pr; struct instr in; };
struct program {
    long id; int np, nres, nuev;
    long poolcap, bufcap, oqcap, pqcap;
    int bufunit;                /* buffer amounts are in units of 2^bufunit (to reach the top of the uint64 range) */
    struct pdef p[MAXP + 1];
    struct uevdef uev[MAXUEV + 1];
};

static FILE *out;
static struct program P;

/* live objects */
static struct cmb_process *proc[MAXP + 1];
static struct cmb_resource *res[MAXR + 1];
static struct cmb_resourcepool *pool;
static struct cmb_buffer *buf;
static struct cmb_objectqueue *oq;
static struct cmb_priorityqueue *pq;
static struct cmb_condition *cond;
static uint64_t uev_handle[MAXUEV + 1];
static int flag[NFLAG];

/* per-process bookkeeping a user program would keep */
static uint64_t timers[MAXP + 1][MAXT]; static int ntimers[MAXP + 1];
static uint64_t pqh[MAXP + 1][MAXT];    static int npqh[MAXP + 1];
static uint64_t allpqh[MAXOBJ * 2];     static int nallpqh;
static uint64_t amnt[MAXP + 1];          /* progress slot of a buffer call */
static int entered[MAXP + 1];            /* set while the process function of the process is active (between Enter and its end) */
static int in_yield[MAXP + 1];           /* set while the process is inside cmb_process_yield() */
static int cwait_pred[MAXP + 1];         /* predicate id while the process is inside cmb_condition_wait(), else -1 */
static int nsub;                         /* number of registrations of the condition as an observer */
static int nsubg[2];                     /* ... of resource 1's guard / of the buffer's front guard */
static int running_pid;                  /* pid whose code is executing, 0 = dispatcher */

static void crash_handler(int sig)
{
    if (out != NULL) { fprintf(out, "{\"e\":\"Crash\",\"sig\":%d}\n", sig); fflush(out); }
    _exit(sig == SIGALRM ? 4 : 3);
}

static int pid_of(const void *pp)
{
    for (int i = 1; i <= P.np; i++) if ((const void *)proc[i] == pp) return i;
    return 0;
}

/* guards: 1..nres resource guards, then pool, buf front/rear, oq front/rear, pq front/rear, cond */
enum { G_POOL = MAXR + 1, G_BUFF, G_BUFR, G_OQF, G_OQR, G_PQF, G_PQR, G_COND, NGUARD };
static struct cmb_resourceguard *guard_ptr(int g)
{
    if (g >= 1 && g <= P.nres) return &(res[g]->guard);
    switch (g) {
    case G_POOL: return &(pool->guard);
    case G_BUFF: return &(buf->front_guard);
    case G_BUFR: return &(buf->rear_guard);
    case G_OQF:  return &(oq->front_guard);
    case G_OQR:  return &(oq->rear_guard);
    case G_PQF:  return &(pq->front_guard);
    case G_PQR:  return &(pq->rear_guard);
    case G_COND: return &(cond->guard);
    default: return NULL;
    }
}
static int guard_of(const void *rgp)
{
    for (int g = 1; g < NGUARD; g++) if ((const void *)guard_ptr(g) == rgp) return g;
    return 0;
}

static long now(void) { return (long)cmb_time(); }
#define BUNIT(x) (((uint64_t)(x)) << P.bufunit)
static long bunits(uint64_t v) { return (v == CMB_UNLIMITED || v > (UINT64_MAX >> 1 << 1)) ? -1 : (long)(v >> P.bufunit); }
static bool bexact(uint64_t v) { return P.bufunit == 0 || (v & ((UINT64_C(1) << P.bufunit) - 1u)) == 0u; }
static int slist_len(const struct cmi_slist_head *h) { int n = 0; while (h->next != NULL) { n++; h = h->next; } return n; }

/* ---------- snapshot of everything the public queries and public fields show */
static void snap(void)
{
    fprintf(out, "{\"e\":\"Snap\",\"t\":%ld,\"st\":[", now());
    for (int i = 1; i <= P.np; i++) fprintf(out, "%s%d", i > 1 ? "," : "", (int)cmb_process_status(proc[i]));
    fprintf(out, "],\"prio\":[");
    for (int i = 1; i <= P.np; i++) fprintf(out, "%s%ld", i > 1 ? "," : "", (long)cmb_process_priority(proc[i]));
    fprintf(out, "],\"xv\":[");
    for (int i = 1; i <= P.np; i++)
        fprintf(out, "%s%ld", i > 1 ? "," : "", cmb_process_status(proc[i]) == CMB_PROCESS_FINISHED ? (long)(intptr_t)cmb_process_exit_value(proc[i]) : 0L);
    fprintf(out, "],\"pend\":[");
    for (int i = 1; i <= P.np; i++) fprintf(out, "%s%llu", i > 1 ? "," : "", (unsigned long long)cmb_event_pattern_count(CMB_ANY_ACTION, proc[i], CMB_ANY_OBJECT));
    fprintf(out, "],\"naw\":[");
    for (int i = 1; i <= P.np; i++) fprintf(out, "%s%d", i > 1 ? "," : "", slist_len(&(proc[i]->awaits)));
    fprintf(out, "],\"nhold\":[");
    for (int i = 1; i <= P.np; i++) fprintf(out, "%s%d", i > 1 ? "," : "", slist_len(&(proc[i]->resources)));
    fprintf(out, "],\"res\":[");
    for (int r = 1; r <= P.nres; r++) {
        int holder = 0, nh = 0;
        for (int i = 1; i <= P.np; i++) if (cmb_resource_held_by_process(res[r], proc[i]) > 0u) { holder = i; nh++; }
        fprintf(out, "%s{\"inuse\":%llu,\"avail\":%llu,\"holder\":%d}", r > 1 ? "," : "",
                (unsigned long long)cmb_resource_in_use(res[r]), (unsigned long long)cmb_resource_available(res[r]),
                nh > 1 ? -1 : holder);
    }
    fprintf(out, "],\"pool\":{\"inuse\":%llu,\"avail\":%llu,\"held\":[", (unsigned long long)cmb_resourcepool_in_use(pool),
            (unsigned long long)cmb_resourcepool_available(pool));
    for (int i = 1; i <= P.np; i++) fprintf(out, "%s%llu", i > 1 ? "," : "", (unsigned long long)cmb_resourcepool_held_by_process(pool, proc[i]));
    fprintf(out, "]},\"buf\":{\"level\":%ld,\"space\":%ld,\"exact\":%s},\"amnt\":[", bunits(cmb_buffer_level(buf)),
            P.bufcap < 0 ? -1L : bunits(cmb_buffer_space(buf)), (bexact(cmb_buffer_level(buf)) ? "true" : "false"));
    /* the progress slot of a process that has ended inside a buffer call is a dead variable: reported as 0 */
    for (int i = 1; i <= P.np; i++) fprintf(out, "%s%ld", i > 1 ? "," : "", cmb_process_status(proc[i]) == CMB_PROCESS_RUNNING ? bunits(amnt[i]) : 0L);
    /* object queue contents through the position query */
    fprintf(out, "],\"oq\":{\"len\":%llu,\"space\":%lld,\"pos\":[", (unsigned long long)cmb_objectqueue_length(oq), P.oqcap < 0 ? -1LL : (long long)cmb_objectqueue_space(oq));
    for (int o = 1; o < MAXOBJ; o++) fprintf(out, "%s%llu", o > 1 ? "," : "", (unsigned long long)cmb_objectqueue_position(oq, (void *)(intptr_t)o));
    fprintf(out, "]},\"pq\":{\"len\":%llu,\"space\":%lld,\"pos\":[", (unsigned long long)cmb_priorityqueue_length(pq), P.pqcap < 0 ? -1LL : (long long)cmb_priorityqueue_space(pq));
    for (int k = 0; k < nallpqh; k++) fprintf(out, "%s[%llu,%llu]", k ? "," : "", (unsigned long long)allpqh[k], (unsigned long long)cmb_priorityqueue_position(pq, allpqh[k]));
    fprintf(out, "]},\"gq\":[");
    for (int g = 1; g < NGUARD; g++) {
        fprintf(out, "%s[", g > 1 ? "," : "");
        struct cmb_resourceguard *rgp = guard_ptr(g);
        bool first = true;
        if (rgp != NULL) {
            for (int i = 1; i <= P.np; i++)
                if (cmi_hashheap_is_enqueued((struct cmi_hashheap *)rgp, (uint64_t)proc[i])) { fprintf(out, "%s%d", first ? "" : ",", i); first = false; }
        }
        fprintf(out, "]");
    }
    fprintf(out, "],\"uev\":[");
    for (int e = 1; e <= P.nuev; e++) fprintf(out, "%s%d", e > 1 ? "," : "", cmb_event_is_scheduled(uev_handle[e]) ? 1 : 0);
    fprintf(out, "],\"evq\":%llu}\n", (unsigned long long)cmb_event_queue_count());
    fflush(out);
}

/* ---------- recorded histories */
static struct cmb_timeseries *history_of(int o)
{
    if (o >= 1 && o <= P.nres) return cmb_resource_history(res[o]);
    switch (o) {
    case G_POOL: return cmb_resourcepool_get_history(pool);
    case G_BUFF: return cmb_buffer_history(buf);
    case G_OQF:  return cmb_objectqueue_history(oq);
    case G_PQF:  return cmb_priorityqueue_history(pq);
    default: return NULL;
    }
}
static void log_hist(int o)
{
    struct cmb_timeseries *ts = history_of(o);
    if (ts == NULL) return;
    const uint64_t n = ts->ds.count;
    fprintf(out, "{\"e\":\"Hist\",\"o\":%d,\"t\":%ld,\"n\":%llu,\"xs\":[", o, now(), (unsigned long long)n);
    /* buffer levels are reported in the program's units (2^bufunit), like everything else about the buffer */
    const double unit = (o == G_BUFF) ? ldexp(1.0, P.bufunit) : 1.0;
    for (uint64_t k = 0; k < n && k < 5000u; k++) fprintf(out, "%s%ld", k ? "," : "", (long)(ts->ds.xa[k] / unit));
    fprintf(out, "],\"ts\":[");
    for (uint64_t k = 0; k < n && k < 5000u; k++) fprintf(out, "%s%ld", k ? "," : "", (long)ts->ta[k]);
    /* the library's time-weighted mean, scaled by the total duration: sum of value*duration, rounded */
    long wsum = 0, wtot = 0;
    if (n > 0u) {
        struct cmb_wtdsummary ws;
        cmb_wtdsummary_initialize(&ws);
        (void)cmb_timeseries_summarize(ts, &ws);
        const double mean = ((cmb_wtdsummary_count(&ws) > 0u) ? cmb_wtdsummary_mean(&ws) : 0.0) / unit;
        const double tot = ts->ta[n - 1u] - ts->ta[0];
        wsum = (long)(mean * tot * 1000.0 + (mean * tot >= 0 ? 0.5 : -0.5));   /* milli-units */
        wtot = (long)tot;
        cmb_wtdsummary_terminate(&ws);
    }
    fprintf(out, "],\"wsum_milli\":%ld,\"dur\":%ld}\n", wsum, wtot);
    fflush(out);
}

/* ---------- hooks */
static void sink(const char *ev, uint64_t u, const void *p, const void *q, int64_t i, double d)
{
    if (strcmp(ev, "Exec") == 0) {
        fprintf(out, "{\"e\":\"Exec\",\"h\":%llu,\"t\":%ld,\"pr\":%ld,\"subj\":%d}\n", (unsigned long long)u, (long)d, (long)i, pid_of(q));
    }
    else if (strncmp(ev, "Wake.", 5) == 0) {
        fprintf(out, "{\"e\":\"Wake\",\"k\":\"%s\",\"p\":%d,\"sig\":%ld,\"t\":%ld}\n", ev + 5, pid_of(p), (long)i, now());
    }
    else if (strcmp(ev, "GuardEnq") == 0) {
        fprintf(out, "{\"e\":\"GuardEnq\",\"g\":%d,\"p\":%d,\"pr\":%ld,\"t\":%ld}\n", guard_of(p), pid_of(q), (long)i, (long)d);
    }
    else if (strcmp(ev, "GuardGrant") == 0) {
        fprintf(out, "{\"e\":\"GuardGrant\",\"g\":%d,\"p\":%d,\"all\":%d,\"t\":%ld}\n", guard_of(p), pid_of(q), (int)u, now());
    }
    else if (strcmp(ev, "GuardLeave") == 0) {
        fprintf(out, "{\"e\":\"GuardLeave\",\"g\":%d,\"p\":%d,\"sig\":%ld,\"t\":%ld}\n", guard_of(p), pid_of(q), (long)i, now());
    }
    else if (strcmp(ev, "GuardCancel") == 0 || strcmp(ev, "GuardRemove") == 0) {
        fprintf(out, "{\"e\":\"%s\",\"g\":%d,\"p\":%d,\"t\":%ld}\n", ev, guard_of(p), pid_of(q), now());
    }
    fflush(out);
}

/* ---------- condition predicates (harness-owned data) */
static bool pred_eval(int pred)
{
    switch (pred) {
    case 0: return flag[0] != 0;
    case 1: return flag[1] != 0;
    case 2: return cmb_resource_available(res[1]) > 0u;
    default: return cmb_buffer_level(buf) >= 2u;
    }
}
static bool cond_demand(const struct cmb_condition *c, const struct cmb_process *pp, const void *ctx)
{
    (void)c;
    const int pred = (int)(intptr_t)ctx;
    const bool v = pred_eval(pred);
    if (cmi_verif_sink != NULL)      /* not during the unlogged teardown */
        fprintf(out, "{\"e\":\"Pred\",\"p\":%d,\"pred\":%d,\"v\":%s}\n", pid_of(pp), pred, v ? "true" : "false");
    return v;
}

/* the harness owns the predicates: their truth for every process inside cmb_condition_wait(), as of now
 * (released = a resource about to be released, which predicate 2 must already see as free) */
static void log_truths_with(long released)
{
    for (int i = 1; i <= P.np; i++) {
        if (cwait_pred[i] >= 0 && cmb_process_status(proc[i]) == CMB_PROCESS_RUNNING) {   /* not one that was stopped inside its wait */
            bool v = pred_eval(cwait_pred[i]);
            if (cwait_pred[i] == 2 && released == 1) v = true;
            fprintf(out, "{\"e\":\"Truth\",\"p\":%d,\"pred\":%d,\"v\":%s}\n", i, cwait_pred[i], v ? "true" : "false");
        }
    }
}
static void log_truths(void) { log_truths_with(0); }

/* ---------- weak references to documented entry points that may be missing */
extern bool cmb_condition_cancel(struct cmb_condition *cvp, struct cmb_process *pp) __attribute__((weak));
extern bool cmb_condition_remove(struct cmb_condition *cvp, const struct cmb_process *pp) __attribute__((weak));

/* ---------- the instruction interpreter */
static void user_event_action(void *subject, void *object);

static void log_call(int me, const struct instr *in)
{
    fprintf(out, "{\"e\":\"Call\",\"p\":%d,\"op\":\"%s\",\"a\":[%ld,%ld,%ld],\"t\":%ld}\n", me, in->op, in->a[0], in->a[1], in->a[2], now());
    fflush(out);
}
static void log_ret(int me, const struct instr *in, long sig, long o1, long o2)
{
    fprintf(out, "{\"e\":\"Ret\",\"p\":%d,\"op\":\"%s\",\"a\":[%ld,%ld,%ld],\"sig\":%ld,\"out\":[%ld,%ld],\"t\":%ld}\n",
            me, in->op, in->a[0], in->a[1], in->a[2], sig, o1, o2, now());
    snap();
}
static void log_do(int me, const struct instr *in, long r1, long r2)
{
    fprintf(out, "{\"e\":\"Do\",\"p\":%d,\"op\":\"%s\",\"a\":[%ld,%ld,%ld],\"out\":[%ld,%ld],\"t\":%ld}\n",
            me, in->op, in->a[0], in->a[1], in->a[2], r1, r2, now());
    snap();
}
static void log_skip(int me, const struct instr *in, const char *why)
{
    fprintf(out, "{\"e\":\"Skip\",\"p\":%d,\"op\":\"%s\",\"why\":\"%s\",\"t\":%ld}\n", me, in->op, why, now());
    fflush(out);
}
static bool is_op(const struct instr *in, const char *op) { return strcmp(in->op, op) == 0; }
static bool valid_pid(long q) { return q >= 1 && q <= P.np; }
static bool alive(long q) { return valid_pid(q) && cmb_process_status(proc[q]) == CMB_PROCESS_RUNNING; }

/*
 * Execute one instruction on behalf of process `me` (0 = a user event running
 * in dispatcher context, where only non-blocking instructions are legal).
 * Returns false if the process must stop interpreting (it has ended).
 */
static bool exec_instr(int me, const struct instr *in)
{
    struct cmb_process *self = (me > 0) ? proc[me] : NULL;
    const long a0 = in->a[0], a1 = in->a[1], a2 = in->a[2];

    /* ---- blocking calls (process context only) */
    if (is_op(in, "hold")) {
        log_call(me, in);
        const int64_t sig = cmb_process_hold((double)a0);
        log_ret(me, in, (long)sig, 0, 0);
    }
    else if (is_op(in, "yield")) {
        log_call(me, in);
        in_yield[me] = 1;
        const int64_t sig = cmb_process_yield();
        in_yield[me] = 0;
        log_ret(me, in, (long)sig, 0, 0);
    }
    else if (is_op(in, "wproc")) {
        if (!valid_pid(a0) || a0 == me) { log_skip(me, in, "bad-target"); return true; }
        log_call(me, in);
        const int64_t sig = cmb_process_wait_process(proc[a0]);
        log_ret(me, in, (long)sig, 0, 0);
    }
    else if (is_op(in, "wevent")) {
        if (a0 < 1 || a0 > P.nuev || !cmb_event_is_scheduled(uev_handle[a0])) { log_skip(me, in, "event-not-scheduled"); return true; }
        log_call(me, in);
        const int64_t sig = cmb_process_wait_event(uev_handle[a0]);
        log_ret(me, in, (long)sig, 0, 0);
    }
    else if (is_op(in, "acq") || is_op(in, "pre")) {
        if (a0 < 1 || a0 > P.nres) { log_skip(me, in, "bad-resource"); return true; }
        if (cmb_resource_held_by_process(res[a0], self) > 0u) { log_skip(me, in, "already-holds"); return true; }
        log_call(me, in);
        const int64_t sig = is_op(in, "acq") ? cmb_resource_acquire(res[a0]) : cmb_resource_preempt(res[a0]);
        log_ret(me, in, (long)sig, 0, 0);
    }
    else if (is_op(in, "pacq") || is_op(in, "ppre")) {
        if (a0 < 1 || a0 > P.poolcap) { log_skip(me, in, "bad-amount"); return true; }
        /* asking for more than can ever be had while holding some would never complete: keep total <= capacity */
        if ((long)cmb_resourcepool_held_by_process(pool, self) + a0 > P.poolcap) { log_skip(me, in, "total-exceeds-capacity"); return true; }
        log_call(me, in);
        const int64_t sig = is_op(in, "pacq") ? cmb_resourcepool_acquire(pool, (uint64_t)a0) : cmb_resourcepool_preempt(pool, (uint64_t)a0);
        log_ret(me, in, (long)sig, (long)cmb_resourcepool_held_by_process(pool, self), 0);
    }
    else if (is_op(in, "bput") || is_op(in, "bget")) {
        if (a0 < (is_op(in, "bput") ? 1 : 0)) { log_skip(me, in, "bad-amount"); return true; }
        amnt[me] = BUNIT(a0);
        log_call(me, in);
        const int64_t sig = is_op(in, "bput") ? cmb_buffer_put(buf, &amnt[me]) : cmb_buffer_get(buf, &amnt[me]);
        const long rep = bexact(amnt[me]) ? bunits(amnt[me]) : -7;
        amnt[me] = 0u;
        log_ret(me, in, (long)sig, rep, 0);
    }
    else if (is_op(in, "qput")) {
        log_call(me, in);
        const int64_t sig = cmb_objectqueue_put(oq, (void *)(intptr_t)a0);
        log_ret(me, in, (long)sig, 0, 0);
    }
    else if (is_op(in, "qget")) {
        void *obj = (void *)(intptr_t)-7;
        log_call(me, in);
        const int64_t sig = cmb_objectqueue_get(oq, &obj);
        log_ret(me, in, (long)sig, (long)(intptr_t)obj, 0);
    }
    else if (is_op(in, "pqput")) {
        uint64_t h = 0u;
        log_call(me, in);
        const int64_t sig = cmb_priorityqueue_put(pq, (void *)(intptr_t)a0, (int64_t)a1, &h);
        if (sig == CMB_PROCESS_SUCCESS) {
            if (npqh[me] < MAXT) pqh[me][npqh[me]++] = h;
            if (nallpqh < MAXOBJ * 2) allpqh[nallpqh++] = h;
        }
        log_ret(me, in, (long)sig, (long)h, 0);
    }
    else if (is_op(in, "pqget")) {
        void *obj = (void *)(intptr_t)-7;
        log_call(me, in);
        const int64_t sig = cmb_priorityqueue_get(pq, &obj);
        log_ret(me, in, (long)sig, (long)(intptr_t)obj, 0);
    }
    else if (is_op(in, "cwait")) {
        log_call(me, in);
        cwait_pred[me] = (int)a0;
        const int64_t sig = cmb_condition_wait(cond, cond_demand, (void *)(intptr_t)a0);
        cwait_pred[me] = -1;
        log_ret(me, in, (long)sig, 0, 0);
    }
    /* ---- non-blocking calls */
    else if (is_op(in, "tadd")) {
        if (me == 0 || ntimers[me] >= MAXT) { log_skip(me, in, "no-slot"); return true; }
        const uint64_t h = cmb_process_timer_add(self, (double)a0, (int64_t)a1);
        timers[me][ntimers[me]++] = h;
        log_do(me, in, (long)h, ntimers[me]);
    }
    else if (is_op(in, "taddo")) {
        /* a timer armed FOR ANOTHER process ("pp: usually the calling process itself"): target a0, duration a1, signal a2;
         * the target must be inside its process function and suspended (it is not the caller) */
        if (!valid_pid(a0) || a0 == me || !entered[a0] || cmb_process_status(proc[a0]) != CMB_PROCESS_RUNNING || ntimers[a0] >= MAXT || a2 == 0) {
            log_skip(me, in, "bad-target"); return true; }
        const uint64_t h = cmb_process_timer_add(proc[a0], (double)a1, (int64_t)a2);
        timers[a0][ntimers[a0]++] = h;
        log_do(me, in, (long)h, ntimers[a0]);
    }
    else if (is_op(in, "tcancel")) {
        if (me == 0 || a0 < 1 || a0 > ntimers[me]) { log_skip(me, in, "no-such-timer"); return true; }
        const bool r = cmb_process_timer_cancel(self, timers[me][a0 - 1]);
        log_do(me, in, r ? 1 : 0, (long)timers[me][a0 - 1]);
    }
    else if (is_op(in, "tclear")) {
        if (me == 0) { log_skip(me, in, "dispatcher"); return true; }
        cmb_process_timers_clear(self);
        log_do(me, in, 0, 0);
    }
    else if (is_op(in, "resume")) {
        /* documented for a process that has yielded; the harness cannot know more than that it is suspended */
        if (!alive(a0) || a0 == me || !in_yield[a0]) { log_skip(me, in, "target-not-yielded"); return true; }
        cmb_process_resume(proc[a0], (int64_t)a1);
        log_do(me, in, 0, 0);
    }
    else if (is_op(in, "intr")) {
        if (!alive(a0) || a0 == me || a1 == 0) { log_skip(me, in, "target-not-suspended"); return true; }
        cmb_process_interrupt(proc[a0], (int64_t)a1, (int64_t)a2);
        log_do(me, in, 0, 0);
    }
    else if (is_op(in, "stop")) {
        if (!valid_pid(a0)) { log_skip(me, in, "bad-target"); return true; }
        if (!alive(a0)) { log_skip(me, in, "target-not-running"); return true; }
        fprintf(out, "{\"e\":\"StopCall\",\"p\":%d,\"q\":%ld,\"val\":%ld,\"t\":%ld}\n", me, a0, a1, now());
        entered[a0] = 0;
        fflush(out);
        cmb_process_stop(proc[a0], (void *)(intptr_t)a1);
        /* only reached when the target is another process */
        log_do(me, in, 0, 0);
        return a0 != me;
    }
    else if (is_op(in, "exit")) {
        if (me == 0) { log_skip(me, in, "dispatcher"); return true; }
        fprintf(out, "{\"e\":\"ExitCall\",\"p\":%d,\"val\":%ld,\"t\":%ld}\n", me, a0, now());
        entered[me] = 0;
        fflush(out);
        cmb_process_exit((void *)(intptr_t)a0);
        return false;   /* not reached */
    }
    else if (is_op(in, "prio")) {
        if (!valid_pid(a0)) { log_skip(me, in, "bad-target"); return true; }
        cmb_process_priority_set(proc[a0], (int64_t)a1);
        log_do(me, in, 0, 0);
    }
    else if (is_op(in, "start")) {
        if (!valid_pid(a0) || a0 == me || cmb_process_status(proc[a0]) == CMB_PROCESS_RUNNING
            || cmb_event_pattern_count(CMB_ANY_ACTION, proc[a0], CMB_ANY_OBJECT) > 0u) { log_skip(me, in, "target-running-or-start-pending"); return true; }
        cmb_process_start(proc[a0]);
        log_do(me, in, 0, 0);
    }
    else if (is_op(in, "rel")) {
        if (me == 0 || a0 < 1 || a0 > P.nres || cmb_resource_held_by_process(res[a0], self) == 0u) { log_skip(me, in, "not-holder"); return true; }
        if (nsub > 0) {
            /* the state as it will be when the guard (and the observing condition) is signalled */
            fprintf(out, "{\"e\":\"FwdBegin\",\"p\":%d,\"g\":%ld,\"t\":%ld}\n", me, a0, now());
            log_truths_with(a0);
        }
        cmb_resource_release(res[a0]);
        log_do(me, in, 0, 0);
    }
    else if (is_op(in, "prel")) {
        if (me == 0 || a0 < 1 || (long)cmb_resourcepool_held_by_process(pool, self) < a0) { log_skip(me, in, "holds-less"); return true; }
        cmb_resourcepool_release(pool, (uint64_t)a0);
        log_do(me, in, (long)cmb_resourcepool_held_by_process(pool, self), 0);
    }
    else if (is_op(in, "pqcancel")) {
        if (a0 < 1 || a0 > nallpqh) { log_skip(me, in, "no-handle"); return true; }
        const bool r = cmb_priorityqueue_cancel(pq, allpqh[a0 - 1]);
        log_do(me, in, r ? 1 : 0, (long)allpqh[a0 - 1]);
    }
    else if (is_op(in, "pqreprio")) {
        if (a0 < 1 || a0 > nallpqh || cmb_priorityqueue_position(pq, allpqh[a0 - 1]) == 0u) { log_skip(me, in, "not-queued"); return true; }
        cmb_priorityqueue_reprioritize(pq, allpqh[a0 - 1], (int64_t)a1);
        log_do(me, in, 0, (long)allpqh[a0 - 1]);
    }
    else if (is_op(in, "csig")) {
        fprintf(out, "{\"e\":\"CSigBegin\",\"p\":%d,\"t\":%ld}\n", me, now());
        log_truths();
        const bool r = cmb_condition_signal(cond);
        log_do(me, in, r ? 1 : 0, 0);
    }
    else if (is_op(in, "ccancel") || is_op(in, "cremove")) {
        if (!valid_pid(a0) || a0 == me) { log_skip(me, in, "bad-target"); return true; }
        if (cmb_condition_cancel == NULL || cmb_condition_remove == NULL) {
            fprintf(out, "{\"e\":\"Missing\",\"sym\":\"%s\",\"t\":%ld}\n", is_op(in, "ccancel") ? "cmb_condition_cancel" : "cmb_condition_remove", now());
            fflush(out);
            return true;
        }
        const bool r = is_op(in, "ccancel") ? cmb_condition_cancel(cond, proc[a0]) : cmb_condition_remove(cond, proc[a0]);
        log_do(me, in, r ? 1 : 0, 0);
    }
    else if (is_op(in, "csub")) {
        /* subscribe the condition to the guard of resource 1 / the buffer front guard */
        cmb_condition_subscribe(cond, a0 == 0 ? &(res[1]->guard) : &(buf->front_guard));
        nsub++; nsubg[a0 == 0 ? 0 : 1]++;
        log_do(me, in, 0, 0);
    }
    else if (is_op(in, "cunsub")) {
        /* take one registration back; the result says whether there was one */
        const bool r = cmb_condition_unsubscribe(cond, a0 == 0 ? &(res[1]->guard) : &(buf->front_guard));
        if (r && nsubg[a0 == 0 ? 0 : 1] > 0) { nsub--; nsubg[a0 == 0 ? 0 : 1]--; }
        log_do(me, in, r ? 1 : 0, 0);
    }
    else if (is_op(in, "setflag")) {
        if (a0 < 0 || a0 >= NFLAG) { log_skip(me, in, "bad-flag"); return true; }
        flag[a0] = (int)a1;
        log_do(me, in, 0, 0);
    }
    else if (is_op(in, "rec")) {
        /* a0 = object (guard numbering: resource r, G_POOL, G_BUFF, G_OQF, G_PQF), a1 = 1 start / 0 stop */
        const int o = (int)a0;
        if (history_of(o) == NULL) { log_skip(me, in, "bad-object"); return true; }
        if (a1) {
            if (o <= P.nres) cmb_resource_start_recording(res[o]);
            else if (o == G_POOL) cmb_resourcepool_start_recording(pool);
            else if (o == G_BUFF) cmb_buffer_recording_start(buf);
            else if (o == G_OQF) cmb_objectqueue_recording_start(oq);
            else cmb_priorityqueue_recording_start(pq);
            log_do(me, in, 0, 0);
        }
        else {
            if (o <= P.nres) cmb_resource_stop_recording(res[o]);
            else if (o == G_POOL) cmb_resourcepool_stop_recording(pool);
            else if (o == G_BUFF) cmb_buffer_recording_stop(buf);
            else if (o == G_OQF) cmb_objectqueue_recording_stop(oq);
            else cmb_priorityqueue_recording_stop(pq);
            log_do(me, in, 0, 0);
            log_hist(o);
        }
    }
    else if (is_op(in, "evcancel")) {
        if (a0 < 1 || a0 > P.nuev) { log_skip(me, in, "bad-event"); return true; }
        const bool r = cmb_event_cancel(uev_handle[a0]);
        log_do(me, in, r ? 1 : 0, 0);
    }
    else if (is_op(in, "evresched")) {
        if (a0 < 1 || a0 > P.nuev || !cmb_event_is_scheduled(uev_handle[a0])) { log_skip(me, in, "event-not-scheduled"); return true; }
        cmb_event_reschedule(uev_handle[a0], cmb_time() + (double)a1);
        log_do(me, in, 0, 0);
    }
    else if (is_op(in, "nop")) {
        log_do(me, in, 0, 0);
    }
    else {
        log_skip(me, in, "unknown-op");
    }
    return true;
}

static void *procfn(struct cmb_process *me_p, void *ctx)
{
    FIBER_ENTERED();
    const int me = (int)(intptr_t)ctx;
    running_pid = me;
    fprintf(out, "{\"e\":\"Enter\",\"p\":%d,\"self_ok\":%s,\"naw\":%d,\"nhold\":%d,\"t\":%ld}\n", me,
            (me_p == proc[me]) ? "true" : "false", slist_len(&(me_p->awaits)), slist_len(&(me_p->resources)), now());
    ntimers[me] = 0;
    cwait_pred[me] = -1;
    amnt[me] = 0u; in_yield[me] = 0;      /* a restarted process: the slots of its previous life are dead */
    entered[me] = 1;
    snap();
    for (int k = 0; k < P.p[me].n; k++) {
        const struct instr *in = &(P.p[me].code[k]);
        if (strcmp(in->op, "rep") == 0) {
            /* rep <n> <m>: run the next m instructions n times (long histories: data arrays grow at 1024, 2048, ...) */
            const int m = (int)in->a[1];
            bool go = true;
            for (long r = 0; r < in->a[0] && go; r++)
                for (int j = 1; j <= m && k + j < P.p[me].n && go; j++) go = exec_instr(me, &(P.p[me].code[k + j]));
            if (!go) break;
            k += m;
            continue;
        }
        if (!exec_instr(me, in)) break;
    }
    fprintf(out, "{\"e\":\"Return\",\"p\":%d,\"val\":%d,\"t\":%ld}\n", me, 100 + me, now());
    entered[me] = 0;
    fflush(out);
    return (void *)(intptr_t)(100 + me);
}

static void user_event_action(void *subject, void *object)
{
    (void)subject;
    const int e = (int)(intptr_t)object;
    fprintf(out, "{\"e\":\"UEvent\",\"i\":%d,\"t\":%ld}\n", e, now());
    (void)exec_instr(0, &(P.uev[e].in));
}

/* ---------- program parsing */
static bool parse_instr(char *txt, struct instr *in)
{
    memset(in, 0, sizeof *in);
    char *save = NULL;
    char *tok = strtok_r(txt, " \t\n", &save);
    if (tok == NULL) return false;
    snprintf(in->op, sizeof in->op, "%s", tok);
    while ((tok = strtok_r(NULL, " \t\n", &save)) != NULL && in->na < 3) in->a[in->na++] = strtol(tok, NULL, 10);
    return true;
}

static bool read_program(FILE *f)
{
    char line[2048];
    memset(&P, 0, sizeof P);
    bool started = false;
    while (fgets(line, sizeof line, f) != NULL) {
        if (strncmp(line, "prog", 4) == 0) { sscanf(line, "prog %ld", &P.id); started = true; P.nres = 1; P.poolcap = 2; P.bufcap = 2; P.oqcap = 1; P.pqcap = 1; }
        else if (!started) continue;
        else if (strncmp(line, "cap", 3) == 0) {
            sscanf(line, "cap res=%d pool=%ld buf=%ld oq=%ld pq=%ld bufunit=%d", &P.nres, &P.poolcap, &P.bufcap, &P.oqcap, &P.pqcap, &P.bufunit);
            if (P.bufunit < 0 || P.bufunit > 62) P.bufunit = 0;
        }
        else if (strncmp(line, "proc", 4) == 0) {
            int pid, prio, as;
            char *colon = strchr(line, ':');
            if (colon == NULL || sscanf(line, "proc %d %d %d", &pid, &prio, &as) != 3 || pid < 1 || pid > MAXP) continue;
            if (pid > P.np) P.np = pid;
            P.p[pid].prio = prio; P.p[pid].autostart = as; P.p[pid].n = 0;
            char *save = NULL;
            for (char *it = strtok_r(colon + 1, ";", &save); it != NULL && P.p[pid].n < MAXI; it = strtok_r(NULL, ";", &save)) {
                if (parse_instr(it, &(P.p[pid].code[P.p[pid].n]))) P.p[pid].n++;
            }
        }
        else if (strncmp(line, "uev", 3) == 0) {
            int idx; long t, pr;
            char *colon = strchr(line, ':');
            if (colon == NULL || sscanf(line, "uev %d %ld %ld", &idx, &t, &pr) != 3 || idx < 1 || idx > MAXUEV) continue;
            if (idx > P.nuev) P.nuev = idx;
            P.uev[idx].t = t; P.uev[idx].pr = pr;
            parse_instr(colon + 1, &(P.uev[idx].in));
        }
        else if (strncmp(line, "end", 3) == 0) return true;
    }
    return false;
}

static void log_prog(void)
{
    fprintf(out, "{\"e\":\"Prog\",\"id\":%ld,\"np\":%d,\"nres\":%d,\"poolcap\":%ld,\"bufcap\":%ld,\"oqcap\":%ld,\"pqcap\":%ld,\"bufunit\":%d,\"prio\":[",
            P.id, P.np, P.nres, P.poolcap, P.bufcap, P.oqcap, P.pqcap, P.bufunit);
    for (int i = 1; i <= P.np; i++) fprintf(out, "%s%d", i > 1 ? "," : "", P.p[i].prio);
    fprintf(out, "],\"auto\":[");
    for (int i = 1; i <= P.np; i++) fprintf(out, "%s%d", i > 1 ? "," : "", P.p[i].autostart);
    fprintf(out, "],\"code\":[");
    for (int i = 1; i <= P.np; i++) {
        fprintf(out, "%s[", i > 1 ? "," : "");
        for (int k = 0; k < P.p[i].n; k++) fprintf(out, "%s[\"%s\",%ld,%ld,%ld]", k ? "," : "", P.p[i].code[k].op, P.p[i].code[k].a[0], P.p[i].code[k].a[1], P.p[i].code[k].a[2]);
        fprintf(out, "]");
    }
    fprintf(out, "],\"uevs\":[");
    for (int e = 1; e <= P.nuev; e++) fprintf(out, "%s[%ld,%ld,\"%s\",%ld,%ld,%ld]", e > 1 ? "," : "", P.uev[e].t, P.uev[e].pr, P.uev[e].in.op, P.uev[e].in.a[0], P.uev[e].in.a[1], P.uev[e].in.a[2]);
    fprintf(out, "]}\n");
    fflush(out);
}

/* The end of a trial as the tutorials write it: processes terminated and destroyed, then the objects (for odd program
 * ids with an explicit _terminate before _destroy, as in tutorial/tut_1_*.c), then the event queue.  Processes still
 * suspended are stopped first (a model run normally ends with an explicit stop of whatever is still waiting).
 * Nothing of this is logged: the monitors and the model end at EndProg; what can show here is an abort or a
 * sanitizer report, which the C10 check attributes to this program. */
static void teardown(void)
{
    cmi_verif_sink = NULL;
    running_pid = 0;
    for (int i = 1; i <= P.np; i++)
        if (cmb_process_status(proc[i]) == CMB_PROCESS_RUNNING) cmb_process_stop(proc[i], NULL);
    for (int i = 1; i <= P.np; i++) { cmb_process_terminate(proc[i]); cmb_process_destroy(proc[i]); proc[i] = NULL; }
    const bool twice = (P.id % 2) == 1;
    for (int r = 1; r <= P.nres; r++) { if (twice) cmb_resource_terminate(res[r]); cmb_resource_destroy(res[r]); }
    if (twice) cmb_resourcepool_terminate(pool);
    cmb_resourcepool_destroy(pool);
    if (twice) cmb_buffer_terminate(buf);
    cmb_buffer_destroy(buf);
    if (twice) cmb_objectqueue_terminate(oq);
    cmb_objectqueue_destroy(oq);
    if (twice) cmb_priorityqueue_terminate(pq);
    cmb_priorityqueue_destroy(pq);
    if (twice) cmb_condition_terminate(cond);
    cmb_condition_destroy(cond);
    cmb_event_queue_terminate();
}

static void run_program(void)
{
    log_prog();
    cmb_event_queue_initialize(0.0);
    cmi_verif_sink = sink;
    for (int r = 1; r <= P.nres; r++) { res[r] = cmb_resource_create(); char nm[8]; snprintf(nm, sizeof nm, "R%d", r); cmb_resource_initialize(res[r], nm); }
    pool = cmb_resourcepool_create(); cmb_resourcepool_initialize(pool, "Pool", (uint64_t)P.poolcap);
    buf = cmb_buffer_create(); cmb_buffer_initialize(buf, "Buf", P.bufcap < 0 ? CMB_UNLIMITED : BUNIT(P.bufcap));
    oq = cmb_objectqueue_create(); cmb_objectqueue_initialize(oq, "OQ", P.oqcap < 0 ? CMB_UNLIMITED : (uint64_t)P.oqcap);
    pq = cmb_priorityqueue_create(); cmb_priorityqueue_initialize(pq, "PQ", P.pqcap < 0 ? CMB_UNLIMITED : (uint64_t)P.pqcap);
    cond = cmb_condition_create(); cmb_condition_initialize(cond, "Cond");
    for (int i = 1; i <= P.np; i++) { cwait_pred[i] = -1; entered[i] = 0; }
    nsub = 0; nsubg[0] = nsubg[1] = 0;
    for (int i = 1; i <= P.np; i++) {
        proc[i] = cmb_process_create();
        char nm[8]; snprintf(nm, sizeof nm, "P%d", i);
        cmb_process_initialize(proc[i], nm, procfn, (void *)(intptr_t)i, P.p[i].prio);
    }
    for (int e = 1; e <= P.nuev; e++)
        uev_handle[e] = cmb_event_schedule(user_event_action, NULL, (void *)(intptr_t)e, (double)P.uev[e].t, P.uev[e].pr);
    for (int i = 1; i <= P.np; i++) if (P.p[i].autostart) cmb_process_start(proc[i]);
    snap();
    int guard = 0;
    while (cmb_event_execute_next()) {
        running_pid = 0;
        fprintf(out, "{\"e\":\"Disp\",\"t\":%ld}\n", now());
        snap();
        if (++guard > (P.id >= 900000 ? 20000 : 400)) {
            /* a valid but non-terminating program (e.g. processes restarting each other): stop observing */
            fprintf(out, "{\"e\":\"Runaway\"}\n{\"e\":\"EndProg\",\"id\":%ld}\n", P.id);
            fflush(out);
            teardown();
            return;
        }
    }
    fprintf(out, "{\"e\":\"Quiescent\",\"t\":%ld}\n", now());
    snap();
    for (int o = 1; o < NGUARD; o++) {
        struct cmb_timeseries *ts = history_of(o);
        if (ts != NULL && ts->ds.count > 0u) log_hist(o);
    }
    fprintf(out, "{\"e\":\"EndProg\",\"id\":%ld}\n", P.id);
    fflush(out);
    teardown();
}

int main(int argc, char **argv)
{
    cmb_logger_flags_off(CMB_LOGGER_INFO);
    cmb_logger_flags_off(CMB_LOGGER_WARNING);
    if (argc != 4 || strcmp(argv[1], "run") != 0) { fprintf(stderr, "usage: kernel_replay run <programs> <out>\n"); return 2; }
    FILE *in = fopen(argv[2], "r");
    if (in == NULL) return 2;
    FILE *f = fopen(argv[3], "w"); if (f == NULL) return 2; fclose(f);
    int crashes = 0, n = 0, hangs = 0;
    while (read_program(in)) {
        fflush(NULL);
        pid_t pid = fork();
        if (pid == 0) {
            out = fopen(argv[3], "a");
            if (out == NULL) _exit(2);
            signal(SIGABRT, crash_handler); signal(SIGSEGV, crash_handler);
            signal(SIGFPE, crash_handler);  signal(SIGBUS, crash_handler);
            signal(SIGALRM, crash_handler); alarm(P.id >= 900000 ? 120 : 10);      /* stuck inside one library call (not a runaway program): a crash */
            fprintf(stderr, "#HIST %d\n", n); fflush(stderr);
            run_program();
            fclose(out);
            _exit(0);
        }
        int st = 0;
        waitpid(pid, &st, 0);
        if (st != 0) crashes++;
        if (WIFEXITED(st) && WEXITSTATUS(st) == 4 && ++hangs >= 3) break;   /* three programs stuck inside the library: enough said */
        n++;
    }
    fclose(in);
    return crashes ? 3 : 0;
}
