/*
 * hh_replay - drive the real cmi_hashheap through operation histories and
 * record an ndjson trace for spec/KeyedPQTrace.tla (property C02).
 *
 *   hh_replay gen <seed> <nhist> <maxops> <out.ndjson>
 *   hh_replay script <in.txt> <out.ndjson>
 *
 * The harness never judges: it logs arguments, return values and, after every
 * operation, what the public queries say about every key of the history's
 * universe. Validity of generated operations (documented preconditions) is
 * tracked in a trivial shadow table built from return values only.
 */
#include <stdio.h>
#include <stdlib.h>
#include <string.h>
#include <stdint.h>
#include <stdbool.h>
#include <signal.h>
#include <unistd.h>

#include "cimba.h"
#include "cmb_priorityqueue.h"
#include "cmi_hashheap.h"

static FILE *out;

static void crash_handler(int sig)
{
    if (out != NULL) {
        fprintf(out, "{\"op\":\"crash\",\"sig\":%d}\n", sig);
        fflush(out);
    }
    _exit(3);
}

/* ---------- comparators: the library's own, through public struct fields */
static const char *ord_names[] = { "default", "guard", "holder", "pq", "event" };
#define NORD 5
extern const struct cmi_hashheap *cmi_verif_event_queue(void);
static cmi_heap_compare_func *ord_funcs[NORD];
static bool ord_usable[NORD];

static bool model_before(int ord, const struct cmi_heap_tag *a, const struct cmi_heap_tag *b)
{
    switch (ord) {
    case 0: return a->dsortkey < b->dsortkey;
    case 1: if (a->isortkey != b->isortkey) return a->isortkey > b->isortkey;
            if (a->dsortkey != b->dsortkey) return a->dsortkey < b->dsortkey;
            return a->key < b->key;
    case 2: if (a->isortkey != b->isortkey) return a->isortkey < b->isortkey;
            return a->key > b->key;
    case 3: if (a->isortkey != b->isortkey) return a->isortkey > b->isortkey;
            return a->key < b->key;
    default: if (a->dsortkey != b->dsortkey) return a->dsortkey < b->dsortkey;
            if (a->isortkey != b->isortkey) return a->isortkey > b->isortkey;
            return a->key < b->key;
    }
}

static void fetch_comparators(void)
{
    static struct cmi_resourcebase rb;
    static struct cmb_resourceguard g;
    cmi_resourcebase_initialize(&rb, "x");
    cmb_resourceguard_initialize(&g, &rb);
    struct cmb_resourcepool *rp = cmb_resourcepool_create();
    cmb_resourcepool_initialize(rp, "p", 1u);
    struct cmb_priorityqueue *pq = cmb_priorityqueue_create();
    cmb_priorityqueue_initialize(pq, "q", 1u);

    struct cmi_hashheap tmp;
    memset(&tmp, 0, sizeof tmp);
    cmi_hashheap_initialize(&tmp, 1u, NULL);
    ord_funcs[0] = tmp.heap_compare;
    cmi_hashheap_terminate(&tmp);
    ord_funcs[1] = ((struct cmi_hashheap *)&g)->heap_compare;
    ord_funcs[2] = rp->holders.heap_compare;
    ord_funcs[3] = pq->queue.heap_compare;
    cmb_event_queue_initialize(0.0);
    ord_funcs[4] = cmi_verif_event_queue()->heap_compare;

    /* Does the configured comparator coincide with the named ordering of the
     * specification on a grid of tags? (If not, C02 has no ordering to judge
     * against: that is reported as drift by the check, see DESIGN.md.) */
    for (int o = 0; o < NORD; o++) {
        bool same = true;
        struct cmi_heap_tag a, b;
        memset(&a, 0, sizeof a); memset(&b, 0, sizeof b);
        for (int ad = 0; ad < 3; ad++) for (int ai = -1; ai < 2; ai++) for (int ak = 1; ak < 4; ak++)
        for (int bd = 0; bd < 3; bd++) for (int bi = -1; bi < 2; bi++) for (int bk = 1; bk < 4; bk++) {
            if (ak == bk) continue;
            a.dsortkey = ad; a.isortkey = ai; a.key = (uint64_t)ak * 1000u;
            b.dsortkey = bd; b.isortkey = bi; b.key = (uint64_t)bk * 1000u;
            if ((*ord_funcs[o])(&a, &b) != model_before(o, &a, &b)) same = false;
        }
        ord_usable[o] = same;
    }
}

/* ---------- shadow bookkeeping for generating valid operations only */
#define MAXU 64
struct shadow { uint64_t key; bool live; intptr_t pl[4]; };
static struct shadow uni[MAXU];
static int nuni;

static int uni_find(uint64_t key)
{
    for (int i = 0; i < nuni; i++) if (uni[i].key == key) return i;
    return -1;
}

static int uni_add(uint64_t key)
{
    int i = uni_find(key);
    if (i < 0 && nuni < MAXU) { i = nuni++; uni[i].key = key; uni[i].live = false; }
    return i;
}

static struct cmi_hashheap hp;

static void log_dump(void)
{
    fprintf(out, ",\"cnt\":%llu,\"dump\":[", (unsigned long long)cmi_hashheap_count(&hp));
    bool first = true;
    for (int i = 0; i < nuni; i++) {
        if (cmi_hashheap_is_enqueued(&hp, uni[i].key)) {
            void **it = cmi_hashheap_item(&hp, uni[i].key);
            fprintf(out, "%s{\"k\":%llu,\"pl\":[%ld,%ld,%ld,%ld],\"d\":%ld,\"i\":%ld}", first ? "" : ",",
                    (unsigned long long)uni[i].key, (long)(intptr_t)it[0], (long)(intptr_t)it[1],
                    (long)(intptr_t)it[2], (long)(intptr_t)it[3],
                    (long)cmi_hashheap_dkey(&hp, uni[i].key), (long)cmi_hashheap_ikey(&hp, uni[i].key));
            first = false;
        }
    }
    fprintf(out, "]}\n");
}

static void *pat(long v) { return (v < 0) ? CMI_ANY_ITEM : (void *)(intptr_t)v; }
static bool pmatch(const struct shadow *s, const long p[4])
{
    for (int x = 0; x < 4; x++) if (p[x] >= 0 && p[x] != s->pl[x]) return false;
    return true;
}

/* ---------- operations */
static void op_init(int ord, unsigned exp)
{
    alarm(20);      /* a history takes milliseconds: one that has not ended after 20 s hangs inside the library (recorded as a crash) */
    if (hp.heap != NULL) cmi_hashheap_terminate(&hp);
    memset(&hp, 0, sizeof hp);
    cmi_hashheap_initialize(&hp, (uint16_t)exp, ord == 0 ? NULL : ord_funcs[ord]);
    nuni = 0;
    fprintf(out, "{\"op\":\"init\",\"ord\":\"%s\",\"exp\":%u", ord_names[ord], exp);
    log_dump();
}

static void op_enq(uint64_t key, const long pl[4], long d, long i)
{
    const uint64_t ret = cmi_hashheap_enqueue(&hp, (void *)(intptr_t)pl[0], (void *)(intptr_t)pl[1],
                                              (void *)(intptr_t)pl[2], (void *)(intptr_t)pl[3],
                                              key, (double)d, (int64_t)i);
    int u = uni_add(ret);
    if (u >= 0) { uni[u].live = true; for (int x = 0; x < 4; x++) uni[u].pl[x] = pl[x]; }
    fprintf(out, "{\"op\":\"enq\",\"key\":%llu,\"pl\":[%ld,%ld,%ld,%ld],\"d\":%ld,\"i\":%ld,\"ret\":%llu",
            (unsigned long long)key, pl[0], pl[1], pl[2], pl[3], d, i, (unsigned long long)ret);
    log_dump();
}

static void op_deq(void)
{
    void **it = cmi_hashheap_dequeue(&hp);
    if (it == NULL) {
        fprintf(out, "{\"op\":\"deq\",\"ret\":0,\"pl\":[0,0,0,0]");
    }
    else {
        const uint64_t k = hp.heap[0].key;   /* as cmb_event_current() reads it */
        int u = uni_find(k);
        if (u >= 0) uni[u].live = false;
        fprintf(out, "{\"op\":\"deq\",\"ret\":%llu,\"pl\":[%ld,%ld,%ld,%ld]", (unsigned long long)k,
                (long)(intptr_t)it[0], (long)(intptr_t)it[1], (long)(intptr_t)it[2], (long)(intptr_t)it[3]);
    }
    log_dump();
}

static void op_peek(void)
{
    void **it = cmi_hashheap_peek_item(&hp);
    if (it == NULL) {
        fprintf(out, "{\"op\":\"peek\",\"empty\":true,\"pl\":[0,0,0,0],\"d\":0,\"i\":0");
    }
    else {
        fprintf(out, "{\"op\":\"peek\",\"empty\":false,\"pl\":[%ld,%ld,%ld,%ld],\"d\":%ld,\"i\":%ld",
                (long)(intptr_t)it[0], (long)(intptr_t)it[1], (long)(intptr_t)it[2], (long)(intptr_t)it[3],
                (long)cmi_hashheap_peek_dkey(&hp), (long)cmi_hashheap_peek_ikey(&hp));
    }
    log_dump();
}

static void op_rem(uint64_t key)
{
    const bool r = cmi_hashheap_remove(&hp, key);
    int u = uni_add(key);
    if (u >= 0) uni[u].live = false;
    fprintf(out, "{\"op\":\"rem\",\"key\":%llu,\"ret\":%s", (unsigned long long)key, r ? "true" : "false");
    log_dump();
}

static void op_repri(uint64_t key, long d, long i)
{
    cmi_hashheap_reprioritize(&hp, key, (double)d, (int64_t)i);
    fprintf(out, "{\"op\":\"repri\",\"key\":%llu,\"d\":%ld,\"i\":%ld", (unsigned long long)key, d, i);
    log_dump();
}

static void op_pattern(const char *which, const long p[4])
{
    uint64_t r;
    if (which[0] == 'f') r = cmi_hashheap_pattern_find(&hp, pat(p[0]), pat(p[1]), pat(p[2]), pat(p[3]));
    else if (which[0] == 'c') r = cmi_hashheap_pattern_count(&hp, pat(p[0]), pat(p[1]), pat(p[2]), pat(p[3]));
    else {
        r = cmi_hashheap_pattern_cancel(&hp, pat(p[0]), pat(p[1]), pat(p[2]), pat(p[3]));
        for (int u = 0; u < nuni; u++) if (uni[u].live && pmatch(&uni[u], p)) uni[u].live = false;
    }
    fprintf(out, "{\"op\":\"%s\",\"pat\":[%ld,%ld,%ld,%ld],\"ret\":%llu", which, p[0], p[1], p[2], p[3],
            (unsigned long long)r);
    log_dump();
}

static void op_clear(bool reset)
{
    if (reset) cmi_hashheap_reset(&hp); else cmi_hashheap_clear(&hp);
    for (int u = 0; u < nuni; u++) uni[u].live = false;
    fprintf(out, "{\"op\":\"%s\"", reset ? "reset" : "clear");
    log_dump();
}

/* ---------- seeded generator (xorshift, independent of the library's RNG) */
static uint64_t rs;
static uint64_t rnd(void) { rs ^= rs << 13; rs ^= rs >> 7; rs ^= rs << 17; return rs; }
static long rint_(long lo, long hi) { return lo + (long)(rnd() % (uint64_t)(hi - lo + 1)); }

/* caller keys: a family that collides at small table sizes (same top bits of
 * key * golden for exponents 1..3), and a family that does not */
static uint64_t fib_hash(uint64_t key, unsigned exp) { return (key * UINT64_C(11400714819323198485)) >> (64u - (exp + 1u)); }
static uint64_t coll_keys[8], free_keys[8];
static void make_keys(void)
{
    int nc = 0;
    const uint64_t base = 1000u;
    coll_keys[nc++] = base;
    for (uint64_t k = base + 1u; nc < 8 && k < 2000000u; k++) {
        bool same = true;
        for (unsigned e = 1; e <= 3; e++) if (fib_hash(k, e) != fib_hash(base, e)) same = false;
        if (same) coll_keys[nc++] = k;
    }
    for (int i = 0; i < 8; i++) free_keys[i] = 5000u + (uint64_t)i * 7u;
}

static void gen_history(int ord, unsigned exp, int maxops, int keymode, int growth)
{
    /* keymode 0: auto keys; 1: colliding caller keys; 2: mixed caller keys; 3: auto + caller */
    op_init(ord, exp);
    long pl[4], p[4];
    for (int n = 0; n < maxops; n++) {
        int nlive = 0;
        for (int u = 0; u < nuni; u++) if (uni[u].live) nlive++;
        long c = rint_(0, 99);
        if (growth && nlive < growth) c = rint_(0, 50);      /* push towards growth */
        if (c < 38 || nlive == 0) {
            uint64_t key = 0u;
            if (keymode == 1) key = coll_keys[rint_(0, 5)];
            else if (keymode == 2) key = (rint_(0, 1) ? coll_keys[rint_(0, 3)] : free_keys[rint_(0, 3)]);
            else if (keymode == 3 && rint_(0, 1)) key = coll_keys[rint_(0, 3)];
            if (key != 0u) {
                int u = uni_find(key);
                if (u >= 0 && uni[u].live) continue;         /* precondition: key not live */
            }
            if (nuni >= MAXU - 1) continue;
            for (int x = 0; x < 4; x++) pl[x] = rint_(0, 1);
            op_enq(key, pl, rint_(0, 2), rint_(-1, 1));
        }
        else if (c < 55) op_deq();
        else if (c < 60) op_peek();
        else if (c < 72) {
            if (nuni == 0) continue;
            op_rem(uni[rint_(0, nuni - 1)].key);              /* live or already removed */
        }
        else if (c < 86) {
            int tries = 0, u;
            do { u = (int)rint_(0, nuni - 1); } while (!uni[u].live && ++tries < 50);
            if (!uni[u].live) continue;
            op_repri(uni[u].key, rint_(0, 2), rint_(-1, 1));
        }
        else if (c < 96) {
            for (int x = 0; x < 4; x++) p[x] = rint_(-1, 1);
            if (rint_(0, 2) == 0) { p[1] = -1; p[2] = -1; p[3] = -1; }
            long w = rint_(0, 2);
            op_pattern(w == 0 ? "find" : (w == 1 ? "count" : "pcancel"), p);
        }
        else op_clear(c >= 98);
    }
    /* drain: the order of everything that is left */
    while (cmi_hashheap_count(&hp) > 0u) op_deq();
    op_deq();
}

int main(int argc, char **argv)
{
    if (argc < 2) { fprintf(stderr, "usage\n"); return 2; }
    signal(SIGABRT, crash_handler); signal(SIGSEGV, crash_handler);
    signal(SIGFPE, crash_handler);  signal(SIGBUS, crash_handler);
    signal(SIGALRM, crash_handler);
    cmb_logger_flags_off(CMB_LOGGER_INFO);
    make_keys();

    if (strcmp(argv[1], "gen") == 0 && argc == 6) {
        rs = strtoull(argv[2], NULL, 10) * 2654435761u + 88172645463325252ull;
        const int nhist = atoi(argv[3]);
        const int maxops = atoi(argv[4]);
        out = fopen(argv[5], "w");
        if (out == NULL) return 2;
        fetch_comparators();
        fprintf(out, "{\"op\":\"meta\",\"usable\":{\"default\":%s,\"guard\":%s,\"holder\":%s,\"pq\":%s,\"event\":%s}}\n",
                ord_usable[0] ? "true" : "false", ord_usable[1] ? "true" : "false",
                ord_usable[2] ? "true" : "false", ord_usable[3] ? "true" : "false", ord_usable[4] ? "true" : "false");
        for (int h = 0; h < nhist; h++) {
            int ord = h % NORD;
            if (!ord_usable[ord]) ord = 0;
            const int keymode = (h / NORD) % 4;
            const unsigned exp = (h % 3 == 0) ? 1u : ((h % 3 == 1) ? 2u : 3u);
            const int growth = (h % 5 == 4) ? (int)rint_(9, 40) : 0;
            gen_history(ord, exp, growth ? maxops * 3 : maxops, keymode, growth);
        }
        fclose(out);
        return 0;
    }
    if (strcmp(argv[1], "script") == 0 && argc == 4) {
        FILE *in = fopen(argv[2], "r");
        out = fopen(argv[3], "w");
        if (in == NULL || out == NULL) return 2;
        fetch_comparators();
        fprintf(out, "{\"op\":\"meta\",\"usable\":{\"default\":%s,\"guard\":%s,\"holder\":%s,\"pq\":%s,\"event\":%s}}\n",
                ord_usable[0] ? "true" : "false", ord_usable[1] ? "true" : "false",
                ord_usable[2] ? "true" : "false", ord_usable[3] ? "true" : "false", ord_usable[4] ? "true" : "false");
        char line[256], w[32];
        long a[8];
        bool skipping = false;
        while (fgets(line, sizeof line, in) != NULL) {
            if (sscanf(line, "%31s", w) != 1) continue;
            if (strcmp(w, "init") == 0) {
                char on[32]; unsigned e;
                sscanf(line, "%*s %31s %u", on, &e);
                int ord = -1;
                for (int o = 0; o < NORD; o++) if (strcmp(on, ord_names[o]) == 0) ord = o;
                if (ord < 0) { fprintf(stderr, "unknown ordering %s\n", on); return 2; }
                skipping = !ord_usable[ord];
                if (!skipping) op_init(ord, e);
                continue;
            }
            if (skipping) continue;
            if (strcmp(w, "enq") == 0) {
                unsigned long long k;
                sscanf(line, "%*s %llu %ld %ld %ld %ld %ld %ld", &k, &a[0], &a[1], &a[2], &a[3], &a[4], &a[5]);
                op_enq((uint64_t)k, a, a[4], a[5]);
            }
            else if (strcmp(w, "deq") == 0) op_deq();
            else if (strcmp(w, "peek") == 0) op_peek();
            else if (strcmp(w, "rem") == 0) { unsigned long long k; sscanf(line, "%*s %llu", &k); op_rem((uint64_t)k); }
            else if (strcmp(w, "repri") == 0) {
                unsigned long long k; sscanf(line, "%*s %llu %ld %ld", &k, &a[0], &a[1]); op_repri((uint64_t)k, a[0], a[1]);
            }
            else if (strcmp(w, "find") == 0 || strcmp(w, "count") == 0 || strcmp(w, "pcancel") == 0) {
                sscanf(line, "%*s %ld %ld %ld %ld", &a[0], &a[1], &a[2], &a[3]); op_pattern(w, a);
            }
            else if (strcmp(w, "clear") == 0) op_clear(false);
            else if (strcmp(w, "reset") == 0) op_clear(true);
        }
        fclose(out);
        return 0;
    }
    fprintf(stderr, "usage: hh_replay gen <seed> <nhist> <maxops> <out> | script <in> <out>\n");
    return 2;
}
