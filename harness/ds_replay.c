/*
 * ds_replay - drive the real cmb_dataset / cmb_timeseries through sort, copy,
 * median, five-number, histogram and ACF calls and record an ndjson trace for
 * spec/DataSetTrace.tla (property C18).
 *
 *   ds_replay enum <seed> <K> <Nts> <Nds> <w,w,..> <nshards> <outprefix>
 *       every time series x in {1..K}^n, durations in W^n, n = 1..Nts, and every
 *       dataset x in {1..K}^n, n = 1..Nds (the input space of spec/DataSetMC.tla)
 *   ds_replay big <seed> <count> <maxn> <nshards> <outprefix>
 *       seeded larger cases: sizes on both sides of the array doubling thresholds
 *       (1024, 2048, ..), duplicates, constant / sorted / reversed data, zero
 *       durations, one sample holding most of the total duration
 *   ds_replay script <casefile> <nshards> <outprefix>
 *       the cases of a file (one case line each, as found in "spec" of an init record)
 * Shard k is written to <outprefix>.<k>.ndjson.
 *
 * The harness never judges.  It feeds values from a ladder val[1] < .. < val[K]
 * of its own choosing and logs every number it sees as a POSITION on the doubled
 * rank scale of that ladder (2r: equals val[r]; 2r+1: strictly between val[r]
 * and val[r+1]; 1: below val[1]; 2K+1: above val[K]; 0: not a number), times and
 * durations as integer multiples of the time unit it chose, histogram bars as
 * the number of symbols printed, ACF values in units of 1e-7.
 *
 * Cases run in a forked child; if the child dies inside a library call the
 * parent appends {"op":"crash","during":<op>} and resumes behind that call.
 */
#define _GNU_SOURCE
#include <stdio.h>
#include <stdlib.h>
#include <string.h>
#include <stdint.h>
#include <stdbool.h>
#include <math.h>
#include <signal.h>
#include <unistd.h>
#include <sys/wait.h>
#include <sys/mman.h>

#include "cimba.h"
#include "cmb_dataset.h"
#include "cmb_timeseries.h"
#ifdef C18_INTERNAL_HIST
#include "cmi_dataset.h"
#endif

#define MAXSHARD 64
#define KMAX 40
#define NO_POS (-1)

/* ------------------------------------------------------------------ cases */
struct tcase {
    int kind;            /* 0 dataset, 1 time series */
    int K, map, unit, t0;
    int n;
    int *xr;             /* ranks 1..K */
    int *w;              /* durations in time units (time series) */
    uint64_t seed;
};

static uint64_t rs;
static uint64_t rnd(void) { rs ^= rs << 13; rs ^= rs >> 7; rs ^= rs << 17; return rs; }
static long ri(long lo, long hi) { return lo + (long)(rnd() % (uint64_t)(hi - lo + 1)); }
static void rseed(uint64_t s) { rs = s * 0x9E3779B97F4A7C15ull + 88172645463325252ull; if (rs == 0) rs = 1; rnd(); rnd(); }

#define NMAPS 10
#define MAP_TEXT_OK(m) ((m) != 9)                    /* values print exactly with 4 significant digits */
#define MAP_BINARY_EXACT(m) ((m) != 6 && (m) != 8 && (m) != 9)
#define MAP_ACF_OK(m) ((m) <= 7)                     /* well-conditioned, no overflow when scaled */
static double val[KMAX + 2];
static int curK;
static void make_ladder(int K, int map)
{
    curK = K;
    for (int r = 1; r <= K; r++) {
        double v;
        switch (map) {
        case 0: v = r; break;
        case 1: v = 10.0 * r; break;
        case 2: v = r - (K + 1) / 2; break;            /* negative, zero, positive */
        case 3: v = 0.25 * r; break;
        case 4: v = 1000.0 * r; break;
        case 5: v = -5.0 * (K + 1 - r); break;         /* all negative */
        case 6: v = r / 1000.0; break;                 /* small: variance far below 1 */
        case 7: v = (double)r * r; break;              /* uneven spacing */
        case 8: v = 1e150 * r; break;
        default: v = 1.0 + ldexp((double)r, -40); break; /* tight cluster */
        }
        if (map != 9) {       /* make the value exactly what its four-significant-digit text reads back as */
            char txt[64]; snprintf(txt, sizeof txt, "%.4g", v);
            v = strtod(txt, NULL);
        }
        val[r] = v;
    }
}
static double below_all(void) { return (curK >= 2) ? val[1] - (val[2] - val[1]) : val[1] - 1.0; }
static double above_all(void) { return (curK >= 2) ? val[curK] + (val[curK] - val[curK - 1]) : val[curK] + 1.0; }

static int pos_of(double v)
{
    if (isnan(v)) return 0;
    if (v < val[1]) return 1;
    if (v > val[curK]) return 2 * curK + 1;
    int lo = 1, hi = curK;                /* val[lo] <= v <= val[hi] */
    while (hi - lo > 1) { int mid = (lo + hi) / 2; if (val[mid] <= v) lo = mid; else hi = mid; }
    if (v == val[hi]) return 2 * hi;
    if (v == val[lo]) return 2 * lo;
    return 2 * lo + 1;
}

static const double units[3] = { 1.0, 0.25, 1024.0 };
/* a time or duration as an integer number of units; -1 if it is not one */
static long units_of(double d, double unit)
{
    const double q = d / unit;
    if (!(q >= 0.0 && q < 1e9) || q != floor(q)) return -1;
    return (long)q;
}

/* ------------------------------------------------------------------ output */
static int nshards;
static const char *outprefix;
static FILE *shard[MAXSHARD];
static FILE *out;
struct shared { volatile long case_idx; volatile int op_idx; char opname[24]; };
static struct shared *sh;

static void open_shards(const char *mode)
{
    for (int k = 0; k < nshards; k++) {
        char p[1024]; snprintf(p, sizeof p, "%s.%d.ndjson", outprefix, k);
        shard[k] = fopen(p, mode);
        if (shard[k] == NULL) { perror(p); exit(2); }
        setvbuf(shard[k], NULL, _IOLBF, 1 << 16);
    }
}

static void put_ints(const char *name, const long *a, long n)
{
    fprintf(out, "\"%s\":[", name);
    for (long i = 0; i < n; i++) fprintf(out, i ? ",%ld" : "%ld", a[i]);
    fputc(']', out);
}

/* ------------------------------------------------------------------ observation of an object */
struct obs { long n; long *x, *t, *w, *src; int mn, mx; };
static void obs_free(struct obs *o) { free(o->x); free(o->t); free(o->w); free(o->src); memset(o, 0, sizeof *o); }

static void observe(struct obs *o, const struct cmb_dataset *dsp, const struct cmb_timeseries *tsp, const struct tcase *c)
{
    const long n = (long)dsp->count;
    o->n = n;
    o->x = calloc((size_t)n + 1, sizeof(long)); o->t = calloc((size_t)n + 1, sizeof(long));
    o->w = calloc((size_t)n + 1, sizeof(long)); o->src = NULL;
    for (long i = 0; i < n; i++) {
        o->x[i] = pos_of(dsp->xa[i]);
        if (tsp != NULL) {
            o->t[i] = units_of(tsp->ta[i] - (double)c->t0, units[c->unit]);
            o->w[i] = units_of(tsp->wa[i], units[c->unit]);
        }
    }
    o->mn = pos_of(dsp->min); o->mx = pos_of(dsp->max);
}

static void put_obs(const struct obs *o, bool ts)
{
    fprintf(out, "\"cnt\":%ld,", o->n);
    put_ints("x", o->x, o->n); fputc(',', out);
    put_ints("t", o->t, ts ? o->n : 0); fputc(',', out);
    put_ints("w", o->w, ts ? o->n : 0);
    fprintf(out, ",\"mn\":%d,\"mx\":%d", o->mn, o->mx);
}

/* witness for "out is a permutation of in": src[i] = 1-based index in `in` of the sample now at
 * out[i] (identical samples are interchangeable, so a greedy match per distinct sample is complete);
 * 0 where no unused equal sample exists.  The specification checks the witness. */
struct key { long x, t, w, idx; };
static int keycmp(const void *a, const void *b)
{
    const struct key *p = a, *q = b;
    if (p->x != q->x) return p->x < q->x ? -1 : 1;
    if (p->t != q->t) return p->t < q->t ? -1 : 1;
    if (p->w != q->w) return p->w < q->w ? -1 : 1;
    return p->idx < q->idx ? -1 : (p->idx > q->idx ? 1 : 0);
}
static void match(struct obs *o, const struct obs *in)
{
    o->src = calloc((size_t)o->n + 1, sizeof(long));
    struct key *a = calloc((size_t)in->n + 1, sizeof *a), *b = calloc((size_t)o->n + 1, sizeof *b);
    for (long i = 0; i < in->n; i++) a[i] = (struct key){ in->x[i], in->t[i], in->w[i], i };
    for (long i = 0; i < o->n; i++) b[i] = (struct key){ o->x[i], o->t[i], o->w[i], i };
    qsort(a, (size_t)in->n, sizeof *a, keycmp); qsort(b, (size_t)o->n, sizeof *b, keycmp);
    long i = 0, j = 0;
    while (i < in->n && j < o->n) {
        const struct key ka = { a[i].x, a[i].t, a[i].w, 0 }, kb = { b[j].x, b[j].t, b[j].w, 0 };
        const int d = keycmp(&ka, &kb);
        if (d == 0) { o->src[b[j].idx] = a[i].idx + 1; i++; j++; }
        else if (d < 0) i++;
        else j++;
    }
    free(a); free(b);
}

/* ------------------------------------------------------------------ text capture */
#define CAPSZ (1 << 17)
static char capbuf[CAPSZ];
static FILE *cap_open(void) { memset(capbuf, 0, sizeof capbuf); FILE *f = fmemopen(capbuf, sizeof capbuf - 1, "w"); if (f == NULL) exit(2); return f; }

static void put_str(const char *name, const char *s, size_t max)
{
    fprintf(out, "\"%s\":\"", name);
    for (size_t i = 0; s[i] != '\0' && i < max; i++) {
        const unsigned char ch = (unsigned char)s[i];
        if (ch == '"' || ch == '\\') fprintf(out, "\\%c", ch);
        else if (ch == '\n') fputs("\\n", out);
        else if (ch == '\t') fputs("\\t", out);
        else if (ch < 32 || ch > 126) fputc('?', out);
        else fputc(ch, out);
    }
    fputc('"', out);
}

/* five numbers of a five-number report: the tokens that are numbers */
static void log_fivenum(const char *text)
{
    double v[8]; int nv = 0;
    char *copy = strdup(text);
    for (char *tok = strtok(copy, " \t\n"); tok != NULL; tok = strtok(NULL, " \t\n")) {
        char *end; const double d = strtod(tok, &end);
        if (end != tok && *end == '\0' && nv < 8) v[nv++] = d;
    }
    free(copy);
    fprintf(out, "{\"op\":\"fivenum\",\"ok\":%s,", nv == 5 ? "true" : "false");
    long p[5] = { 0, 0, 0, 0, 0 };
    if (nv == 5) for (int i = 0; i < 5; i++) p[i] = pos_of(v[i]);
    put_ints("pos", p, 5); fputc(',', out);
    put_str("text", text, 160);
    fputs("}\n", out);
}

/* a printed histogram: bin limits as positions, bars as symbol counts.
 * status: ok | declined (no histogram in the text) | unparsable */
static void log_hist_text(const char *text, int nb, double lo, double hi, const char *tag)
{
    long edges[300], bars[300], marks[300]; int nbins = 0; bool contig = true, bad = false;
    double prev_hi = 0.0; bool prev_hi_inf = false;
    char *copy = strdup(text);
    char *save = NULL;
    for (char *line = strtok_r(copy, "\n", &save); line != NULL; line = strtok_r(NULL, "\n", &save)) {
        if (line[0] != '(' && line[0] != '[') continue;
        char *comma = strchr(line, ','), *close = strchr(line, ')');
        char *bar = (close != NULL) ? strchr(close, '|') : NULL;
        if (comma == NULL || close == NULL || bar == NULL || comma > close || nbins >= 299) { bad = true; break; }
        char a[64] = { 0 }, b[64] = { 0 };
        snprintf(a, sizeof a, "%.*s", (int)(comma - line - 1), line + 1);
        snprintf(b, sizeof b, "%.*s", (int)(close - comma - 1), comma + 1);
        const bool a_inf = strstr(a, "Infinity") != NULL, b_inf = strstr(b, "Infinity") != NULL;
        char *e1, *e2;
        const double da = a_inf ? 0.0 : strtod(a, &e1), db = b_inf ? 0.0 : strtod(b, &e2);
        if ((!a_inf && e1 == a) || (!b_inf && e2 == b)) { bad = true; break; }
        if (nbins == 0) { if (!a_inf) { bad = true; break; } }
        else {
            if (a_inf || prev_hi_inf) { bad = true; break; }
            if (da != prev_hi) contig = false;
            edges[nbins - 1] = pos_of(prev_hi);
        }
        prev_hi = db; prev_hi_inf = b_inf;
        long nf = 0; const char *q = bar + 1;
        while (*q == '#') { nf++; q++; }
        long mk = 0;
        if (*q == '-') { mk = 1; q++; } else if (*q == '=') { mk = 2; q++; }
        while (*q == ' ' || *q == '\r') q++;
        if (*q != '\0') { bad = true; break; }
        bars[nbins] = nf; marks[nbins] = mk; nbins++;
    }
    free(copy);
    if (!bad && nbins > 0 && !prev_hi_inf) bad = true;
    if (!bad && nbins == 1) bad = true;
    const char *status = bad ? "unparsable" : (nbins == 0 ? "declined" : "ok");
    fprintf(out, "{\"op\":\"hist\",\"via\":\"text\",\"when\":\"%s\",\"status\":\"%s\",\"contig\":%s,\"nb\":%d,\"lo\":%d,\"hi\":%d,",
            tag, status, contig ? "true" : "false", nb, pos_of(lo), pos_of(hi));
    const bool ok = !bad && nbins > 0;
    put_ints("edges", edges, ok ? nbins - 1 : 0); fputc(',', out);
    put_ints("bars", bars, ok ? nbins : 0); fputc(',', out);
    put_ints("marks", marks, ok ? nbins : 0);
    if (!ok) { fputc(',', out); put_str("text", text, 200); }
    fputs("}\n", out);
}

/* ------------------------------------------------------------------ histogram requests */
struct hreq { unsigned nb; double lo, hi; };
static double midpoint(int r) { return 0.5 * (val[r] + val[r + 1]); }
static struct hreq pick_hist(bool exact_geometry)
{
    struct hreq h;
    const int K = curK;
    static const unsigned nbs[] = { 1, 2, 3, 4, 5, 8 }, nbs2[] = { 1, 2, 4 };
    h.nb = exact_geometry ? nbs2[ri(0, 2)] : nbs[ri(0, 5)];
    const int kind = (int)ri(0, exact_geometry ? 3 : 5);
    switch (kind) {
    case 0: h.lo = below_all(); h.hi = above_all(); break;                       /* everything in range */
    case 1: { const int a = (int)ri(1, K), b = (int)ri(a, K); h.lo = val[a]; h.hi = val[b]; break; }   /* limits on samples */
    case 2: h.lo = val[1]; h.hi = val[K]; break;                                 /* the data range itself */
    case 3: h.lo = below_all(); h.hi = val[(int)ri(1, K)]; break;                /* overflow above */
    case 4: if (K >= 3) { const int a = (int)ri(1, K - 2), b = (int)ri(a + 1, K - 1); h.lo = midpoint(a); h.hi = midpoint(b); }
            else { h.lo = above_all(); h.hi = above_all() + (above_all() - val[K]); }             /* everything below */
            break;
    default: h.lo = val[1]; h.hi = val[1]; break;                                /* auto-scaling (lo == hi) */
    }
    if (exact_geometry && h.lo == h.hi) { h.lo = below_all(); h.hi = above_all(); }
    return h;
}

/* ------------------------------------------------------------------ ACF */
static void log_acf(const char *op, const struct cmb_dataset *d, unsigned lags, int a_code, int b_code)
{
    double *acf = calloc(lags + 2, sizeof *acf);
    for (unsigned k = 0; k <= lags; k++) acf[k] = NAN;
    cmb_dataset_ACF(d, lags, acf);
    long *q = calloc(lags + 2, sizeof *q);
    fprintf(out, "{\"op\":\"%s\",\"lags\":%u,\"a\":%d,\"b\":%d,", op, lags, a_code, b_code);
    fputs("\"fin\":[", out);
    for (unsigned k = 0; k <= lags; k++) {
        const bool fin = isfinite(acf[k]) && fabs(acf[k]) <= 100.0;
        q[k] = fin ? llround(acf[k] * 1e7) : 0;
        fprintf(out, "%s%s", k ? "," : "", fin ? "true" : "false");
    }
    fputs("],", out);
    put_ints("q", q, (long)lags + 1);
    fputs("}\n", out);
    free(q); free(acf);
}

/* ------------------------------------------------------------------ running one case */
static int first_op;          /* operations below this index are skipped (resume after a crash) */
static int opno;
static bool begin_op(const char *name)
{
    const int k = ++opno;
    if (k < first_op) return false;
    sh->op_idx = k; snprintf(sh->opname, sizeof sh->opname, "%s", name);
    alarm(60);
    return true;
}

static void put_case_line(const struct tcase *c)
{
    fprintf(out, "%s K=%d map=%d unit=%d t0=%d seed=%llu x=", c->kind ? "ts" : "ds", c->K, c->map, c->unit, c->t0, (unsigned long long)c->seed);
    for (int i = 0; i < c->n; i++) fprintf(out, i ? ",%d" : "%d", c->xr[i]);
    if (c->kind) { fputs(" w=", out); for (int i = 0; i < c->n; i++) fprintf(out, i ? ",%d" : "%d", c->w[i]); }
}

static void log_init(const struct tcase *c, long idx, const struct obs *o)
{
    fprintf(out, "{\"op\":\"init\",\"case\":%ld,\"kind\":\"%s\",\"K\":%d,\"resumed\":%s,", idx, c->kind ? "ts" : "ds", c->K, first_op > 0 ? "true" : "false");
    put_obs(o, c->kind == 1);
    fputs(",\"spec\":\"", out); put_case_line(c); fputs("\"}\n", out);
}

static void log_obs_line(const char *op, const char *extra, const struct obs *o, bool ts, bool with_src)
{
    fprintf(out, "{\"op\":\"%s\",%s", op, extra);
    put_obs(o, ts);
    if (with_src) { fputc(',', out); put_ints("src", o->src, o->n); }
    fputs("}\n", out);
}

static void run_dataset(const struct tcase *c, long idx)
{
    struct cmb_dataset *d = cmb_dataset_create();
    for (int i = 0; i < c->n; i++) cmb_dataset_add(d, val[c->xr[i]]);
    struct obs cur; observe(&cur, d, NULL, c);
    log_init(c, idx, &cur);
    const bool text_ok = MAP_TEXT_OK(c->map);

    for (int round = 0; round < 2; round++) {            /* before and after sorting */
        const char *when = round ? "sorted" : "fresh";
        if (begin_op("copy")) {
            struct obs o;
            if ((rnd() & 1u) != 0u) {
                struct cmb_dataset tgt = { 0 };
                cmb_dataset_copy(&tgt, d);
                observe(&o, &tgt, NULL, c);
                cmb_dataset_terminate(&tgt);
            }
            else {                                          /* a target that already holds other data */
                struct cmb_dataset *tgt = cmb_dataset_create();
                const int m = (int)ri(1, 5);
                for (int i = 0; i < m; i++) cmb_dataset_add(tgt, val[1] - 1.0 - i);
                cmb_dataset_copy(tgt, d);
                observe(&o, tgt, NULL, c);
                cmb_dataset_destroy(tgt);
            }
            log_obs_line("copy", "", &o, false, false);
            obs_free(&o);
        }
        if (begin_op("median")) {
            const double m = cmb_dataset_median(d);
            fprintf(out, "{\"op\":\"median\",\"when\":\"%s\",\"pos\":%d}\n", when, pos_of(m));
        }
        if (begin_op("fivenum") && text_ok) {
            FILE *f = cap_open();
            cmb_dataset_fivenum_print(d, f, (rnd() & 1u) != 0u);
            fclose(f);
            log_fivenum(capbuf);
        }
        for (int h = 0; h < 2; h++) {
            const struct hreq hr = pick_hist(false);
            if (begin_op("hist") && text_ok) {
                FILE *f = cap_open();
                cmb_dataset_histogram_print(d, f, hr.nb, hr.lo, hr.hi);
                fclose(f);
                log_hist_text(capbuf, (int)hr.nb, hr.lo, hr.hi, when);
            }
        }
#ifdef C18_INTERNAL_HIST
        for (int h = 0; h < 2; h++) {
            const struct hreq hr = pick_hist(true);
            if (begin_op("hist") && MAP_BINARY_EXACT(c->map)) {
                struct cmi_dataset_histogram *hp = cmi_dataset_histogram_create(hr.nb, hr.lo, hr.hi);
                cmi_dataset_histogram_fill(hp, d->count, d->xa);
                const long nbins = (long)hp->num_bins;
                long *edges = calloc((size_t)nbins + 1, sizeof(long)), *cont = calloc((size_t)nbins + 1, sizeof(long));
                bool integral = true;
                for (long b = 0; b < nbins; b++) {
                    const double v = hp->hbins[b];
                    if (!(v >= 0.0 && v < 1e9) || v != floor(v)) { integral = false; cont[b] = 0; } else cont[b] = (long)v;
                    if (b < nbins - 1) edges[b] = pos_of(hp->low_lim + (double)b * hp->binsize);
                }
                if (nbins >= 2) edges[nbins - 2] = pos_of(hp->high_lim);
                fprintf(out, "{\"op\":\"hist\",\"via\":\"internal\",\"when\":\"%s\",\"integral\":%s,\"nb\":%u,\"lo\":%d,\"hi\":%d,",
                        when, integral ? "true" : "false", hr.nb, pos_of(hr.lo), pos_of(hr.hi));
                put_ints("edges", edges, nbins - 1); fputc(',', out);
                put_ints("cont", cont, nbins);
                fputs("}\n", out);
                free(edges); free(cont);
                cmi_dataset_histogram_destroy(hp);
            }
        }
#endif
        if (round == 0) {
            if (begin_op("acf") && c->n >= 2 && MAP_ACF_OK(c->map)) {
                /* every admissible lag for small data, a few (including the largest) for large data */
                const unsigned lags = (c->n <= 12) ? (unsigned)(c->n - 1) : (unsigned)ri(3, 8);
                log_acf("acf", d, lags, 0, 0);
                static const double as[] = { 1.0, 3.0, 0x1p-20, 0x1p10, 1e6, 0x1p40 };
                static const double bs[] = { 0.0, 100.0, -37.5, 1.0, 1e6, -1e6 };   /* in units of the value spacing: far beyond the spread too */
                for (int im = 0; im < 2; im++) {
                    int ai = (int)ri(0, 5), bi = (int)ri(0, 5);
                    if (ai == 0 && bi == 0) bi = 1;
                    const double gap = (c->K >= 2) ? (val[2] - val[1]) : 1.0;
                    struct cmb_dataset *e = cmb_dataset_create();
                    for (int i = 0; i < c->n; i++) cmb_dataset_add(e, as[ai] * (val[c->xr[i]] + bs[bi] * gap));
                    log_acf("acf_image", e, lags, ai, bi);
                    cmb_dataset_destroy(e);
                }
            }
            if (begin_op("sort")) {
                cmb_dataset_sort(d);
                struct obs o; observe(&o, d, NULL, c); match(&o, &cur);
                log_obs_line("sort", "\"by\":\"x\",", &o, false, true);
                free(o.src); o.src = NULL;
                obs_free(&cur); cur = o;
            }
            else { obs_free(&cur); observe(&cur, d, NULL, c); }
        }
    }
    obs_free(&cur);
    cmb_dataset_destroy(d);
}

static void run_timeseries(const struct tcase *c, long idx)
{
    const double unit = units[c->unit];
    struct cmb_timeseries *ts = cmb_timeseries_create();
    struct cmb_dataset *d = (struct cmb_dataset *)ts;
    long tt = 0;
    for (int i = 0; i < c->n; i++) {
        cmb_timeseries_add(ts, val[c->xr[i]], (double)c->t0 + unit * (double)tt);
        tt += c->w[i];
    }
    if (c->w[c->n - 1] > 0) cmb_timeseries_finalize(ts, (double)c->t0 + unit * (double)tt);   /* the last value gets its duration */
    struct obs cur; observe(&cur, d, ts, c);
    log_init(c, idx, &cur);
    const bool text_ok = MAP_TEXT_OK(c->map);

    for (int round = 0; round < 3; round++) {            /* in time order, sorted by value, sorted back by time */
        const char *when = round == 0 ? "fresh" : (round == 1 ? "sorted_x" : "sorted_t");
        if (begin_op("copy")) {
            struct obs o;
            if ((rnd() & 1u) != 0u) {
                struct cmb_timeseries tgt = { 0 };
                cmb_timeseries_copy(&tgt, ts);
                observe(&o, (struct cmb_dataset *)&tgt, &tgt, c);
                cmb_timeseries_terminate(&tgt);
            }
            else {
                struct cmb_timeseries *tgt = cmb_timeseries_create();
                const int m = (int)ri(1, 5);
                for (int i = 0; i < m; i++) cmb_timeseries_add(tgt, val[1] - 1.0 - i, (double)i);
                cmb_timeseries_copy(tgt, ts);
                observe(&o, (struct cmb_dataset *)tgt, tgt, c);
                cmb_timeseries_destroy(tgt);
            }
            log_obs_line("copy", "", &o, true, false);
            obs_free(&o);
        }
        if (begin_op("median")) {
            const double m = cmb_timeseries_median(ts);
            fprintf(out, "{\"op\":\"median\",\"when\":\"%s\",\"pos\":%d}\n", when, pos_of(m));
        }
        if (begin_op("fivenum") && text_ok) {
            FILE *f = cap_open();
            cmb_timeseries_fivenum_print(ts, f, (rnd() & 1u) != 0u);
            fclose(f);
            log_fivenum(capbuf);
        }
        /* the weighted histogram reads the durations in array order and is only meaningful in time order */
        for (int h = 0; h < 2; h++) {
            const struct hreq hr = pick_hist(false);
            if (round != 1 && begin_op("hist") && text_ok) {
                FILE *f = cap_open();
                cmb_timeseries_histogram_print(ts, f, (uint16_t)hr.nb, hr.lo, hr.hi);
                fclose(f);
                log_hist_text(capbuf, (int)hr.nb, hr.lo, hr.hi, when);
            }
        }
        if (round < 2) {
            const char *by = round == 0 ? "x" : "t";
            if (begin_op(round == 0 ? "sort_x" : "sort_t")) {
                if (round == 0) cmb_timeseries_sort_x(ts); else cmb_timeseries_sort_t(ts);
                struct obs o; observe(&o, d, ts, c); match(&o, &cur);
                char extra[32]; snprintf(extra, sizeof extra, "\"by\":\"%s\",", by);
                log_obs_line("sort", extra, &o, true, true);
                free(o.src); o.src = NULL;
                obs_free(&cur); cur = o;
            }
            else { obs_free(&cur); observe(&cur, d, ts, c); }
        }
    }
    obs_free(&cur);
    cmb_timeseries_destroy(ts);
}

static void run_case(const struct tcase *c, long idx)
{
    out = shard[idx % nshards];
    make_ladder(c->K, c->map);
    rseed(c->seed);
    opno = 0;
    sh->op_idx = 0; snprintf(sh->opname, sizeof sh->opname, "init");
    alarm(60);
    if (c->kind == 0) run_dataset(c, idx); else run_timeseries(c, idx);
    alarm(0);
}

/* ------------------------------------------------------------------ case sources */
static struct tcase *cases;
static long ncases, capcases;
static struct tcase *new_case(int kind, int K, int n)
{
    if (ncases == capcases) { capcases = capcases ? 2 * capcases : 1024; cases = realloc(cases, (size_t)capcases * sizeof *cases); }
    struct tcase *c = &cases[ncases++];
    memset(c, 0, sizeof *c);
    c->kind = kind; c->K = K; c->n = n;
    c->xr = calloc((size_t)n + 1, sizeof(int)); c->w = calloc((size_t)n + 1, sizeof(int));
    return c;
}
static void dress(struct tcase *c, uint64_t seed, long idx)
{
    rseed(seed + 1000003ull * (uint64_t)idx);
    c->seed = rnd() % 1000000007ull;
    c->map = (int)ri(0, NMAPS - 1);
    c->unit = (int)ri(0, 2);
    c->t0 = (ri(0, 1) == 0) ? 0 : 100;
}

static void gen_enum(uint64_t seed, int K, int nts, int nds, const int *ws, int nw)
{
    int digits[32];
    for (int n = 1; n <= nds; n++) {
        long tot = 1; for (int i = 0; i < n; i++) tot *= K;
        for (long code = 0; code < tot; code++) {
            struct tcase *c = new_case(0, K, n);
            long q = code; for (int i = 0; i < n; i++) { c->xr[i] = 1 + (int)(q % K); q /= K; }
            dress(c, seed, ncases);
        }
    }
    for (int n = 1; n <= nts; n++) {
        long totx = 1, totw = 1; for (int i = 0; i < n; i++) { totx *= K; totw *= nw; }
        for (long cx = 0; cx < totx; cx++) for (long cw = 0; cw < totw; cw++) {
            struct tcase *c = new_case(1, K, n);
            long q = cx; for (int i = 0; i < n; i++) { c->xr[i] = 1 + (int)(q % K); q /= K; }
            q = cw; for (int i = 0; i < n; i++) { digits[i] = (int)(q % nw); q /= nw; c->w[i] = ws[digits[i]]; }
            dress(c, seed, ncases);
        }
    }
}

static void gen_big(uint64_t seed, long count, int maxn)
{
    static const int sizes[] = { 1023, 1024, 1025, 2047, 2048, 2049, 4095, 4096, 4097, 7, 31, 100, 513 };
    for (long k = 0; k < count; k++) {
        rseed(seed * 31ull + 977ull * (uint64_t)k + 5ull);
        int n;
        do { n = sizes[ri(0, 12)]; } while (n > maxn);
        const int kind = (int)(k % 2);
        const int K = (int)ri(1, 5) == 1 ? (int)ri(1, 3) : (int)ri(4, 30);
        struct tcase *c = new_case(kind, K, n);
        const int shape = (int)ri(0, 6);
        const int period = (int)ri(2, 7);
        int pat[8]; for (int i = 0; i < 8; i++) pat[i] = (int)ri(1, K);
        for (int i = 0; i < n; i++) {
            int r;
            switch (shape) {
            case 0: r = (int)ri(1, K); break;                                    /* random with duplicates */
            case 1: r = 1 + (int)(((long)i * K) / n); break;                     /* already sorted */
            case 2: r = K - (int)(((long)i * K) / n); break;                     /* reverse sorted */
            case 3: r = pat[0]; break;                                           /* constant */
            case 4: r = pat[i % period]; break;                                  /* a tiled pattern */
            case 5: r = (i % 2 == 0) ? 1 : K; break;                             /* two extremes */
            default: r = (i == n / 3) ? K : (int)ri(1, (K > 1) ? K - 1 : 1); break; /* one outlier */
            }
            c->xr[i] = r;
        }
        const int wshape = (int)ri(0, 5);
        long tot = 0;
        for (int i = 0; i < n; i++) {
            int w;
            switch (wshape) {
            case 0: w = 1; break;                                                /* equal durations */
            case 1: w = (int)ri(0, 4); break;
            case 2: w = (ri(0, 3) == 0) ? (int)ri(1, 4) : 0; break;              /* mostly zero durations */
            case 3: w = 0; break;                                                /* all at the same instant */
            default: w = (int)ri(0, 2); break;                                   /* plus a heavy sample, below */
            }
            c->w[i] = w; tot += w;
        }
        if (wshape >= 4) {                                                       /* one sample holds most of the total duration */
            const int h = (wshape == 4) ? (int)ri(0, n - 1) : 0;
            tot -= c->w[h]; c->w[h] = (int)tot + (int)ri(1, 3);
            if (wshape == 5) {                                                   /* ... and it is (one of) the smallest values */
                int mn = c->xr[0]; for (int i = 0; i < n; i++) if (c->xr[i] < mn) mn = c->xr[i];
                c->xr[h] = mn;
            }
        }
        dress(c, seed ^ 0x5bd1e995ull, ncases);
    }
}

static int parse_list(const char *s, int *dst, int max)
{
    int n = 0;
    while (*s != '\0' && *s != ' ' && *s != '\n' && n < max) {
        dst[n++] = (int)strtol(s, (char **)&s, 10);
        if (*s == ',') s++;
    }
    return n;
}
static void gen_script(const char *path)
{
    FILE *f = fopen(path, "r"); if (f == NULL) { perror(path); exit(2); }
    char *line = NULL; size_t cap = 0;
    while (getline(&line, &cap, f) > 0) {
        const char *p = strstr(line, "\"spec\":\"");           /* accept a whole init record, too */
        p = (p != NULL) ? p + 8 : line;
        int kind;
        if (strncmp(p, "ts ", 3) == 0) kind = 1; else if (strncmp(p, "ds ", 3) == 0) kind = 0; else continue;
        int K = 3, map = 0, unit = 0, t0 = 0; unsigned long long seed = 1;
        const char *q;
        if ((q = strstr(p, "K=")) != NULL) K = atoi(q + 2);
        if ((q = strstr(p, "map=")) != NULL) map = atoi(q + 4);
        if ((q = strstr(p, "unit=")) != NULL) unit = atoi(q + 5);
        if ((q = strstr(p, "t0=")) != NULL) t0 = atoi(q + 3);
        if ((q = strstr(p, "seed=")) != NULL) seed = strtoull(q + 5, NULL, 10);
        q = strstr(p, " x="); if (q == NULL) continue;
        int *tmp = calloc(strlen(p) + 2, sizeof(int));
        const int n = parse_list(q + 3, tmp, (int)strlen(p));
        if (n < 1 || K < 1 || K > KMAX || map < 0 || map >= NMAPS || unit < 0 || unit > 2) { free(tmp); continue; }
        struct tcase *c = new_case(kind, K, n);
        for (int i = 0; i < n; i++) c->xr[i] = (tmp[i] < 1) ? 1 : (tmp[i] > K ? K : tmp[i]);
        if (kind == 1) {
            q = strstr(p, " w=");
            const int m = (q != NULL) ? parse_list(q + 3, tmp, (int)strlen(p)) : 0;
            for (int i = 0; i < n; i++) c->w[i] = (i < m && tmp[i] >= 0) ? tmp[i] : 0;
        }
        c->map = map; c->unit = unit; c->t0 = t0; c->seed = seed;
        free(tmp);
    }
    free(line); fclose(f);
}

/* ------------------------------------------------------------------ main */
int main(int argc, char **argv)
{
    if (argc < 2) goto usage;
    if (strcmp(argv[1], "enum") == 0 && argc == 9) {
        int ws[16]; const int nw = parse_list(argv[6], ws, 16);
        nshards = atoi(argv[7]); outprefix = argv[8];
        gen_enum(strtoull(argv[2], NULL, 10), atoi(argv[3]), atoi(argv[4]), atoi(argv[5]), ws, nw);
    }
    else if (strcmp(argv[1], "big") == 0 && argc == 7) {
        nshards = atoi(argv[5]); outprefix = argv[6];
        gen_big(strtoull(argv[2], NULL, 10), atol(argv[3]), atoi(argv[4]));
    }
    else if (strcmp(argv[1], "script") == 0 && argc == 5) {
        nshards = atoi(argv[3]); outprefix = argv[4];
        gen_script(argv[2]);
    }
    else goto usage;
    if (nshards < 1 || nshards > MAXSHARD) goto usage;
    open_shards("w");
    for (int k = 0; k < nshards; k++) fclose(shard[k]);
    sh = mmap(NULL, sizeof *sh, PROT_READ | PROT_WRITE, MAP_SHARED | MAP_ANONYMOUS, -1, 0);
    if (sh == MAP_FAILED) return 2;

    long start_case = 0; int start_op = 0; int crashes = 0;
    while (start_case < ncases) {
        fflush(NULL);
        const pid_t pid = fork();
        if (pid < 0) return 2;
        if (pid == 0) {
            cmb_logger_flags_off(CMB_LOGGER_WARNING);
            open_shards("a");
            for (long i = start_case; i < ncases; i++) {
                sh->case_idx = i;
                first_op = (i == start_case) ? start_op : 0;
                run_case(&cases[i], i);
            }
            for (int k = 0; k < nshards; k++) fclose(shard[k]);
            _exit(0);
        }
        int st = 0; waitpid(pid, &st, 0);
        if (WIFEXITED(st) && WEXITSTATUS(st) == 0) break;
        if (WIFEXITED(st) && WEXITSTATUS(st) == 2) return 2;
        crashes++;
        char p[1024]; snprintf(p, sizeof p, "%s.%ld.ndjson", outprefix, sh->case_idx % nshards);
        FILE *f = fopen(p, "a"); if (f == NULL) return 2;
        fprintf(f, "{\"op\":\"crash\",\"case\":%ld,\"during\":\"%s\",\"opidx\":%d,\"signal\":%d,\"exit\":%d}\n", sh->case_idx, sh->opname, sh->op_idx,
                WIFSIGNALED(st) ? WTERMSIG(st) : 0, WIFEXITED(st) ? WEXITSTATUS(st) : 0);
        fclose(f);
        fprintf(stderr, "#CRASH case %ld during %s signal %d exit %d\n", sh->case_idx, sh->opname, WIFSIGNALED(st) ? WTERMSIG(st) : 0, WIFEXITED(st) ? WEXITSTATUS(st) : 0);
        start_case = sh->case_idx; start_op = sh->op_idx + 1;
        if (sh->op_idx == 0) { start_case = sh->case_idx + 1; start_op = 0; }      /* died while building the data */
        if (crashes > 200000) return 2;
    }
    printf("cases=%ld crashes=%d\n", ncases, crashes);
    return crashes ? 3 : 0;
usage:
    fprintf(stderr, "usage: ds_replay enum <seed> <K> <Nts> <Nds> <w,w,..> <nshards> <outprefix>\n"
                    "       ds_replay big <seed> <count> <maxn> <nshards> <outprefix>\n"
                    "       ds_replay script <casefile> <nshards> <outprefix>\n");
    return 2;
}
