/*
 * c10_da_replay - drive the growable data arrays of the library (cmb_dataset,
 * cmb_timeseries) and the summaries (cmb_datasummary, cmb_wtdsummary) through
 * seeded random VALID call sequences and record, after every call, what the
 * capacity bookkeeping of every object looks like.  The ndjson trace is judged
 * by spec/DataArrayTrace.tla (property C10); the harness never judges.
 *
 *   c10_da_replay gen <seed> <count> <maxops> <trace.ndjson>
 *
 * One forked child per history; "#HIST <n>" goes to stderr before each history
 * (like mp_replay / evq_replay), so sanitizer reports and library aborts can be
 * attributed to a history.  Exit code 0 = all histories ran to their end,
 * 3 = some child died (abort, signal, sanitizer report).
 *
 * Objects 1..3 are datasets, 4..6 time series (heap objects from _create).
 * Every record has the same fields:
 *   op, h, cap0, o (object acted on), s1, s2 (sources / summary index), k (op argument), ret,
 *   st : for every array object [kind, live, count, cursize, xa, ta, wa] with, per backing array,
 *        0 = NULL, else malloc_usable_size(ptr) / sizeof(double)  (a lower bound friendly
 *        observation: usable >= requested); for a terminated object only NULL-ness (0 / -1),
 *   dc, wc : the counts of the data summaries / weighted summaries.
 * Populations are steered across the doubling thresholds 1x, 2x, 4x of
 * CMI_DATASET_INIT_SZ (read from src/cmi_dataset.h): bursts ("addn", logged as one
 * record) land within +-3 of a threshold, single adds walk across it.
 *
 * Validity (preconditions the headers and the library's own argument checks state):
 * calls only on initialized objects; copy between distinct objects of one class into
 * an initialized target; time stamps never decrease, and a series sorted by x is
 * sorted back by t before anything that needs the time order; weighted quantiles
 * and the weighted summary of a series with at least one sample; finalize with at
 * least one sample; ACF with 0 < n < count, PACF with 0 < n < count - 1,
 * correlogram with 0 < n < count; histogram with num_bins > 0 and low <= high;
 * output goes to /dev/null.
 */
#define _GNU_SOURCE
#include <stdio.h>
#include <stdlib.h>
#include <string.h>
#include <stdint.h>
#include <stdbool.h>
#include <signal.h>
#include <unistd.h>
#include <malloc.h>
#include <sys/wait.h>

#include "cimba.h"
#include "cmb_dataset.h"
#include "cmb_timeseries.h"
#include "cmb_datasummary.h"
#include "cmb_wtdsummary.h"
#include "cmi_dataset.h"

/* declared in include/cmb_dataset.h; the tree may not define it */
extern uint64_t cmb_dataset_merge(struct cmb_dataset *tgt, const struct cmb_dataset *s1, const struct cmb_dataset *s2) __attribute__((weak));

#define NDS 3
#define NTS 3
#define NOBJ (NDS + NTS)
#define NSUM 2
#define CAP0 ((long)CMI_DATASET_INIT_SZ)
#define MAXPOP (4 * CAP0 + 40)
#define MAXLAG 24

static FILE *out, *devnull;
static int hist_no;
static const char *cur_op = "none";

static struct cmb_dataset *ds[NDS];
static struct cmb_timeseries *ts[NTS];
static struct cmb_datasummary *dsum[NSUM];
static struct cmb_wtdsummary *wsum[NSUM];
static bool live[NOBJ];
static bool xsorted[NTS];      /* sorted by x: not a time series until sorted back */
static double lastt[NTS];
static double scale, tunit;
static long budget;            /* adds left in this history */

static void crash_handler(int sig)
{
    if (out != NULL) {
        fprintf(out, "{\"op\":\"crash\",\"h\":%d,\"sig\":%d,\"during\":\"%s\"}\n", hist_no, sig, cur_op);
        fflush(out);
    }
    _exit(3);
}

static uint64_t rs;
static uint64_t rnd(void) { rs ^= rs << 13; rs ^= rs >> 7; rs ^= rs << 17; return rs; }
static long ri(long lo, long hi) { return lo + (long)(rnd() % (uint64_t)(hi - lo + 1)); }

static struct cmb_dataset *dsof(int o) { return (o < NDS) ? ds[o] : (struct cmb_dataset *)ts[o - NDS]; }

static long usable(const double *p, bool is_live)
{
    if (p == NULL) return 0;
    if (!is_live) return -1;
    return (long)(malloc_usable_size((void *)p) / sizeof(double));
}

static void emit(const char *op, int o, int s1, int s2, long k, long ret)
{
    /* the record is assembled first and written in one piece: if observing a damaged heap kills the
     * child, the trace holds no half line (the crash record then says "observe:<op>") */
    static char buf[4096];
    char during[64];
    snprintf(during, sizeof during, "observe:%s", op);
    cur_op = during;
    int n = snprintf(buf, sizeof buf, "{\"op\":\"%s\",\"h\":%d,\"cap0\":%ld,\"o\":%d,\"s1\":%d,\"s2\":%d,\"k\":%ld,\"ret\":%ld,\"st\":[",
                     op, hist_no, CAP0, o + 1, s1 + 1, s2 + 1, k, ret);
    for (int i = 0; i < NOBJ; i++) {
        const struct cmb_dataset *d = dsof(i);
        const bool t = (i >= NDS);
        n += snprintf(buf + n, sizeof buf - (size_t)n,
                "%s{\"kind\":\"%s\",\"live\":%s,\"count\":%ld,\"cursize\":%ld,\"xa\":%ld,\"ta\":%ld,\"wa\":%ld}",
                (i > 0) ? "," : "", t ? "ts" : "ds", live[i] ? "true" : "false",
                (long)d->count, (long)d->cursize, usable(d->xa, live[i]),
                t ? usable(ts[i - NDS]->ta, live[i]) : 0L, t ? usable(ts[i - NDS]->wa, live[i]) : 0L);
    }
    n += snprintf(buf + n, sizeof buf - (size_t)n, "],\"dc\":[%ld,%ld],\"wc\":[%ld,%ld]}\n",
            (long)cmb_datasummary_count(dsum[0]), (long)cmb_datasummary_count(dsum[1]),
            (long)cmb_wtdsummary_count(wsum[0]), (long)cmb_wtdsummary_count(wsum[1]));
    fwrite(buf, 1, (size_t)n, out);
    fflush(out);
    cur_op = "none";
}

static double xval(void)
{
    const long r = ri(0, 99);
    if (r < 70) return scale * (double)ri(0, 9);
    if (r < 90) return scale * ((double)ri(-40, 40) + 0.25 * (double)ri(0, 3));
    return scale * (double)ri(-1000, 1000);
}

/* a series sorted by x is sorted back before anything that relies on the time order */
static void need_time_order(int o)
{
    if (o >= NDS && xsorted[o - NDS]) {
        cur_op = "sort_t";
        cmb_timeseries_sort_t(ts[o - NDS]);
        xsorted[o - NDS] = false;
        emit("sort_t", o, -1, -1, 0, 0);
    }
}

static long add_one(int o)
{
    if (o < NDS) return (long)cmb_dataset_add(ds[o], xval());
    const int t = o - NDS;
    lastt[t] += tunit * (double)ri(0, 3);
    return (long)cmb_timeseries_add(ts[t], xval(), lastt[t]);
}

static void do_add(int o)
{
    if ((long)dsof(o)->count >= MAXPOP || budget < 1) return;
    need_time_order(o);
    cur_op = "add";
    budget--;
    const long r = add_one(o);
    emit("add", o, -1, -1, 1, r);
}

static void do_addn(int o, long k)
{
    if (k < 1 || (long)dsof(o)->count + k > MAXPOP || budget < k) return;
    need_time_order(o);
    cur_op = "addn";
    budget -= k;
    long r = 0;
    for (long i = 0; i < k; i++) r = add_one(o);
    emit("addn", o, -1, -1, k, r);
}

/* a burst that lands within +-3 of a doubling threshold, or a small one */
static void do_burst(int o)
{
    static const long mult[] = { 1, 1, 1, 2, 2, 4 };
    const long cnt = (long)dsof(o)->count;
    long target;
    if (ri(0, 99) < 65) target = CAP0 * mult[ri(0, 5)] + ri(-3, 3);
    else target = cnt + ri(2, 40);
    if (target <= cnt) target = cnt + ri(1, 5);
    do_addn(o, target - cnt);
}

static void do_copy(int tgt, int src)
{
    cur_op = "copy";
    long r;
    if (tgt < NDS) r = (long)cmb_dataset_copy(ds[tgt], ds[src]);
    else {
        r = (long)cmb_timeseries_copy(ts[tgt - NDS], ts[src - NDS]);
        xsorted[tgt - NDS] = xsorted[src - NDS];
        lastt[tgt - NDS] = lastt[src - NDS];
    }
    emit("copy", tgt, src, -1, 0, r);
}

static void do_merge(int tgt, int s1, int s2)
{
    if (cmb_dataset_merge == NULL) { emit("missing_merge", tgt, s1, s2, 0, 0); return; }
    if ((long)ds[s1]->count + (long)ds[s2]->count > MAXPOP) return;
    cur_op = "merge";
    const long r = (long)cmb_dataset_merge(ds[tgt], ds[s1], ds[s2]);
    emit("merge", tgt, s1, s2, 0, r);
}

static void do_reset(int o)
{
    cur_op = "reset";
    if (o < NDS) cmb_dataset_reset(ds[o]);
    else { cmb_timeseries_reset(ts[o - NDS]); xsorted[o - NDS] = false; lastt[o - NDS] = 0.0; }
    emit("reset", o, -1, -1, 0, 0);
}

static void do_reinit(int o)
{
    cur_op = "term";
    if (o < NDS) cmb_dataset_terminate(ds[o]); else cmb_timeseries_terminate(ts[o - NDS]);
    live[o] = false;
    emit("term", o, -1, -1, 0, 0);
    cur_op = "reinit";
    if (o < NDS) cmb_dataset_initialize(ds[o]);
    else { cmb_timeseries_initialize(ts[o - NDS]); xsorted[o - NDS] = false; lastt[o - NDS] = 0.0; }
    live[o] = true;
    emit("reinit", o, -1, -1, 0, 0);
}

static void do_sort(int o)
{
    if (o < NDS) { cur_op = "sort"; cmb_dataset_sort(ds[o]); emit("sort", o, -1, -1, 0, 0); return; }
    if (ri(0, 2) == 0) { cur_op = "sort_t"; cmb_timeseries_sort_t(ts[o - NDS]); xsorted[o - NDS] = false; emit("sort_t", o, -1, -1, 0, 0); }
    else { cur_op = "sort_x"; cmb_timeseries_sort_x(ts[o - NDS]); xsorted[o - NDS] = ((long)dsof(o)->count > 1); emit("sort_x", o, -1, -1, 0, 0); }
}

static void do_median(int o)
{
    /* weighted version on a time series with samples; the dataset version also on the dataset part of a series */
    if (o >= NDS && dsof(o)->count >= 1u && ri(0, 2) != 0) {
        cur_op = "median_w"; (void)cmb_timeseries_median(ts[o - NDS]); emit("median_w", o, -1, -1, 0, 0);
    } else {
        cur_op = "median"; (void)cmb_dataset_median(dsof(o)); emit("median", o, -1, -1, 0, 0);
    }
}

static void do_fivenum(int o)
{
    const bool lead = (ri(0, 1) == 1);
    if (o >= NDS && dsof(o)->count >= 1u && ri(0, 2) != 0) {
        cur_op = "fivenum_w"; cmb_timeseries_fivenum_print(ts[o - NDS], devnull, lead); emit("fivenum_w", o, -1, -1, 0, 0);
    } else {
        cur_op = "fivenum"; cmb_dataset_fivenum_print(dsof(o), devnull, lead); emit("fivenum", o, -1, -1, 0, 0);
    }
}

static void do_hist(int o)
{
    const unsigned nb = (unsigned)ri(1, 25);
    double lo = 0.0, hi = 0.0;                       /* equal limits: autoscale */
    if (ri(0, 2) == 0) { lo = scale * (double)ri(-5, 5); hi = lo + ((scale > 0.0) ? scale : -scale) * (double)ri(0, 12); }
    if (o >= NDS && ri(0, 2) != 0) {
        need_time_order(o);
        cur_op = "hist_w"; cmb_timeseries_histogram_print(ts[o - NDS], devnull, (uint16_t)nb, lo, hi); emit("hist_w", o, -1, -1, (long)nb, 0);
    } else {
        cur_op = "hist"; cmb_dataset_histogram_print(dsof(o), devnull, nb, lo, hi); emit("hist", o, -1, -1, (long)nb, 0);
    }
}

static void do_print(int o)
{
    if ((long)dsof(o)->count > 3000) return;
    if (o >= NDS && ri(0, 1) == 0) { cur_op = "print_ts"; cmb_timeseries_print(ts[o - NDS], devnull); emit("print_ts", o, -1, -1, 0, 0); }
    else { cur_op = "print"; cmb_dataset_print(dsof(o), devnull); emit("print", o, -1, -1, 0, 0); }
}

static void do_corr(int o)
{
    const long cnt = (long)dsof(o)->count;
    double acf[MAXLAG + 2], pacf[MAXLAG + 2];
    const long which = ri(0, 4);
    if (which == 0 && cnt >= 2) {                                  /* ACF, 0 < n < count */
        long n = ri(1, cnt - 1); if (n > MAXLAG) n = ri(1, MAXLAG);
        cur_op = "acf";
        if (o < NDS) cmb_dataset_ACF(ds[o], (unsigned)n, acf); else cmb_timeseries_ACF(ts[o - NDS], (uint16_t)n, acf);
        emit("acf", o, -1, -1, n, 0);
    } else if (which == 1 && cnt >= 3) {                           /* PACF, 0 < n < count - 1, own or given ACFs */
        long n = ri(1, cnt - 2); if (n > MAXLAG) n = ri(1, MAXLAG);
        const bool given = (ri(0, 1) == 1);
        if (given) { cur_op = "acf"; cmb_dataset_ACF(dsof(o), (unsigned)n, acf); emit("acf", o, -1, -1, n, 0); }
        cur_op = "pacf";
        if (o < NDS) cmb_dataset_PACF(ds[o], (unsigned)n, pacf, given ? acf : NULL);
        else cmb_timeseries_PACF(ts[o - NDS], (uint16_t)n, pacf, given ? acf : NULL);
        emit("pacf", o, -1, -1, n, 0);
    } else if (which == 2 && cnt >= 2) {                           /* correlogram computing its own ACFs */
        long n = ri(1, cnt - 1); if (n > MAXLAG) n = ri(1, MAXLAG);
        cur_op = "correlogram";
        if (o < NDS) cmb_dataset_correlogram_print(ds[o], devnull, (unsigned)n, NULL);
        else cmb_timeseries_correlogram_print(ts[o - NDS], devnull, (uint16_t)n, NULL);
        emit("correlogram", o, -1, -1, n, 0);
    } else if (which == 3 && cnt >= 2) {                           /* correlogram of ACFs calculated before */
        long n = ri(1, cnt - 1); if (n > MAXLAG) n = ri(1, MAXLAG);
        cur_op = "acf"; cmb_dataset_ACF(dsof(o), (unsigned)n, acf); emit("acf", o, -1, -1, n, 0);
        cur_op = "correlogram_acf"; cmb_dataset_correlogram_print(dsof(o), devnull, (unsigned)n, acf); emit("correlogram_acf", o, -1, -1, n, 0);
    } else if (which == 4 && cnt >= 3) {                           /* correlogram of PACFs calculated before */
        long n = ri(1, cnt - 2); if (n > MAXLAG) n = ri(1, MAXLAG);
        cur_op = "pacf"; cmb_dataset_PACF(dsof(o), (unsigned)n, pacf, NULL); emit("pacf", o, -1, -1, n, 0);
        cur_op = "correlogram_pacf"; cmb_dataset_correlogram_print(dsof(o), devnull, (unsigned)n, pacf); emit("correlogram_pacf", o, -1, -1, n, 0);
    }
}

static void do_summarize(int o)
{
    const int s = (int)ri(0, NSUM - 1);
    if (o >= NDS && dsof(o)->count >= 1u && ri(0, 2) != 0) {
        need_time_order(o);
        cur_op = "summarize_w";
        const long r = (long)cmb_timeseries_summarize(ts[o - NDS], wsum[s]);
        emit("summarize_w", o, s, -1, 0, r);
    } else {
        cur_op = "summarize";
        const long r = (long)cmb_dataset_summarize(dsof(o), dsum[s]);
        emit("summarize", o, s, -1, 0, r);
    }
}

static void do_finalize(int o)
{
    if (o < NDS || dsof(o)->count < 1u || (long)dsof(o)->count >= MAXPOP || budget < 1) return;
    need_time_order(o);
    const int t = o - NDS;
    lastt[t] += tunit * (double)ri(0, 3);
    cur_op = "finalize";
    budget--;
    const long r = (long)cmb_timeseries_finalize(ts[t], lastt[t]);
    emit("finalize", o, -1, -1, 0, r);
}

static void do_summary_op(void)
{
    const int s = (int)ri(0, NSUM - 1), a = (int)ri(0, NSUM - 1), b = (int)ri(0, NSUM - 1);
    switch (ri(0, 7)) {
    case 0: case 1: { cur_op = "dsum_add"; long r = 0; const long k = ri(1, 6);
                      for (long i = 0; i < k; i++) r = (long)cmb_datasummary_add(dsum[s], xval());
                      emit("dsum_add", -1, s, -1, k, r); break; }
    case 2: { cur_op = "dsum_merge"; const long r = (long)cmb_datasummary_merge(dsum[s], dsum[a], dsum[b]); emit("dsum_merge", s, a, b, 0, r); break; }
    case 3: { if (ri(0, 1)) { cur_op = "dsum_reset"; cmb_datasummary_reset(dsum[s]); emit("dsum_reset", -1, s, -1, 0, 0); }
              else { cur_op = "dsum_print"; cmb_datasummary_print(dsum[s], devnull, ri(0, 1) == 1); emit("dsum_print", -1, s, -1, 0, 0); } break; }
    case 4: case 5: { cur_op = "wsum_add"; long r = 0; const long k = ri(1, 6);
                      for (long i = 0; i < k; i++) r = (long)cmb_wtdsummary_add(wsum[s], xval(), tunit * (double)ri(0, 3));
                      emit("wsum_add", -1, s, -1, k, r); break; }
    case 6: { cur_op = "wsum_merge"; const long r = (long)cmb_wtdsummary_merge(wsum[s], wsum[a], wsum[b]); emit("wsum_merge", s, a, b, 0, r); break; }
    default: { if (ri(0, 1)) { cur_op = "wsum_reset"; cmb_wtdsummary_reset(wsum[s]); emit("wsum_reset", -1, s, -1, 0, 0); }
               else { cur_op = "wsum_print"; cmb_wtdsummary_print(wsum[s], devnull, ri(0, 1) == 1); emit("wsum_print", -1, s, -1, 0, 0); } break; }
    }
}

static int pick_same_class_other(int o)
{
    const int base = (o < NDS) ? 0 : NDS, n = (o < NDS) ? NDS : NTS;
    int p = base + (int)ri(0, n - 2);
    if (p >= o) p++;
    return p;
}

static void history(int h, int maxops)
{
    static const double scales[] = { 1.0, 1.0, 1e-3, 1e6, -1.0, 2.5e9, 0.5, 1e10 };
    scale = scales[h % 8];
    tunit = (h % 3 == 0) ? 0.25 : ((h % 3 == 1) ? 1.0 : 1e3);
    budget = 5 * CAP0 + 200;
    for (int i = 0; i < NDS; i++) ds[i] = cmb_dataset_create();
    for (int i = 0; i < NTS; i++) { ts[i] = cmb_timeseries_create(); xsorted[i] = false; lastt[i] = 0.0; }
    for (int i = 0; i < NSUM; i++) { dsum[i] = cmb_datasummary_create(); wsum[i] = cmb_wtdsummary_create(); }
    for (int i = 0; i < NOBJ; i++) live[i] = true;
    emit("init", -1, -1, -1, 0, 0);

    /* opening: one or two populated objects, most of them near a threshold or tiny */
    static const long pops[] = { 1, 2, 3, 5, 17 };
    const int nopen = (int)ri(1, 2);
    for (int i = 0; i < nopen; i++) {
        const int o = (int)ri(0, NOBJ - 1);
        if (ri(0, 99) < 55) do_burst(o); else do_addn(o, pops[ri(0, 4)]);
    }
    for (int n = 0; n < maxops; n++) {
        const int o = (int)ri(0, NOBJ - 1);
        const long r = ri(0, 99);
        if (r < 16) do_add(o);
        else if (r < 24) do_burst(o);
        else if (r < 38) do_copy(o, pick_same_class_other(o));
        else if (r < 41) { const int t = (int)ri(0, NDS - 1); do_merge(t, (int)ri(0, NDS - 1), (int)ri(0, NDS - 1)); }
        else if (r < 45) do_reset(o);
        else if (r < 48) do_reinit(o);
        else if (r < 55) do_sort(o);
        else if (r < 61) do_median(o);
        else if (r < 66) do_fivenum(o);
        else if (r < 72) do_hist(o);
        else if (r < 74) do_print(o);
        else if (r < 82) do_corr(o);
        else if (r < 88) do_summarize(o);
        else if (r < 91) do_finalize(o);
        else do_summary_op();
    }
    /* closing ceremonies: every object is destroyed */
    cur_op = "destroy";
    for (int i = 0; i < NDS; i++) cmb_dataset_destroy(ds[i]);
    for (int i = 0; i < NTS; i++) cmb_timeseries_destroy(ts[i]);
    for (int i = 0; i < NSUM; i++) { cmb_datasummary_destroy(dsum[i]); cmb_wtdsummary_destroy(wsum[i]); }
    fprintf(out, "{\"op\":\"end\",\"h\":%d}\n", h);
    fflush(out);
}

int main(int argc, char **argv)
{
    if (argc != 6 || strcmp(argv[1], "gen") != 0) {
        fprintf(stderr, "usage: c10_da_replay gen <seed> <count> <maxops> <trace.ndjson>\n");
        return 2;
    }
    const uint64_t seed = strtoull(argv[2], NULL, 10);
    const int nhist = atoi(argv[3]), maxops = atoi(argv[4]);
    FILE *f = fopen(argv[5], "w"); if (f == NULL) return 2; fclose(f);
    int crashes = 0;
    for (int h = 0; h < nhist; h++) {
        fflush(NULL);
        const pid_t pid = fork();
        if (pid < 0) return 2;
        if (pid == 0) {
            out = fopen(argv[5], "a");
            devnull = fopen("/dev/null", "w");
            if (out == NULL || devnull == NULL) _exit(2);
            signal(SIGABRT, crash_handler); signal(SIGSEGV, crash_handler); signal(SIGBUS, crash_handler); signal(SIGFPE, crash_handler);
            signal(SIGALRM, crash_handler); alarm(120);
            hist_no = h;
            fprintf(stderr, "#HIST %d\n", h); fflush(stderr);
            rs = seed * 2654435761u + (uint64_t)h * 0x9E3779B97F4A7C15ull + 88172645463325252ull; rnd(); rnd();
            history(h, maxops);
            fclose(out);
            _exit(0);
        }
        int st = 0; waitpid(pid, &st, 0);
        if (st != 0) crashes++;
    }
    return crashes ? 3 : 0;
}
