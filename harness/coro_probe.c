/*
 * coro_probe - drive the real coroutine layer (cmi_coroutine_*, and for the
 * "proc" mode cmb_process_*) through scripted interleavings and record an
 * ndjson trace for spec/CoroutineTrace.tla (property C03).
 *
 *   coro_probe frame <out.json>
 *       dump the initial stack frame that cmi_coroutine_context_init() builds
 *       (input of spec/CtxMachine.tla)
 *   coro_probe run  <script.txt> <out.ndjson>
 *       script = histories exported by TLC from spec/Coroutine.tla:
 *         hist <id> <ncoro> <seed>
 *         op <kind> <target> <msg> <depth> <token> <mxcsr>
 *         end
 *       every op is executed by whichever coroutine is current at that point
 *   coro_probe proc <script.txt> <out.ndjson>
 *       script = process programs:
 *         hist <id> <nproc> <seed>
 *         p <pid> <retval> <dur> <depth> <token> <mxcsr> [<dur> <depth> <token> <mxcsr> ...]
 *         main <depth> <token> <mxcsr>
 *         end
 *
 * Every switch goes through an assembly shim that loads recognisable values
 * into rbx, rbp, r12-r15 and MXCSR, calls the real library function and
 * stores the registers afterwards; frames above the call carry canaries and
 * the whole live part of the stack is hashed before and after.
 * The harness only logs. It never decides whether the property holds.
 * Each history runs in a forked child.
 */
#include <stdio.h>
#include <stdlib.h>
#include <string.h>
#include <stdint.h>
#include <stdbool.h>
#include <signal.h>
#include <unistd.h>
#include <sys/wait.h>

#include "cimba.h"
#include "cmi_coroutine.h"
#include "cmi_verif.h"

#ifdef CMI_VERIF_ASAN
extern void cmi_verif_fiber_entered(void);
#define FIBER_ENTERED() cmi_verif_fiber_entered()
#define NOSAN __attribute__((no_sanitize("address")))
#else
#define FIBER_ENTERED() ((void)0)
#define NOSAN
#endif

extern void cmi_coroutine_context_init(struct cmi_coroutine *cp);
extern void cmi_coroutine_trampoline(void);

/* ------------------------------------------------------------------ shim */
typedef void *(shim_fn)(void *, void *);
/* calls fn(a, b) with rbx,rbp,r12..r15 = in[0..5] and MXCSR = mx[0];
 * afterwards out[0..5] = those registers, mx[1] = MXCSR; returns fn's value */
extern void *c03_shim(shim_fn *fn, void *a, void *b, const uint64_t *in, uint64_t *out, uint32_t *mx);
extern void *c03_entry_thunk(struct cmi_coroutine *cp, void *ctx);
extern void c03_exit_thunk(void *retval);
extern void *c03_pentry_thunk(struct cmb_process *pp, void *ctx);

__asm__(
    ".text\n"
    ".intel_syntax noprefix\n"
    ".globl c03_shim\n"
    ".type c03_shim,@function\n"
    "c03_shim:\n"
    "    push rbp\n"
    "    push rbx\n"
    "    push r12\n"
    "    push r13\n"
    "    push r14\n"
    "    push r15\n"
    "    sub rsp, 40\n"
    "    mov [rsp], r8\n"
    "    mov [rsp+8], r9\n"
    "    stmxcsr [rsp+16]\n"
    "    mov rax, rdi\n"
    "    mov rdi, rsi\n"
    "    mov rsi, rdx\n"
    "    mov rbx, [rcx]\n"
    "    mov rbp, [rcx+8]\n"
    "    mov r12, [rcx+16]\n"
    "    mov r13, [rcx+24]\n"
    "    mov r14, [rcx+32]\n"
    "    mov r15, [rcx+40]\n"
    "    ldmxcsr [r9]\n"
    "    call rax\n"
    "    mov rcx, [rsp]\n"
    "    mov [rcx], rbx\n"
    "    mov [rcx+8], rbp\n"
    "    mov [rcx+16], r12\n"
    "    mov [rcx+24], r13\n"
    "    mov [rcx+32], r14\n"
    "    mov [rcx+40], r15\n"
    "    mov rdx, [rsp+8]\n"
    "    stmxcsr [rdx+4]\n"
    "    ldmxcsr [rsp+16]\n"
    "    add rsp, 40\n"
    "    pop r15\n"
    "    pop r14\n"
    "    pop r13\n"
    "    pop r12\n"
    "    pop rbx\n"
    "    pop rbp\n"
    "    ret\n"
    ".size c03_shim, .-c03_shim\n"
    /* coroutine function: note the stack pointer at entry, then run the body */
    ".globl c03_entry_thunk\n"
    ".type c03_entry_thunk,@function\n"
    "c03_entry_thunk:\n"
    "    mov rdx, rsp\n"
    "    jmp c03_body\n"
    ".size c03_entry_thunk, .-c03_entry_thunk\n"
    ".globl c03_pentry_thunk\n"
    ".type c03_pentry_thunk,@function\n"
    "c03_pentry_thunk:\n"
    "    mov rdx, rsp\n"
    "    jmp c03_pbody\n"
    ".size c03_pentry_thunk, .-c03_pentry_thunk\n"
    /* exit function: note the stack pointer at entry */
    ".globl c03_exit_thunk\n"
    ".type c03_exit_thunk,@function\n"
    "c03_exit_thunk:\n"
    "    mov rsi, rsp\n"
    "    jmp c03_exit_c\n"
    ".size c03_exit_thunk, .-c03_exit_thunk\n"
    ".att_syntax\n"
);

/* ------------------------------------------------------------------ encodings */
#define MAXC 8
#define MAXOPS 400
#define MAXDEPTH 12
#define REG_TAG  UINT64_C(0xC03A000000000000)
#define MSG_TAG  UINT64_C(0x00C0300000000000)
#define CAN_TAG  UINT64_C(0x5EED000000000000)
static const char *const regname[6] = { "rbx", "rbp", "r12", "r13", "r14", "r15" };

static uint64_t reg_pattern(int r, long tok) { return REG_TAG | ((uint64_t)r << 40) | (uint64_t)tok; }
static void reg_decode(uint64_t v, long *r, long *tok)
{
    if ((v & UINT64_C(0xFFFF000000000000)) == REG_TAG && ((v >> 40) & 0xFFu) < 6u && (v & UINT64_C(0xFFFFFFFFFF)) < (UINT64_C(1) << 30)) {
        *r = (long)((v >> 40) & 0xFFu); *tok = (long)(v & UINT64_C(0xFFFFFFFFFF));
    }
    else { *r = -1; *tok = -1; }
}
static void *msg_encode(long m) { return (m == 0) ? NULL : (void *)(uintptr_t)(MSG_TAG | (uint64_t)m); }
static long msg_decode(const void *p)
{
    const uint64_t v = (uint64_t)(uintptr_t)p;
    if (v == 0u) return 0;
    if ((v & ~UINT64_C(0x3FFFFFFF)) == MSG_TAG) return (long)(v & UINT64_C(0x3FFFFFFF));
    return -1;
}
static long can_decode(uint64_t v)
{
    if ((v & ~UINT64_C(0x3FFFFFFF)) == CAN_TAG) return (long)(v & UINT64_C(0x3FFFFFFF));
    return -1;
}

NOSAN static long region_hash(const unsigned char *lo, const unsigned char *hi)
{
    uint64_t h = UINT64_C(1469598103934665603);
    if (lo == NULL || hi == NULL || hi < lo || (size_t)(hi - lo) > (size_t)(1u << 22)) return -2;
    for (const unsigned char *p = lo; p < hi; p++) { h ^= *p; h *= UINT64_C(1099511628211); }
    return (long)((h ^ (h >> 30) ^ (h >> 60)) & UINT64_C(0x3FFFFFFF));
}

/* ------------------------------------------------------------------ state */
static FILE *out;
static void crash_handler(int sig)
{
    if (out != NULL) { fprintf(out, "{\"e\":\"crash\",\"sig\":%d}\n", sig); fflush(out); }
    _exit(3);
}

struct op { char k[12]; int d; long m; int depth; long tok; long mx; };
static struct op ops[MAXOPS];
static int nops, pc;
static int ncoro;
static long hist_id;
static int proc_mode;

static struct cmi_coroutine *co[MAXC + 1];      /* co[0] = main, filled lazily */
static struct cmb_process *pr[MAXC + 1];
static long ctx_tok[MAXC + 1];
static int custom_exit[MAXC + 1];
static unsigned char *stack_hi[MAXC + 1];       /* upper end of the hashed region per coroutine */

static int id_of_co(const void *cp)
{
    if (cp == NULL) return -1;
    if (!proc_mode) {
        if (cp == (const void *)cmi_coroutine_main()) return 0;
        for (int i = 1; i <= ncoro; i++) if ((const void *)co[i] == cp) return i;
    }
    else {
        if (cp == (const void *)cmi_coroutine_main()) return 0;
        for (int i = 1; i <= ncoro; i++) if ((const void *)pr[i] == cp) return i;
    }
    return -1;
}

static void log_snapshot(void)
{
    fprintf(out, ",\"st\":[");
    for (int i = 1; i <= ncoro; i++)
        fprintf(out, "%s%d", i > 1 ? "," : "", proc_mode ? (int)cmb_process_status(pr[i]) : (int)cmi_coroutine_status(co[i]));
    fprintf(out, "],\"xv\":[");
    for (int i = 1; i <= ncoro; i++) {
        const void *xv = proc_mode
            ? ((cmb_process_status(pr[i]) == CMB_PROCESS_FINISHED) ? cmb_process_exit_value(pr[i]) : NULL)
            : cmi_coroutine_exit_value(co[i]);
        fprintf(out, "%s%ld", i > 1 ? "," : "", msg_decode(xv));
    }
    fprintf(out, "],\"cur\":%d", id_of_co(cmi_coroutine_current()));
}

/* ------------------------------------------------------------------ the switch site */
struct site {
    int self; int opi; const struct op *o;
    shim_fn *fn; void *a; void *b;
    const unsigned char *lo;            /* lower end of the hashed region: a local of the caller */
    /* results */
    long ret; long rr[6], rt[6]; long mxo; long h0, h1;
    long can[MAXDEPTH + 2]; int ncan;
};

static void *w_start(void *cp, void *msg) { return cmi_coroutine_start(cp, msg); }
static void *w_resume(void *cp, void *msg) { return cmi_coroutine_resume(cp, msg); }
static void *w_transfer(void *cp, void *msg) { return cmi_coroutine_transfer(cp, msg); }
static void *w_yield(void *msg, void *unused) { (void)unused; return cmi_coroutine_yield(msg); }
static void *w_exit(void *v, void *unused) { (void)unused; cmi_coroutine_exit(v); return NULL; }
static void *w_stop(void *cp, void *v) { cmi_coroutine_stop(cp, v); return NULL; }
static void *w_hold(void *dur, void *unused) { (void)unused; return (void *)(intptr_t)cmb_process_hold((double)(intptr_t)dur); }
static void *w_run(void *a, void *b) { (void)a; (void)b; cmb_event_queue_execute(); return NULL; }

/* bottom frame: everything this function needs lives below s->lo */
__attribute__((noinline)) static void do_switch(struct site *s)
{
    uint64_t in[6], outr[6];
    uint32_t mx[2];
    for (int r = 0; r < 6; r++) { in[r] = reg_pattern(r, s->o->tok); outr[r] = 0u; }
    mx[0] = (uint32_t)s->o->mx; mx[1] = 0u;
    const unsigned char *hi = stack_hi[s->self];
    const long h0 = region_hash(s->lo, hi);
    fprintf(out, "{\"e\":\"op\",\"i\":%d,\"by\":%d,\"k\":\"%s\",\"d\":%d,\"m\":%ld,\"dp\":%d,\"tok\":%ld,\"mx\":%ld,\"hs\":%ld}\n",
            s->opi, s->self, s->o->k, s->o->d, s->o->m, s->o->depth, s->o->tok, s->o->mx, h0);
    fflush(out);
    void *ret = c03_shim(s->fn, s->a, s->b, in, outr, mx);
    const long h1 = region_hash(s->lo, hi);
    s->h0 = h0; s->h1 = h1;
    s->ret = msg_decode(ret);
    for (int r = 0; r < 6; r++) reg_decode(outr[r], &s->rr[r], &s->rt[r]);
    s->mxo = (long)mx[1];
}

/* k frames with canaries between the interpreter and the switch */
__attribute__((noinline)) static void descend(int k, struct site *s)
{
    volatile uint64_t can[4];
    const uint64_t pat = CAN_TAG | (uint64_t)s->o->tok;
    can[0] = pat; can[1] = pat ^ 0u; can[2] = pat; can[3] = pat;
    if (k <= 0) {
        s->lo = (const unsigned char *)&can[0];
        do_switch(s);
    }
    else {
        descend(k - 1, s);
    }
    /* after control has come back: what do the canaries of this frame say */
    long v = can_decode(can[0]);
    if (can[1] != can[0] || can[2] != can[0] || can[3] != can[0]) v = -1;
    if (s->ncan < MAXDEPTH + 2) s->can[s->ncan++] = v;
}

static void log_in(const struct site *s)
{
    fprintf(out, "{\"e\":\"in\",\"c\":%d,\"i\":%d,\"ret\":%ld,\"rr\":[", s->self, s->opi, s->ret);
    for (int r = 0; r < 6; r++) fprintf(out, "%s%ld", r ? "," : "", s->rr[r]);
    fprintf(out, "],\"rt\":[");
    for (int r = 0; r < 6; r++) fprintf(out, "%s%ld", r ? "," : "", s->rt[r]);
    fprintf(out, "],\"mx\":%ld,\"can\":[", s->mxo);
    for (int i = 0; i < s->ncan; i++) fprintf(out, "%s%ld", i ? "," : "", s->can[i]);
    fprintf(out, "],\"hs\":%ld", s->h1);
    log_snapshot();
    fprintf(out, "}\n");
    fflush(out);
}

static void finish_history(void)
{
    fprintf(out, "{\"e\":\"end\",\"h\":%ld}\n", hist_id);
    fflush(out);
    fclose(out);
    _exit(0);
}

/* The interpreter: whoever is current executes the next op of the script.
 * Returns (only in a coroutine) when it executes a "return" op. */
__attribute__((noinline)) static void *interp(int self)
{
    for (;;) {
        if (pc >= nops) finish_history();
        const int i = pc++;
        const struct op *o = &ops[i];
        struct site s;
        memset(&s, 0, sizeof s);
        s.self = self; s.opi = i; s.o = o;
        void *msg = msg_encode(o->m);
        struct cmi_coroutine *tgt = (o->d >= 1 && o->d <= ncoro) ? co[o->d] : ((o->d == 0) ? cmi_coroutine_main() : NULL);
        if (strcmp(o->k, "start") == 0) { s.fn = w_start; s.a = tgt; s.b = msg; }
        else if (strcmp(o->k, "resume") == 0) { s.fn = w_resume; s.a = tgt; s.b = msg; }
        else if (strcmp(o->k, "transfer") == 0) { s.fn = w_transfer; s.a = tgt; s.b = msg; }
        else if (strcmp(o->k, "yield") == 0) { s.fn = w_yield; s.a = msg; s.b = NULL; }
        else if (strcmp(o->k, "exit") == 0) { s.fn = w_exit; s.a = msg; s.b = NULL; }
        else if (strcmp(o->k, "stopself") == 0) { s.fn = w_stop; s.a = co[self]; s.b = msg; }
        else if (strcmp(o->k, "return") == 0) {
            fprintf(out, "{\"e\":\"op\",\"i\":%d,\"by\":%d,\"k\":\"return\",\"d\":-1,\"m\":%ld,\"dp\":0,\"tok\":0,\"mx\":0,\"hs\":0}\n", i, self, o->m);
            fflush(out);
            return msg;
        }
        else if (strcmp(o->k, "stop") == 0 || strcmp(o->k, "reset") == 0) {
            /* no control transfer */
            fprintf(out, "{\"e\":\"op\",\"i\":%d,\"by\":%d,\"k\":\"%s\",\"d\":%d,\"m\":%ld,\"dp\":0,\"tok\":0,\"mx\":0,\"hs\":0}\n", i, self, o->k, o->d, o->m);
            fflush(out);
            if (o->k[0] == 's') cmi_coroutine_stop(tgt, msg); else cmi_coroutine_reset(tgt);
            fprintf(out, "{\"e\":\"done\",\"i\":%d,\"by\":%d", i, self);
            log_snapshot();
            fprintf(out, "}\n");
            fflush(out);
            continue;
        }
        else { fprintf(out, "{\"e\":\"badop\",\"i\":%d}\n", i); finish_history(); }
        descend(o->depth, &s);
        log_in(&s);
    }
}

/* coroutine function proper, reached through c03_entry_thunk */
void *c03_body(struct cmi_coroutine *cp, void *ctx, unsigned char *entry_rsp);
void *c03_body(struct cmi_coroutine *cp, void *ctx, unsigned char *entry_rsp)
{
    FIBER_ENTERED();
    const int by_ptr = id_of_co(cp);
    const long ctok = msg_decode(ctx);
    int self = -1;
    for (int i = 1; i <= ncoro; i++) if (ctx_tok[i] == ctok) self = i;
    fprintf(out, "{\"e\":\"entry\",\"c\":%d,\"self\":%d,\"ctx\":%ld,\"rsp\":%d", self, by_ptr, ctok, (int)((uintptr_t)entry_rsp % 16u));
    log_snapshot();
    fprintf(out, "}\n");
    fflush(out);
    if (self < 0) self = by_ptr;
    if (self < 1) finish_history();
    stack_hi[self] = entry_rsp + 8;
    return interp(self);
}

void c03_exit_c(void *retval, unsigned char *entry_rsp);
void c03_exit_c(void *retval, unsigned char *entry_rsp)
{
    fprintf(out, "{\"e\":\"exitfn\",\"c\":%d,\"arg\":%ld,\"rsp\":%d}\n", id_of_co(cmi_coroutine_current()), msg_decode(retval),
            (int)((uintptr_t)entry_rsp % 16u));
    fflush(out);
    cmi_coroutine_exit(retval);
    fprintf(out, "{\"e\":\"exitreturned\"}\n");
    finish_history();
}

/* ------------------------------------------------------------------ script reading */
static bool read_history(FILE *in)
{
    char line[512];
    nops = 0; pc = 0;
    bool have = false;
    while (fgets(line, sizeof line, in) != NULL) {
        long a, b, c;
        if (sscanf(line, "hist %ld %ld %ld", &a, &b, &c) == 3) { hist_id = a; ncoro = (int)b; have = true; continue; }
        if (strncmp(line, "end", 3) == 0 && have) return true;
        struct op o; memset(&o, 0, sizeof o);
        long d, m, dp, tok, mx;
        if (sscanf(line, "op %11s %ld %ld %ld %ld %ld", o.k, &d, &m, &dp, &tok, &mx) == 6 && nops < MAXOPS) {
            o.d = (int)d; o.m = m; o.depth = (int)(dp > MAXDEPTH ? MAXDEPTH : dp); o.tok = tok; o.mx = mx;
            ops[nops++] = o;
        }
    }
    return false;
}

static void run_history(void)
{
    unsigned char marker[16];
    memset(marker, 0x5a, sizeof marker);
    if (ncoro > MAXC) ncoro = MAXC;
    for (int i = 1; i <= ncoro; i++) {
        ctx_tok[i] = 900000 + 37 * i + (hist_id % 1000);
        custom_exit[i] = (int)((i + hist_id) % 2);
        co[i] = cmi_coroutine_create();
        cmi_coroutine_initialize(co[i], (cmi_coroutine_func *)c03_entry_thunk, msg_encode(ctx_tok[i]),
                                 custom_exit[i] ? c03_exit_thunk : NULL, (size_t)(96u * 1024u) + (size_t)(i * 8u));
    }
    stack_hi[0] = marker + sizeof marker;
    fprintf(out, "{\"e\":\"init\",\"h\":%ld,\"mode\":\"co\",\"n\":%d,\"ctx\":[", hist_id, ncoro);
    for (int i = 1; i <= ncoro; i++) fprintf(out, "%s%ld", i > 1 ? "," : "", ctx_tok[i]);
    fprintf(out, "],\"cx\":[");
    for (int i = 1; i <= ncoro; i++) fprintf(out, "%s%d", i > 1 ? "," : "", custom_exit[i]);
    fprintf(out, "]}\n");
    fflush(out);
    (void)interp(0);
}

/* ------------------------------------------------------------------ process mode */
struct pstep { long dur; int depth; long tok; long mx; };
static struct pstep psteps[MAXC + 1][32];
static int npsteps[MAXC + 1];
static long pretval[MAXC + 1];
static struct op mainop;
static int opctr;

static bool read_pprogram(FILE *in)
{
    char line[2048];
    bool have = false;
    memset(npsteps, 0, sizeof npsteps);
    while (fgets(line, sizeof line, in) != NULL) {
        long a, b, c;
        if (sscanf(line, "hist %ld %ld %ld", &a, &b, &c) == 3) { hist_id = a; ncoro = (int)b; have = true; continue; }
        if (strncmp(line, "end", 3) == 0 && have) return true;
        if (strncmp(line, "main ", 5) == 0) {
            long dp, tok, mx;
            if (sscanf(line + 5, "%ld %ld %ld", &dp, &tok, &mx) == 3) { memset(&mainop, 0, sizeof mainop); strcpy(mainop.k, "run"); mainop.d = -1; mainop.depth = (int)dp; mainop.tok = tok; mainop.mx = mx; }
            continue;
        }
        if (line[0] == 'p' && line[1] == ' ') {
            char *s = line + 2; int n = 0; long pid, rv;
            if (sscanf(s, "%ld %ld%n", &pid, &rv, &n) < 2 || pid < 1 || pid > MAXC) continue;
            s += n; pretval[pid] = rv;
            long du, dp, tok, mx;
            while (sscanf(s, "%ld %ld %ld %ld%n", &du, &dp, &tok, &mx, &n) == 4 && npsteps[pid] < 32) {
                struct pstep *ps = &psteps[pid][npsteps[pid]++];
                ps->dur = du; ps->depth = (int)(dp > MAXDEPTH ? MAXDEPTH : dp); ps->tok = tok; ps->mx = mx;
                s += n;
            }
        }
    }
    return false;
}

void *c03_pbody(struct cmb_process *me, void *ctx, unsigned char *entry_rsp);
void *c03_pbody(struct cmb_process *me, void *ctx, unsigned char *entry_rsp)
{
    FIBER_ENTERED();
    const int by_ptr = id_of_co(me);
    const long ctok = msg_decode(ctx);
    int self = -1;
    for (int i = 1; i <= ncoro; i++) if (ctx_tok[i] == ctok) self = i;
    fprintf(out, "{\"e\":\"entry\",\"c\":%d,\"self\":%d,\"ctx\":%ld,\"rsp\":%d", self, by_ptr, ctok, (int)((uintptr_t)entry_rsp % 16u));
    log_snapshot();
    fprintf(out, "}\n");
    fflush(out);
    if (self < 0) self = by_ptr;
    if (self < 1) finish_history();
    stack_hi[self] = entry_rsp + 8;
    for (int k = 0; k < npsteps[self]; k++) {
        const struct pstep *ps = &psteps[self][k];
        struct op o; memset(&o, 0, sizeof o);
        strcpy(o.k, "hold"); o.d = -1; o.m = ps->dur; o.depth = ps->depth; o.tok = ps->tok; o.mx = ps->mx;
        struct site s; memset(&s, 0, sizeof s);
        s.self = self; s.opi = opctr++; s.o = &o; s.fn = w_hold; s.a = (void *)(intptr_t)ps->dur; s.b = NULL;
        descend(o.depth, &s);
        log_in(&s);
    }
    fprintf(out, "{\"e\":\"op\",\"i\":%d,\"by\":%d,\"k\":\"return\",\"d\":-1,\"m\":%ld,\"dp\":0,\"tok\":0,\"mx\":0,\"hs\":0}\n", opctr++, self, pretval[self]);
    fflush(out);
    return msg_encode(pretval[self]);
}

static void run_pprogram(void)
{
    unsigned char marker[16];
    memset(marker, 0x5a, sizeof marker);
    proc_mode = 1;
    if (ncoro > MAXC) ncoro = MAXC;
    cmb_event_queue_initialize(0.0);
    for (int i = 1; i <= ncoro; i++) {
        ctx_tok[i] = 800000 + 41 * i + (hist_id % 1000);
        pr[i] = cmb_process_create();
        char nm[8]; snprintf(nm, sizeof nm, "P%d", i);
        cmb_process_initialize(pr[i], nm, (cmb_process_func *)c03_pentry_thunk, msg_encode(ctx_tok[i]), (int64_t)(i % 3));
    }
    stack_hi[0] = marker + sizeof marker;
    fprintf(out, "{\"e\":\"init\",\"h\":%ld,\"mode\":\"proc\",\"n\":%d,\"ctx\":[", hist_id, ncoro);
    for (int i = 1; i <= ncoro; i++) fprintf(out, "%s%ld", i > 1 ? "," : "", ctx_tok[i]);
    fprintf(out, "],\"cx\":[");
    for (int i = 1; i <= ncoro; i++) fprintf(out, "%s1", i > 1 ? "," : "");
    fprintf(out, "]}\n");
    for (int i = 1; i <= ncoro; i++) cmb_process_start(pr[i]);
    /* the dispatcher itself goes through the shim: its context must survive all the processes */
    struct site s; memset(&s, 0, sizeof s);
    opctr = 1000;
    s.self = 0; s.opi = 999; s.o = &mainop; s.fn = w_run; s.a = NULL; s.b = NULL;
    descend(mainop.depth, &s);
    log_in(&s);
    finish_history();
}

/* ------------------------------------------------------------------ frame dump */
static void *dummy_fn(struct cmi_coroutine *cp, void *ctx) { (void)cp; return ctx; }
static void dummy_exit(void *v) { (void)v; }

static void dump_frame(FILE *f, const char *name, cmi_coroutine_exit_func *crexit, size_t stksz, bool last)
{
    struct cmi_coroutine *cp = cmi_coroutine_create();
    void *ctx = malloc(32);
    cmi_coroutine_initialize(cp, dummy_fn, ctx, crexit, stksz);
    cmi_coroutine_context_init(cp);
    const uintptr_t base = (uintptr_t)cp->stack_base, sp = (uintptr_t)cp->stack_pointer, lowest = (uintptr_t)cp->stack;
    const uintptr_t expect_exit = (crexit != NULL) ? (uintptr_t)crexit : (uintptr_t)cmi_coroutine_exit;
    fprintf(f, " {\"name\":\"%s\",\"spoff\":%ld,\"basemod\":%d,\"cells\":[", name, (long)(base - sp), (int)(base % 16u));
    long nwords = (long)(base - sp) / 8;
    if (sp > base || sp < lowest || nwords > 64) nwords = 0;
    for (long j = 0; j < nwords; j++) {
        uint64_t w;
        memcpy(&w, (const void *)(sp + 8u * (uintptr_t)j), 8);
        const char *sym = NULL;
        if (w == (uint64_t)(uintptr_t)cmi_coroutine_trampoline) sym = "TRAMPOLINE";
        else if (w == (uint64_t)(uintptr_t)dummy_fn) sym = "FUNC";
        else if (w == (uint64_t)(uintptr_t)cp) sym = "SELF";
        else if (w == (uint64_t)(uintptr_t)ctx) sym = "CTX";
        else if (w == (uint64_t)expect_exit) sym = "EXITFN";
        if (j) fprintf(f, ",");
        if (sym != NULL)
            fprintf(f, "{\"k\":\"sym\",\"s\":\"%s\",\"v\":0,\"h\":0},{\"k\":\"sym\",\"s\":\"%s\",\"v\":0,\"h\":1}", sym, sym);
        else if (w >= (uint64_t)lowest && w <= (uint64_t)base)
            fprintf(f, "{\"k\":\"stk\",\"s\":\"\",\"v\":%ld,\"h\":0},{\"k\":\"stk\",\"s\":\"\",\"v\":%ld,\"h\":1}",
                    -(long)(base - (uintptr_t)w), -(long)(base - (uintptr_t)w));
        else {
            const uint64_t lo = w & 0xFFFFFFFFu, hi = w >> 32;
            if (lo < (UINT64_C(1) << 31)) fprintf(f, "{\"k\":\"num\",\"s\":\"\",\"v\":%ld,\"h\":2}", (long)lo);
            else fprintf(f, "{\"k\":\"junk\",\"s\":\"\",\"v\":0,\"h\":2}");
            if (hi < (UINT64_C(1) << 31)) fprintf(f, ",{\"k\":\"num\",\"s\":\"\",\"v\":%ld,\"h\":2}", (long)hi);
            else fprintf(f, ",{\"k\":\"junk\",\"s\":\"\",\"v\":0,\"h\":2}");
        }
    }
    fprintf(f, "]}%s\n", last ? "" : ",");
}

/* ------------------------------------------------------------------ main */
int main(int argc, char **argv)
{
    cmb_logger_flags_off(CMB_LOGGER_INFO);
    cmb_logger_flags_off(CMB_LOGGER_WARNING);
    if (argc == 3 && strcmp(argv[1], "frame") == 0) {
        FILE *f = fopen(argv[2], "w");
        if (f == NULL) return 2;
        fprintf(f, "{\"frames\":[\n");
        dump_frame(f, "default_exit", NULL, 65536u, false);
        dump_frame(f, "custom_exit", dummy_exit, 65536u + 24u, false);
        dump_frame(f, "odd_stack_size", dummy_exit, 40000u + 13u, true);
        fprintf(f, "]}\n");
        fclose(f);
        return 0;
    }
    if (argc != 4 || (strcmp(argv[1], "run") != 0 && strcmp(argv[1], "proc") != 0)) {
        fprintf(stderr, "usage: coro_probe frame <out.json> | run <script> <out.ndjson> | proc <script> <out.ndjson>\n");
        return 2;
    }
    const bool pm = strcmp(argv[1], "proc") == 0;
    FILE *in = fopen(argv[2], "r");
    if (in == NULL) return 2;
    FILE *f = fopen(argv[3], "w"); if (f == NULL) return 2; fclose(f);
    int crashes = 0, n = 0;
    while (pm ? read_pprogram(in) : read_history(in)) {
        fflush(NULL);
        pid_t pid = fork();
        if (pid == 0) {
            out = fopen(argv[3], "a");
            if (out == NULL) _exit(2);
            signal(SIGABRT, crash_handler); signal(SIGSEGV, crash_handler);
            signal(SIGFPE, crash_handler);  signal(SIGBUS, crash_handler); signal(SIGILL, crash_handler);
            signal(SIGALRM, crash_handler); alarm(20);
            if (pm) run_pprogram(); else run_history();
            fclose(out);
            _exit(0);
        }
        int st = 0;
        waitpid(pid, &st, 0);
        if (st != 0) crashes++;
        n++;
    }
    fclose(in);
    return crashes ? 3 : 0;
}
