/*
 * mp_replay - drive the real cmi_mempool through allocation histories and
 * record an ndjson trace for spec/MempoolTrace.tla (property C20).
 *
 *   mp_replay gen <seed> <nhist> <out.ndjson>
 *
 * Every object is filled with a unique pattern when allocated and verified
 * when freed (and at the end). Addresses are logged as (chunk, slot), where a
 * chunk is identified by its base address as found in the pool's public chunk
 * list. Each history runs in a forked child.
 */
#include <stdio.h>
#include <stdlib.h>
#include <string.h>
#include <stdint.h>
#include <stdbool.h>
#include <signal.h>
#include <unistd.h>
#include <sys/wait.h>

#include "cimba.h"
#include "cmi_mempool.h"

static FILE *out;
static void crash_handler(int sig)
{
    if (out != NULL) { fprintf(out, "{\"op\":\"crash\",\"sig\":%d}\n", sig); fflush(out); }
    _exit(3);
}

static uint64_t rs;
static uint64_t rnd(void) { rs ^= rs << 13; rs ^= rs >> 7; rs ^= rs << 17; return rs; }
static long ri(long lo, long hi) { return lo + (long)(rnd() % (uint64_t)(hi - lo + 1)); }

#define MAXLIVE 4000
#define MAXCH 400
struct obj { unsigned char *p; uint64_t pat; int chunk; long slot; };
static struct obj live[MAXLIVE];
static int nlive;
static void *bases[MAXCH];
static int nbases;

/* statically initialised thread local pools, as the library itself uses them */
static CMB_THREAD_LOCAL struct cmi_mempool spool16 = CMI_MEMPOOL_STATIC_INIT(16u, 128u);
static CMB_THREAD_LOCAL struct cmi_mempool spool4096 = CMI_MEMPOOL_STATIC_INIT(4096u, 1u);
static CMB_THREAD_LOCAL struct cmi_mempool spool24 = CMI_MEMPOOL_STATIC_INIT(24u, 100u);

static void fill(unsigned char *p, size_t sz, uint64_t pat) { for (size_t i = 0; i < sz; i++) p[i] = (unsigned char)((pat >> (8 * (i % 8))) ^ (i * 131u)); }
static bool check(const unsigned char *p, size_t sz, uint64_t pat)
{
    for (size_t i = 0; i < sz; i++) if (p[i] != (unsigned char)((pat >> (8 * (i % 8))) ^ (i * 131u))) return false;
    return true;
}

/* refresh our view of the chunk list; returns false if an entry we knew has changed */
static bool scan_chunks(const struct cmi_mempool *mp)
{
    bool ok = true;
    if (mp->chunk_list == NULL) return true;
    for (uint64_t i = 0; i < mp->chunk_list_cnt && i < MAXCH; i++) {
        if ((int)i < nbases) { if (bases[i] != mp->chunk_list[i]) ok = false; }
        else bases[nbases++] = mp->chunk_list[i];
    }
    return ok;
}

static void locate(const struct cmi_mempool *mp, const unsigned char *p, int *chunk, long *slot, bool *inb)
{
    *chunk = 0; *slot = -1; *inb = false;
    for (int c = 0; c < nbases; c++) {
        const unsigned char *b = bases[c];
        if (p >= b && p < b + mp->incr_sz) {
            *chunk = c + 1;
            *slot = (long)((size_t)(p - b) / mp->obj_sz);
            *inb = ((size_t)(p - b) % mp->obj_sz == 0u) && ((size_t)(p - b) + mp->obj_sz <= mp->incr_sz);
            return;
        }
    }
}

static void do_alloc(struct cmi_mempool *mp, size_t objsz)
{
    if (nlive >= MAXLIVE) return;
    unsigned char *p = cmi_mempool_alloc(mp);
    const bool listok = scan_chunks(mp);
    struct obj *o = &live[nlive++];
    o->p = p; o->pat = rnd();
    bool inb;
    locate(mp, p, &o->chunk, &o->slot, &inb);
    fprintf(out, "{\"op\":\"alloc\",\"chunk\":%d,\"slot\":%ld,\"al\":%d,\"inb\":%s,\"nchunks\":%llu,\"listok\":%s,\"k\":%llu}\n",
            o->chunk, o->slot, (int)((uintptr_t)p % 8u), inb ? "true" : "false", (unsigned long long)mp->chunk_list_cnt,
            listok ? "true" : "false", (unsigned long long)mp->incr_num);
    fflush(out);
    fill(p, objsz, o->pat);
}

static void do_free(struct cmi_mempool *mp, size_t objsz, int idx)
{
    struct obj o = live[idx];
    const bool intact = check(o.p, objsz, o.pat);
    fprintf(out, "{\"op\":\"free\",\"chunk\":%d,\"slot\":%ld,\"intact\":%s}\n", o.chunk, o.slot, intact ? "true" : "false");
    fflush(out);
    cmi_mempool_free(mp, o.p);
    live[idx] = live[--nlive];
}

static void history(int h)
{
    static const size_t sizes[] = { 8u, 16u, 24u, 64u, 1024u, 2048u, 4096u, 40u };
    const int variant = h % 11;
    struct cmi_mempool *mp;
    size_t objsz;
    bool is_static = false;
    if (variant == 8) { mp = &spool16; objsz = 16u; is_static = true; }
    else if (variant == 9) { mp = &spool4096; objsz = 4096u; is_static = true; }
    else if (variant == 10) { mp = &spool24; objsz = 24u; is_static = true; }
    else {
        objsz = sizes[variant];
        mp = cmi_mempool_create();
        cmi_mempool_initialize(mp, objsz, (objsz >= 1024u) ? (uint64_t)ri(1, 2) : (uint64_t)ri(1, 300));
    }
    nlive = 0; nbases = 0;
    fprintf(out, "{\"op\":\"init\",\"h\":%d,\"objsz\":%llu,\"static\":%s}\n", h, (unsigned long long)objsz, is_static ? "true" : "false");
    /* population target sweeps up and down; big objects cross 64 and 128 chunks */
    const int peak = (objsz >= 1024u) ? (int)ri(60, 300) : (int)ri(50, 1500);
    int target = peak;
    const int nops = peak * 3;
    for (int n = 0; n < nops; n++) {
        if (n == nops / 2) target = peak / 3;
        if (n == (nops * 3) / 4) target = peak;
        const bool grow = (nlive < target) ? (ri(0, 99) < 80) : (ri(0, 99) < 30);
        if (grow || nlive == 0) do_alloc(mp, objsz);
        else do_free(mp, objsz, (int)ri(0, nlive - 1));
    }
    while (nlive > 0) do_free(mp, objsz, nlive - 1);
    fprintf(out, "{\"op\":\"end\"}\n");
    if (!is_static) { cmi_mempool_destroy(mp); }
}

int main(int argc, char **argv)
{
    if (argc != 5 || strcmp(argv[1], "gen") != 0) { fprintf(stderr, "usage: mp_replay gen <seed> <nhist> <out>\n"); return 2; }
    const uint64_t seed = strtoull(argv[2], NULL, 10);
    const int nhist = atoi(argv[3]);
    FILE *f = fopen(argv[4], "w"); if (f == NULL) return 2; fclose(f);
    int crashes = 0;
    for (int h = 0; h < nhist; h++) {
        fflush(NULL);
        pid_t pid = fork();
        if (pid == 0) {
            out = fopen(argv[4], "a");
            signal(SIGABRT, crash_handler); signal(SIGSEGV, crash_handler); signal(SIGBUS, crash_handler);
            signal(SIGALRM, crash_handler); alarm(120);
            fprintf(stderr, "#HIST %d\n", h); fflush(stderr);
            rs = seed * 2654435761u + (uint64_t)h * 0x9E3779B97F4A7C15ull + 88172645463325252ull; rnd();
            history(h);
            fclose(out);
            _exit(0);
        }
        int st = 0; waitpid(pid, &st, 0);
        if (st != 0) crashes++;
    }
    return crashes ? 3 : 0;
}
