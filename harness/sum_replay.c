/*
 * sum_replay - drive the real cmb_datasummary / cmb_wtdsummary (and the
 * summarize entry points of cmb_dataset / cmb_timeseries) through scripted
 * histories and record an ndjson trace for spec/SummaryTrace.tla (property C17).
 *
 *   sum_replay script <script.txt> <out.ndjson>
 *
 * Script lines (integers only):
 *   group <g>                      start of a group of related histories (forked child)
 *   init <h> <se> <wc>             new history: all objects empty; samples are k * 2^se,
 *                                  weights are w * WSCALE[wc]
 *   add <o> <k>                    cmb_datasummary_add(D[o], k * 2^se)
 *   addw <o> <k> <w>               cmb_wtdsummary_add(W[o], k * 2^se, w * WSCALE[wc])
 *   merge <t> <a> <b>              cmb_datasummary_merge(D[t], D[a], D[b])
 *   mergew <t> <a> <b>             cmb_wtdsummary_merge(W[t], W[a], W[b])
 *   reset <o> / resetw <o>         cmb_*summary_reset
 *   dsum <o> <n> k1 .. kn          D[o] := cmb_dataset_summarize of a dataset holding the k's
 *   tsum <o> <n> k1 .. kn w1 .. wn W[o] := cmb_timeseries_summarize of a time series in which
 *                                  value k_i lasts for w_i * WSCALE[wc]
 *   obs <o> / obsw <o>             observe without operating
 *
 * After every operation the accessors of the target (and of the sources of a
 * merge) are read and logged.  The harness NEVER compares anything: a reported
 * double v is logged as class + sign + the base-4096 limbs of round(|v| / unit * 2^48),
 * where unit = 2^(se * p) is the power-of-two unit of the run for a statistic that
 * is homogeneous of degree p in the data (exact rescaling, no judgement).
 */
#include <stdio.h>
#include <stdlib.h>
#include <string.h>
#include <stdint.h>
#include <stdbool.h>
#include <signal.h>
#include <math.h>
#include <unistd.h>
#include <sys/wait.h>

#include "cimba.h"
#include "cmb_datasummary.h"
#include "cmb_wtdsummary.h"
#include "cmb_dataset.h"
#include "cmb_timeseries.h"

#define NOBJ 3
#define FRAC_BITS 48
#define MAXN 4096

static FILE *out;
static void crash_handler(int sig)
{
    if (out != NULL) { fprintf(out, "{\"op\":\"crash\",\"sig\":%d}\n", sig); fflush(out); }
    _exit(3);
}

static const double WSCALE[] = { 1.0, 10.0, 3.0, 0.25, 1073741824.0, 1.0 / 1073741824.0, 1000.0, 7.0 };
#define NWSCALE ((int)(sizeof WSCALE / sizeof WSCALE[0]))

static struct cmb_datasummary *D[NOBJ + 1];
static struct cmb_wtdsummary *W[NOBJ + 1];
static int se;          /* samples are k * 2^se */
static double wscale;   /* weights are w * wscale */

/* value -> {"c":class,"s":sign,"d":[limbs]}; class 0 finite, 1 NaN, 2 infinite, 3 too large to log */
static void put_val(const char *name, double v, int unit_exp)
{
    fprintf(out, ",\"%s\":", name);
    if (isnan(v)) { fprintf(out, "{\"c\":1,\"s\":0,\"d\":[]}"); return; }
    if (isinf(v)) { fprintf(out, "{\"c\":2,\"s\":%d,\"d\":[]}", v > 0 ? 1 : -1); return; }
    const long double u = ldexpl((long double)v, -unit_exp);
    const long double a = fabsl(u);
    if (!(a < 1152921504606846976.0L)) { fprintf(out, "{\"c\":3,\"s\":%d,\"d\":[]}", u > 0 ? 1 : -1); return; }
    const long double ipl = floorl(a);
    unsigned long long ip = (unsigned long long)ipl;
    const long double fr = a - ipl;
    unsigned long long fq = (unsigned long long)roundl(ldexpl(fr, FRAC_BITS));
    if (fq >= (1ull << FRAC_BITS)) { fq -= (1ull << FRAC_BITS); ip += 1u; }
    unsigned __int128 tot = ((unsigned __int128)ip << FRAC_BITS) + fq;
    const int sg = (tot == 0) ? 0 : (u > 0 ? 1 : -1);
    fprintf(out, "{\"c\":0,\"s\":%d,\"d\":[", sg);
    bool first = true;
    while (tot != 0) {
        fprintf(out, "%s%u", first ? "" : ",", (unsigned)(tot & 4095u));
        tot >>= 12; first = false;
    }
    fprintf(out, "]}");
}

static void put_cnt(uint64_t n)
{
    if (n < 2147483647ull) fprintf(out, ",\"cnt\":{\"c\":0,\"v\":%llu}", (unsigned long long)n);
    else fprintf(out, ",\"cnt\":{\"c\":3,\"v\":0}");
}

static void observe(int o)
{
    const struct cmb_datasummary *p = D[o];
    fprintf(out, "{\"op\":\"obs\",\"o\":%d", o);
    put_cnt(cmb_datasummary_count(p));
    put_val("min", cmb_datasummary_min(p), se);
    put_val("max", cmb_datasummary_max(p), se);
    put_val("mean", cmb_datasummary_mean(p), se);
    put_val("var", cmb_datasummary_variance(p), 2 * se);
    put_val("sd", cmb_datasummary_stddev(p), se);
    put_val("skew", cmb_datasummary_skewness(p), 0);
    put_val("kurt", cmb_datasummary_kurtosis(p), 0);
    fprintf(out, "}\n");
}

static void observew(int o)
{
    const struct cmb_wtdsummary *p = W[o];
    fprintf(out, "{\"op\":\"obsw\",\"o\":%d", o);
    put_cnt(cmb_wtdsummary_count(p));
    put_val("min", cmb_wtdsummary_min(p), se);
    put_val("max", cmb_wtdsummary_max(p), se);
    put_val("mean", cmb_wtdsummary_mean(p), se);
    put_val("var", cmb_wtdsummary_variance(p), 2 * se);
    put_val("sd", cmb_wtdsummary_stddev(p), se);
    put_val("skew", cmb_wtdsummary_skewness(p), 0);
    put_val("kurt", cmb_wtdsummary_kurtosis(p), 0);
    fprintf(out, "}\n");
}

static long nextl(char **s, bool *ok)
{
    char *e;
    const long v = strtol(*s, &e, 10);
    if (e == *s) { *ok = false; return 0; }
    *s = e;
    return v;
}

static bool obj_ok(long o) { return o >= 1 && o <= NOBJ; }

static void fresh_objects(void)
{
    for (int i = 1; i <= NOBJ; i++) {
        if (D[i] != NULL) cmb_datasummary_destroy(D[i]);
        if (W[i] != NULL) cmb_wtdsummary_destroy(W[i]);
        D[i] = cmb_datasummary_create();
        W[i] = cmb_wtdsummary_create();
    }
}

static long ks[MAXN], ws[MAXN];

/* returns false on a malformed line */
static bool do_line(char *line)
{
    char op[16];
    int used = 0;
    if (sscanf(line, "%15s%n", op, &used) != 1) return true;
    char *s = line + used;
    bool ok = true;
    if (strcmp(op, "init") == 0) {
        const long h = nextl(&s, &ok), e = nextl(&s, &ok), wc = nextl(&s, &ok);
        if (!ok || wc < 0 || wc >= NWSCALE || e < -900 || e > 900) return false;
        se = (int)e; wscale = WSCALE[wc];
        fresh_objects();
        fprintf(out, "{\"op\":\"init\",\"h\":%ld,\"se\":%d,\"wc\":%ld}\n", h, se, wc);
    } else if (strcmp(op, "add") == 0) {
        const long o = nextl(&s, &ok), k = nextl(&s, &ok);
        if (!ok || !obj_ok(o)) return false;
        const uint64_t r = cmb_datasummary_add(D[o], ldexp((double)k, se));
        fprintf(out, "{\"op\":\"add\",\"o\":%ld,\"k\":%ld,\"ret\":%llu}\n", o, k, (unsigned long long)(r & 0x3fffffffu));
        observe((int)o);
    } else if (strcmp(op, "addw") == 0) {
        const long o = nextl(&s, &ok), k = nextl(&s, &ok), w = nextl(&s, &ok);
        if (!ok || !obj_ok(o) || w < 0) return false;
        const uint64_t r = cmb_wtdsummary_add(W[o], ldexp((double)k, se), (double)w * wscale);
        fprintf(out, "{\"op\":\"addw\",\"o\":%ld,\"k\":%ld,\"w\":%ld,\"ret\":%llu}\n", o, k, w, (unsigned long long)(r & 0x3fffffffu));
        observew((int)o);
    } else if (strcmp(op, "merge") == 0 || strcmp(op, "mergew") == 0) {
        const bool wt = (op[5] == 'w');
        const long t = nextl(&s, &ok), a = nextl(&s, &ok), b = nextl(&s, &ok);
        if (!ok || !obj_ok(t) || !obj_ok(a) || !obj_ok(b)) return false;
        const uint64_t r = wt ? cmb_wtdsummary_merge(W[t], W[a], W[b]) : cmb_datasummary_merge(D[t], D[a], D[b]);
        fprintf(out, "{\"op\":\"%s\",\"t\":%ld,\"a\":%ld,\"b\":%ld,\"ret\":%llu}\n", op, t, a, b, (unsigned long long)(r & 0x3fffffffu));
        if (wt) { observew((int)t); if (a != t) observew((int)a); if (b != t && b != a) observew((int)b); }
        else { observe((int)t); if (a != t) observe((int)a); if (b != t && b != a) observe((int)b); }
    } else if (strcmp(op, "reset") == 0 || strcmp(op, "resetw") == 0) {
        const bool wt = (op[5] == 'w');
        const long o = nextl(&s, &ok);
        if (!ok || !obj_ok(o)) return false;
        if (wt) cmb_wtdsummary_reset(W[o]); else cmb_datasummary_reset(D[o]);
        fprintf(out, "{\"op\":\"%s\",\"o\":%ld}\n", op, o);
        if (wt) observew((int)o); else observe((int)o);
    } else if (strcmp(op, "dsum") == 0) {
        const long o = nextl(&s, &ok), n = nextl(&s, &ok);
        if (!ok || !obj_ok(o) || n < 0 || n > MAXN) return false;
        for (long i = 0; i < n; i++) ks[i] = nextl(&s, &ok);
        if (!ok) return false;
        struct cmb_dataset *ds = cmb_dataset_create();
        cmb_dataset_initialize(ds);
        for (long i = 0; i < n; i++) (void)cmb_dataset_add(ds, ldexp((double)ks[i], se));
        const uint64_t r = cmb_dataset_summarize(ds, D[o]);
        cmb_dataset_destroy(ds);
        fprintf(out, "{\"op\":\"dsum\",\"o\":%ld,\"ret\":%llu,\"ks\":[", o, (unsigned long long)(r & 0x3fffffffu));
        for (long i = 0; i < n; i++) fprintf(out, "%s%ld", i ? "," : "", ks[i]);
        fprintf(out, "]}\n");
        observe((int)o);
    } else if (strcmp(op, "tsum") == 0) {
        const long o = nextl(&s, &ok), n = nextl(&s, &ok);
        if (!ok || !obj_ok(o) || n < 1 || n > MAXN) return false;
        for (long i = 0; i < n; i++) ks[i] = nextl(&s, &ok);
        for (long i = 0; i < n; i++) { ws[i] = nextl(&s, &ok); if (ws[i] < 0) ok = false; }
        if (!ok) return false;
        struct cmb_timeseries *ts = cmb_timeseries_create();
        cmb_timeseries_initialize(ts);
        double t = 3.0 * wscale;
        for (long i = 0; i < n; i++) {
            (void)cmb_timeseries_add(ts, ldexp((double)ks[i], se), t);
            t += (double)ws[i] * wscale;
        }
        (void)cmb_timeseries_finalize(ts, t);
        /* the durations the time series hands to the weighted summary (public array wa) */
        bool wa_ok = (ts->wa != NULL);
        for (long i = 0; wa_ok && i < n; i++) wa_ok = (ts->wa[i] == (double)ws[i] * wscale);
        const uint64_t r = cmb_timeseries_summarize(ts, W[o]);
        cmb_timeseries_destroy(ts);
        fprintf(out, "{\"op\":\"tsum\",\"o\":%ld,\"ret\":%llu,\"wa\":%s,\"ks\":[", o, (unsigned long long)(r & 0x3fffffffu), wa_ok ? "true" : "false");
        for (long i = 0; i < n; i++) fprintf(out, "%s%ld", i ? "," : "", ks[i]);
        fprintf(out, "],\"ws\":[");
        for (long i = 0; i < n; i++) fprintf(out, "%s%ld", i ? "," : "", ws[i]);
        fprintf(out, "]}\n");
        observew((int)o);
    } else if (strcmp(op, "obs") == 0 || strcmp(op, "obsw") == 0) {
        const long o = nextl(&s, &ok);
        if (!ok || !obj_ok(o)) return false;
        if (op[3] == 'w') observew((int)o); else observe((int)o);
    } else if (op[0] == '#') {
        return true;
    } else {
        return false;
    }
    fflush(out);
    return true;
}

int main(int argc, char **argv)
{
    if (argc != 4 || strcmp(argv[1], "script") != 0) { fprintf(stderr, "usage: sum_replay script <script> <out.ndjson>\n"); return 2; }
    FILE *in = fopen(argv[2], "r");
    if (in == NULL) { perror(argv[2]); return 2; }
    FILE *f = fopen(argv[3], "w"); if (f == NULL) { perror(argv[3]); return 2; } fclose(f);

    /* read the whole script, split into groups */
    char *line = NULL; size_t cap = 0;
    char **lines = NULL; size_t nl = 0, capl = 0;
    while (getline(&line, &cap, in) > 0) {
        if (nl == capl) { capl = capl ? capl * 2 : 1024; lines = realloc(lines, capl * sizeof *lines); if (lines == NULL) return 2; }
        lines[nl++] = strdup(line);
    }
    fclose(in);
    int crashes = 0;
    size_t i = 0;
    while (i < nl) {
        size_t j = i + 1;
        while (j < nl && strncmp(lines[j], "group", 5) != 0) j++;
        fflush(NULL);
        const pid_t pid = fork();
        if (pid < 0) return 2;
        if (pid == 0) {
            out = fopen(argv[3], "a");
            if (out == NULL) _exit(2);
            signal(SIGABRT, crash_handler); signal(SIGSEGV, crash_handler); signal(SIGBUS, crash_handler); signal(SIGFPE, crash_handler);
            signal(SIGALRM, crash_handler); alarm(300);
            se = 0; wscale = 1.0;
            fresh_objects();
            for (size_t k = i; k < j; k++) {
                if (strncmp(lines[k], "group", 5) == 0) {
                    fprintf(out, "{\"op\":\"group\",\"g\":%ld}\n", strtol(lines[k] + 5, NULL, 10));
                    continue;
                }
                if (!do_line(lines[k])) { fprintf(stderr, "sum_replay: bad script line %zu: %s", k + 1, lines[k]); fflush(out); _exit(2); }
            }
            fclose(out);
            _exit(0);
        }
        int st = 0; waitpid(pid, &st, 0);
        if (WIFEXITED(st) && WEXITSTATUS(st) == 2) return 2;
        if (st != 0) {
            crashes++;
            if (WIFSIGNALED(st)) { FILE *a = fopen(argv[3], "a"); if (a) { fprintf(a, "{\"op\":\"crash\",\"sig\":%d}\n", WTERMSIG(st)); fclose(a); } }
        }
        i = j;
    }
    return crashes ? 3 : 0;
}
